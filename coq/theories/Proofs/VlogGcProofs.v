(** Proofs for C08, second part: garbage collection ([valueLog.rewrite]) at
    call-atomic granularity (write-back and file removal), refuting witnesses,
    and the interleaving model of GC against a writer. *)
From Coq Require Import List Arith NArith ZArith Bool Lia ZifyN ZifyNat ZifyBool.
From Coq Require Import Init.Byte.
From NoKV Require Import Base.Bytes Base.Num Base.Sched Model.EntryCodec Model.Lsm Model.Vlog
     Spec.MvccSpec Spec.VlogSpec Spec.LsmSpec Proofs.LsmRead Proofs.LsmMain Proofs.LsmPreserve Proofs.VlogProofs.
Import ListNotations.
Local Open Scope N_scope.

(** * GC, call-atomic: the write-back *)

(** what reads show of a write *)
Definition proj (w : rec) : bytes * N * N := (r_val w, N.ldiff (r_meta w) bit_vptr, r_exp w).

(** [r'] re-writes what is visible at its internal key: same bytes, user meta and expiry, newer ghost number *)
Definition dup_of (ws : list rec) (r' : rec) : Prop :=
  exists w, latest_at ws (r_key r') (r_ver r') = Some w /\ r_ver w = r_ver r' /\ proj w = proj r' /\
            forall y, In y ws -> r_seq y < r_seq r'.
Fixpoint dups (ws wb : list rec) : Prop :=
  match wb with [] => True | r :: wb' => dup_of ws r /\ dups (ws ++ [r]) wb' end.

Lemma latest_at_snoc ws r k v :
  latest_at (ws ++ [r]) k v = if cand k v r then pick_better (latest_at ws k v) r else latest_at ws k v.
Proof.
  unfold latest_at. rewrite filter_app, fold_left_app. cbn [filter]. destruct (cand k v r); reflexivity.
Qed.

Lemma latest_dup ws r' k v :
  seq_functional ws -> dup_of ws r' ->
  option_map proj (latest_at (ws ++ [r']) k v) = option_map proj (latest_at ws k v).
Proof.
  intros Hsf (w & Hw & Hver & Hproj & Hfresh). rewrite latest_at_snoc.
  destruct (cand k v r') eqn:Ec; [|reflexivity].
  apply cand_spec in Ec as [Ek Ev].
  pose proof (latest_at_is_latest ws (r_key r') (r_ver r')) as Lw. rewrite Hw in Lw. destruct Lw as (Hwin & [Hwk Hwv] & Hwbest).
  pose proof (latest_at_is_latest ws k v) as Ly.
  destruct (latest_at ws k v) as [y|].
  - destruct Ly as (Hyin & [Hyk Hyv] & Hybest). cbn [pick_better].
    destruct (better r' y) eqn:Eb; [|reflexivity]. cbn [option_map]. f_equal.
    assert (Hgy : geq y w) by (apply Hybest; [exact Hwin | split; [congruence | lia]]).
    unfold better in Eb. apply orb_true_iff in Eb.
    assert (Evy : r_ver y = r_ver r').
    { unfold geq in Hgy. destruct Eb as [Eb|Eb]; [apply N.ltb_lt in Eb; lia|].
      apply andb_true_iff in Eb as [Eb _]. apply N.eqb_eq in Eb. lia. }
    assert (Hgw : geq w y) by (apply Hwbest; [exact Hyin | split; [congruence | lia]]).
    assert (Eyw : y = w).
    { apply Hsf; [exact Hyin | exact Hwin|]. unfold geq in *. lia. }
    subst y. now rewrite Hproj.
  - exfalso. apply (Ly w Hwin). split; [congruence | lia].
Qed.

Lemma dups_latest wb : forall ws k v,
  seq_functional ws -> chain_ok ws wb -> dups ws wb ->
  option_map proj (latest_at (ws ++ wb) k v) = option_map proj (latest_at ws k v).
Proof.
  induction wb as [|r wb IH]; intros ws k v Hsf Hc Hd; [now rewrite app_nil_r|].
  destruct Hc as [(_ & H1 & _) Hc], Hd as [Hd1 Hd]. replace (ws ++ r :: wb) with ((ws ++ [r]) ++ wb) by (now rewrite <- app_assoc).
  rewrite IH; [now apply latest_dup | now apply seq_functional_snoc | exact Hc | exact Hd].
Qed.

Definition oget (g : gres) : option (bytes * N * N) :=
  match g with GVal r => Some (r_val r, r_meta r, r_exp r) | _ => None end.

(** GC's write-back does not change what any read returns, provided the moved entries are the
    newest versions of their keys ([chain_ok]: the LSM read theorem's side condition, see
    [gc_old_version_witness] for what happens otherwise) and carry what is visible at their
    internal keys ([dups]). The file is NOT removed in this pass (the model, like the code,
    returns an error after a non-empty write-back). *)
Theorem gc_move_preserves c now d ws bk fid nseq wb :
  Inv c d ws -> gc_decide now d bk fid nseq = Some wb -> wb <> [] ->
  chain_ok ws wb -> Forall rec_ok wb -> dups ws wb -> vsmall (d_vl (db_write c d wb)) ->
  forall t k v, let d' := fst (rewrite c now d bk fid nseq) in
    gobs (db_get d' k v) = gobs (db_get d k v) /\ gobs (db_get_live t d' k v) = gobs (db_get_live t d k v).
Proof.
  intros HI Hdec Hne Hc Hok Hd Hsm t k v. cbn zeta. unfold db_get_live, rewrite. rewrite Hdec.
  assert (HI' : Inv c (db_write c d wb) (ws ++ wb)) by (now apply db_write_Inv).
  assert (Hsf : seq_functional ws) by (destruct HI as (? & ? & ? & ? & ? & ? & ? & H); exact H).
  assert (Hfin : fst (gc_finish c d bk fid wb) = db_write c d wb) by (destruct wb; [contradiction | reflexivity]).
  destruct (62 <? N.of_nat (length wb)); [split; reflexivity|]. rewrite Hfin.
  rewrite (Inv_get _ _ _ k v HI'), (Inv_get _ _ _ k v HI).
  pose proof (dups_latest wb ws k v Hsf Hc Hd) as H.
  destruct (latest_at (ws ++ wb) k v) as [a|], (latest_at ws k v) as [b|]; cbn in H; try discriminate; [|split; reflexivity].
  inversion H as [[H1 H2 H3]].
  assert (Hdead : dead t (norm a) = dead t (norm b)).
  { unfold dead, norm, set_val_meta. cbn [r_meta r_exp]. now rewrite H2, H3. }
  rewrite Hdead.
  assert (Hg : gobs (GVal (norm a)) = gobs (GVal (norm b))).
  { unfold norm, set_val_meta. cbn [gobs r_val r_meta]. now rewrite H1, H2. }
  split; [exact Hg|]. destruct (dead t (norm b)); [reflexivity | exact Hg].
Qed.

(** * GC, call-atomic: removing the file *)
Lemma nth_upd_same {A} (f : A -> A) : forall n l, nth_error (upd_nth n f l) n = option_map f (nth_error l n).
Proof. induction n as [|n IH]; intros [|x l]; cbn; auto. Qed.
Lemma nth_upd_other {A} (f : A -> A) : forall n m l, n <> m -> nth_error (upd_nth n f l) m = nth_error l m.
Proof.
  induction n as [|n IH]; intros [|m] [|x l] H; cbn; auto; try congruence; apply IH; congruence.
Qed.

Lemma find_file_remove b fid fid' : fid' <> fid -> find_file (remove_file b fid) fid' = find_file b fid'.
Proof.
  intro H. unfold find_file, remove_file. cbn [b_files]. induction (b_files b) as [|f l IH]; cbn; [reflexivity|].
  destruct (vf_fid f =? fid) eqn:E; cbn [negb].
  - apply N.eqb_eq in E. destruct (vf_fid f =? fid') eqn:E'; [apply N.eqb_eq in E'; congruence | exact IH].
  - cbn [find]. destruct (vf_fid f =? fid'); [reflexivity | exact IH].
Qed.

Lemma vl_read_remove vl bk fid p :
  ~ (p_bucket p = bk /\ p_fid p = fid) ->
  vl_read (upd_nth (N.to_nat bk) (fun b => remove_file b fid) vl) p = vl_read vl p.
Proof.
  intro H. unfold vl_read. destruct (N.eq_dec (p_bucket p) bk) as [E|E].
  - subst bk. rewrite nth_upd_same. destruct (nth_error vl (N.to_nat (p_bucket p))) as [b|]; [|reflexivity].
    cbn [option_map]. rewrite find_file_remove; [reflexivity|]. intro E. apply H. now split.
  - rewrite nth_upd_other; [reflexivity|]. intro E'. apply E. lia.
Qed.

Lemma collect_nil now s bk fid vs :
  gc_collect now s bk fid vs = Some [] -> forall v, In v vs -> gc_process now s bk fid v = DSkip.
Proof.
  induction vs as [|a vs IH]; intros H v Hv; [contradiction|]. cbn [gc_collect] in H.
  destruct (gc_process now s bk fid a) eqn:E; try discriminate.
  - destruct Hv as [<-|Hv]; [exact E | now apply IH].
  - destruct (gc_collect now s bk fid vs); discriminate.
Qed.

Lemma renumber_nil n wb : renumber n wb = [] -> wb = [].
Proof. destruct wb; [reflexivity | discriminate]. Qed.

Lemma latest_at_self ws k v x : seq_functional ws -> latest_at ws k v = Some x -> latest_at ws (r_key x) (r_ver x) = Some x.
Proof.
  intros Hsf H. pose proof (latest_at_is_latest ws k v) as L. rewrite H in L. destruct L as (Hin & [Hk Hv] & Hb).
  eapply is_latest_unique; [exact Hsf | apply latest_at_is_latest |].
  cbn. split; [exact Hin|]. split; [split; [reflexivity | lia]|].
  intros y Hy [Hyk Hyv]. apply Hb; [exact Hy|]. split; [congruence | lia].
Qed.

Lemma blen_enc_vptr p : blen (enc_vptr p) = 16.
Proof. reflexivity. Qed.

(** GC removes the file only when nothing had to be moved; then no read changes, provided no
    deleted/expired entry still points into the value log (otherwise: [C08-F31]). *)
Theorem gc_remove_preserves c now d ws bk fid nseq :
  Inv c d ws -> gc_decide now d bk fid nseq = Some [] ->
  forallb (fun w => negb (is_big c w && dead now w)) ws = true ->
  forall k v, db_get (fst (rewrite c now d bk fid nseq)) k v = db_get d k v.
Proof.
  intros HI Hdec Hlive k v. unfold rewrite. rewrite Hdec. cbn [length N.of_nat N.ltb N.compare gc_finish fst].
  unfold db_get. cbn [d_lsm d_vl]. destruct (get (d_lsm d) k v) as [x|] eqn:Eg; [|reflexivity].
  unfold resolve. destruct (is_ptr x) eqn:Ep; [|reflexivity].
  rewrite vl_read_remove; [reflexivity|]. intros [Hb Hf].
  (* the pointer of a visible entry would make GC move its record *)
  destruct HI as (lws & HJ & Hst & Hwf & Hsm & Hok & Hlen & Hsf).
  pose proof (J_get_latest _ _ k v HJ) as Hgl. rewrite Eg in Hgl. symmetry in Hgl.
  pose proof (latest_at_rel (stored c (d_vl d)) ws lws k v (stored_image c (d_vl d)) Hst) as Hr.
  rewrite Hgl in Hr. destruct (latest_at ws k v) as [w|] eqn:Ew; cbn in Hr; [|contradiction].
  pose proof (latest_at_is_latest ws k v) as Lw. rewrite Ew in Lw. destruct Lw as (Hwin & _ & _).
  unfold stored in Hr. destruct (is_big c w) eqn:Ebig.
  2:{ subst x. unfold is_ptr, set_val_meta in Ep. cbn [r_meta] in Ep. rewrite N.ldiff_spec in Ep.
      change (N.testbit bit_vptr 1) with true in Ep. now rewrite andb_false_r in Ep. }
  destruct Hr as (p & v0 & Ex & Hl & Hrec & Hp).
  assert (Hnd : dead now x = false).
  { rewrite forallb_forall in Hlive. specialize (Hlive w Hwin). rewrite Ebig in Hlive. cbn [andb] in Hlive.
    apply negb_true_iff in Hlive. rewrite Ex. unfold dead in *. cbn [set_val_meta r_meta r_exp].
    rewrite N.lor_spec. change (N.testbit bit_vptr 0) with false. now rewrite orb_false_r. }
  destruct (lookup_small _ _ _ Hsm Hwf Hl Hp) as (P1 & P2 & P3 & P4).
  assert (Hdp : decode_vptr (r_val x) = p) by (rewrite Ex; cbn [set_val_meta r_val]; now apply rt_vptr').
  rewrite Hdp in Hb, Hf.
  (* the record lies in the file GC iterated *)
  unfold gc_decide in Hdec. unfold vl_lookup in Hl. rewrite Hb in Hl.
  destruct (nth_error (d_vl d) (N.to_nat bk)) as [b|]; [|discriminate].
  destruct (b_active b <=? fid); [discriminate|].
  unfold b_lookup in Hl. rewrite Hf in Hl. destruct (find_file b fid) as [f|]; [|discriminate].
  destruct (gc_collect now (d_lsm d) bk fid (vf_recs f)) as [wb|] eqn:Ec; [|discriminate].
  cbn [option_map] in Hdec. inversion Hdec as [Hwb]. apply renumber_nil in Hwb. subst wb.
  unfold f_lookup in Hl. destruct (find (fun v1 => vr_off v1 =? p_off p) (vf_recs f)) as [v1|] eqn:Ef; [|discriminate].
  destruct (vr_len v1 =? p_len p); [|discriminate]. inversion Hl; subst v1. apply find_some in Ef as [Hin Eo]. apply N.eqb_eq in Eo.
  pose proof (collect_nil _ _ _ _ _ Ec v0 Hin) as Hskip.
  (* ... but GC's own lookup finds x again *)
  assert (Hself : get (d_lsm d) (r_key (vr_rec v0)) (r_ver (vr_rec v0)) = Some x).
  { rewrite (J_get_latest _ _ _ _ HJ). rewrite Hrec.
    assert (Eid : r_key x = r_key w /\ r_ver x = r_ver w) by (rewrite Ex; split; reflexivity).
    destruct Eid as [<- <-]. apply (latest_at_self lws k v); [exact (j_seq _ _ HJ) | exact Hgl]. }
  unfold gc_process in Hskip. rewrite Hself in Hskip.
  rewrite Hnd, Ep in Hskip. cbn [orb negb] in Hskip.
  assert (Hlen16 : blen (r_val x) = 16) by (rewrite Ex; reflexivity).
  rewrite Hlen16, Hdp, Hb, N.eqb_refl in Hskip. cbn [N.eqb negb] in Hskip.
  unfold ptr_leb in Hskip. rewrite Hf, Eo, N.ltb_irrefl, N.eqb_refl in Hskip. cbn [orb andb] in Hskip. rewrite N.ltb_irrefl in Hskip. cbn in Hskip. discriminate.
Qed.

(** the hypotheses of the two theorems are satisfiable *)
Definition g_cfg : cfg := {| c_thr := 32; c_max := 300; c_nb := 1 |}.
Definition g_rec (k : byte) (v : bytes) (meta seq : N) : rec :=
  {| r_key := [xff; x43; x46; x00; k]; r_ver := max_ver; r_val := v; r_meta := meta; r_exp := 0; r_seq := seq |}.
Definition g_ops : list vop :=
  [ VWrite [g_rec x61 (repeat x31 200) 0 1]; VWrite [g_rec x62 (repeat x32 200) 0 2] ].
Definition g_db0 : db := vrun g_cfg (init_db g_cfg 1) g_ops.
Definition g_moved : list rec := [g_rec x61 (repeat x31 200) 0 3].

Example gc_move_hyp_ex :
  ops_okb g_cfg (init_db g_cfg 1) [] g_ops = true /\
  gc_decide 0 g_db0 0 0 3 = Some g_moved /\ chain_okb (vwrites g_ops) g_moved = true /\
  forallb rec_okb g_moved = true /\ dups (vwrites g_ops) g_moved /\ vsmallb (d_vl (db_write g_cfg g_db0 g_moved)) = true.
Proof.
  split; [vm_compute; reflexivity|]. split; [vm_compute; reflexivity|]. split; [vm_compute; reflexivity|].
  split; [vm_compute; reflexivity|]. split; [|vm_compute; reflexivity].
  cbn [dups g_moved]. split; [|exact I]. eexists. split; [vm_compute; reflexivity|].
  split; [reflexivity|]. split; [reflexivity|]. intros y [<-|[<-|[]]]; vm_compute; reflexivity.
Qed.

(** a file whose only record was overwritten: nothing to move, the file goes *)
Definition g_ops2 : list vop :=
  [ VWrite [g_rec x61 (repeat x31 200) 0 1]; VWrite [g_rec x61 (repeat x32 200) 0 2] ].
Example gc_remove_hyp_ex :
  ops_okb g_cfg (init_db g_cfg 1) [] g_ops2 = true /\
  gc_decide 0 (vrun g_cfg (init_db g_cfg 1) g_ops2) 0 0 3 = Some [] /\
  forallb (fun w => negb (is_big g_cfg w && dead 0 w)) (vwrites g_ops2) = true.
Proof. vm_compute. repeat split. Qed.

(** * Witnesses *)
Definition w_cfg : cfg := {| c_thr := 32; c_max := 300; c_nb := 1 |}.
Definition w_key (k : byte) : bytes := [xff; x43; x46; x00; k].
Definition w_rec (k : byte) (ver : N) (v : bytes) (meta seq : N) : rec :=
  {| r_key := w_key k; r_ver := ver; r_val := v; r_meta := meta; r_exp := 0; r_seq := seq |}.

(** Call-atomic: two transactions write a (200 bytes each; the second lands in value-log file 1),
    the memtable is sealed, GC rewrites file 0: version 1 is re-inserted into the new active
    memtable and answers every later read of a. *)
Definition w_old_ops : list vop :=
  [ VWrite [w_rec x61 1 (repeat x31 200) 0 1]; VWrite [w_rec x61 2 (repeat x32 200) 0 2]; VRotate ].
Definition w_old_db : db := vrun w_cfg (init_db w_cfg 1) w_old_ops.

Lemma gc_old_version_witness :
  ops_okb w_cfg (init_db w_cfg 1) [] w_old_ops = true /\
  gobs (db_get w_old_db (w_key x61) max_ver) = OVal (repeat x32 200) 0 /\
  gobs (db_get (fst (rewrite w_cfg 0 w_old_db 0 0 3)) (w_key x61) max_ver) = OVal (repeat x31 200) 0.
Proof. vm_compute. repeat split. Qed.

(** Schedules: plain Set a (200 bytes), Set b (file 0 is sealed), then GC of file 0 against
    a writer that overwrites / deletes a. *)
Definition w_race_db : db :=
  vrun w_cfg (init_db w_cfg 1)
       [ VWrite [w_rec x61 max_ver (repeat x31 200) 0 1]; VWrite [w_rec x62 max_ver (repeat x32 200) 0 2] ].
Definition w_race_g0 (batch : list rec) : gstate :=
  {| g_db := w_race_db; g_pc := GcStart; g_todo := [batch];
     g_acked := [w_rec x61 max_ver (repeat x31 200) 0 1; w_rec x62 max_ver (repeat x32 200) 0 2] |}.
Definition w_set : list rec := [w_rec x61 max_ver (repeat x33 40) 0 3].
Definition w_del : list rec := [w_rec x61 max_ver [] 1 3].
Definition w_final (batch : list rec) (sched : list gthread) : gstate :=
  Sched.run (gtstep w_cfg 0 0 0 4) (w_race_g0 batch) sched.

Lemma race_witness_set :
  let g := w_final w_set [TGc; TWr; TGc] in
  spec_getv (g_acked g) (w_key x61) max_ver = OVal (repeat x33 40) 0 /\
  gobs (db_get (g_db g) (w_key x61) max_ver) = OVal (repeat x31 200) 0.
Proof. vm_compute. split; reflexivity. Qed.

Lemma race_witness_del :
  let g := w_final w_del [TGc; TWr; TGc] in
  spec_get 0 (g_acked g) (w_key x61) max_ver = ONone /\
  gobs (db_get_live 0 (g_db g) (w_key x61) max_ver) = OVal (repeat x31 200) 0.
Proof. vm_compute. split; reflexivity. Qed.

(** the serial orders are fine on the same input *)
Lemma race_serial_ok :
  let g1 := w_final w_set [TWr; TGc; TGc] in
  let g2 := w_final w_set [TGc; TGc; TWr] in
  gobs (db_get (g_db g1) (w_key x61) max_ver) = OVal (repeat x33 40) 0 /\
  gobs (db_get (g_db g2) (w_key x61) max_ver) = OVal (repeat x33 40) 0.
Proof. vm_compute. split; reflexivity. Qed.

(** * Schedules: with a decision that the writer does not invalidate, every interleaving is serial *)
Section Serial.
  Variables (c : cfg) (now bk fid nseq : N) (d0 : db) (batch acked0 : list rec).
  Let g0 : gstate := {| g_db := d0; g_pc := GcStart; g_todo := [batch]; g_acked := acked0 |}.
  Let W (d : db) : db := db_write c d batch.
  Let GC (d : db) : db := fst (rewrite c now d bk fid nseq).

  (** the writer's request does not change what GC decides *)
  Hypothesis stable : gc_decide now (W d0) bk fid nseq = gc_decide now d0 bk fid nseq.

  Lemma GC_eq d : GC d = gc_step2 c d bk fid (gc_decide now d bk fid nseq).
  Proof.
    unfold GC, rewrite, gc_step2. destruct (gc_decide now d bk fid nseq) as [wb|]; [|reflexivity].
    destruct (62 <? N.of_nat (length wb)); reflexivity.
  Qed.

  (** outcomes of the serial executions (GC call-atomic), and the states in between *)
  Definition serial (g : gstate) : Prop :=
    match g_pc g, g_todo g with
    | GcStart, [b] => b = batch /\ g_db g = d0
    | GcStart, [] => g_db g = W d0
    | GcDecided o, [b] => b = batch /\ g_db g = d0 /\ o = gc_decide now d0 bk fid nseq
    | GcDecided o, [] => g_db g = W d0 /\ o = gc_decide now (W d0) bk fid nseq
    | GcDone, [b] => b = batch /\ g_db g = GC d0
    | GcDone, [] => g_db g = GC (W d0) \/ g_db g = W (GC d0)
    | _, _ => False
    end.

  Lemma serial_all sched : serial (Sched.run (gtstep c now bk fid nseq) g0 sched).
  Proof.
    apply inv_run; [cbn; auto|].
    intros g t g' Hs Ht. destruct g as [d pc todo ack]. unfold serial in Hs. cbn [g_pc g_todo g_db] in Hs.
    destruct t; cbn [gtstep g_pc g_todo g_db g_acked] in Ht.
    - destruct pc as [|o|]; inversion Ht; subst g'; clear Ht; unfold serial; cbn [g_pc g_todo g_db].
      + destruct todo as [|b [|]]; try contradiction.
        * subst d. split; reflexivity.
        * destruct Hs as [-> ->]. repeat split.
      + destruct todo as [|b [|]]; try contradiction.
        * destruct Hs as [-> ->]. left. now rewrite GC_eq.
        * destruct Hs as (-> & -> & ->). split; [reflexivity|]. now rewrite GC_eq.
    - destruct todo as [|b rest]; [discriminate|]. inversion Ht; subst g'; clear Ht.
      unfold serial; cbn [g_pc g_todo g_db]. destruct pc as [|o|]; destruct rest; try contradiction.
      + destruct Hs as [-> ->]. reflexivity.
      + destruct Hs as (-> & -> & ->). split; [reflexivity | now rewrite stable].
      + destruct Hs as [-> ->]. right. reflexivity.
  Qed.
End Serial.

(** the stability hypothesis is satisfiable with a writer on the SAME user key when versions are
    unique: a transaction commits a new version of a while GC moves version 1 *)
Definition w_txn_db : db :=
  vrun w_cfg (init_db w_cfg 1)
       [ VWrite [w_rec x61 1 (repeat x31 200) 0 1]; VWrite [w_rec x62 2 (repeat x32 200) 0 2] ].
Example stable_ex :
  gc_decide 0 (db_write w_cfg w_txn_db [w_rec x61 3 (repeat x33 40) 0 3]) 0 0 4 = gc_decide 0 w_txn_db 0 0 4 /\
  exists wb, gc_decide 0 w_txn_db 0 0 4 = Some wb /\ wb <> [].
Proof. vm_compute. split; [reflexivity|]. eexists. split; [reflexivity | discriminate]. Qed.
(** ... and fails on the refuting input *)
Example unstable_ex :
  gc_decide 0 (db_write w_cfg w_race_db w_set) 0 0 4 <> gc_decide 0 w_race_db 0 0 4.
Proof. vm_compute. discriminate. Qed.

(** * The statements exported to Properties/C08.v *)
Theorem gc_preserves_reads_refuted :
  exists c ops now bk fid nseq k v,
    ops_okb c (init_db c 1) [] ops = true /\
    let d := vrun c (init_db c 1) ops in
    gobs (db_get (fst (rewrite c now d bk fid nseq)) k v) <> gobs (db_get d k v).
Proof.
  exists w_cfg, w_old_ops, 0, 0, 0, 3, (w_key x61), max_ver.
  destruct gc_old_version_witness as (H1 & H2 & H3). split; [exact H1|]. cbn zeta.
  fold w_old_db. rewrite H2, H3. vm_compute. discriminate.
Qed.

Theorem gc_sched_refuted :
  exists c ops batch now bk fid nseq sched k,
    ops_okb c (init_db c 1) [] ops = true /\
    let g0 := {| g_db := vrun c (init_db c 1) ops; g_pc := GcStart; g_todo := [batch]; g_acked := vwrites ops |} in
    let g := Sched.run (gtstep c now bk fid nseq) g0 sched in
    g_todo g = [] /\ g_pc g = GcDone /\
    gobs (db_get (g_db g) k max_ver) <> spec_getv (g_acked g) k max_ver.
Proof.
  exists w_cfg, [ VWrite [w_rec x61 max_ver (repeat x31 200) 0 1]; VWrite [w_rec x62 max_ver (repeat x32 200) 0 2] ],
         w_set, 0, 0, 0, 4, [TGc; TWr; TGc], (w_key x61).
  split; [vm_compute; reflexivity|]. vm_compute. repeat split. discriminate.
Qed.

Theorem gc_sched_del_refuted :
  exists c ops batch now bk fid nseq sched k,
    ops_okb c (init_db c 1) [] ops = true /\
    let g0 := {| g_db := vrun c (init_db c 1) ops; g_pc := GcStart; g_todo := [batch]; g_acked := vwrites ops |} in
    let g := Sched.run (gtstep c now bk fid nseq) g0 sched in
    spec_get now (g_acked g) k max_ver = ONone /\
    exists v, gobs (db_get_live now (g_db g) k max_ver) = OVal v 0.
Proof.
  exists w_cfg, [ VWrite [w_rec x61 max_ver (repeat x31 200) 0 1]; VWrite [w_rec x62 max_ver (repeat x32 200) 0 2] ],
         w_del, 0, 0, 0, 4, [TGc; TWr; TGc], (w_key x61).
  split; [vm_compute; reflexivity|]. vm_compute. split; [reflexivity|]. eexists. reflexivity.
Qed.

Lemma obs_eqb_spec a b : obs_eqb a b = true <-> a = b.
Proof.
  destruct a as [| |x m], b as [| |y n]; cbn; split; intro H; try reflexivity; try discriminate.
  - apply andb_true_iff in H as [H1 H2]. apply bytes_eqb_eq in H1. apply N.eqb_eq in H2. now subst.
  - inversion H; subst. now rewrite bytes_eqb_refl, N.eqb_refl.
Qed.

(** Proofs for C13. *)
From Coq Require Import List NArith Bool Lia ZifyN ZifyNat ZifyBool.
From Coq Require Import Init.Byte.
From NoKV Require Import Base.Bytes Base.Num Base.Crc32c Model.WalCodec Model.Wal Spec.WalSpec.
Import ListNotations.
Local Open Scope N_scope.

Definition enc (r : rec) : bytes := enc_record (fst r) (snd r).
Definition encs (rs : list rec) : bytes := concat (map enc rs).

Lemma blen_enc r : blen (enc r) = rec_size r.
Proof.
  unfold enc, enc_record, rec_size. rewrite blen_app, blen_be32, blen_cons, blen_app, blen_be32. lia.
Qed.

Lemma encs_cons r rs : encs (r :: rs) = enc r ++ encs rs.
Proof. reflexivity. Qed.

Lemma encs_app a b : encs (a ++ b) = encs a ++ encs b.
Proof. unfold encs. now rewrite map_app, concat_app. Qed.

Lemma drop4_be32 n r : drop 4 (be32 n ++ r) = r.
Proof. reflexivity. Qed.

Lemma take_app_le n (a b : bytes) : n <= blen a -> take n (a ++ b) = take n a.
Proof.
  unfold take, blen. intro H. rewrite firstn_app.
  replace (N.to_nat n - length a)%nat with 0%nat by lia. simpl. now rewrite app_nil_r.
Qed.

Lemma take_app_ge n (a b : bytes) : blen a <= n -> take n (a ++ b) = a ++ take (n - blen a) b.
Proof.
  unfold take, blen. intro H. rewrite firstn_app.
  rewrite firstn_all2 by lia. f_equal. f_equal. lia.
Qed.

Lemma take_0 (a : bytes) : take 0 a = [].
Proof. reflexivity. Qed.

Lemma enc_shape ty p :
  enc (ty, p) = be32 (blen p + 1) ++ (ty :: p) ++ be32 (crc32c (ty :: p)).
Proof. unfold enc, enc_record. cbn [fst snd app]. reflexivity. Qed.

Lemma crc_mod bs : crc32c bs mod two32 = crc32c bs.
Proof. apply N.mod_small. exact (crc32c_lt bs). Qed.

(** decoding a complete record followed by anything *)
Lemma decode_enc r rest :
  rec_ok r ->
  decode_record (enc r ++ rest) = DOk (fst r) (snd r) (blen (snd r) + 1) rest.
Proof.
  destruct r as [ty p]. unfold rec_ok. cbn [fst snd]. intro Hok.
  rewrite enc_shape. unfold decode_record. rewrite <- !app_assoc, rd_be32_be32.
  rewrite N.mod_small by exact Hok.
  destruct (blen p + 1 =? 0) eqn:E0; [lia|].
  rewrite drop4_be32.
  assert (Hl : blen (ty :: p) = blen p + 1) by (rewrite blen_cons; lia).
  destruct (blen ((ty :: p) ++ be32 (crc32c (ty :: p)) ++ rest) <? blen p + 1) eqn:E1.
  { rewrite blen_app in E1. lia. }
  rewrite <- Hl, take_app_exact, drop_app_exact, rd_be32_be32, crc_mod, N.eqb_refl.
  now rewrite drop4_be32.
Qed.

(** a proper prefix of a record's encoding is detected by length alone: no
    property of the checksum function is used *)
Lemma decode_proper_prefix r k :
  rec_ok r -> k < rec_size r ->
  (k = 0 /\ take k (enc r) = []) \/ (0 < k /\ decode_record (take k (enc r)) = DPartial).
Proof.
  destruct r as [ty p]. unfold rec_ok, rec_size. cbn [fst snd]. intros Hok Hk.
  destruct (N.eq_dec k 0) as [->|Hk0]; [left; split; [reflexivity|apply take_0]|].
  right. split; [lia|].
  assert (Hlen : blen (take k (enc (ty, p))) = k).
  { apply blen_take. rewrite blen_enc. unfold rec_size. cbn [snd]. lia. }
  unfold decode_record.
  destruct (k <? 4) eqn:E4.
  - rewrite rd_be32_short by (unfold blen in Hlen; lia).
    destruct (take k (enc (ty, p))) eqn:Et; [|reflexivity].
    rewrite blen_nil in Hlen. lia.
  - rewrite enc_shape. rewrite take_app_ge by (rewrite blen_be32; lia).
    rewrite rd_be32_be32, N.mod_small by exact Hok.
    destruct (blen p + 1 =? 0) eqn:E0; [lia|].
    rewrite drop4_be32, blen_be32.
    assert (Hl : blen (ty :: p) = blen p + 1) by (rewrite blen_cons; lia).
    set (X := (ty :: p) ++ be32 (crc32c (ty :: p))).
    assert (HX : blen X = blen p + 5) by (unfold X; rewrite blen_app, Hl, blen_be32; lia).
    rewrite blen_take by lia.
    destruct (k - 4 <? blen p + 1) eqn:E1; [reflexivity|].
    unfold X. rewrite take_app_ge by lia.
    rewrite <- Hl. rewrite take_app_exact, drop_app_exact.
    rewrite rd_be32_short; [reflexivity|].
    assert (Hb : blen (take (k - 4 - blen (ty :: p)) (be32 (crc32c (ty :: p)))) = k - 4 - blen (ty :: p)).
    { apply blen_take. rewrite blen_be32. lia. }
    unfold blen in *. lia.
Qed.

(** a tail that ends a segment scan without error *)
Definition quiet_tail (t : bytes) : Prop := t = [] \/ decode_record t = DPartial.

Lemma quiet_tail_replay t : quiet_tail t -> decode_record t = DEof \/ decode_record t = DPartial.
Proof. intros [->|H]; [left; reflexivity | right; exact H]. Qed.

(** cutting a segment that holds exactly [rs] *)
Lemma take_encs rs : forall c,
  Forall rec_ok rs ->
  exists tail, take c (encs rs) = encs (complete_before c rs) ++ tail /\ quiet_tail tail.
Proof.
  induction rs as [|r rs IH]; intros c Hok.
  - exists []. split; [unfold take, encs; cbn [map concat]; now rewrite firstn_nil|now left].
  - inversion Hok as [|? ? Hr Hrs]; subst.
    rewrite encs_cons. cbn [complete_before].
    destruct (rec_size r <=? c) eqn:E.
    + rewrite take_app_ge by (rewrite blen_enc; lia). rewrite blen_enc.
      destruct (IH (c - rec_size r) Hrs) as [tail [Ht Hq]].
      exists tail. split; [|exact Hq]. rewrite Ht, encs_cons. now rewrite app_assoc.
    + rewrite take_app_le by (rewrite blen_enc; lia).
      exists (take c (enc r)). split; [reflexivity|].
      destruct (decode_proper_prefix r c Hr) as [[_ H]|[_ H]]; [lia | now left | now right].
Qed.

(** * Replay of one segment *)

Definition mk_info (id off : N) (r : rec) : rinfo :=
  {| i_seg := id; i_off := off; i_ty := fst r; i_payload := snd r |}.

Fixpoint infos_from (id off : N) (rs : list rec) : list rinfo :=
  match rs with
  | [] => []
  | r :: rs' => mk_info id off r :: infos_from id (off + rec_size r) rs'
  end.

Lemma infos_from_app id rs1 : forall off rs2,
  infos_from id off (rs1 ++ rs2) = infos_from id off rs1 ++ infos_from id (off + blen (encs rs1)) rs2.
Proof.
  induction rs1 as [|r rs1 IH]; intros off rs2; cbn [app infos_from].
  - f_equal. unfold encs. simpl. rewrite blen_nil. lia.
  - rewrite IH. f_equal. f_equal. f_equal. rewrite encs_cons, blen_app, blen_enc. lia.
Qed.

Lemma replay_file_encs rs : forall fuel id off tail,
  Forall rec_ok rs -> (length rs < fuel)%nat -> quiet_tail tail ->
  replay_file fuel id off (encs rs ++ tail) = (infos_from id off rs, None).
Proof.
  induction rs as [|r rs IH]; intros fuel id off tail Hok Hf Hq.
  - destruct fuel as [|f]; [simpl in Hf; lia|]. cbn [encs map concat app replay_file infos_from].
    destruct (quiet_tail_replay _ Hq) as [E|E]; now rewrite E.
  - inversion Hok as [|? ? Hr Hrs]; subst.
    destruct fuel as [|f]; [simpl in Hf; lia|].
    rewrite encs_cons, <- app_assoc. cbn [replay_file]. rewrite decode_enc by exact Hr.
    rewrite IH; [|exact Hrs|simpl in Hf; lia|exact Hq].
    cbn [infos_from]. unfold mk_info, rec_size. replace (off + (blen (snd r) + 1) + 8) with (off + (blen (snd r) + 9)) by lia. reflexivity.
Qed.

Lemma length_encs rs : (length rs <= length (encs rs))%nat.
Proof.
  induction rs as [|r rs IH]; [simpl; lia|].
  rewrite encs_cons, app_length. pose proof (blen_enc r) as H. unfold blen, rec_size in H. simpl length. lia.
Qed.

Lemma replay_seg_encs id rs tail :
  Forall rec_ok rs -> quiet_tail tail ->
  replay_seg (id, encs rs ++ tail) = (infos_from id 0 rs, None).
Proof.
  intros Hok Hq. unfold replay_seg. cbn [fst snd]. apply replay_file_encs; [exact Hok| |exact Hq].
  rewrite app_length. pose proof (length_encs rs). lia.
Qed.

(** * Directories that hold a placement of records *)

Definition ilayout := list (N * list rec).

Definition disk (lay : ilayout) : list seg := map (fun s => (fst s, encs (snd s))) lay.

Definition linfos (lay : ilayout) : list rinfo :=
  concat (map (fun s => infos_from (fst s) 0 (snd s)) lay).

Definition lrecs (lay : ilayout) : list rec := concat (map snd lay).

Definition lay_ok (lay : ilayout) : Prop := Forall rec_ok (lrecs lay).

Lemma lay_ok_cons s lay : lay_ok (s :: lay) <-> Forall rec_ok (snd s) /\ lay_ok lay.
Proof. unfold lay_ok, lrecs. cbn [map concat]. rewrite Forall_app. reflexivity. Qed.

Lemma lay_ok_app a b : lay_ok (a ++ b) <-> lay_ok a /\ lay_ok b.
Proof. unfold lay_ok, lrecs. rewrite map_app, concat_app, Forall_app. reflexivity. Qed.

Lemma disk_app a b : disk (a ++ b) = disk a ++ disk b.
Proof. apply map_app. Qed.

Lemma linfos_app a b : linfos (a ++ b) = linfos a ++ linfos b.
Proof. unfold linfos. now rewrite map_app, concat_app. Qed.

Lemma lrecs_app a b : lrecs (a ++ b) = lrecs a ++ lrecs b.
Proof. unfold lrecs. now rewrite map_app, concat_app. Qed.

Lemma replay_disk_app lay : forall fs,
  lay_ok lay ->
  replay (disk lay ++ fs) = (linfos lay ++ fst (replay fs), snd (replay fs)).
Proof.
  induction lay as [|[id rs] lay IH]; intros fs Hok.
  - cbn [disk map app linfos concat]. now destruct (replay fs).
  - apply lay_ok_cons in Hok as [Hrs Hl]. cbn [snd] in Hrs.
    cbn [disk map app fst snd replay]. fold (disk lay).
    rewrite <- (app_nil_r (encs rs)). rewrite replay_seg_encs by (auto; now left).
    rewrite IH by exact Hl. unfold linfos. cbn [map concat fst snd].
    now rewrite app_assoc.
Qed.

Lemma replay_disk lay : lay_ok lay -> replay (disk lay) = (linfos lay, None).
Proof.
  intro H. rewrite <- (app_nil_r (disk lay)), replay_disk_app by exact H.
  cbn [replay fst snd]. now rewrite app_nil_r.
Qed.

(** projection of what replay delivered to the abstract log *)
Definition info_rec (i : rinfo) : rec := (i_ty i, i_payload i).

Lemma infos_from_recs id rs : forall off, map info_rec (infos_from id off rs) = rs.
Proof.
  induction rs as [|[t p] rs IH]; intro off; cbn [infos_from map]; [reflexivity|].
  rewrite IH. reflexivity.
Qed.

Lemma linfos_recs lay : map info_rec (linfos lay) = lrecs lay.
Proof.
  unfold linfos, lrecs. induction lay as [|[id rs] lay IH]; [reflexivity|].
  cbn [map concat fst snd]. now rewrite map_app, infos_from_recs, IH.
Qed.

(** * The manager *)

(** [w] holds the closed segments [layc] and the active records [ract] *)
Definition inv (w : wal) (layc : ilayout) (ract : list rec) : Prop :=
  w_closed w = disk layc /\ w_act w = encs ract /\ lay_ok (layc ++ [(w_id w, ract)]).

Lemma files_inv w layc ract : inv w layc ract -> files w = disk (layc ++ [(w_id w, ract)]).
Proof. intros [Hc [Ha _]]. unfold files. rewrite disk_app, Hc, Ha. reflexivity. Qed.

Definition pos_info (i : rinfo) : N * N := (i_seg i, i_off i).

Lemma append1_inv w layc ract ty p :
  inv w layc ract -> rec_ok (ty, p) ->
  let w' := fst (append1 w ty p) in
  exists layc' ract',
    inv w' layc' ract' /\
    linfos (layc' ++ [(w_id w', ract')]) =
      linfos (layc ++ [(w_id w, ract)]) ++
      [mk_info (fst (snd (append1 w ty p))) (snd (snd (append1 w ty p))) (ty, p)].
Proof.
  intros Hinv Hr. pose proof Hinv as [Hc [Ha Hok]].
  unfold append1, ensure_capacity. cbn zeta.
  destruct (blen (w_act w) + (blen p + 9) <=? w_segsize w) eqn:E; cbn [fst snd w_id w_act w_closed].
  - exists layc, (ract ++ [(ty, p)]). split.
    + split; [exact Hc|]. split.
      * cbn [w_act]. rewrite Ha, encs_app. unfold encs at 3. cbn [map concat enc fst snd].
        now rewrite app_nil_r.
      * apply lay_ok_app in Hok as [H1 H2]. apply lay_ok_app. split; [exact H1|].
        unfold lay_ok, lrecs in *. cbn [map concat snd] in *. rewrite app_nil_r in *.
        apply Forall_app. split; [exact H2|]. constructor; [exact Hr|constructor].
    + rewrite !linfos_app. rewrite <- app_assoc. f_equal.
      unfold linfos. cbn [map concat fst snd]. rewrite !app_nil_r.
      rewrite infos_from_app. cbn [infos_from]. rewrite Ha. reflexivity.
  - unfold rotate. cbn [w_id w_act w_closed].
    exists (layc ++ [(w_id w, ract)]), [(ty, p)]. split.
    + split; [apply (files_inv _ _ _ Hinv)|]. split.
      * cbn [app]. unfold encs. cbn [map concat enc fst snd]. now rewrite app_nil_r.
      * apply lay_ok_app. split; [exact Hok|].
        unfold lay_ok, lrecs. cbn [map concat snd]. constructor; [exact Hr|constructor].
    + rewrite (linfos_app (layc ++ [(w_id w, ract)])). f_equal.
Qed.

Fixpoint mk_infos (is : list (N * N)) (rs : list rec) : list rinfo :=
  match is, rs with
  | (s, o) :: is', r :: rs' => mk_info s o r :: mk_infos is' rs'
  | _, _ => []
  end.

Lemma append_all_inv rs : forall w layc ract,
  inv w layc ract -> Forall rec_ok rs ->
  let w' := fst (append_all w rs) in
  exists layc' ract',
    inv w' layc' ract' /\
    linfos (layc' ++ [(w_id w', ract')]) =
      linfos (layc ++ [(w_id w, ract)]) ++ mk_infos (snd (append_all w rs)) rs.
Proof.
  induction rs as [|[ty p] rs IH]; intros w layc ract Hinv Hok.
  - cbn [append_all fst snd mk_infos]. exists layc, ract. split; [exact Hinv|now rewrite app_nil_r].
  - inversion Hok as [|? ? Hr Hrs]; subst.
    destruct (append1_inv w layc ract ty p Hinv Hr) as [l1 [r1 [Hinv1 Hi1]]].
    cbn [append_all].
    destruct (append1 w ty p) as [w1 [s o]] eqn:E1. cbn [fst snd] in Hinv1, Hi1.
    destruct (IH w1 l1 r1 Hinv1 Hrs) as [l2 [r2 [Hinv2 Hi2]]].
    destruct (append_all w1 rs) as [w2 is] eqn:E2. cbn [fst snd] in *.
    exists l2, r2. split; [exact Hinv2|].
    rewrite Hi2, Hi1, <- app_assoc. reflexivity.
Qed.

Lemma mk_infos_recs rs : forall is, length is = length rs -> map info_rec (mk_infos is rs) = rs.
Proof.
  induction rs as [|[t p] rs IH]; intros [|[s o] is] H; simpl in H; try discriminate; [reflexivity|].
  cbn [mk_infos map]. rewrite IH by lia. reflexivity.
Qed.

Lemma mk_infos_pos rs : forall is, length is = length rs -> map pos_info (mk_infos is rs) = is.
Proof.
  induction rs as [|r rs IH]; intros [|[s o] is] H; simpl in H; try discriminate; [reflexivity|].
  cbn [mk_infos map]. rewrite IH by lia. reflexivity.
Qed.

Lemma append_all_length rs : forall w, length (snd (append_all w rs)) = length rs.
Proof.
  induction rs as [|[ty p] rs IH]; intro w; [reflexivity|].
  cbn [append_all]. destruct (append1 w ty p) as [w1 i]. specialize (IH w1).
  destruct (append_all w1 rs) as [w2 is]. cbn [snd] in *. simpl. now rewrite IH.
Qed.

Lemma split_last_snoc (l : list seg) x : split_last (l ++ [x]) = Some (l, x).
Proof.
  induction l as [|y l IH]; [reflexivity|].
  cbn [app split_last]. rewrite IH. destruct (l ++ [x]) eqn:E; [destruct l; discriminate|reflexivity].
Qed.

Lemma inv_open_empty cfg : inv (open_wal cfg []) [] [].
Proof.
  unfold open_wal, inv. cbn. repeat split. unfold lay_ok, lrecs. cbn. constructor.
Qed.

Lemma inv_open cfg layc id ract :
  lay_ok (layc ++ [(id, ract)]) ->
  inv (open_wal cfg (disk (layc ++ [(id, ract)]))) layc ract /\
  w_id (open_wal cfg (disk (layc ++ [(id, ract)]))) = id.
Proof.
  intro Hok. unfold open_wal. rewrite disk_app. cbn [disk map fst snd]. rewrite split_last_snoc.
  cbn [w_id]. split; [|reflexivity]. unfold inv. cbn [w_closed w_act w_id]. auto.
Qed.

(** replay of a manager's files, by placement *)
Lemma replay_inv w layc ract :
  inv w layc ract -> replay (files w) = (linfos (layc ++ [(w_id w, ract)]), None).
Proof.
  intro Hinv. rewrite (files_inv _ _ _ Hinv). apply replay_disk. apply Hinv.
Qed.

(** ** C13_replay_all *)
Definition replay_recs (fs : list seg) : list rec * option rerr :=
  (map info_rec (fst (replay fs)), snd (replay fs)).

Lemma replay_all cfg rs :
  Forall rec_ok rs ->
  let w := fst (append_all (open_wal cfg []) rs) in
  let infos := snd (append_all (open_wal cfg []) rs) in
  replay (files w) = (mk_infos infos rs, None) /\
  replay_recs (files w) = (rs, None) /\
  map pos_info (fst (replay (files w))) = infos.
Proof.
  intro Hok. cbn zeta.
  destruct (append_all_inv rs _ [] [] (inv_open_empty cfg) Hok) as [l [r [Hinv Hi]]].
  pose proof (replay_inv _ _ _ Hinv) as Hr.
  rewrite Hi in Hr. unfold linfos at 1 in Hr. cbn [app map concat fst snd infos_from] in Hr.
  pose proof (append_all_length rs (open_wal cfg [])) as Hlen.
  split; [exact Hr|]. unfold replay_recs. rewrite Hr. cbn [fst snd]. split.
  - now rewrite mk_infos_recs.
  - now apply mk_infos_pos.
Qed.

(** ** placements as plain layouts *)
Definition plain (lay : ilayout) : layout := map snd lay.

Lemma removelast_snoc {A} (l : list A) x : removelast (l ++ [x]) = l.
Proof. now rewrite removelast_app, app_nil_r by discriminate. Qed.

Lemma last_snoc {A} (l : list A) x d : last (l ++ [x]) d = x.
Proof. apply last_last. Qed.

Lemma surviving_snoc layc id ract c :
  surviving (plain (layc ++ [(id, ract)])) c = lrecs layc ++ complete_before c ract.
Proof.
  unfold surviving, plain. rewrite map_app. cbn [map snd].
  rewrite removelast_snoc, last_snoc. reflexivity.
Qed.

Lemma complete_before_ok c rs : Forall rec_ok rs -> Forall rec_ok (complete_before c rs).
Proof.
  revert c. induction rs as [|r rs IH]; intros c H; cbn [complete_before]; [constructor|].
  inversion H; subst. destruct (rec_size r <=? c); [constructor; auto|constructor].
Qed.

(** ** the cut directory *)
Lemma cut_files w layc ract c :
  inv w layc ract ->
  exists tail, quiet_tail tail /\
    cut_last c (files w) = disk layc ++ [(w_id w, encs (complete_before c ract) ++ tail)].
Proof.
  intros Hinv. pose proof Hinv as [Hc [Ha Hok]].
  apply lay_ok_app in Hok as [_ Hr]. unfold lay_ok, lrecs in Hr. cbn [map concat snd] in Hr.
  rewrite app_nil_r in Hr.
  destruct (take_encs ract c Hr) as [tail [Ht Hq]].
  exists tail. split; [exact Hq|].
  unfold cut_last, files. rewrite split_last_snoc, Hc, Ha, Ht. reflexivity.
Qed.

Lemma replay_cut w layc ract c :
  inv w layc ract ->
  replay (cut_last c (files w)) = (linfos (layc ++ [(w_id w, complete_before c ract)]), None).
Proof.
  intro Hinv. destruct (cut_files w layc ract c Hinv) as [tail [Hq ->]].
  destruct Hinv as [_ [_ Hok]]. apply lay_ok_app in Hok as [Hl Hr].
  unfold lay_ok, lrecs in Hr. cbn [map concat snd] in Hr. rewrite app_nil_r in Hr.
  rewrite replay_disk_app by exact Hl. cbn [replay].
  rewrite replay_seg_encs by (auto using complete_before_ok).
  cbn [replay fst snd]. rewrite linfos_app. unfold linfos at 3. cbn [map concat fst snd].
  now rewrite !app_nil_r.
Qed.

(** ** verify *)
Lemma verify_scan_encs rs : forall fuel off tail,
  Forall rec_ok rs -> (length rs < fuel)%nat -> quiet_tail tail ->
  verify_scan fuel off (encs rs ++ tail) =
    (off + blen (encs rs), match tail with [] => VClean | _ => VTorn end).
Proof.
  induction rs as [|r rs IH]; intros fuel off tail Hok Hf Hq.
  - destruct fuel as [|f]; [simpl in Hf; lia|]. cbn [encs map concat app verify_scan].
    rewrite blen_nil, N.add_0_r.
    destruct Hq as [->|E]; [reflexivity|]. rewrite E. destruct tail; [discriminate E|reflexivity].
  - inversion Hok as [|? ? Hr Hrs]; subst.
    destruct fuel as [|f]; [simpl in Hf; lia|].
    rewrite encs_cons, <- app_assoc. cbn [verify_scan]. rewrite decode_enc by exact Hr.
    rewrite IH; [|exact Hrs|simpl in Hf; lia|exact Hq].
    f_equal. rewrite blen_app, blen_enc. unfold rec_size. lia.
Qed.

Lemma verify_segment_encs rs tail :
  Forall rec_ok rs -> quiet_tail tail ->
  verify_segment (encs rs ++ tail) = (encs rs, None).
Proof.
  intros Hok Hq. unfold verify_segment.
  rewrite verify_scan_encs; [|exact Hok| |exact Hq].
  - destruct tail; [now rewrite app_nil_r|]. rewrite N.add_0_l, take_app_exact. reflexivity.
  - rewrite app_length. pose proof (length_encs rs). lia.
Qed.

Lemma verify_dir_disk lay : forall fs,
  lay_ok lay ->
  verify_dir (disk lay ++ fs) = (disk lay ++ fst (verify_dir fs), snd (verify_dir fs)).
Proof.
  induction lay as [|[id rs] lay IH]; intros fs Hok.
  - cbn [disk map app]. now destruct (verify_dir fs).
  - apply lay_ok_cons in Hok as [Hrs Hl]. cbn [snd] in Hrs.
    cbn [disk map app fst snd verify_dir]. fold (disk lay).
    rewrite <- (app_nil_r (encs rs)) at 1. rewrite verify_segment_encs by (auto; now left).
    rewrite IH by exact Hl. reflexivity.
Qed.

Lemma verify_cut w layc ract c :
  inv w layc ract ->
  verify_dir (cut_last c (files w)) = (disk (layc ++ [(w_id w, complete_before c ract)]), None).
Proof.
  intro Hinv. destruct (cut_files w layc ract c Hinv) as [tail [Hq ->]].
  destruct Hinv as [_ [_ Hok]]. apply lay_ok_app in Hok as [Hl Hr].
  unfold lay_ok, lrecs in Hr. cbn [map concat snd] in Hr. rewrite app_nil_r in Hr.
  rewrite verify_dir_disk by exact Hl. cbn [verify_dir].
  rewrite verify_segment_encs by (auto using complete_before_ok).
  cbn [verify_dir fst snd]. now rewrite disk_app.
Qed.

(** ** the three headline statements, for the layout reached by the appends *)

Lemma placement cfg rs :
  Forall rec_ok rs ->
  let w := fst (append_all (open_wal cfg []) rs) in
  exists lay : ilayout,
    files w = disk lay /\ lrecs lay = rs /\ lay <> [] /\
    exists layc ract, lay = layc ++ [(w_id w, ract)] /\ inv w layc ract.
Proof.
  intro Hok. cbn zeta.
  destruct (append_all_inv rs _ [] [] (inv_open_empty cfg) Hok) as [l [r [Hinv Hi]]].
  exists (l ++ [(w_id (fst (append_all (open_wal cfg []) rs)), r)]).
  split; [apply files_inv; exact Hinv|]. split.
  - rewrite <- linfos_recs, Hi. unfold linfos at 1. cbn [app map concat fst snd infos_from].
    apply mk_infos_recs. apply append_all_length.
  - split; [destruct l; discriminate|]. eauto.
Qed.

Lemma torn_tail cfg rs c :
  Forall rec_ok rs ->
  let w := fst (append_all (open_wal cfg []) rs) in
  exists lay : layout,
    map snd (files w) = map encs lay /\ concat lay = rs /\
    replay_recs (cut_last c (files w)) = (surviving lay c, None).
Proof.
  intro Hok. cbn zeta.
  destruct (placement cfg rs Hok) as [lay [Hf [Hr [_ [layc [ract [-> Hinv]]]]]]].
  exists (plain (layc ++ [(w_id (fst (append_all (open_wal cfg []) rs)), ract)])).
  split; [|split].
  - rewrite Hf. unfold disk, plain. rewrite !map_map. reflexivity.
  - exact Hr.
  - unfold replay_recs. rewrite (replay_cut _ _ _ c Hinv). cbn [fst snd].
    rewrite linfos_recs, surviving_snoc, lrecs_app. unfold lrecs at 2. cbn [map concat snd].
    now rewrite app_nil_r.
Qed.

Lemma reopen_appends cfg cfg' rs c rs' :
  Forall rec_ok rs -> Forall rec_ok rs' ->
  let w := fst (append_all (open_wal cfg []) rs) in
  exists lay : layout,
    map snd (files w) = map encs lay /\ concat lay = rs /\
    snd (verify_dir (cut_last c (files w))) = None /\
    let w2 := fst (append_all (open_wal cfg' (fst (verify_dir (cut_last c (files w))))) rs') in
    replay_recs (files w2) = (surviving lay c ++ rs', None).
Proof.
  intros Hok Hok'. cbn zeta.
  destruct (placement cfg rs Hok) as [lay [Hf [Hr [_ [layc [ract [-> Hinv]]]]]]].
  set (w := fst (append_all (open_wal cfg []) rs)) in *.
  exists (plain (layc ++ [(w_id w, ract)])).
  split; [|split; [|split]].
  - rewrite Hf. unfold disk, plain. rewrite !map_map. reflexivity.
  - exact Hr.
  - now rewrite (verify_cut _ _ _ c Hinv).
  - rewrite (verify_cut _ _ _ c Hinv). cbn [fst].
    assert (Hok2 : lay_ok (layc ++ [(w_id w, complete_before c ract)])).
    { destruct Hinv as [_ [_ H]]. apply lay_ok_app in H as [Hl Hra]. apply lay_ok_app. split; [exact Hl|].
      unfold lay_ok, lrecs in *. cbn [map concat snd] in *. rewrite app_nil_r in *.
      now apply complete_before_ok. }
    destruct (inv_open cfg' layc (w_id w) (complete_before c ract) Hok2) as [Hinv2 Hid].
    destruct (append_all_inv rs' _ _ _ Hinv2 Hok') as [l3 [r3 [Hinv3 Hi3]]].
    unfold replay_recs. rewrite (replay_inv _ _ _ Hinv3). cbn [fst snd]. f_equal.
    rewrite Hi3, Hid, map_app, linfos_recs, surviving_snoc, lrecs_app.
    unfold lrecs at 2. cbn [map concat snd]. rewrite app_nil_r. f_equal.
    apply mk_infos_recs. apply append_all_length.
Qed.

(** placement depends on lengths only *)
Lemma place_spec rs : forall w,
  snd (append_all w rs) = fst (place (w_segsize w) (w_id w) (blen (w_act w)) (map (fun r => blen (snd r)) rs)) /\
  (let w' := fst (append_all w rs) in
   (w_id w', blen (w_act w')) = snd (place (w_segsize w) (w_id w) (blen (w_act w)) (map (fun r => blen (snd r)) rs))
   /\ w_segsize w' = w_segsize w).
Proof.
  induction rs as [|[ty p] rs IH]; intro w; [cbn; auto|].
  cbn [append_all map place snd]. unfold append1, ensure_capacity.
  assert (He : blen (enc_record ty p) = blen p + 9).
  { change (enc_record ty p) with (enc (ty, p)). rewrite blen_enc. reflexivity. }
  destruct (blen (w_act w) + (blen p + 9) <=? w_segsize w) eqn:Ec.
  - match goal with |- context [append_all ?x rs] => set (w1 := x) end.
    specialize (IH w1).
    assert (Hl : blen (w_act w1) = blen (w_act w) + (blen p + 9)) by (unfold w1; cbn [w_act]; now rewrite blen_app, He).
    assert (Hs : w_segsize w1 = w_segsize w) by reflexivity.
    assert (Hi : w_id w1 = w_id w) by reflexivity.
    rewrite Hs, Hi, Hl in IH. clearbody w1.
    destruct (append_all w1 rs) as [w2 is].
    destruct (place (w_segsize w) (w_id w) (blen (w_act w) + (blen p + 9)) (map (fun r => blen (snd r)) rs)) as [is' fin].
    cbn [fst snd] in *. destruct IH as [H1 [H2 H3]]. subst. auto.
  - match goal with |- context [append_all ?x rs] => set (w1 := x) end.
    specialize (IH w1).
    assert (Hl : blen (w_act w1) = 0 + (blen p + 9)) by (unfold w1; cbn [w_act rotate app]; now rewrite He).
    assert (Hs : w_segsize w1 = w_segsize w) by reflexivity.
    assert (Hi : w_id w1 = w_id w + 1) by reflexivity.
    rewrite Hs, Hi, Hl in IH. clearbody w1.
    destruct (append_all w1 rs) as [w2 is].
    destruct (place (w_segsize w) (w_id w + 1) (0 + (blen p + 9)) (map (fun r => blen (snd r)) rs)) as [is' fin].
    cbn [fst snd] in *. destruct IH as [H1 [H2 H3]]. subst.
    cbn [w_id w_act rotate]. rewrite blen_nil. auto.
Qed.

Lemma wal_example :
  let rs := [(x00, [x61; x62]); (x01, [x63])] in
  Forall rec_ok rs /\
  replay_recs (cut_last 15 (files (fst (append_all (open_wal 0 []) rs)))) = ([(x00, [x61; x62])], None).
Proof. split; [repeat constructor|vm_compute; reflexivity]. Qed.

(** Proofs for C25. *)
From Coq Require Import List NArith Bool Lia ZifyN ZifyBool String.
From NoKV Require Import Base.Bytes Model.CmdValidate Spec.CmdValidateSpec.
Import ListNotations.
Local Open Scope N_scope.

(** * Ranges *)

Lemma bytes_eqb_nil k : bytes_eqb k [] = true <-> k = [].
Proof. apply bytes_eqb_eq. Qed.

Lemma bytes_ltb_nil_r k : bytes_ltb k [] = false.
Proof. destruct k; reflexivity. Qed.

Lemma in_range_b_spec m k : in_range_b m k = true <-> in_range m k.
Proof.
  unfold in_range_b, in_range. rewrite andb_true_iff, orb_true_iff, bytes_eqb_nil. tauto.
Qed.

Lemma key_owned_b_spec m k : key_owned_b m k = true <-> key_owned m k.
Proof.
  unfold key_owned_b, key_owned. rewrite orb_true_iff, bytes_eqb_nil, in_range_b_spec.
  split.
  - intros [H|H] Hne; [contradiction | exact H].
  - intros H. destruct k as [|b k]; [now left | right; apply H; discriminate].
Qed.

(** [keyInRange] computes membership in [start, end) for non-empty keys. *)
Lemma key_in_range_nonempty m k : k <> [] -> key_in_range m k = in_range_b m k.
Proof.
  intros Hne. destruct k as [|b k]; [contradiction|].
  unfold key_in_range, in_range_b. rewrite bytes_leb_ltb.
  destruct (bytes_eqb (m_start m) []) eqn:Es.
  - apply bytes_eqb_nil in Es. rewrite Es. cbn [negb andb bytes_ltb bytes_cmp].
    destruct (bytes_eqb (m_end m) []); cbn [negb andb orb];
      [reflexivity | destruct (bytes_ltb (b :: k) (m_end m)); reflexivity].
  - cbn [negb andb]. destruct (bytes_ltb (b :: k) (m_start m)); cbn [negb andb]; [reflexivity|].
    destruct (bytes_eqb (m_end m) []); cbn [negb andb orb];
      [reflexivity | destruct (bytes_ltb (b :: k) (m_end m)); reflexivity].
Qed.

Lemma key_in_range_spec m k : k <> [] -> (key_in_range m k = true <-> in_range m k).
Proof. intros H. rewrite (key_in_range_nonempty m k H). apply in_range_b_spec. Qed.

Lemma key_in_range_owned m k : key_in_range m k = key_owned_b m k.
Proof.
  destruct k as [|b k]; [reflexivity|].
  rewrite key_in_range_nonempty by discriminate. reflexivity.
Qed.

Lemma key_bad_owned m k : negb (key_bad m k) = key_owned_b m k.
Proof.
  unfold key_bad. rewrite key_in_range_owned. unfold key_owned_b.
  destruct (bytes_eqb k []); destruct (in_range_b m k); reflexivity.
Qed.

Lemma keys_ok_forallb m ks : keys_ok m ks = forallb (key_owned_b m) ks.
Proof.
  induction ks as [|k ks IH]; [reflexivity|].
  cbn [keys_ok forallb]. rewrite <- key_bad_owned, <- IH. destruct (key_bad m k); reflexivity.
Qed.

Lemma muts_ok_forallb m ms : muts_ok m ms = forallb (key_owned_b m) (somes ms).
Proof.
  induction ms as [|[k|] ms IH]; [reflexivity| |exact IH].
  cbn [muts_ok somes forallb]. rewrite <- key_bad_owned, <- IH. destruct (key_bad m k); reflexivity.
Qed.

(** * Requests *)

Lemma request_ok_owned_b m r : request_ok m r = request_owned_b m r.
Proof.
  destruct r as [t b]. unfold request_ok, request_owned_b, named_keys. cbn [r_type r_body].
  destruct (N.eqb_spec t 1) as [->|H1].
  { destruct b; cbn [N.eqb N.leb andb forallb]; rewrite ?key_bad_owned, ?andb_true_r; reflexivity. }
  destruct (N.eqb_spec t 2) as [->|H2].
  { destruct b; cbn [N.eqb N.leb andb forallb]; rewrite ?key_bad_owned, ?andb_true_r; reflexivity. }
  destruct (N.eqb_spec t 3) as [->|H3].
  { destruct b; cbn [N.eqb N.leb andb forallb]; rewrite ?muts_ok_forallb; reflexivity. }
  destruct (N.eqb_spec t 4) as [->|H4].
  { destruct b; cbn [N.eqb N.leb andb forallb]; rewrite ?keys_ok_forallb; reflexivity. }
  destruct (N.eqb_spec t 5) as [->|H5].
  { destruct b; cbn [N.eqb N.leb andb forallb]; rewrite ?keys_ok_forallb; reflexivity. }
  destruct (N.eqb_spec t 6) as [->|H6].
  { destruct b; cbn [N.eqb N.leb andb forallb]; rewrite ?keys_ok_forallb; reflexivity. }
  destruct (N.eqb_spec t 7) as [->|H7].
  { destruct b; cbn [N.eqb N.leb andb forallb]; rewrite ?key_bad_owned, ?andb_true_r; reflexivity. }
  assert (E : (1 <=? t) && (t <=? 7) = false) by lia.
  rewrite E. reflexivity.
Qed.

Lemma request_owned_b_spec m r : request_owned_b m r = true <-> request_owned m r.
Proof.
  unfold request_owned_b, request_owned, supported.
  rewrite !andb_true_iff, forallb_forall, Forall_forall, !N.leb_le.
  split.
  - intros [Hs Hk]. split; [exact Hs|]. intros k Hin. apply key_owned_b_spec. now apply Hk.
  - intros [Hs Hk]. split; [exact Hs|]. intros k Hin. apply key_owned_b_spec. now apply Hk.
Qed.

Lemma validate_keys_forallb m rs : validate_keys m rs = forallb (request_owned_b m) (somes rs).
Proof.
  induction rs as [|[r|] rs IH]; [reflexivity| |exact IH].
  cbn [validate_keys somes forallb]. rewrite <- request_ok_owned_b, <- IH.
  destruct (request_ok m r); reflexivity.
Qed.

Lemma epoch_ok_spec m re :
  validate_epoch re m = true <-> re = Some (m_epoch m).
Proof.
  unfold validate_epoch. destruct re as [[c v]|]; [|split; discriminate].
  destruct (m_epoch m) as [c' v']. cbn [e_conf e_ver].
  rewrite negb_true_iff, orb_false_iff, !negb_false_iff, !N.eqb_eq.
  split.
  - intros [-> ->]. reflexivity.
  - intros H. inversion H. split; reflexivity.
Qed.

Lemma owned_b_epoch m re :
  match re with
  | Some e => (e_conf e =? e_conf (m_epoch m)) && (e_ver e =? e_ver (m_epoch m))
  | None => false
  end = validate_epoch re m.
Proof.
  unfold validate_epoch. destruct re as [e|]; [|reflexivity].
  destruct (e_conf e =? e_conf (m_epoch m)); destruct (e_ver e =? e_ver (m_epoch m)); reflexivity.
Qed.

Lemma owned_b_spec m re rs : owned_b m re rs = true <-> owned m re rs.
Proof.
  unfold owned_b, owned. rewrite owned_b_epoch, andb_true_iff, epoch_ok_spec, forallb_forall, Forall_forall.
  split; intros [He Hr]; (split; [exact He|]); intros r Hin; apply request_owned_b_spec; now apply Hr.
Qed.

(** The model accepts exactly the commands the region owns. *)
Lemma validate_owned_b m re rs : validate m re rs = if owned_b m re rs then Accept else RegionError.
Proof.
  unfold validate, owned_b. rewrite owned_b_epoch, validate_keys_forallb.
  destruct (validate_epoch re m); destruct (forallb (request_owned_b m) (somes rs)); reflexivity.
Qed.

Lemma validate_iff m re rs : validate m re rs = Accept <-> owned m re rs.
Proof.
  rewrite validate_owned_b, <- owned_b_spec.
  destruct (owned_b m re rs); split; congruence.
Qed.

Lemma in_somes {A} (x : A) l : In x (somes l) <-> In (Some x) l.
Proof.
  induction l as [|[y|] l IH]; cbn [somes In].
  - tauto.
  - rewrite IH. split; intros [H|H]; auto; left; congruence.
  - rewrite IH. split; [auto | intros [H|H]; [discriminate | exact H]].
Qed.

(** C25_accept: an accepted command carries the current epoch, every request
    in it is of a supported kind, and every non-empty key it names is inside
    the region's range. *)
Lemma validate_accept m re rs :
  validate m re rs = Accept ->
  re = Some (m_epoch m) /\
  forall r, In (Some r) rs ->
    supported r /\ forall k, In k (named_keys r) -> k <> [] -> in_range m k.
Proof.
  intros H. apply validate_iff in H as [He Hr]. split; [exact He|].
  intros r Hin. apply in_somes in Hin. rewrite Forall_forall in Hr.
  destruct (Hr r Hin) as [Hs Hk]. split; [exact Hs|].
  intros k Hk1 Hk2. rewrite Forall_forall in Hk. exact (Hk k Hk1 Hk2).
Qed.

(** C25_reject_complete: a stale / missing epoch, an unsupported kind, or any
    non-empty named key outside the range yields a region error. *)
Lemma validate_reject m re rs :
  re <> Some (m_epoch m) \/
  (exists r, In (Some r) rs /\
     (~ supported r \/ exists k, In k (named_keys r) /\ k <> [] /\ ~ in_range m k)) ->
  validate m re rs = RegionError.
Proof.
  intros H. destruct (validate m re rs) eqn:E; [|reflexivity]. exfalso.
  apply validate_accept in E as [He Hr].
  destruct H as [H|[r [Hin [H|[k [Hk [Hne Hout]]]]]]].
  - contradiction.
  - apply H. now apply Hr.
  - apply Hout. destruct (Hr r Hin) as [_ Hk']. now apply Hk'.
Qed.

(** No spurious rejection: a region error has one of those causes. *)
Lemma validate_reject_only m re rs :
  validate m re rs = RegionError -> ~ owned m re rs.
Proof. intros H Ho. apply validate_iff in Ho. congruence. Qed.

(** * Scan trimming *)

Lemma trim_kvs_filter m kvs : trim_kvs m kvs = map Some (filter (keep_b m) (somes kvs)).
Proof.
  induction kvs as [|[[k t]|] kvs IH]; [reflexivity| |exact IH].
  cbn [trim_kvs somes filter]. unfold keep_b at 1. cbn [fst]. rewrite <- key_in_range_owned.
  destruct (key_in_range m k); cbn [map]; now rewrite IH.
Qed.

Lemma trim_response_expected m o : trim_response m o = resp_expected m o.
Proof. destruct o; try reflexivity. cbn [trim_response resp_expected]. now rewrite trim_kvs_filter. Qed.

Lemma resp_expected_nonscan m o : resp_is_scan o = false -> resp_expected m o = o.
Proof. destruct o; [reflexivity|reflexivity|discriminate]. Qed.

(** On the responses the applier produces for [rs], trimming filters every
    scan result (and changes nothing else). *)
Lemma trim_exact m rs os : shaped rs os -> trim m rs os = map (resp_expected m) os.
Proof.
  induction 1 as [|rs os _ IH|r rs o os Hk _ IH]; [reflexivity|exact IH|].
  cbn [trim map]. rewrite IH. f_equal.
  destruct (r_type r =? 2).
  - apply trim_response_expected.
  - symmetry. now apply resp_expected_nonscan.
Qed.

Lemma somes_map_Some {A} (l : list A) : somes (map Some l) = l.
Proof. induction l as [|x l IH]; [reflexivity|]. cbn [map somes]. now rewrite IH. Qed.

Lemma expected_keys_owned m os : Forall (key_owned m) (all_keys (map (resp_expected m) os)).
Proof.
  unfold all_keys. induction os as [|o os IH]; [constructor|].
  cbn [map flat_map]. apply Forall_app. split; [|exact IH].
  destruct o as [| |kvs]; try constructor.
  cbn [resp_expected resp_keys]. unfold kv_keys. rewrite somes_map_Some.
  apply Forall_forall. intros k Hin. apply in_map_iff in Hin as [[k' t] [<- Hin]].
  apply filter_In in Hin as [_ Hk]. unfold keep_b in Hk. now apply key_owned_b_spec.
Qed.

(** C25_scan_trim *)
Lemma trim_keys_owned m rs os :
  shaped rs os -> forall k, In k (all_keys (trim m rs os)) -> k <> [] -> in_range m k.
Proof.
  intros Hs k Hin Hne. rewrite (trim_exact m rs os Hs) in Hin.
  pose proof (expected_keys_owned m os) as HF. rewrite Forall_forall in HF. exact (HF k Hin Hne).
Qed.

(** Nothing in range is lost, order and multiplicity are kept. *)
Lemma trim_keeps_in_range m rs os :
  shaped rs os ->
  trim m rs os = map (resp_expected m) os /\
  forall kvs, In (RespScan kvs) os ->
    In (RespScan (map Some (filter (fun e => key_owned_b m (fst e)) (somes kvs)))) (trim m rs os).
Proof.
  intros Hs. split; [now apply trim_exact|].
  intros kvs Hin. rewrite (trim_exact m rs os Hs).
  change (RespScan (map Some (filter (fun e => key_owned_b m (fst e)) (somes kvs))))
    with (resp_expected m (RespScan kvs)).
  now apply in_map.
Qed.

Lemma shaped_b_spec rs os : shaped_b rs os = true <-> shaped rs os.
Proof.
  revert os. induction rs as [|[r|] rs IH]; intros os.
  - destruct os; cbn [shaped_b]; split; intros H; try discriminate; try constructor; inversion H.
  - destruct os as [|o os]; cbn [shaped_b].
    + split; [discriminate | intros H; inversion H].
    + rewrite andb_true_iff, IH. split.
      * intros [He Hs]. apply Bool.eqb_prop in He. now constructor.
      * intros H. inversion H; subst. split; [|assumption].
        match goal with E : resp_is_scan _ = _ |- _ => rewrite E end. apply Bool.eqb_reflx.
  - cbn [shaped_b]. rewrite IH. split; intros H; [now constructor | now inversion H].
Qed.

(** The behaviour before the repair (positional pairing) lets an out-of-range
    key through when a nil request precedes a scan. *)
Definition w_meta : meta :=
  {| m_start := unhex "62"%string; m_end := unhex "63"%string; m_epoch := {| e_conf := 1; e_ver := 1 |} |}.
Definition w_reqs : list (option request) := [None; Some {| r_type := 2; r_body := BScan (unhex "62"%string) |}].
Definition w_resps : list response := [RespScan [Some (unhex "62"%string, 0); Some (unhex "7a"%string, 1)]].

Definition w_key : bytes := unhex "7a"%string.

Lemma trim_positional_leaks :
  shaped w_reqs w_resps /\
  In w_key (all_keys (trim_positional w_meta w_reqs w_resps)) /\
  ~ in_range w_meta w_key.
Proof.
  split; [apply shaped_b_spec; vm_compute; reflexivity|].
  split; [vm_compute; tauto|].
  intros H. apply in_range_b_spec in H. vm_compute in H. discriminate.
Qed.

(** Non-vacuity: an accepted command with keys, a shaped response. *)
Example accept_example :
  validate w_meta (Some {| e_conf := 1; e_ver := 1 |})
    [Some {| r_type := 4; r_body := BCommit [unhex "62"%string; unhex "62ff"%string] |}] = Accept.
Proof. vm_compute. reflexivity. Qed.

Example shaped_example : shaped w_reqs w_resps.
Proof. apply shaped_b_spec. vm_compute. reflexivity. Qed.

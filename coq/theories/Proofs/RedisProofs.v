(** Proofs for C29: the model of execute + embedded backend refines the
    reference semantics of Spec/RedisSpec.v. *)
From Coq Require Import List NArith ZArith Bool Lia ZifyN ZifyNat ZifyBool.
From Coq Require Import Init.Byte String.
Local Close Scope string_scope.
From NoKV Require Import Base.Bytes Model.Resp Model.Redis Spec.RedisSpec.
Import ListNotations.
Local Open Scope N_scope.

(** * Before the repairs ([original]) the gateway contradicts the reference *)
Definition k1 : bytes := [x6b].
Definition v1 : bytes := [x76].
Definition min_txt : bytes := of_string "-9223372036854775808"%string.
Definition max_txt : bytes := of_string "9223372036854775807"%string.

Definition w_decrby : list (N * list bytes) := [(100, [n_DECRBY; k1; min_txt]); (100, [n_GET; k1])].
Definition w_ping : list (N * list bytes) := [(100, [n_PING; []])].
Definition w_ping3 : list (N * list bytes) := [(100, [n_PING; v1; v1])].
Definition w_expire : list (N * list bytes) := [(100, [n_SET; k1; v1; n_EX; max_txt])].
Definition w_empty : list (N * list bytes) := [(100, [n_SET; k1; []]); (100, [n_GET; k1]); (100, [n_MGET; k1])].

Lemma original_decrby_refuted :
  snd (run original [] w_decrby) = [RInt min_int64; RBulk min_txt]
  /\ snd (spec_run empty_map w_decrby) = [RErr ROverflow; RNil].
Proof. vm_compute. split; reflexivity. Qed.

Lemma original_ping_refuted :
  snd (run original [] w_ping) = [RSimple n_PONG] /\ snd (spec_run empty_map w_ping) = [RBulk []]
  /\ snd (run original [] w_ping3) = [RBulk v1] /\ snd (spec_run empty_map w_ping3) = [RErr (RArity n_PING)].
Proof. vm_compute. repeat split; reflexivity. Qed.

Lemma original_expire_refuted :
  snd (run original [] w_expire) = [RSimple n_OK]
  /\ snd (spec_run empty_map w_expire) = [RErr RInvalidExpire]
  /\ option_map e_exp (find (fst (run original [] w_expire)) k1) = Some 101.
Proof. vm_compute. repeat split; reflexivity. Qed.

Lemma original_empty_value_refuted :
  snd (run original [] w_empty) = [RSimple n_OK; RNil; RArr [None]]
  /\ snd (spec_run empty_map w_empty) = [RSimple n_OK; RBulk []; RArr [Some []]].
Proof. vm_compute. split; reflexivity. Qed.

(** The empty key: NoKV rejects it, the reference stores it. *)
Definition w_empty_key : list (N * list bytes) := [(100, [n_SET; []; v1]); (100, [n_GET; []])].
Lemma empty_key_refuted :
  snd (run current [] w_empty_key) = [RErr REmptyKey; RErr REmptyKey]
  /\ snd (spec_run empty_map w_empty_key) = [RSimple n_OK; RBulk v1]
  /\ keys_nonempty w_empty_key = false.
Proof. vm_compute. repeat split; reflexivity. Qed.

(** * Refinement: store with tombstones / expiry seconds  vs  abstract map *)
Definition abs_entry (e : entry) : option sval :=
  if e_del e then None else Some (e_val e, if e_exp e =? 0 then None else Some (e_exp e)).

Definition abs (st : store) : smap :=
  fun k => match find st k with Some e => abs_entry e | None => None end.

Definition R (st : store) (m : smap) : Prop := forall k, abs st k = m k.

Lemma R_init : R [] empty_map.
Proof. intro k. reflexivity. Qed.

Lemma tget_sget st m now k :
  R st m -> sget m now k = match tget st now k with Some e => abs_entry e | None => None end.
Proof.
  intro HR. unfold sget, tget. rewrite <- (HR k). unfold abs.
  destruct (find st k) as [e|]; [|reflexivity].
  unfold abs_entry, dead, expired, live. destruct e as [v ex d]. cbn.
  destruct d; [reflexivity|]. cbn.
  destruct (ex =? 0) eqn:E0; cbn; [now rewrite ?E0|].
  destruct (ex <=? now) eqn:E1; destruct (now <? ex) eqn:E2; cbn; rewrite ?E0; try reflexivity; lia.
Qed.

Lemma tget_live st now k e : tget st now k = Some e -> e_del e = false.
Proof.
  unfold tget. destruct (find st k) as [e'|]; [|discriminate]. unfold dead.
  destruct (e_del e') eqn:E; cbn [orb]; [discriminate|]. destruct (expired (e_exp e') now); [discriminate|].
  intro H; inversion H; subst; exact E.
Qed.

Lemma sget_some st m now k : R st m ->
  (match sget m now k with Some _ => true | None => false end)
  = (match tget st now k with Some _ => true | None => false end).
Proof.
  intro HR. rewrite (tget_sget st m now k HR). destruct (tget st now k) as [e|] eqn:E; [|reflexivity].
  unfold abs_entry. now rewrite (tget_live _ _ _ _ E).
Qed.

Lemma put_R st m k e : R st m -> R (put st k e) (upd m k (abs_entry e)).
Proof.
  intros HR k'. unfold abs, put, upd. cbn [find]. destruct (bytes_eqb k' k); [reflexivity|]. apply HR.
Qed.

(** * int64 facts *)
Lemma wrap64_small z : (min_int64 <= z <= max_int64)%Z -> wrap64 z = z.
Proof.
  unfold wrap64, min_int64, max_int64, two63, two64. intro H.
  rewrite Z.mod_small by lia. lia.
Qed.

Lemma atoi_signed_range neg ds z : atoi_signed neg ds = Some z -> (min_int64 <= z <= max_int64)%Z.
Proof.
  unfold atoi_signed, min_int64, max_int64, two63, int64_bound. destruct ds; [discriminate|].
  destruct (parse_digits 0 (b :: ds)) as [n|]; [|discriminate].
  destruct neg.
  - destruct (n <=? 9223372036854775808) eqn:E; [|discriminate]. intro H; inversion H; subst. lia.
  - destruct (n <? 9223372036854775808) eqn:E; [|discriminate]. intro H; inversion H; subst. lia.
Qed.

Lemma atoi_range s z : atoi s = Some z -> (min_int64 <= z <= max_int64)%Z.
Proof.
  unfold atoi. destruct s as [|b s']; [discriminate|].
  destruct (byte_eqb b MINUS); [apply atoi_signed_range|].
  destruct (byte_eqb b PLUS); apply atoi_signed_range.
Qed.

(** * Backend operations against the abstract map *)
Lemma nonempty_false k : negb (is_empty k) = true -> is_empty k = false.
Proof. destruct k; [discriminate|reflexivity]. Qed.

Lemma del_refines keys : forall st m now n,
  R st m -> forallb (fun k => negb (is_empty k)) keys = true ->
  exists st', b_del st now keys n = Some (st', snd (s_del m now keys n)) /\ R st' (fst (s_del m now keys n)).
Proof.
  induction keys as [|k ks IH]; intros st m now n HR Hk; cbn [b_del s_del].
  - eexists; split; [reflexivity|exact HR].
  - cbn [forallb] in Hk. apply andb_true_iff in Hk as [Hk1 Hk2]. rewrite (nonempty_false _ Hk1).
    rewrite <- (sget_some st m now k HR).
    assert (HR' : R (put st k tombstone) (upd m k None)) by (apply (put_R st m k tombstone HR)).
    destruct (sget m now k); apply IH; assumption.
Qed.

Lemma mget_refines keys : forall st m now,
  R st m -> forallb (fun k => negb (is_empty k)) keys = true ->
  b_mget st now keys = Some (map (fun k => match sget m now k with Some (v, _) => Some v | None => None end) keys).
Proof.
  induction keys as [|k ks IH]; intros st m now HR Hk; cbn [b_mget map]; [reflexivity|].
  cbn [forallb] in Hk. apply andb_true_iff in Hk as [Hk1 Hk2]. rewrite (nonempty_false _ Hk1).
  rewrite (IH st m now HR Hk2). rewrite (tget_sget st m now k HR).
  destruct (tget st now k) as [e|] eqn:E; [|reflexivity].
  unfold abs_entry. now rewrite (tget_live _ _ _ _ E).
Qed.

Lemma exists_refines keys : forall st m now c,
  R st m -> forallb (fun k => negb (is_empty k)) keys = true ->
  b_exists st now keys c = Some (c + s_count m now keys)%Z.
Proof.
  induction keys as [|k ks IH]; intros st m now c HR Hk; cbn [b_exists s_count].
  - f_equal. lia.
  - cbn [forallb] in Hk. apply andb_true_iff in Hk as [Hk1 Hk2]. rewrite (nonempty_false _ Hk1).
    rewrite (IH st m now _ HR Hk2). pose proof (sget_some st m now k HR) as Hs.
    destruct (sget m now k); destruct (tget st now k); try discriminate; f_equal; lia.
Qed.

Lemma mset_refines kvs : forall st m,
  R st m -> forallb (fun k => negb (is_empty k)) (map fst kvs) = true ->
  exists st', b_mset st kvs = Some st' /\ R st' (s_mset m kvs).
Proof.
  induction kvs as [|[k v] kvs IH]; intros st m HR Hk; cbn [b_mset s_mset].
  - eexists; split; [reflexivity|exact HR].
  - cbn [map fst forallb] in Hk. apply andb_true_iff in Hk as [Hk1 Hk2]. rewrite (nonempty_false _ Hk1).
    apply IH; [|exact Hk2].
    apply (put_R st m k {| e_val := v; e_exp := 0; e_del := false |} HR).
Qed.

Lemma parse_int_safe_range v z : parse_int_safe v = Some z -> (min_int64 <= z <= max_int64)%Z.
Proof.
  unfold parse_int_safe. destruct (fields v).
  - intro H; inversion H; subst. unfold min_int64, max_int64, two63. lia.
  - apply atoi_range.
Qed.

Lemma counter_value_empty v : is_empty v = true -> counter_value v = Some 0%Z.
Proof. destruct v; [reflexivity|discriminate]. Qed.

Ltac finish_R st m k HR :=
  match goal with
  | |- R (put _ _ ?e) _ =>
      let HP := fresh "HP" in
      pose proof (put_R st m k e HR) as HP; unfold abs_entry in HP; cbn in HP;
      repeat match goal with H : (_ =? 0) = _ |- _ => rewrite H in HP end; exact HP
  end.

Lemma incr_refines st m now k delta :
  R st m -> negb (is_empty k) = true -> (min_int64 <= delta <= max_int64)%Z ->
  let '(st', r) := do_incr st now k delta in
  let '(m', r', q) := sem m now (CIncrBy k delta) in
  r = r' /\ q = false /\ R st' m'.
Proof.
  intros HR Hk Hd. unfold do_incr, b_incrby, sem. rewrite (nonempty_false _ Hk).
  rewrite (tget_sget st m now k HR).
  destruct (tget st now k) as [e|] eqn:E.
  - unfold abs_entry at 1 2. rewrite (tget_live _ _ _ _ E).
    assert (Hcv : (if is_empty (e_val e) then Some 0%Z else parse_int_safe (e_val e)) = counter_value (e_val e)).
    { destruct (is_empty (e_val e)) eqn:Ee; [now rewrite counter_value_empty | reflexivity]. }
    rewrite Hcv.
    destruct (counter_value (e_val e)) as [cur|] eqn:Ec; [|cbn; repeat split; auto].
    assert (Hc : (min_int64 <= cur <= max_int64)%Z).
    { unfold counter_value in Ec. apply (parse_int_safe_range (e_val e)). exact Ec. }
    unfold in_int64, min_int64, max_int64, two63 in *.
    repeat match goal with |- context [if ?b then _ else _] => destruct b eqn:? end;
      cbn; try lia; repeat split; auto; try lia; finish_R st m k HR.
  - unfold in_int64, min_int64, max_int64, two63 in *. cbn [Z.add].
    repeat match goal with |- context [if ?b then _ else _] => destruct b eqn:? end;
      cbn; try lia; repeat split; auto; try lia; finish_R st m k HR.
Qed.

(** * SET: expiry arithmetic and the option grammar *)
Definition clock_bound : N := 4611686018427387904. (* 2^62 *)

Lemma expire_agree opt num now :
  (0 < num <= max_int64)%Z -> now < clock_bound ->
  expire_at current opt num now = expiry_of opt num now.
Proof.
  intros Hn Hc. unfold expire_at, expiry_of, clock_bound in *. cbn [fix_expire current andb].
  unfold max_int64, two63 in Hn.
  assert (H1 : (max_int64 / ns_per_s = 9223372036)%Z) by reflexivity.
  assert (H2 : (max_int64 / 1000000 = 9223372036854)%Z) by reflexivity.
  rewrite H1, H2.
  assert (Hto : forall z, (0 <= z < two64)%Z -> to_u64 z = Z.to_N z).
  { intros z Hz. unfold to_u64. now rewrite Z.mod_small. }
  unfold two64 in Hto.
  destruct (name_is opt n_EX).
  { destruct (9223372036 <? num)%Z eqn:E; [reflexivity|].
    rewrite wrap64_small by (unfold min_int64, max_int64, two63, ns_per_s; lia).
    unfold ns_per_s. rewrite Z.div_mul by lia. rewrite Hto by lia.
    replace (Z.to_N (Z.of_N now + num)) with (now + Z.to_N num) by lia.
    destruct (now + Z.to_N num <=? now) eqn:E1; [lia|].
    destruct (now + Z.to_N num =? 0) eqn:E2; [lia|reflexivity]. }
  destruct (name_is opt n_PX).
  { destruct (9223372036854 <? num)%Z eqn:E; [reflexivity|].
    rewrite wrap64_small by (unfold min_int64, max_int64, two63; lia).
    unfold ns_per_s. change 1000000000%Z with (1000 * 1000000)%Z.
    rewrite Z.div_mul_cancel_r by lia.
    assert (Hq : (0 <= num / 1000 <= num)%Z).
    { split; [apply Z.div_pos; lia | apply Z.div_le_upper_bound; lia]. }
    rewrite Hto by lia.
    replace (Z.to_N (Z.of_N now + num / 1000)) with (now + Z.to_N (num / 1000)) by lia.
    destruct (now + Z.to_N (num / 1000) <=? now) eqn:E1.
    - destruct (now + 1 =? 0) eqn:E2; [lia|]. f_equal. lia.
    - destruct (now + Z.to_N (num / 1000) =? 0) eqn:E2; [lia|]. f_equal. lia. }
  destruct (name_is opt n_EXAT).
  { rewrite Hto by lia. reflexivity. }
  assert (Hq : (0 <= num / 1000 <= num)%Z).
  { split; [apply Z.div_pos; lia | apply Z.div_le_upper_bound; lia]. }
  rewrite Hto by lia. reflexivity.
Qed.

Definition cond_of (nx xx : bool) : cond := if nx then CondNX else if xx then CondXX else CondNone.

Definition opts_rel (o : set_opts) (c : cond) (exp : option N) : Prop :=
  c = cond_of (so_nx o) (so_xx o) /\ so_nx o && so_xx o = false
  /\ exp = (if so_has o then Some (so_exp o) else None)
  /\ (if so_has o then so_exp o <> 0 else so_exp o = 0).

Definition opts_agree (x : rerr + set_opts) (y : rerr + (cond * option N)) : Prop :=
  match x, y with
  | inl e, inl e' => e = e'
  | inr o, inr (c, exp) => opts_rel o c exp
  | _, _ => False
  end.

Lemma expiry_pos opt num now e : expiry_of opt num now = Some e -> (0 < num)%Z -> e <> 0.
Proof.
  unfold expiry_of, some_pos. intros H Hn.
  destruct (name_is opt n_EX).
  { destruct (9223372036 <? num)%Z; [discriminate|]. inversion H; subst. lia. }
  destruct (name_is opt n_PX).
  { destruct (9223372036854 <? num)%Z; [discriminate|]. inversion H; subst. lia. }
  destruct (name_is opt n_EXAT).
  { destruct (Z.to_N num =? 0) eqn:E; [discriminate|]. inversion H; subst. lia. }
  destruct (Z.to_N (num / 1000) =? 0) eqn:E; [discriminate|]. inversion H; subst. lia.
Qed.

Lemma set_opts_agree now n : now < clock_bound -> forall opts o c exp,
  (List.length opts <= n)%nat -> opts_rel o c exp ->
  opts_agree (set_options current now opts o) (decode_set_opts now opts c exp).
Proof.
  intro Hc. induction n as [|n IH]; intros opts o c exp Hlen Hrel.
  - destruct opts; [|cbn in Hlen; lia]. cbn. exact Hrel.
  - destruct opts as [|a rest]; [cbn; exact Hrel|].
    cbn [List.length] in Hlen. cbn [set_options decode_set_opts].
    destruct Hrel as (Hcond & Hex & Hexp & Hz).
    destruct (name_is (upper a) n_NX).
    { destruct (so_xx o) eqn:Exx.
      - subst c. unfold cond_of. destruct (so_nx o); [discriminate|]. reflexivity.
      - assert (Hgo : opts_agree
                 (set_options current now rest {| so_nx := true; so_xx := so_xx o; so_exp := so_exp o; so_has := so_has o |})
                 (decode_set_opts now rest CondNX exp)).
        { apply IH; [lia|]. unfold opts_rel. cbn. rewrite ?Exx. repeat split; auto. }
        subst c. unfold cond_of. rewrite Exx in Hgo. destruct (so_nx o); exact Hgo. }
    destruct (name_is (upper a) n_XX).
    { destruct (so_nx o) eqn:Enx.
      - subst c. unfold cond_of. reflexivity.
      - assert (Hgo : opts_agree
                 (set_options current now rest {| so_nx := so_nx o; so_xx := true; so_exp := so_exp o; so_has := so_has o |})
                 (decode_set_opts now rest CondXX exp)).
        { apply IH; [lia|]. unfold opts_rel. cbn. rewrite ?Enx. cbn. repeat split; auto. }
        subst c. unfold cond_of. rewrite Enx in Hgo. destruct (so_xx o); exact Hgo. }
    unfold is_expiry_opt.
    destruct (name_is (upper a) n_EX || name_is (upper a) n_PX || name_is (upper a) n_EXAT || name_is (upper a) n_PXAT);
      [|reflexivity].
    destruct (so_has o) eqn:Ehas.
    { subst exp. reflexivity. }
    subst exp. destruct rest as [|numb rest']; [reflexivity|].
    destruct (atoi numb) as [num|] eqn:Ea; [|reflexivity].
    destruct (num <=? 0)%Z eqn:Epos; [reflexivity|].
    pose proof (atoi_range _ _ Ea) as Hr.
    rewrite expire_agree by (try exact Hc; lia).
    destruct (expiry_of (upper a) num now) as [e|] eqn:Ee; [|reflexivity].
    apply IH; [cbn [List.length] in Hlen; lia|].
    unfold opts_rel. cbn. repeat split; auto. eapply expiry_pos; eauto. lia.
Qed.

(** * One command *)
Lemma map_arr_elem l : map (arr_elem current) l = l.
Proof. induction l as [|[b|] l IH]; cbn [map arr_elem fix_empty_value current]; now rewrite ?IH. Qed.

Definition step_ok (st : store) (m : smap) (x : store * reply * bool) (y : smap * reply * bool) : Prop :=
  let '(st', r, q) := x in let '(m', r', q') := y in r = r' /\ q = q' /\ R st' m'.

Lemma set_refines st m now k v o c exp :
  R st m -> negb (is_empty k) = true -> opts_rel o c exp ->
  step_ok st m
    (match b_set st now k v (so_nx o) (so_xx o) (so_exp o) with
     | SetOk st' => (st', RSimple n_OK, false)
     | SetCond => (st, RNil, false)
     | SetEmptyKey => (st, RErr REmptyKey, false)
     end)
    (sem m now (CSet k v c exp)).
Proof.
  intros HR Hk (Hc & Hex & Hexp & Hz). unfold b_set, sem, step_ok. rewrite (nonempty_false _ Hk).
  rewrite (sget_some st m now k HR).
  assert (HP : R (put st k {| e_val := v; e_exp := so_exp o; e_del := false |}) (upd m k (Some (v, exp)))).
  { pose proof (put_R st m k {| e_val := v; e_exp := so_exp o; e_del := false |} HR) as HP.
    unfold abs_entry in HP. cbn in HP. subst exp.
    destruct (so_has o); [destruct (so_exp o =? 0) eqn:E; [lia|exact HP] | rewrite Hz in *; exact HP]. }
  subst c. unfold cond_of.
  destruct (so_nx o), (so_xx o); try discriminate; cbn [orb andb negb];
    destruct (tget st now k); cbn [negb]; repeat split; auto.
Qed.

Lemma exec_refines st m now args :
  R st m -> now < clock_bound ->
  forallb (fun k => negb (is_empty k)) (cmd_keys (decode now args)) = true ->
  step_ok st m (execute current st now args) (spec_exec m now args).
Proof.
  intros HR Hc Hk. revert Hk. unfold spec_exec, decode, execute.
  destruct args as [|a0 rest]; [intros _; cbn; repeat split; auto|].
  set (cmd := upper a0).
  destruct (name_is cmd n_PING).
  { cbn [fix_ping current]. destruct rest as [|m1 [|m2 r]]; intros _; cbn; repeat split; auto. }
  destruct (name_is cmd n_ECHO).
  { destruct rest as [|m1 [|m2 r]]; intros _; cbn; repeat split; auto. }
  destruct (name_is cmd n_GET).
  { destruct rest as [|k [|k2 r]]; try (intros _; cbn; repeat split; auto; fail).
    cbn [cmd_keys forallb]. intro Hk. apply andb_true_iff in Hk as [Hk _].
    unfold b_get. rewrite (nonempty_false _ Hk). cbn [sem]. rewrite (tget_sget st m now k HR).
    destruct (tget st now k) as [e|] eqn:E; cbn; [|repeat split; auto].
    unfold abs_entry. rewrite (tget_live _ _ _ _ E). cbn. repeat split; auto. }
  destruct (name_is cmd n_SET).
  { destruct rest as [|k [|v opts]]; try (intros _; cbn; repeat split; auto; fail).
    pose proof (set_opts_agree now (List.length opts) Hc opts
                  {| so_nx := false; so_xx := false; so_exp := 0; so_has := false |} CondNone None
                  (le_n _)) as Hag.
    specialize (Hag ltac:(unfold opts_rel; cbn; repeat split; auto)).
    destruct (set_options current now opts {| so_nx := false; so_xx := false; so_exp := 0; so_has := false |}) as [e|o];
      destruct (decode_set_opts now opts CondNone None) as [e'|[c exp]]; cbn in Hag; try contradiction.
    - subst e'. intros _. cbn. repeat split; auto.
    - cbn [cmd_keys forallb]. intro Hk. apply andb_true_iff in Hk as [Hk _].
      apply set_refines; assumption. }
  destruct (name_is cmd n_DEL).
  { destruct rest as [|k ks]; [intros _; cbn; repeat split; auto|].
    cbn [cmd_keys]. intro Hk.
    destruct (del_refines (k :: ks) st m now 0%Z HR Hk) as [st' [Hd HR']].
    rewrite Hd. cbn [sem]. destruct (s_del m now (k :: ks) 0) as [m' n]. cbn in *. repeat split; auto. }
  destruct (name_is cmd n_MGET).
  { destruct rest as [|k ks]; [intros _; cbn; repeat split; auto|].
    cbn [cmd_keys]. intro Hk. rewrite (mget_refines (k :: ks) st m now HR Hk), map_arr_elem.
    cbn. repeat split; auto. }
  destruct (name_is cmd n_MSET).
  { destruct rest as [|x [|y r]].
    - intros _. cbn. repeat split; auto.
    - intros _. cbn. repeat split; auto.
    - cbn [List.length]. 
      replace ((S (S (S (List.length r))) <? 3)%nat) with false by (symmetry; apply PeanoNat.Nat.ltb_ge; lia).
      cbn [orb]. destruct (Nat.even (S (S (List.length r)))) eqn:Eev; cbn [negb].
      + cbn [cmd_keys]. intro Hk.
        destruct (mset_refines (pairs_of (x :: y :: r)) st m HR Hk) as [st' [Hs HR']].
        rewrite Hs. cbn. repeat split; auto.
      + intros _. cbn. repeat split; auto. }
  destruct (name_is cmd n_INCR).
  { destruct rest as [|k [|k2 r]]; try (intros _; cbn; repeat split; auto; fail).
    cbn [cmd_keys forallb]. intro Hk. apply andb_true_iff in Hk as [Hk _].
    pose proof (incr_refines st m now k 1%Z HR Hk ltac:(unfold min_int64, max_int64, two63; lia)) as Hi.
    destruct (do_incr st now k 1) as [st' r]. destruct (sem m now (CIncrBy k 1)) as [[m' r'] q].
    destruct Hi as (H1 & H2 & H3). subst. cbn. repeat split; auto. }
  destruct (name_is cmd n_DECR).
  { destruct rest as [|k [|k2 r]]; try (intros _; cbn; repeat split; auto; fail).
    cbn [cmd_keys forallb]. intro Hk. apply andb_true_iff in Hk as [Hk _].
    pose proof (incr_refines st m now k (-1)%Z HR Hk ltac:(unfold min_int64, max_int64, two63; lia)) as Hi.
    destruct (do_incr st now k (-1)) as [st' r]. destruct (sem m now (CIncrBy k (-1))) as [[m' r'] q].
    destruct Hi as (H1 & H2 & H3). subst. cbn. repeat split; auto. }
  destruct (name_is cmd n_INCRBY).
  { destruct rest as [|k [|d [|x r]]]; try (intros _; cbn; repeat split; auto; fail).
    destruct (atoi d) as [delta|] eqn:Ea; [|intros _; cbn; repeat split; auto].
    cbn [cmd_keys forallb]. intro Hk. apply andb_true_iff in Hk as [Hk _].
    pose proof (incr_refines st m now k delta HR Hk (atoi_range _ _ Ea)) as Hi.
    destruct (do_incr st now k delta) as [st' r]. destruct (sem m now (CIncrBy k delta)) as [[m' r'] q].
    destruct Hi as (H1 & H2 & H3). subst. cbn. repeat split; auto. }
  destruct (name_is cmd n_DECRBY).
  { destruct rest as [|k [|d [|x r]]]; try (intros _; cbn; repeat split; auto; fail).
    destruct (atoi d) as [delta|] eqn:Ea; [|intros _; cbn; repeat split; auto].
    cbn [fix_decrby current andb].
    destruct (delta =? min_int64)%Z eqn:Emin; [intros _; cbn; repeat split; auto|].
    pose proof (atoi_range _ _ Ea) as Hr.
    assert (Hneg : (min_int64 <= - delta <= max_int64)%Z) by (unfold min_int64, max_int64, two63 in *; lia).
    rewrite (wrap64_small _ Hneg).
    cbn [cmd_keys forallb]. intro Hk. apply andb_true_iff in Hk as [Hk _].
    pose proof (incr_refines st m now k (- delta)%Z HR Hk Hneg) as Hi.
    destruct (do_incr st now k (- delta)) as [st' r]. destruct (sem m now (CIncrBy k (- delta))) as [[m' r'] q].
    destruct Hi as (H1 & H2 & H3). subst. cbn. repeat split; auto. }
  destruct (name_is cmd n_EXISTS).
  { destruct rest as [|k ks]; [intros _; cbn; repeat split; auto|].
    cbn [cmd_keys]. intro Hk. rewrite (exists_refines (k :: ks) st m now 0%Z HR Hk).
    cbn [sem Z.add]. cbn. repeat split; auto. }
  destruct (name_is cmd n_QUIT); intros _; cbn; repeat split; auto.
Qed.

(** * Command sequences *)
Definition clocks_ok (cmds : list (N * list bytes)) : bool :=
  forallb (fun c => fst c <? clock_bound) cmds.

Theorem run_refines cmds : forall st m,
  R st m -> clocks_ok cmds = true -> keys_nonempty cmds = true ->
  snd (run current st cmds) = snd (spec_run m cmds)
  /\ R (fst (run current st cmds)) (fst (spec_run m cmds)).
Proof.
  induction cmds as [|[now args] cs IH]; intros st m HR Hc Hk; [cbn; auto|].
  cbn [clocks_ok forallb fst] in Hc. apply andb_true_iff in Hc as [Hc1 Hc2]. apply N.ltb_lt in Hc1.
  cbn [keys_nonempty forallb fst snd] in Hk. apply andb_true_iff in Hk as [Hk1 Hk2].
  pose proof (exec_refines st m now args HR Hc1 Hk1) as Hs.
  cbn [run spec_run]. unfold step_ok in Hs.
  destruct (execute current st now args) as [[st' r] q].
  destruct (spec_exec m now args) as [[m' r'] q'].
  destruct Hs as (Hr & Hq & HR'). subst r' q'.
  destruct q; [cbn; auto|].
  specialize (IH st' m' HR' Hc2 Hk2).
  destruct (run current st' cs) as [st'' rs]. destruct (spec_run m' cs) as [m'' rs'].
  cbn in *. destruct IH as [H1 H2]. subst. auto.
Qed.

Corollary refines_from_empty cmds :
  clocks_ok cmds = true -> keys_nonempty cmds = true ->
  snd (run current [] cmds) = snd (spec_run empty_map cmds)
  /\ forall k, abs (fst (run current [] cmds)) k = fst (spec_run empty_map cmds) k.
Proof. intros Hc Hk. apply (run_refines cmds [] empty_map R_init Hc Hk). Qed.

(** The hypotheses hold on a non-trivial sequence (SET with expiry, INCR, DEL, MGET). *)
Definition sample_cmds : list (N * list bytes) :=
  [(1700000000, [n_SET; k1; of_string "41"%string; n_EX; of_string "100"%string; n_NX]);
   (1700000001, [n_INCR; k1]); (1700000002, [n_MGET; k1; v1]); (1700000200, [n_GET; k1]);
   (1700000200, [n_DEL; k1; k1])].
Example refines_hypotheses_satisfiable :
  clocks_ok sample_cmds = true /\ keys_nonempty sample_cmds = true
  /\ snd (run current [] sample_cmds)
     = [RSimple n_OK; RInt 42; RArr [Some (of_string "42"%string); None]; RNil; RInt 0].
Proof. vm_compute. repeat split; reflexivity. Qed.

Lemma replies_eqb_eq a : forall b, replies_eqb a b = true <-> a = b.
Proof.
  induction a as [|x a IH]; intros [|y b]; cbn [replies_eqb]; split; intro H; try congruence; try discriminate.
  - apply andb_true_iff in H as [H1 H2]. apply bytes_eqb_eq in H1. apply IH in H2. congruence.
  - inversion H; subst. apply andb_true_iff. split; [apply bytes_eqb_refl | now apply IH].
Qed.

Lemma conforms_b_spec cmds obs : conforms_b cmds obs = true <-> conforms cmds obs.
Proof. unfold conforms_b, conforms. apply replies_eqb_eq. Qed.

(** * Millisecond deadlines (known finding C29-F2): the store keeps whole seconds *)
From NoKV Require Import Spec.RedisMsSpec.

(* at 1000000.000 s: SET u 41 PXAT <300 ms later>; 1 ms later: GET u *)
Definition w_pxat_ms : list (N * list bytes) :=
  [(1000000000, [n_SET; k1; of_string "41"%string; n_PXAT; of_string "1000000300"%string]);
   (1000000001, [n_GET; k1])].

Lemma ms_granularity_refuted :
  snd (run current [] (to_seconds w_pxat_ms)) = [RSimple n_OK; RNil]
  /\ snd (spec_run_ms 0 empty_map w_pxat_ms) = [RSimple n_OK; RBulk (of_string "41"%string)]
  /\ within_granularity w_pxat_ms (map encode_reply [RSimple n_OK; RNil]) = true.
Proof. vm_compute. repeat split; reflexivity. Qed.

(* in the late direction: SET u 41 PX 1 at .050 s is still readable 10 ms later *)
Definition w_px_late : list (N * list bytes) :=
  [(1000000050, [n_SET; k1; of_string "41"%string; n_PX; of_string "1"%string]);
   (1000000060, [n_GET; k1])].

Lemma ms_granularity_late_refuted :
  snd (run current [] (to_seconds w_px_late)) = [RSimple n_OK; RBulk (of_string "41"%string)]
  /\ snd (spec_run_ms 0 empty_map w_px_late) = [RSimple n_OK; RNil]
  /\ within_granularity w_px_late (map encode_reply [RSimple n_OK; RBulk (of_string "41"%string)]) = true.
Proof. vm_compute. repeat split; reflexivity. Qed.

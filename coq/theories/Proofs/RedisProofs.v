(** Proofs for C29: the model of execute + embedded backend refines the
    reference semantics of Spec/RedisSpec.v. *)
From Coq Require Import List NArith ZArith Bool Lia ZifyN ZifyNat ZifyBool.
From Coq Require Import Init.Byte String.
Local Close Scope string_scope.
From NoKV Require Import Base.Bytes Model.Resp Model.Redis Spec.RedisSpec.
Import ListNotations.
Local Open Scope N_scope.

(** * Before the repairs ([original]) the gateway contradicts the reference *)
Definition k1 : bytes := [x6b].
Definition v1 : bytes := [x76].
Definition min_txt : bytes := of_string "-9223372036854775808"%string.
Definition max_txt : bytes := of_string "9223372036854775807"%string.

Definition w_decrby : list (N * list bytes) := [(100, [n_DECRBY; k1; min_txt]); (100, [n_GET; k1])].
Definition w_ping : list (N * list bytes) := [(100, [n_PING; []])].
Definition w_ping3 : list (N * list bytes) := [(100, [n_PING; v1; v1])].
Definition w_expire : list (N * list bytes) := [(100, [n_SET; k1; v1; n_EX; max_txt])].
Definition w_empty : list (N * list bytes) := [(100, [n_SET; k1; []]); (100, [n_GET; k1]); (100, [n_MGET; k1])].

Lemma original_decrby_refuted :
  snd (run original [] w_decrby) = [RInt min_int64; RBulk min_txt]
  /\ snd (spec_run empty_map w_decrby) = [RErr ROverflow; RNil].
Proof. vm_compute. split; reflexivity. Qed.

Lemma original_ping_refuted :
  snd (run original [] w_ping) = [RSimple n_PONG] /\ snd (spec_run empty_map w_ping) = [RBulk []]
  /\ snd (run original [] w_ping3) = [RBulk v1] /\ snd (spec_run empty_map w_ping3) = [RErr (RArity n_PING)].
Proof. vm_compute. repeat split; reflexivity. Qed.

Lemma original_expire_refuted :
  snd (run original [] w_expire) = [RSimple n_OK]
  /\ snd (spec_run empty_map w_expire) = [RErr RInvalidExpire]
  /\ option_map e_exp (find (fst (run original [] w_expire)) k1) = Some 101.
Proof. vm_compute. repeat split; reflexivity. Qed.

Lemma original_empty_value_refuted :
  snd (run original [] w_empty) = [RSimple n_OK; RNil; RArr [None]]
  /\ snd (spec_run empty_map w_empty) = [RSimple n_OK; RBulk []; RArr [Some []]].
Proof. vm_compute. split; reflexivity. Qed.

(** The empty key: NoKV rejects it, the reference stores it. *)
Definition w_empty_key : list (N * list bytes) := [(100, [n_SET; []; v1]); (100, [n_GET; []])].
Lemma empty_key_refuted :
  snd (run current [] w_empty_key) = [RErr REmptyKey; RErr REmptyKey]
  /\ snd (spec_run empty_map w_empty_key) = [RSimple n_OK; RBulk v1]
  /\ keys_nonempty w_empty_key = false.
Proof. vm_compute. repeat split; reflexivity. Qed.

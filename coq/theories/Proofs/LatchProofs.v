(** Proofs for C20 (key latches). *)
From Coq Require Import List NArith Bool Arith Lia ZifyN ZifyNat ZifyBool Sorted.
From NoKV Require Import Base.Bytes Base.Sched Model.SchedLib Model.Latch Spec.LatchSpec Proofs.SchedLibProofs.
Import ListNotations.
Local Open Scope N_scope.

(** * list helpers *)
Lemma memN_In x l : memN x l = true <-> In x l.
Proof.
  induction l as [|y l IH]; cbn; [split; [discriminate|tauto]|].
  rewrite orb_true_iff, IH, N.eqb_eq. split; intros [H|H]; auto.
Qed.

Lemma insertN_In x y l : In y (insertN x l) <-> y = x \/ In y l.
Proof.
  induction l as [|z l IH]; cbn; [intuition|].
  destruct (x <=? z); cbn; [intuition|]. rewrite IH. intuition.
Qed.

Lemma sortN_In y l : In y (sortN l) <-> In y l.
Proof.
  induction l as [|z l IH]; cbn; [tauto|]. rewrite insertN_In, IH. intuition.
Qed.

Lemma insertN_sorted x l :
  StronglySorted N.lt l -> ~ In x l -> StronglySorted N.lt (insertN x l).
Proof.
  induction 1 as [|z l Hs IH Hall]; intros Hn; cbn.
  - constructor; constructor.
  - destruct (x <=? z) eqn:E.
    + assert (Hlt : x < z) by (apply N.leb_le in E; assert (x <> z) by (intro; subst; apply Hn; now left); lia).
      constructor; [now constructor|]. constructor; [exact Hlt|].
      rewrite Forall_forall in *. intros w Hw. specialize (Hall w Hw). lia.
    + apply N.leb_gt in E. constructor.
      * apply IH. intro; apply Hn; now right.
      * rewrite Forall_forall in *. intros w Hw. apply insertN_In in Hw as [->|Hw]; auto.
Qed.

Lemma sortN_sorted l : NoDup l -> StronglySorted N.lt (sortN l).
Proof.
  induction 1 as [|x l Hn Hd IH]; cbn; [constructor|].
  apply insertN_sorted; [exact IH|]. now rewrite sortN_In.
Qed.

Lemma sorted_lt_NoDup l : StronglySorted N.lt l -> NoDup l.
Proof.
  induction 1 as [|z l Hs IH Hall]; constructor; auto.
  intro Hin. rewrite Forall_forall in Hall. specialize (Hall z Hin). lia.
Qed.

Lemma sorted_app_lt (a : list N) x b y :
  StronglySorted N.lt (a ++ x :: b) -> In y a -> y < x.
Proof.
  induction a as [|z a IH]; cbn; [tauto|].
  intros Hs [->|Hin].
  - inversion Hs as [|? ? _ Hall]; subst. rewrite Forall_forall in Hall. apply Hall.
    apply in_or_app. right. now left.
  - inversion Hs; subst. auto.
Qed.

Lemma max_exists (l : list (option N)) :
  (exists i s, nth_error l i = Some (Some s)) ->
  exists i s, nth_error l i = Some (Some s) /\
              forall j s', nth_error l j = Some (Some s') -> s' <= s.
Proof.
  induction l as [|a l IH]; intros (i & s & H).
  - destruct i; discriminate.
  - destruct (find_or_all (fun o : option N => match o with Some _ => true | None => false end) l)
      as [(j & x & Hj & Hx)|Hnone].
    + destruct x as [sx|]; [|discriminate].
      destruct IH as (m & sm & Hm & Hmax); [eauto|].
      destruct a as [sa|].
      * destruct (sa <=? sm) eqn:E.
        -- exists (S m), sm. split; [exact Hm|]. intros [|k] s' Hk; cbn in Hk.
           ++ inversion Hk; subst. now apply N.leb_le.
           ++ eauto.
        -- apply N.leb_gt in E. exists O, sa. split; [reflexivity|]. intros [|k] s' Hk; cbn in Hk.
           ++ inversion Hk; subst. lia.
           ++ specialize (Hmax _ _ Hk). lia.
      * exists (S m), sm. split; [exact Hm|]. intros [|k] s' Hk; cbn in Hk; [discriminate|eauto].
    + destruct i as [|i]; cbn in H.
      * inversion H; subst. exists O, s. split; [reflexivity|].
        intros [|k] s' Hk; cbn in Hk; [inversion Hk; lia|]. apply Hnone in Hk. discriminate.
      * apply Hnone in H. discriminate.
Qed.

Lemma NoDup_snoc {A} (l : list A) x : NoDup l -> ~ In x l -> NoDup (l ++ [x]).
Proof.
  induction 1 as [|y l Hn Hd IH]; intros Hx; cbn; [constructor; [tauto|constructor]|].
  constructor.
  - intro Hin. apply in_app_or in Hin as [Hin|[->|[]]]; [tauto|]. apply Hx. now left.
  - apply IH. intro; apply Hx; now right.
Qed.

Lemma NoDup_app_l {A} (a b : list A) : NoDup (a ++ b) -> NoDup a.
Proof.
  induction a as [|x a IH]; cbn; [constructor|]. intros H. inversion H as [|? ? Hn Hd]; subst.
  constructor; [|auto]. intro Hin. apply Hn. apply in_or_app. now left.
Qed.

(** * locks *)
Lemma holder_None s (l : locks) : holder s l = None <-> ~ In s (map fst l).
Proof.
  induction l as [|[s' t] l IH]; cbn; [tauto|].
  destruct (s =? s') eqn:E.
  - apply N.eqb_eq in E. subst. split; [discriminate|]. intros H; exfalso; apply H; now left.
  - apply N.eqb_neq in E. rewrite IH. split; intros H; [intros [H'|H']; [congruence|tauto]|tauto].
Qed.

Lemma holder_Some s t (l : locks) : holder s l = Some t -> In (s, t) l.
Proof.
  induction l as [|[s' t'] l IH]; cbn; [discriminate|].
  destruct (s =? s') eqn:E.
  - apply N.eqb_eq in E. subst. intros [= ->]. now left.
  - intros H. right. auto.
Qed.

Lemma fst_unique (l : locks) s a b :
  NoDup (map fst l) -> In (s, a) l -> In (s, b) l -> a = b.
Proof.
  induction l as [|[s' t'] l IH]; cbn; [tauto|].
  intros Hd Ha Hb. inversion Hd as [|? ? Hn Hd']; subst.
  destruct Ha as [Ha|Ha], Hb as [Hb|Hb].
  - congruence.
  - inversion Ha; subst. exfalso. apply Hn. apply (in_map fst) in Hb. exact Hb.
  - inversion Hb; subst. exfalso. apply Hn. apply (in_map fst) in Ha. exact Ha.
  - eauto.
Qed.

Lemma In_unlock (l : locks) s s' t' :
  NoDup (map fst l) -> (In (s', t') (unlock s l) <-> In (s', t') l /\ s' <> s).
Proof.
  induction l as [|[s2 t2] l IH]; cbn; [tauto|].
  intros Hd. inversion Hd as [|? ? Hn Hd']; subst.
  destruct (s =? s2) eqn:E.
  - apply N.eqb_eq in E. subst. split.
    + intros H. split; [now right|]. intros ->. apply Hn. apply (in_map fst) in H. exact H.
    + intros [[H|H] Hne]; [congruence|exact H].
  - apply N.eqb_neq in E. cbn. rewrite IH by exact Hd'. split.
    + intros [H|[H Hne]]; [inversion H; subst; split; [now left|congruence]|split; [now right|exact Hne]].
    + intros [[H|H] Hne]; [now left|right; tauto].
Qed.

Lemma NoDup_unlock (l : locks) s : NoDup (map fst l) -> NoDup (map fst (unlock s l)).
Proof.
  induction l as [|[s2 t2] l IH]; cbn; [auto|].
  intros Hd. inversion Hd as [|? ? Hn Hd']; subst.
  destruct (s =? s2); [exact Hd'|]. cbn. constructor; [|auto].
  intros Hin. apply Hn. apply in_map_iff in Hin as ([a b] & Hab & Hin). cbn in Hab; subst.
  apply In_unlock in Hin as [Hin _]; [|exact Hd']. apply (in_map fst) in Hin. exact Hin.
Qed.

Section Proofs.
  Variable nstripes : N.
  Variable hash : bytes -> N.

  Notation stripe_of := (stripe_of nstripes hash).
  Notation indices := (indices nstripes hash).
  Notation slots_of := (slots_of nstripes hash).
  Notation init := (init nstripes hash).

  (** * slots *)
  Lemma indices_acc keys acc x : In x acc -> In x (indices keys acc).
  Proof.
    revert acc; induction keys as [|k ks IH]; intros acc H; cbn; [exact H|].
    destruct (key_empty k); [auto|]. destruct (memN _ acc); [auto|].
    apply IH. apply in_or_app. now left.
  Qed.

  Lemma indices_key keys acc k : k <> [] -> In k keys -> In (stripe_of k) (indices keys acc).
  Proof.
    revert acc; induction keys as [|k' ks IH]; intros acc Hne Hin; [destruct Hin|].
    destruct Hin as [->|Hin]; cbn.
    - destruct k as [|b k]; [congruence|]. cbn [key_empty].
      destruct (memN _ acc) eqn:E.
      + apply indices_acc. now apply memN_In.
      + apply indices_acc. apply in_or_app. right. now left.
    - destruct (key_empty k'); [auto|]. destruct (memN _ acc); auto.
  Qed.

  Lemma indices_NoDup keys acc : NoDup acc -> NoDup (indices keys acc).
  Proof.
    revert acc; induction keys as [|k ks IH]; intros acc H; cbn; [exact H|].
    destruct (key_empty k); [auto|]. destruct (memN _ acc) eqn:E; [auto|].
    apply IH. apply NoDup_snoc; auto.
    intro Hin. apply memN_In in Hin. congruence.
  Qed.

  Lemma slots_NoDup keys : NoDup (slots_of keys).
  Proof. apply sorted_lt_NoDup, sortN_sorted, indices_NoDup. constructor. Qed.

  Lemma slots_sorted keys : StronglySorted N.lt (slots_of keys).
  Proof. apply sortN_sorted, indices_NoDup. constructor. Qed.

  Lemma slots_key keys k : k <> [] -> In k keys -> In (stripe_of k) (slots_of keys).
  Proof. intros. apply sortN_In. now apply indices_key. Qed.

  (** * the invariant *)
  Definition held_of (p : pc) : list N :=
    match p with Acq d _ => d | Crit h => h | Rel h => h | Fin => [] end.

  Definition wf_pc (keys : list bytes) (p : pc) : Prop :=
    match p with
    | Acq d todo => rev d ++ todo = slots_of keys /\ todo <> []
    | Crit h => rev h = slots_of keys
    | Rel h => NoDup h /\ h <> []
    | Fin => True
    end.

  Record Inv (g : gstate) : Prop := {
    inv_nodup : NoDup (map fst (g_locks g));
    inv_owner : forall s t, In (s, t) (g_locks g) ->
                  exists th, nth_error (g_threads g) t = Some th /\ In s (held_of (th_pc th));
    inv_held : forall t th s, nth_error (g_threads g) t = Some th -> In s (held_of (th_pc th)) ->
                  In (s, t) (g_locks g);
    inv_wf : forall t th, nth_error (g_threads g) t = Some th -> wf_pc (th_keys th) (th_pc th)
  }.

  Lemma held_NoDup keys p : wf_pc keys p -> NoDup (held_of p).
  Proof.
    destruct p as [d todo|h|h|]; cbn; intros H.
    - destruct H as [H _]. pose proof (slots_NoDup keys) as Hd. rewrite <- H in Hd.
      apply NoDup_app_l in Hd. apply NoDup_rev in Hd. now rewrite rev_involutive in Hd.
    - pose proof (slots_NoDup keys) as Hd. rewrite <- H in Hd.
      apply NoDup_rev in Hd. now rewrite rev_involutive in Hd.
    - tauto.
    - constructor.
  Qed.

  Lemma start_wf keys : wf_pc keys (start_pc nstripes hash keys).
  Proof.
    unfold start_pc. destruct (slots_of keys) eqn:E; cbn; [now rewrite E|].
    rewrite E. split; [reflexivity|discriminate].
  Qed.

  Lemma start_held keys : held_of (start_pc nstripes hash keys) = [].
  Proof. unfold start_pc. now destruct (slots_of keys). Qed.

  Lemma Inv_init reqs : Inv (init reqs).
  Proof.
    constructor; cbn.
    - constructor.
    - tauto.
    - intros t th s Hn Hin. rewrite nth_error_map in Hn.
      destruct (nth_error reqs t); cbn in Hn; [|discriminate]. inversion Hn; subst. cbn in Hin.
      now rewrite start_held in Hin.
    - intros t th Hn. rewrite nth_error_map in Hn.
      destruct (nth_error reqs t); cbn in Hn; [|discriminate]. inversion Hn; subst. cbn.
      apply start_wf.
  Qed.

  Definition next_rel (h : list N) : pc := match h with [] => Fin | _ => Rel h end.
  Lemma held_next_rel h : held_of (next_rel h) = h.
  Proof. now destruct h. Qed.
  Lemma held_after_lock d todo : held_of (after_lock d todo) = d.
  Proof. now destruct todo. Qed.

  (** a step only changes thread [t] and changes its held set as described *)
  Lemma Inv_step g t g' : Inv g -> tstep g t = Some g' -> Inv g'.
  Proof.
    intros [Hd Ho Hh Hw] Hs. unfold tstep in Hs.
    destruct (nth_error (g_threads g) t) as [th|] eqn:Et; [|discriminate].
    pose proof (Hw _ _ Et) as Hwt.
    destruct th as [keys p]; cbn in *.
    destruct p as [d [|s todo]|h|[|s h]|]; cbn in Hs; try discriminate.
    - (* lock *)
      destruct (holder s (g_locks g)) eqn:Eh; [discriminate|]. inversion Hs; subst; clear Hs.
      apply holder_None in Eh. destruct Hwt as [Hsl _].
      constructor; cbn.
      + constructor; assumption.
      + intros s' t' [Heq|Hin].
        * inversion Heq; subst. eexists. split; [eapply nth_error_set_nth_eq; eauto|].
          cbn. rewrite held_after_lock. now left.
        * destruct (Ho _ _ Hin) as (th' & Hn & Hi). destruct (Nat.eq_dec t t') as [<-|Hne].
          -- eexists. split; [eapply nth_error_set_nth_eq; eauto|]. cbn. rewrite held_after_lock.
             rewrite Et in Hn. inversion Hn; subst. cbn in Hi. now right.
          -- exists th'. rewrite nth_error_set_nth_neq by exact Hne. auto.
      + intros u thu s' Hn Hi. destruct (Nat.eq_dec t u) as [<-|Hne].
        * erewrite nth_error_set_nth_eq in Hn by eauto. inversion Hn; subst. cbn in Hi.
          rewrite held_after_lock in Hi. destruct Hi as [->|Hi]; [now left|].
          right. eapply Hh; eauto.
        * rewrite nth_error_set_nth_neq in Hn by exact Hne. right. eauto.
      + intros u thu Hn. destruct (Nat.eq_dec t u) as [<-|Hne].
        * erewrite nth_error_set_nth_eq in Hn by eauto. inversion Hn; subst. cbn.
          destruct todo as [|s2 todo]; cbn.
          -- exact Hsl.
          -- split; [|discriminate]. rewrite <- Hsl. now rewrite <- app_assoc.
        * rewrite nth_error_set_nth_neq in Hn by exact Hne. eauto.
    - (* Crit -> Rel *)
      inversion Hs; subst; clear Hs.
      assert (Hnd : NoDup h) by (apply (held_NoDup keys (Crit h)); exact Hwt).
      constructor; cbn.
      + assumption.
      + intros s' t' Hin. destruct (Ho _ _ Hin) as (th' & Hn & Hi).
        destruct (Nat.eq_dec t t') as [<-|Hne].
        * eexists. split; [eapply nth_error_set_nth_eq; eauto|]. cbn.
          rewrite Et in Hn. inversion Hn; subst. cbn in Hi. change (In s' (held_of (next_rel h))).
          now rewrite held_next_rel.
        * exists th'. rewrite nth_error_set_nth_neq by exact Hne. auto.
      + intros u thu s' Hn Hi. destruct (Nat.eq_dec t u) as [<-|Hne].
        * erewrite nth_error_set_nth_eq in Hn by eauto. inversion Hn; subst. cbn in Hi.
          change (In s' (held_of (next_rel h))) in Hi. rewrite held_next_rel in Hi.
          eapply Hh; eauto.
        * rewrite nth_error_set_nth_neq in Hn by exact Hne. eauto.
      + intros u thu Hn. destruct (Nat.eq_dec t u) as [<-|Hne].
        * erewrite nth_error_set_nth_eq in Hn by eauto. inversion Hn; subst. cbn.
          destruct h; cbn; [exact I|]. split; [exact Hnd|discriminate].
        * rewrite nth_error_set_nth_neq in Hn by exact Hne. eauto.
    - (* unlock *)
      inversion Hs; subst; clear Hs. destruct Hwt as [Hnd _].
      inversion Hnd as [|? ? Hnin Hnd']; subst.
      assert (Hst : In (s, t) (g_locks g)) by (eapply Hh; eauto; cbn; now left).
      constructor; cbn.
      + now apply NoDup_unlock.
      + intros s' t' Hin. apply In_unlock in Hin as [Hin Hne']; [|exact Hd].
        destruct (Ho _ _ Hin) as (th' & Hn & Hi).
        destruct (Nat.eq_dec t t') as [<-|Hne].
        * eexists. split; [eapply nth_error_set_nth_eq; eauto|]. cbn.
          rewrite Et in Hn. inversion Hn; subst. cbn in Hi. change (In s' (held_of (next_rel h))).
          rewrite held_next_rel. destruct Hi as [Hi|Hi]; [congruence|exact Hi].
        * exists th'. rewrite nth_error_set_nth_neq by exact Hne. auto.
      + intros u thu s' Hn Hi. apply In_unlock; [exact Hd|]. destruct (Nat.eq_dec t u) as [<-|Hne].
        * erewrite nth_error_set_nth_eq in Hn by eauto. inversion Hn; subst. cbn in Hi.
          change (In s' (held_of (next_rel h))) in Hi. rewrite held_next_rel in Hi.
          split; [eapply Hh; eauto; cbn; now right|]. intros ->. tauto.
        * rewrite nth_error_set_nth_neq in Hn by exact Hne. split; [eauto|].
          intros ->. apply Hne. eapply fst_unique; eauto.
      + intros u thu Hn. destruct (Nat.eq_dec t u) as [<-|Hne].
        * erewrite nth_error_set_nth_eq in Hn by eauto. inversion Hn; subst. cbn.
          destruct h; cbn; [exact I|]. split; [exact Hnd'|discriminate].
        * rewrite nth_error_set_nth_neq in Hn by exact Hne. eauto.
  Qed.

  Lemma Inv_reachable reqs g : reachable tstep (init reqs) g -> Inv g.
  Proof. apply inv_reachable; [apply Inv_init | intros; eapply Inv_step; eauto]. Qed.

  (** * C20_mutex *)
  Definition in_crit (g : gstate) (t : nat) (keys : list bytes) : Prop :=
    exists h, nth_error (g_threads g) t = Some {| th_keys := keys; th_pc := Crit h |}.

  Theorem latch_mutex reqs g :
    reachable tstep (init reqs) g ->
    NoDup (map fst (g_locks g)) /\
    forall t1 t2 k1 k2, t1 <> t2 -> in_crit g t1 k1 -> in_crit g t2 k2 -> ~ conflict k1 k2.
  Proof.
    intros Hr. pose proof (Inv_reachable _ _ Hr) as [Hd Ho Hh Hw]. split; [exact Hd|].
    intros t1 t2 k1 k2 Hne [h1 H1] [h2 H2] (k & Hk & Hi1 & Hi2).
    apply Hne. apply (fst_unique (g_locks g) (stripe_of k)); [exact Hd| |].
    - eapply Hh; [exact H1|]. cbn. specialize (Hw _ _ H1). cbn in Hw.
      apply in_rev. rewrite Hw. now apply slots_key.
    - eapply Hh; [exact H2|]. cbn. specialize (Hw _ _ H2). cbn in Hw.
      apply in_rev. rewrite Hw. now apply slots_key.
  Qed.

  (** * C20_deadlock_free *)
  Definition want (th : thread) : option N :=
    match th_pc th with Acq _ (s :: _) => Some s | _ => None end.
  Definition movable (th : thread) : bool :=
    match th_pc th with Crit _ | Rel _ => true | _ => false end.

  Lemma Acq_sorted keys d s todo y :
    wf_pc keys (Acq d (s :: todo)) -> In y d -> y < s.
  Proof.
    intros [H _] Hin. pose proof (slots_sorted keys) as Hs. rewrite <- H in Hs.
    eapply sorted_app_lt; [exact Hs|]. now apply in_rev in Hin.
  Qed.

  Theorem latch_deadlock_free reqs g :
    reachable tstep (init reqs) g ->
    (exists t th, nth_error (g_threads g) t = Some th /\ th_pc th <> Fin) ->
    exists t g', tstep g t = Some g'.
  Proof.
    intros Hr (t0 & th0 & Hn0 & Hnf). pose proof (Inv_reachable _ _ Hr) as [Hd Ho Hh Hw].
    destruct (find_or_all movable (g_threads g)) as [(t & th & Hn & Hm)|Hnone].
    - exists t. unfold tstep. rewrite Hn. specialize (Hw _ _ Hn).
      destruct th as [keys p]. unfold movable in Hm. cbn in *.
      destruct p as [| h | [|s h] |]; try discriminate; cbn; eauto.
      destruct Hw as [_ Hw]. congruence.
    - (* every unfinished thread waits for a stripe *)
      assert (Hex : exists i s, nth_error (map want (g_threads g)) i = Some (Some s)).
      { exists t0. rewrite nth_error_map, Hn0. cbn. specialize (Hnone _ _ Hn0). specialize (Hw _ _ Hn0).
        unfold want, movable in *. destruct (th_pc th0) as [d [|s todo]| | |]; try discriminate; eauto.
        - destruct Hw as [_ Hw]. congruence.
        - congruence. }
      destruct (max_exists _ Hex) as (t & s & Ht & Hmax).
      rewrite nth_error_map in Ht. destruct (nth_error (g_threads g) t) as [th|] eqn:Hn; [|discriminate].
      cbn in Ht. inversion Ht as [Hws]; clear Ht.
      exists t. unfold tstep. rewrite Hn. destruct th as [keys p]. unfold want in Hws. cbn in *.
      destruct p as [d [|s1 todo]| | |]; try discriminate. inversion Hws; subst s1; clear Hws. cbn.
      destruct (holder s (g_locks g)) as [u|] eqn:Eh; [|eauto]. exfalso.
      apply holder_Some in Eh. destruct (Ho _ _ Eh) as (thu & Hnu & Hiu).
      pose proof (Hnone _ _ Hnu) as Hmu. pose proof (Hw _ _ Hnu) as Hwu.
      destruct thu as [ku pu]. unfold movable in Hmu. cbn in *.
      destruct pu as [du [|su todou]| | |]; try discriminate; cbn in Hiu; try tauto.
      + destruct Hwu as [_ Hwu]. congruence.
      + pose proof (Acq_sorted _ _ _ _ _ Hwu Hiu) as Hlt.
        assert (Hle : su <= s).
        { apply (Hmax u). rewrite nth_error_map, Hnu. reflexivity. }
        lia.
  Qed.

  Corollary latch_stuck_means_finished reqs g :
    reachable tstep (init reqs) g -> (forall t, tstep g t = None) ->
    forall t th, nth_error (g_threads g) t = Some th -> th_pc th = Fin.
  Proof.
    intros Hr Hstuck t th Hn. destruct (th_pc th) eqn:E; auto;
      destruct (latch_deadlock_free reqs g Hr) as (u & g' & Hs);
      try (rewrite Hstuck in Hs; discriminate); exists t, th; split; auto; congruence.
  Qed.

  (** * bounded executions (progress measure) *)
  Definition rank (g : gstate) : nat :=
    fold_right (fun th n => (pc_rank (th_pc th) + n)%nat) O (g_threads g).

  Lemma rank_set_nth (l : list thread) t th th' :
    nth_error l t = Some th -> (pc_rank (th_pc th') < pc_rank (th_pc th))%nat ->
    (fold_right (fun th n => (pc_rank (th_pc th) + n)%nat) O (set_nth t th' l) <
     fold_right (fun th n => (pc_rank (th_pc th) + n)%nat) O l)%nat.
  Proof.
    revert t; induction l as [|a l IH]; intros [|t]; cbn; try discriminate.
    - intros [= ->] H. lia.
    - intros Hn H. specialize (IH _ Hn H). lia.
  Qed.

  Lemma step_decreases g t g' : tstep g t = Some g' -> (rank g' < rank g)%nat.
  Proof.
    unfold tstep. destruct (nth_error (g_threads g) t) as [th|] eqn:Et; [|discriminate].
    destruct th as [keys p]. cbn.
    destruct (thread_step t (g_locks g) p) as [[l' p']|] eqn:Es; [|discriminate].
    intros [= <-]. unfold rank. cbn. eapply rank_set_nth; [exact Et|]. cbn.
    destruct p as [d [|s todo]|h|[|s h]|]; cbn in Es; try discriminate.
    - destruct (holder s (g_locks g)); [discriminate|]. inversion Es; subst.
      destruct todo; cbn; rewrite ?app_length; cbn; lia.
    - inversion Es; subst. destruct h; cbn; lia.
    - inversion Es; subst. destruct h; cbn; lia.
  Qed.

  Theorem latch_bounded reqs sched g :
    exec tstep (init reqs) sched = Some g -> (length sched + rank g <= rank (init reqs))%nat.
  Proof. apply rank_bounds_exec. intros; eapply step_decreases; eauto. Qed.

  (** * release is idempotent *)
  Theorem release_idempotent (l : locks) (gd : guard) :
    let '(l1, g1) := release l gd in release l1 g1 = (l1, g1).
  Proof. destruct gd as [[|s sl]|]; reflexivity. Qed.
End Proofs.

(** * the boolean oracle decides the trace specification *)
Lemma mem_key_In k l : mem_key k l = true <-> In k l.
Proof.
  induction l as [|x l IH]; cbn; [split; [discriminate|tauto]|].
  rewrite orb_true_iff, IH, bytes_eqb_eq. split; intros [H|H]; auto.
Qed.

Lemma conflict_b_spec a b : conflict_b a b = true <-> conflict a b.
Proof.
  unfold conflict_b, conflict. rewrite existsb_exists. split.
  - intros (k & Hin & H). destruct k as [|x k]; [discriminate|]. exists (x :: k).
    split; [discriminate|]. split; [exact Hin|now apply mem_key_In].
  - intros (k & Hne & Ha & Hb). exists k. split; [exact Ha|].
    destruct k; [congruence|now apply mem_key_In].
Qed.

Lemma exclusive_b_spec reqs evs : forall inside,
  exclusive_b reqs inside evs = true <-> exclusive reqs inside evs.
Proof.
  induction evs as [|[t|t] r IH]; intros inside; cbn; [tauto| |apply IH].
  rewrite andb_true_iff, IH, forallb_forall. split; intros [H1 H2]; split; auto.
  - intros u Hu Hc. specialize (H1 u Hu). apply conflict_b_spec in Hc. now rewrite Hc in H1.
  - intros u Hu. specialize (H1 u Hu). destruct (conflict_b _ _) eqn:E; [|reflexivity].
    apply conflict_b_spec in E. tauto.
Qed.

From Coq Require Import Init.Byte.
Import Byte.
(** non-vacuity: a reachable state with one request inside and a conflicting one blocked *)
Example latch_nonvacuous :
  let h := fun k : bytes => N.of_nat (length k) in
  let reqs := [[[x01]; [x02; x03]]; [[x02; x03]]] in
  let g := run tstep (init 4 h reqs) [0%nat; 0%nat; 1%nat] in
  in_crit g 0%nat [[x01]; [x02; x03]] /\ tstep g 1%nat = None /\ conflict (nth 0 reqs []) (nth 1 reqs []).
Proof.
  cbv zeta. split; [|split].
  - vm_compute. eexists. reflexivity.
  - vm_compute. reflexivity.
  - exists [x02; x03]. cbn. split; [discriminate|]. tauto.
Qed.

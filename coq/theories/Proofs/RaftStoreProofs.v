(** Proofs for C21 (Model/RaftStore.v against Spec/RaftStoreSpec.v). *)
From Coq Require Import List NArith Bool Lia ZifyN ZifyNat ZifyBool.
From NoKV Require Import Model.RaftStore Spec.RaftStoreSpec.
Import ListNotations.
Local Open Scope N_scope.

(** ** lists, [tag], [len] *)
Lemma len_nil {A} : len (@nil A) = 0. Proof. reflexivity. Qed.
Lemma len_cons {A} (x : A) l : len (x :: l) = len l + 1.
Proof. unfold len. cbn [length]. lia. Qed.
Lemma len_app {A} (l1 l2 : list A) : len (l1 ++ l2) = len l1 + len l2.
Proof. unfold len. rewrite app_length. lia. Qed.

Lemma ntake_0 {A} (l : list A) : ntake 0 l = [].
Proof. reflexivity. Qed.
Lemma ntake_succ {A} n (x : A) l : 0 < n -> ntake n (x :: l) = x :: ntake (n - 1) l.
Proof.
  intros Hn. unfold ntake. replace (N.to_nat n) with (S (N.to_nat (n - 1))) by lia. reflexivity.
Qed.
Lemma ndrop_0 {A} (l : list A) : ndrop 0 l = l.
Proof. reflexivity. Qed.
Lemma ndrop_succ {A} n (x : A) l : 0 < n -> ndrop n (x :: l) = ndrop (n - 1) l.
Proof.
  intros Hn. unfold ndrop. replace (N.to_nat n) with (S (N.to_nat (n - 1))) by lia. reflexivity.
Qed.
Lemma len_ntake {A} n (l : list A) : n <= len l -> len (ntake n l) = n.
Proof. unfold len, ntake. intros H. rewrite firstn_length. lia. Qed.
Lemma len_ndrop {A} n (l : list A) : len (ndrop n l) = len l - n.
Proof. unfold len, ndrop. rewrite skipn_length. lia. Qed.

Lemma tag_app i l1 l2 : tag i (l1 ++ l2) = tag i l1 ++ tag (i + len l1) l2.
Proof.
  revert i. induction l1 as [|e l1 IH]; intros i; cbn [tag app].
  - rewrite len_nil. f_equal. lia.
  - rewrite IH, len_cons. do 3 f_equal. lia.
Qed.

Lemma filter_tag_lt b f l :
  b <= f -> filter (fun p : N * entry => fst p <? f) (tag b l) = tag b (ntake (f - b) l).
Proof.
  revert b. induction l as [|e l IH]; intros b Hb.
  - unfold ntake. rewrite firstn_nil. reflexivity.
  - cbn [tag filter fst]. destruct (b <? f) eqn:Hlt.
    + rewrite ntake_succ by lia. cbn [tag]. f_equal. rewrite IH by lia. do 2 f_equal. lia.
    + replace (f - b) with 0 by lia. rewrite ntake_0. cbn [tag].
      assert (Hall : forall c l', f <= c -> filter (fun p : N * entry => fst p <? f) (tag c l') = []).
      { intros c l'. revert c. induction l' as [|e' l' IH']; intros c Hc; cbn [tag filter fst]; [reflexivity|].
        destruct (c <? f) eqn:E; [lia|]. apply IH'. lia. }
      apply Hall. lia.
Qed.

Lemma filter_tag_gt_all off first l :
  off < first -> filter (fun p : N * entry => off <? fst p) (tag first l) = tag first l.
Proof.
  revert first. induction l as [|e l IH]; intros first H; cbn [tag filter fst]; [reflexivity|].
  destruct (off <? first) eqn:E; [|lia]. f_equal. apply IH. lia.
Qed.

Lemma filter_tag_gt_drop off first l :
  first <= off ->
  filter (fun p : N * entry => off <? fst p) (tag first l) = tag (off + 1) (ndrop (off + 1 - first) l).
Proof.
  revert first. induction l as [|e l IH]; intros first H.
  - unfold ndrop. rewrite skipn_nil. reflexivity.
  - cbn [tag filter fst]. destruct (off <? first) eqn:E; [lia|].
    rewrite ndrop_succ by lia.
    destruct (N.eq_dec first off) as [->|Hne].
    + replace (off + 1 - off - 1) with 0 by lia. rewrite ndrop_0. apply filter_tag_gt_all. lia.
    + rewrite IH by lia. do 2 f_equal. lia.
Qed.

Lemma fold_last_tag b l d :
  fold_left (fun (_ : N) (p : N * entry) => fst p) (tag b l) d =
  match l with [] => d | _ => b + len l - 1 end.
Proof.
  revert b d. induction l as [|e l IH]; intros b d; [reflexivity|].
  cbn [tag fold_left fst]. rewrite IH. destruct l as [|e' l].
  - rewrite len_cons, len_nil. lia.
  - rewrite !len_cons. lia.
Qed.

(** ** replay, stripped of the pointer bookkeeping *)
Definition own (r : rec) : bool :=
  match r with
  | REntries g _ _ | RState g _ | RSnap g _ _ => g =? own_gid
  | RLsm => false
  end.

Definition rmem1 (m : mem) (r : rec) : res mem :=
  match replay1 (m, ptr_none) 0 r with Ok (m', _) => Ok m' | Err e => Err e end.

Fixpoint rmem (m : mem) (l : list rec) : res mem :=
  match l with
  | [] => Ok m
  | r :: l' => match rmem1 m r with Ok m' => rmem m' l' | Err e => Err e end
  end.

Lemma rmem_app m l1 l2 :
  rmem m (l1 ++ l2) = match rmem m l1 with Ok m' => rmem m' l2 | Err e => Err e end.
Proof.
  revert m. induction l1 as [|r l1 IH]; intros m; cbn [app rmem]; [reflexivity|].
  destruct (rmem1 m r); [apply IH|reflexivity].
Qed.

Lemma replay1_not_own mp pos r : own r = false -> replay1 mp pos r = Ok mp.
Proof.
  destruct mp as [m rp]. destruct r as [g f es|g h|g si st|]; cbn [own replay1]; intros H;
    try rewrite H; reflexivity.
Qed.

Lemma replay1_spec m rp pos r :
  match replay1 (m, rp) pos r with
  | Ok (m', rp') => rmem1 m r = Ok m' /\ (rp' = rp \/ (p_pos rp' = pos /\ is_raft r = true))
  | Err e => rmem1 m r = Err e
  end.
Proof.
  unfold rmem1. destruct r as [g f es|g h|g si st|]; cbn [replay1 is_raft].
  - destruct (negb (g =? own_gid)); [auto|]. destruct es as [|e es]; [auto|].
    destruct (mem_append m f (e :: es)); cbn; auto.
  - destruct (negb (g =? own_gid)); cbn; auto.
  - destruct (negb (g =? own_gid) || (si =? 0)); [auto|].
    destruct (mem_apply_snap m si st); cbn; auto.
  - auto.
Qed.

Lemma replay_rmem img : forall m rp pos m',
  rmem m (filter own img) = Ok m' ->
  exists rp', replay (m, rp) pos img = Ok (m', rp') /\
    (rp' = rp \/ exists (j : nat) r, nth_error img j = Some r /\ is_raft r = true /\
                                      p_pos rp' = pos + N.of_nat j + 1).
Proof.
  induction img as [|r img IH]; intros m rp pos m' H.
  - cbn in H. inversion H; subst. exists rp. split; [reflexivity|auto].
  - cbn [filter] in H. cbn [replay]. destruct (own r) eqn:Ho.
    + cbn [rmem] in H. pose proof (replay1_spec m rp (pos + 1) r) as Hs.
      destruct (replay1 (m, rp) (pos + 1) r) as [[m1 rp1]|e].
      * destruct Hs as [Hm1 Hrp1]. rewrite Hm1 in H.
        destruct (IH m1 rp1 (pos + 1) m' H) as [rp' [Hr Hp]]. exists rp'. split; [exact Hr|].
        destruct Hp as [->|[j [r' [Hn [Hraft Hpos]]]]].
        -- destruct Hrp1 as [->|[Hpos Hraft]]; [auto|].
           right. exists 0%nat, r. repeat split; auto. lia.
        -- right. exists (S j), r'. repeat split; auto. lia.
      * rewrite Hs in H. discriminate.
    + rewrite (replay1_not_own (m, rp) (pos + 1) r Ho).
      destruct (IH m rp (pos + 1) m' H) as [rp' [Hr Hp]]. exists rp'. split; [exact Hr|].
      destruct Hp as [->|[j [r' [Hn [Hraft Hpos]]]]]; [auto|].
      right. exists (S j), r'. repeat split; auto. lia.
Qed.

(** ** the relation between a replayed MemoryStorage and the persisted history *)
Definition Rel (a : alog) (m : mem) : Prop :=
  m_hs m = a_hs a /\ m_snapi m = a_si a /\ m_snapt m = a_st a /\
  m_off m = a_si a /\ m_offt m = a_st a /\ tag (a_si a + 1) (m_ents m) = a_log a.

Lemma rel_last a m : Rel a m -> a_last a = a_si a + len (m_ents m).
Proof.
  intros (_ & _ & _ & _ & _ & Hlog). unfold a_last. rewrite <- Hlog, fold_last_tag.
  destruct (m_ents m) as [|e l]; [rewrite len_nil; lia|]. lia.
Qed.

Lemma observe_rel a m : Rel a m -> observe m = spec_obs a.
Proof.
  intros HR. pose proof (rel_last a m HR) as Hl.
  destruct HR as (H1 & H2 & H3 & H4 & H5 & H6).
  unfold observe, spec_obs, m_first, m_last. rewrite H1, H2, H3, H4, H6, Hl. reflexivity.
Qed.

(** own records written by one operation *)
Definition op_recs (o : op) : list rec :=
  match o with
  | OHs h => if hs_is_empty h then [] else [RState own_gid h]
  | OAppend f es => match es with [] => [] | _ => [REntries own_gid f es] end
  | OSnap si st => if si =? 0 then [] else [RSnap own_gid si st]
  | OCompact _ | OForeign _ | OCrash _ => []
  end.

Lemma rel_append a m first e es a' :
  Rel a m -> a_step a (OAppend first (e :: es)) = Some a' ->
  exists m', mem_append m first (e :: es) = Ok m' /\ Rel a' m'.
Proof.
  intros HR Hs. pose proof (rel_last a m HR) as Hlast.
  destruct HR as (H1 & H2 & H3 & H4 & H5 & H6).
  cbn [a_step] in Hs. unfold mem_append, m_first. rewrite H4.
  set (l := e :: es) in *. assert (Hlen : 1 <= len l) by (unfold l; rewrite len_cons; lia).
  replace (match l with [] => Ok m | _ :: _ => _ end) with
    (let fi := a_si a + 1 in
      let last := first + len l - 1 in
      if last <? fi then Ok m else
      let first' := if first <? fi then fi else first in
      let es' := if first <? fi then ndrop (fi - first) l else l in
      let offset := first' - a_si a in
      if offset <=? len (m_ents m) + 1
      then Ok (mem_set_ents m (ntake (offset - 1) (m_ents m) ++ es'))
      else Err EPanic) by reflexivity.
  cbv zeta.
  destruct (first <? a_si a + 1) eqn:Hlow.
  - (* the append starts at or below the snapshot index *)
    rewrite filter_tag_gt_drop in Hs by lia.
    destruct (first + len l - 1 <? a_si a + 1) eqn:Hall.
    + (* entirely covered *)
      assert (Hnil : ndrop (a_si a + 1 - first) l = []).
      { apply length_zero_iff_nil. pose proof (len_ndrop (a_si a + 1 - first) l) as Hd.
        unfold len in Hd. unfold len in Hall, Hlen. lia. }
      rewrite Hnil in Hs. cbn [tag] in Hs. inversion Hs; subst a'.
      exists m. split; [reflexivity|]. repeat split; assumption.
    + pose proof (len_ndrop (a_si a + 1 - first) l) as Hd.
      destruct (ndrop (a_si a + 1 - first) l) as [|e1 l1] eqn:Hdrop.
      { rewrite len_nil in Hd. lia. }
      cbn [tag] in Hs.
      replace (a_si a + 1 <=? a_last a + 1) with true in Hs by lia.
      inversion Hs; subst a'. clear Hs.
      replace (a_si a + 1 - a_si a <=? len (m_ents m) + 1) with true by lia.
      eexists. split; [reflexivity|].
      unfold Rel, mem_set_ents. cbn. repeat split; try assumption.
      rewrite <- H6, filter_tag_lt by lia.
      replace (a_si a + 1 - (a_si a + 1)) with 0 by lia.
      replace (a_si a + 1 - a_si a - 1) with 0 by lia.
      rewrite !ntake_0. reflexivity.
  - (* the append starts above the snapshot index *)
    rewrite filter_tag_gt_all in Hs by lia.
    destruct (first + len l - 1 <? a_si a + 1) eqn:Hall; [lia|].
    unfold l in Hs. cbn [tag] in Hs. fold l in Hs.
    rewrite Hlast in Hs.
    destruct (first <=? a_si a + len (m_ents m) + 1) eqn:Hgap; [|discriminate].
    inversion Hs; subst a'. clear Hs.
    replace (first - a_si a <=? len (m_ents m) + 1) with true by lia.
    eexists. split; [reflexivity|].
    unfold Rel, mem_set_ents. cbn. repeat split; try assumption.
    rewrite <- H6, filter_tag_lt by lia. rewrite tag_app.
    rewrite len_ntake by lia.
    replace (first - (a_si a + 1)) with (first - a_si a - 1) by lia.
    f_equal. unfold l. cbn [tag]. do 2 f_equal; lia.
Qed.

Lemma rel_step a m o a' :
  Rel a m -> a_step a o = Some a' -> exists m', rmem m (op_recs o) = Ok m' /\ Rel a' m'.
Proof.
  intros HR Hs. destruct o as [h|first es|si st|idx|f|k]; cbn [op_recs].
  - cbn [a_step] in Hs. destruct (hs_is_empty h).
    + inversion Hs; subst. exists m. split; [reflexivity|exact HR].
    + inversion Hs; subst. cbn [rmem]. unfold rmem1. cbn.
      eexists. split; [reflexivity|].
      destruct HR as (H1 & H2 & H3 & H4 & H5 & H6). unfold Rel, mem_set_hs. cbn. auto 10.
  - destruct es as [|e es].
    + cbn in Hs. inversion Hs; subst. exists m. split; [reflexivity|exact HR].
    + destruct (rel_append a m first e es a' HR Hs) as [m' [Hm HR']].
      exists m'. split; [|exact HR']. cbn [rmem]. unfold rmem1. cbn [replay1].
      change (negb (own_gid =? own_gid)) with false. cbv iota. rewrite Hm. reflexivity.
  - cbn [a_step] in Hs. destruct (si =? 0) eqn:Hz.
    + inversion Hs; subst. exists m. split; [reflexivity|exact HR].
    + destruct (si <=? a_si a) eqn:Hstale; [discriminate|]. inversion Hs; subst. clear Hs.
      destruct HR as (H1 & H2 & H3 & H4 & H5 & H6).
      cbn [rmem]. unfold rmem1. cbn [replay1]. change (negb (own_gid =? own_gid)) with false.
      rewrite Hz. cbn [orb]. unfold mem_apply_snap. rewrite H2, Hstale.
      eexists. split; [reflexivity|]. unfold Rel. cbn. auto 10.
  - inversion Hs; subst. exists m. split; [reflexivity|exact HR].
  - inversion Hs; subst. exists m. split; [reflexivity|exact HR].
  - inversion Hs; subst. exists m. split; [reflexivity|exact HR].
Qed.

Lemma op_recs_own o : filter own (op_recs o) = op_recs o.
Proof.
  destruct o as [h|first es|si st|idx|f|k]; cbn [op_recs]; try reflexivity.
  - destruct (hs_is_empty h); reflexivity.
  - destruct es; reflexivity.
  - destruct (si =? 0); reflexivity.
Qed.

(** ** the invariant of the repaired storage *)
Definition ptr_valid (file : list rec) (p : ptr) : Prop :=
  p_pos p = 0 \/ exists r, nth_error file (N.to_nat (p_pos p - 1)) = Some r /\ is_raft r = true.

Record Inv (a : alog) (s : state) : Prop := {
  inv_alive : st_dead s = false;
  inv_file : exists m, rmem mem_init (filter own (w_file (st_wal s))) = Ok m /\ Rel a m;
  inv_buf : filter own (w_buf (st_wal s)) = [];
  inv_ptr : ptr_valid (w_file (st_wal s)) (st_ptr s) }.

Lemma ptr_valid_ext file extra p : ptr_valid file p -> ptr_valid (file ++ extra) p.
Proof.
  intros [H|[r [Hn Hr]]]; [left; exact H|]. right. exists r. split; [|exact Hr].
  rewrite nth_error_app1; [exact Hn|]. apply nth_error_Some. rewrite Hn. discriminate.
Qed.

Lemma ptr_valid_pos file p q : p_pos p = p_pos q -> ptr_valid file p -> ptr_valid file q.
Proof. unfold ptr_valid. intros ->. auto. Qed.

Lemma ptr_valid_last file r t :
  is_raft r = true -> ptr_valid (file ++ [r]) {| p_pos := len (file ++ [r]); p_trunc := t |}.
Proof.
  intros Hr. right. exists r. split; [|exact Hr]. cbn [p_pos].
  rewrite len_app. unfold len. cbn [length].
  replace (N.to_nat (N.of_nat (length file) + N.of_nat 1 - 1)) with (length file + 0)%nat by lia.
  rewrite nth_error_app2 by lia. replace (length file + 0 - length file)%nat with 0%nat by lia.
  reflexivity.
Qed.

Lemma ptr_valid_update file old new :
  ptr_valid file old -> ptr_valid file new -> ptr_valid file (update_ptr old new).
Proof. intros Ho Hn. unfold update_ptr. destruct (p_pos new =? 0); assumption. Qed.

Lemma filter_firstn_nil {A} (f : A -> bool) k l : filter f l = [] -> filter f (firstn k l) = [].
Proof.
  revert k. induction l as [|x l IH]; intros k H; destruct k; cbn [firstn filter] in *; try reflexivity.
  destruct (f x); [discriminate|]. apply IH. exact H.
Qed.

(** writing one own record with appendDurable *)
Lemma inv_put a s r a' (p : ptr) m_live :
  Inv a s -> own r = true -> is_raft r = true ->
  (forall m, Rel a m -> exists m', rmem m [r] = Ok m' /\ Rel a' m') ->
  (p = st_ptr s \/ exists t, p = update_ptr (st_ptr s)
        {| p_pos := wal_count (wal_put true (st_wal s) r); p_trunc := t |}) ->
  Inv a' {| st_wal := wal_put true (st_wal s) r; st_mem := m_live; st_ptr := p; st_dead := st_dead s |}.
Proof.
  intros [Ha [m [Hm HR]] Hb Hp] Ho Hraft Hstep Hptr.
  assert (Hfile : w_file (wal_put true (st_wal s) r) = (w_file (st_wal s) ++ w_buf (st_wal s)) ++ [r]).
  { cbn. rewrite app_assoc. reflexivity. }
  constructor; cbn [st_dead st_wal st_ptr].
  - exact Ha.
  - rewrite Hfile, !filter_app, Hb, app_nil_r. cbn [filter]. rewrite Ho.
    rewrite rmem_app, Hm. apply Hstep. exact HR.
  - reflexivity.
  - rewrite Hfile. destruct Hptr as [->|[t ->]].
    + rewrite <- app_assoc. apply ptr_valid_ext. exact Hp.
    + apply ptr_valid_update.
      * rewrite <- app_assoc. apply ptr_valid_ext. exact Hp.
      * unfold wal_count. replace (w_buf (wal_put true (st_wal s) r)) with (@nil rec) by reflexivity.
        rewrite Hfile, len_nil, N.add_0_r. apply ptr_valid_last. exact Hraft.
Qed.

Lemma inv_same_wal a s m_live p :
  Inv a s -> p_pos p = p_pos (st_ptr s) ->
  Inv a {| st_wal := st_wal s; st_mem := m_live; st_ptr := p; st_dead := st_dead s |}.
Proof.
  intros [Ha Hf Hb Hp] Hpos. constructor; cbn [st_dead st_wal st_ptr]; auto.
  eapply ptr_valid_pos; [symmetry; exact Hpos|exact Hp].
Qed.

Lemma open_ws_ok img p m0 :
  ptr_valid img p -> rmem mem_init (filter own img) = Ok m0 ->
  exists p', open_ws img p = Ok (m0, p') /\ ptr_valid img p'.
Proof.
  intros Hp Hm. unfold open_ws.
  assert (Hv : validate_ptr img p = Ok tt).
  { unfold validate_ptr. destruct Hp as [->|[r [Hn Hr]]]; [reflexivity|].
    destruct (p_pos p =? 0); [reflexivity|]. rewrite Hn, Hr. reflexivity. }
  rewrite Hv. destruct (replay_rmem img mem_init ptr_none 0 m0 Hm) as [rp [Hr Hrp]]. rewrite Hr.
  eexists. split; [reflexivity|]. destruct (ptr_ahead rp p); [|exact Hp].
  destruct Hrp as [->|[j [r [Hn [Hraft Hpos]]]]]; [left; reflexivity|].
  right. exists r. split; [|exact Hraft]. rewrite Hpos.
  replace (N.to_nat (0 + N.of_nat j + 1 - 1)) with j by lia. exact Hn.
Qed.

Lemma inv_crash a s k :
  Inv a s -> exists m0 p', open_ws (wal_crash k (st_wal s)) (st_ptr s) = Ok (m0, p') /\ Rel a m0 /\
     ptr_valid (wal_crash k (st_wal s)) p' /\
     rmem mem_init (filter own (wal_crash k (st_wal s))) = Ok m0.
Proof.
  intros [Ha [m [Hm HR]] Hb Hp]. unfold wal_crash.
  assert (Hf : rmem mem_init (filter own (w_file (st_wal s) ++ firstn k (w_buf (st_wal s)))) = Ok m).
  { rewrite filter_app, (filter_firstn_nil own k _ Hb), app_nil_r. exact Hm. }
  destruct (open_ws_ok _ (st_ptr s) m (ptr_valid_ext _ (firstn k (w_buf (st_wal s))) _ Hp) Hf)
    as [p' [Ho Hp']].
  exists m, p'. auto.
Qed.

Lemma own_frec f : own (frec_of f) = false.
Proof. destruct f; reflexivity. Qed.

Lemma step_inv a s o a' : Inv a s -> a_step a o = Some a' -> Inv a' (fst (step true s o)).
Proof.
  intros HI Hs. unfold step. rewrite (inv_alive a s HI).
  destruct o as [h|first es|si st|idx|f|k].
  - (* SetHardState *)
    unfold ws_set_hs. pose proof Hs as Hs'. cbn [a_step] in Hs'.
    destruct (hs_is_empty h) eqn:He; cbn [fst].
    + inversion Hs'; subst. unfold with_mem_ptr. apply inv_same_wal; [exact HI|reflexivity].
    + unfold with_mem_ptr. apply (inv_put a s (RState own_gid h) a'); auto.
      * intros m HR. pose proof (rel_step a m (OHs h) a' HR Hs) as Hx. cbn [op_recs] in Hx.
        rewrite He in Hx. exact Hx.
      * right. eexists. reflexivity.
  - (* Append *)
    unfold ws_append. destruct es as [|e es]; cbn [fst].
    + cbn in Hs. inversion Hs; subst. exact HI.
    + assert (Hx : forall m, Rel a m -> exists m', rmem m [REntries own_gid first (e :: es)] = Ok m' /\ Rel a' m').
      { intros m HR. exact (rel_step a m (OAppend first (e :: es)) a' HR Hs). }
      destruct (mem_append (st_mem s) first (e :: es)) as [ml|er]; cbn [fst].
      * unfold with_mem_ptr. apply (inv_put a s _ a'); auto. right. eexists. reflexivity.
      * unfold with_wal. apply (inv_put a s _ a'); auto.
  - (* ApplySnapshot *)
    unfold ws_apply_snap. pose proof Hs as Hs'. cbn [a_step] in Hs'.
    destruct (si =? 0) eqn:Hz; cbn [fst].
    + inversion Hs'; subst. exact HI.
    + assert (Hx : forall m, Rel a m -> exists m', rmem m [RSnap own_gid si st] = Ok m' /\ Rel a' m').
      { intros m HR. pose proof (rel_step a m (OSnap si st) a' HR Hs) as Hy. cbn [op_recs] in Hy.
        rewrite Hz in Hy. exact Hy. }
      destruct (mem_apply_snap (st_mem s) si st) as [ml|er]; cbn [fst].
      * unfold with_mem_ptr. apply (inv_put a s _ a'); auto. right. eexists. reflexivity.
      * unfold with_wal. apply (inv_put a s _ a'); auto.
  - (* compactTo: nothing reaches the WAL *)
    cbn in Hs. inversion Hs; subst a'. unfold ws_compact.
    destruct (idx =? 0); [exact HI|]. destruct (idx <=? p_trunc (st_ptr s)); [exact HI|].
    assert (Hgo : forall ml, Inv a (with_mem_ptr s (st_wal s) ml
              (update_ptr (st_ptr s) {| p_pos := p_pos (st_ptr s); p_trunc := idx |}))).
    { intros ml. unfold with_mem_ptr. apply inv_same_wal; [exact HI|].
      unfold update_ptr. cbn [p_pos]. destruct (p_pos (st_ptr s) =? 0); reflexivity. }
    destruct (mem_term (st_mem s) idx) as [t|[]]; cbn [fst]; try exact HI; apply Hgo.
  - (* another writer of the shared WAL *)
    cbn in Hs. inversion Hs; subst a'. cbn [fst]. destruct HI as [Ha [m [Hm HR]] Hb Hp].
    unfold with_wal, wal_put. destruct (foreign_sync true f).
    + constructor; cbn [st_dead st_wal st_ptr w_file w_buf wal_sync wal_append]; auto.
      * exists m. split; [|exact HR].
        rewrite !filter_app, Hb. cbn [filter]. rewrite own_frec, !app_nil_r. exact Hm.
      * apply ptr_valid_ext. exact Hp.
    + constructor; cbn [st_dead st_wal st_ptr w_file w_buf wal_sync wal_append]; auto.
      * exists m. auto.
      * rewrite filter_app, Hb. cbn [filter]. rewrite own_frec. reflexivity.
  - (* crash and reopen *)
    cbn in Hs. inversion Hs; subst a'. unfold crash_reopen.
    destruct (inv_crash a s k HI) as [m0 [p' [Ho [HR [Hp' Hm0]]]]]. rewrite Ho. cbn [fst].
    constructor; cbn [st_dead st_wal st_ptr w_file w_buf wal_open]; auto.
    exists m0. auto.
Qed.

Lemma run_inv ops : forall a s a', Inv a s -> spec_run a ops = Some a' -> Inv a' (run true s ops).
Proof.
  induction ops as [|o ops IH]; intros a s a' HI Hs; cbn [run spec_run] in *.
  - inversion Hs; subst. exact HI.
  - destruct (a_step a o) as [a1|] eqn:H1; [|discriminate].
    apply (IH a1); [|exact Hs]. apply (step_inv a s o a1 HI H1).
Qed.

Lemma inv_init : Inv a_init init.
Proof.
  constructor; cbn; auto.
  - exists mem_init. split; [reflexivity|]. unfold Rel. cbn. auto 10.
  - left. reflexivity.
Qed.

Lemma probe_inv a s k : Inv a s -> probe s k = Ok (spec_obs a).
Proof.
  intros HI. unfold probe. destruct (inv_crash a s k HI) as [m0 [p' [Ho [HR _]]]].
  rewrite Ho, (observe_rel a m0 HR). reflexivity.
Qed.

(** ** C21: recovery *)
Theorem recover_sync ops k : recovers ops (probe (run true init ops) k).
Proof.
  intros a Hs. apply probe_inv. apply (run_inv ops a_init init a inv_init Hs).
Qed.

(** every prefix is a crash point *)
Lemma spec_run_app l1 : forall a l2 a2,
  spec_run a (l1 ++ l2) = Some a2 -> exists a1, spec_run a l1 = Some a1 /\ spec_run a1 l2 = Some a2.
Proof.
  induction l1 as [|o l1 IH]; intros a l2 a2 H; cbn [app spec_run] in *.
  - exists a. auto.
  - destruct (a_step a o) as [a'|]; [|discriminate]. apply IH. exact H.
Qed.

(** ** term and vote never go backwards *)
Lemma hs_le_refl h : hs_le h h.
Proof. right. auto. Qed.
Lemma hs_le_trans a b c : hs_le a b -> hs_le b c -> hs_le a c.
Proof. unfold hs_le. intros H1 H2. lia. Qed.

Lemma a_step_hs a o a1 :
  a_step a o = Some a1 ->
  (exists h, o = OHs h /\ hs_is_empty h = false /\ a_hs a1 = h) \/ a_hs a1 = a_hs a.
Proof.
  destruct o as [h|first es|si st|idx|f|k]; cbn [a_step]; intros H.
  - destruct (hs_is_empty h) eqn:He; inversion H; subst; [auto|]. left. exists h. auto.
  - destruct (filter _ _) as [|[f e] l]; [inversion H; auto|].
    destruct (f <=? a_last a + 1); inversion H; subst; auto.
  - destruct (si =? 0); [inversion H; auto|]. destruct (si <=? a_si a); inversion H; subst; auto.
  - inversion H; auto.
  - inversion H; auto.
  - inversion H; auto.
Qed.

Lemma chain_run ops : forall a a',
  spec_run a ops = Some a' -> hs_chain (a_hs a) ops -> hs_le (a_hs a) (a_hs a').
Proof.
  induction ops as [|o ops IH]; intros a a' Hs Hc; cbn [spec_run] in Hs.
  - inversion Hs; subst. apply hs_le_refl.
  - destruct (a_step a o) as [a1|] eqn:H1; [|discriminate].
    destruct (a_step_hs a o a1 H1) as [[h [-> [He Hh]]]|Hsame].
    + cbn [hs_chain] in Hc. rewrite He in Hc. destruct Hc as [Hle Hc].
      apply (hs_le_trans _ h); [exact Hle|]. rewrite <- Hh. apply IH; [exact Hs|]. rewrite Hh. exact Hc.
    + rewrite <- Hsame. apply IH; [exact Hs|]. rewrite Hsame.
      destruct o as [h| | | | |]; cbn [hs_chain] in Hc; try exact Hc.
      destruct (hs_is_empty h) eqn:He; [exact Hc|].
      cbn [a_step] in H1. rewrite He in H1. inversion H1; subst. cbn in Hsame. subst h. apply Hc.
Qed.

Lemma chain_app l1 : forall a a1 l2,
  spec_run a l1 = Some a1 -> hs_chain (a_hs a) (l1 ++ l2) -> hs_chain (a_hs a1) l2.
Proof.
  induction l1 as [|o l1 IH]; intros a a1 l2 Hs Hc; cbn [spec_run app] in *.
  - inversion Hs; subst. exact Hc.
  - destruct (a_step a o) as [a'|] eqn:H1; [|discriminate].
    apply (IH a'); [exact Hs|].
    destruct (a_step_hs a o a' H1) as [[h [-> [He Hh]]]|Hsame].
    + cbn [hs_chain] in Hc. rewrite He in Hc. rewrite Hh. apply Hc.
    + rewrite Hsame. destruct o as [h| | | | |]; cbn [hs_chain] in Hc; try exact Hc.
      destruct (hs_is_empty h) eqn:He; [exact Hc|].
      cbn [a_step] in H1. rewrite He in H1. inversion H1; subst. cbn in Hsame. subst h. apply Hc.
Qed.

Theorem term_vote_monotone ops1 ops2 k1 k2 a2 :
  spec_run a_init (ops1 ++ ops2) = Some a2 -> hs_chain hs_empty (ops1 ++ ops2) ->
  exists o1 o2, probe (run true init ops1) k1 = Ok o1 /\
                probe (run true init (ops1 ++ ops2)) k2 = Ok o2 /\
                hs_le (o_hs o1) (o_hs o2).
Proof.
  intros Hs Hc. destruct (spec_run_app ops1 a_init ops2 a2 Hs) as [a1 [Hs1 Hs2]].
  exists (spec_obs a1), (spec_obs a2). split; [apply recover_sync; exact Hs1|].
  split; [apply recover_sync; exact Hs|]. cbn [spec_obs o_hs].
  apply (chain_run ops2 a1 a2 Hs2). apply (chain_app ops1 a_init a1 ops2 Hs1). exact Hc.
Qed.

(** ** persist before send *)
Lemma run_app sync l1 : forall s l2, run sync s (l1 ++ l2) = run sync (run sync s l1) l2.
Proof. induction l1 as [|o l1 IH]; intros s l2; cbn [app run]; [reflexivity|apply IH]. Qed.

Lemma persist_run sync ops : forall s s', persist sync s ops = (s', true) -> s' = run sync s ops.
Proof.
  induction ops as [|o ops IH]; intros s s' H; cbn [persist run] in *.
  - inversion H. reflexivity.
  - destruct (step sync s o) as [s1 [u|e]] eqn:Hst; cbn [fst]; [apply IH; exact H|discriminate].
Qed.

Lemma readies_events_le sync rds : forall s,
  (length (snd (process_readies sync s rds)) <= length rds)%nat.
Proof.
  induction rds as [|rd rds IH]; intros s; cbn [process_readies]; [cbn; lia|].
  unfold process_ready. destruct (persist sync s (ready_ops rd)) as [s1 ok].
  specialize (IH s1). destruct (process_readies sync s1 rds) as [s2 ev2]. cbn [snd length] in *.
  rewrite app_length. destruct ok; cbn [length]; lia.
Qed.

Lemma readies_all_sent sync rds : forall s,
  length (snd (process_readies sync s rds)) = length rds ->
  fst (process_readies sync s rds) = run sync s (concat (map ready_ops rds)).
Proof.
  induction rds as [|rd rds IH]; intros s Hl; cbn [process_readies map concat]; [reflexivity|].
  cbn [process_readies] in Hl. unfold process_ready in *.
  destruct (persist sync s (ready_ops rd)) as [s1 ok] eqn:Hp.
  pose proof (readies_events_le sync rds s1) as Hle. specialize (IH s1).
  destruct (process_readies sync s1 rds) as [s2 ev2]. cbn [fst snd length] in *.
  rewrite app_length in Hl. destruct ok; cbn [length] in Hl; [|lia].
  rewrite run_app, <- (persist_run sync _ s s1 Hp). apply IH. lia.
Qed.

Theorem persist_before_send rds k :
  length (snd (process_readies true init rds)) = length rds ->
  recovers (concat (map ready_ops rds)) (probe (fst (process_readies true init rds)) k).
Proof. intros Hl. rewrite (readies_all_sent true rds init Hl). apply recover_sync. Qed.

(** ** the oracle decides the specification *)
Lemma hs_eqb_eq a b : hs_eqb a b = true <-> a = b.
Proof.
  destruct a, b. unfold hs_eqb. cbn. split.
  - intros H. f_equal; lia.
  - intros H. inversion H. lia.
Qed.
Lemma ient_eqb_eq a b : ient_eqb a b = true <-> a = b.
Proof.
  destruct a as [i [t d]], b as [i' [t' d']]. unfold ient_eqb. cbn. split.
  - intros H. repeat f_equal; lia.
  - intros H. inversion H. lia.
Qed.
Lemma list_eqb_eq {A} (eqb : A -> A -> bool) :
  (forall x y, eqb x y = true <-> x = y) -> forall a b, list_eqb eqb a b = true <-> a = b.
Proof.
  intros He. induction a as [|x a IH]; destruct b as [|y b]; cbn; try (split; [discriminate|discriminate]); [tauto|].
  rewrite andb_true_iff, He, IH. split; [intros [-> ->]; reflexivity|intros H; inversion H; auto].
Qed.
Lemma obs_eqb_eq a b : obs_eqb a b = true <-> a = b.
Proof.
  destruct a, b. unfold obs_eqb. cbn. rewrite !andb_true_iff, hs_eqb_eq, (list_eqb_eq _ ient_eqb_eq), !N.eqb_eq.
  split; [intros [[[[[-> ->] ->] ->] ->] ->]; reflexivity|intros H; inversion H; auto 10].
Qed.

Theorem recovers_b_spec ops r : recovers_b ops r = true <-> recovers ops r.
Proof.
  unfold recovers_b, recovers. destruct (spec_run a_init ops) as [a|].
  - split.
    + intros H a0 Ha. inversion Ha; subst. destruct r as [o|e]; [|discriminate].
      apply obs_eqb_eq in H. subst. reflexivity.
    + intros H. rewrite (H a eq_refl). apply obs_eqb_eq. reflexivity.
  - split; [intros _ a H; discriminate|reflexivity].
Qed.

(** ** the tree before fixes/raft-wal-sync-before-publish.md loses a persisted Ready *)
Definition f19_ops : list op := [OHs (HS 2 1 0); OAppend 1 [(2, 7); (2, 8)]].

Lemma recover_refuted_nosync :
  exists ops k, ~ recovers ops (probe (run false init ops) k).
Proof.
  exists f19_ops, 0%nat. intros H. specialize (H _ eq_refl). vm_compute in H. discriminate.
Qed.

(** non-vacuity: a history with a conflicting overwrite, a snapshot, a
    compaction, foreign records and two crashes is well-formed *)
Definition sample_ops : list op :=
  [OHs (HS 1 1 0); OAppend 1 [(1, 10); (1, 11); (1, 12)]; OForeign FLsm; OCrash 0;
   OAppend 2 [(2, 20)]; OHs (HS 2 2 1); OCompact 1; OForeign (FState (HS 9 9 9));
   OSnap 5 2; OAppend 4 [(2, 30); (2, 31); (2, 32)]; OCrash 3; OAppend 7 [(3, 40)]].

Example sample_wf :
  option_map spec_obs (spec_run a_init sample_ops) =
  Some {| o_hs := HS 2 2 1; o_snapi := 5; o_snapt := 2; o_first := 6; o_last := 7;
          o_ents := [(6, (2, 32)); (7, (3, 40))] |}.
Proof. vm_compute. reflexivity. Qed.

Example sample_chain : hs_chain hs_empty sample_ops.
Proof. cbn. unfold hs_le. cbn. repeat split; lia. Qed.

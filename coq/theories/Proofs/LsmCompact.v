(** Compaction keeps the contents: the merge iterator ([merge2], [merge_all]:
    membership, sortedness, left priority), the table cut, and for each kind
    of compaction that every record of the new state is a record of the old
    one and every record of the old state is still represented by a record of
    the same internal key that is at least as recent — hence [content_ok] is
    preserved, given the ordering invariant before the step. *)
From Coq Require Import String List Arith NArith Bool Lia Sorting.Sorted.
From NoKV Require Import Base.Bytes Model.Lsm Spec.MvccSpec Proofs.LsmOrder Spec.LsmSpec
     Proofs.LsmRead Proofs.LsmGet Proofs.LsmMain Proofs.LsmInv Proofs.LsmWitness Proofs.LsmPreserve
     Spec.LsmInvB.
Import ListNotations.
Local Open Scope N_scope.

(** * The two-way merge *)
Lemma rlt_trans a b c : rlt a b -> rlt b c -> rlt a c.
Proof. unfold rlt, rcmp. apply kcmp_lt_trans. Qed.

Lemma rcmp_eq_rlt_l a b c : rcmp a b = Eq -> rlt b c -> rlt a c.
Proof. intros E. apply rcmp_eq in E as [Ek Ev]. unfold rlt, rcmp. now rewrite Ek, Ev. Qed.

Lemma rcmp_gt_rlt a b : rcmp a b = Gt -> rlt b a.
Proof. unfold rlt, rcmp. intro E. rewrite kcmp_antisym, E. reflexivity. Qed.

Lemma merge2_fuel_in f : forall a b x, In x (merge2_fuel f a b) -> In x a \/ In x b.
Proof.
  induction f as [|f IH]; intros a b x; cbn [merge2_fuel]; [apply in_app_or|].
  destruct a as [|xa a']; [now right|]. destruct b as [|yb b']; [now left|].
  destruct (rcmp xa yb); (intros [<-|H]; [cbn [In]; tauto|]); apply IH in H; cbn [In] in *; tauto.
Qed.

Lemma merge2_fuel_left f : forall a b x, In x a -> In x (merge2_fuel f a b).
Proof.
  induction f as [|f IH]; intros a b x Hx; cbn [merge2_fuel]; [apply in_or_app; now left|].
  destruct a as [|xa a']; [contradiction|]. destruct b as [|yb b']; [exact Hx|].
  destruct (rcmp xa yb); cbn [In].
  - destruct Hx as [->|Hx]; [now left | right; now apply IH].
  - destruct Hx as [->|Hx]; [now left | right; now apply IH].
  - right. now apply IH.
Qed.

(** Left priority: a record of the right input is dropped only for a record
    of the left input with an equal internal key. *)
Lemma merge2_fuel_right f : forall a b y,
  In y b -> In y (merge2_fuel f a b) \/ exists x, In x a /\ rcmp x y = Eq.
Proof.
  induction f as [|f IH]; intros a b y Hy; cbn [merge2_fuel]; [left; apply in_or_app; now right|].
  destruct a as [|xa a']; [now left|]. destruct b as [|yb b']; [contradiction|].
  destruct (rcmp xa yb) eqn:E; cbn [In].
  - destruct Hy as [<-|Hy]; [right; exists xa; split; [now left | exact E]|].
    destruct (IH a' b' y Hy) as [H|(x & Hx & Ex)]; [left; now right | right; exists x; split; [now right | exact Ex]].
  - destruct (IH a' (yb :: b') y Hy) as [H|(x & Hx & Ex)]; [left; now right | right; exists x; split; [now right | exact Ex]].
  - destruct Hy as [<-|Hy]; [left; now left|].
    destruct (IH (xa :: a') b' y Hy) as [H|(x & Hx & Ex)]; [left; now right | right; exists x; split; [exact Hx | exact Ex]].
Qed.

Lemma merge2_fuel_sorted f : forall a b,
  (length a + length b <= f)%nat -> sorted a -> sorted b -> sorted (merge2_fuel f a b).
Proof.
  induction f as [|f IH]; intros a b Hl Ha Hb; cbn [merge2_fuel].
  - destruct a; [|cbn in Hl; lia]. destruct b; [constructor | cbn in Hl; lia].
  - destruct a as [|xa a']; [exact Hb|]. destruct b as [|yb b']; [exact Ha|].
    cbn [length] in Hl. pose proof Ha as Ha0. pose proof Hb as Hb0.
    apply sorted_cons_inv in Ha as [Ha Hfa]. apply sorted_cons_inv in Hb as [Hb Hfb].
    rewrite Forall_forall in Hfa, Hfb.
    destruct (rcmp xa yb) eqn:E.
    + constructor; [apply IH; [lia | exact Ha | exact Hb]|].
      apply Forall_forall. intros z Hz. apply merge2_fuel_in in Hz as [Hz|Hz]; [now apply Hfa|].
      eapply rcmp_eq_rlt_l; [exact E | now apply Hfb].
    + constructor; [apply IH; [cbn [length]; lia | exact Ha | exact Hb0]|].
      apply Forall_forall. intros z Hz. apply merge2_fuel_in in Hz as [Hz|[<-|Hz]]; [now apply Hfa | exact E|].
      eapply rlt_trans; [exact E | now apply Hfb].
    + apply rcmp_gt_rlt in E.
      constructor; [apply IH; [cbn [length]; lia | exact Ha0 | exact Hb]|].
      apply Forall_forall. intros z Hz. apply merge2_fuel_in in Hz as [[<-|Hz]|Hz]; [exact E | | now apply Hfb].
      eapply rlt_trans; [exact E | now apply Hfa].
Qed.

Lemma merge2_in a b x : In x (merge2 a b) -> In x a \/ In x b.
Proof. apply merge2_fuel_in. Qed.
Lemma merge2_left a b x : In x a -> In x (merge2 a b).
Proof. apply merge2_fuel_left. Qed.
Lemma merge2_right a b y : In y b -> In y (merge2 a b) \/ exists x, In x a /\ rcmp x y = Eq.
Proof. apply merge2_fuel_right. Qed.
Lemma merge2_sorted a b : sorted a -> sorted b -> sorted (merge2 a b).
Proof. apply merge2_fuel_sorted. lia. Qed.

(** * The n-way merge *)
Lemma merge_all_in srcs x : In x (merge_all srcs) -> In x (concat srcs).
Proof.
  induction srcs as [|a T IH]; cbn [merge_all fold_right concat]; [auto|].
  intro H. apply merge2_in in H as [H|H]; apply in_or_app; [now left | right; now apply IH].
Qed.

Lemma merge_all_sorted srcs : Forall sorted srcs -> sorted (merge_all srcs).
Proof.
  induction 1 as [|a T Ha HT IH]; cbn [merge_all fold_right]; [constructor|]. now apply merge2_sorted.
Qed.

(** Every input record is represented in the output by a record of the same
    internal key coming from the same or an earlier source. *)
Lemma merge_all_repr srcs :
  within_ok srcs -> forall y, In y (concat srcs) ->
  exists x, In x (merge_all srcs) /\ r_key x = r_key y /\ r_ver x = r_ver y /\ r_seq y <= r_seq x.
Proof.
  induction srcs as [|a T IH]; intros Hw y Hy; [contradiction|].
  apply within_ok_cons in Hw as [Hb Hw]. cbn [merge_all fold_right concat] in *.
  apply in_app_or in Hy as [Hy|Hy].
  - exists y. split; [now apply merge2_left|]. repeat split; lia.
  - destruct (IH Hw y Hy) as (x' & Hx' & Ek & Ev & Hs).
    destruct (merge2_right a (fold_right merge2 [] T) x' Hx') as [H|(x & Hx & Ex)].
    + exists x'. auto.
    + apply rcmp_eq in Ex as [Ek' Ev']. exists x. split; [now apply merge2_left|].
      split; [congruence|]. split; [congruence|]. apply Hb; [exact Hx | exact Hy | congruence | congruence].
Qed.

(** * Cutting the stream into tables *)
Definition trecs (ts : list table) : list rec := concat (map t_recs ts).

Fixpoint cut_total (plan : list (N * N)) : nat :=
  match plan with [] => O | (_, n) :: p => (N.to_nat n + cut_total p)%nat end.

(** The harness-reported counts cover the whole merged stream. *)
Definition cut_ok (l : list rec) (plan : list (N * N)) : Prop := (length l <= cut_total plan)%nat.
Definition cut_okb (l : list rec) (plan : list (N * N)) : bool := Nat.leb (length l) (cut_total plan).
Lemma cut_okb_spec l plan : cut_okb l plan = true <-> cut_ok l plan.
Proof. apply Nat.leb_le. Qed.

Lemma firstn_plus {A} n m (l : list A) : firstn (n + m) l = firstn n l ++ firstn m (skipn n l).
Proof.
  revert l. induction n as [|n IH]; intro l; [reflexivity|].
  destruct l as [|x l]; cbn [plus firstn skipn app]; [now rewrite firstn_nil | now rewrite IH].
Qed.

Lemma cut_recs plan : forall l, trecs (cut l plan) = firstn (cut_total plan) l.
Proof.
  unfold trecs. induction plan as [|[fid n] plan IH]; intro l; cbn [cut map concat cut_total t_recs]; [reflexivity|].
  now rewrite IH, firstn_plus.
Qed.

Lemma cut_in l plan x : In x (trecs (cut l plan)) -> In x l.
Proof.
  rewrite cut_recs. intro H. rewrite <- (firstn_skipn (cut_total plan) l). apply in_or_app. now left.
Qed.

Lemma cut_all l plan : cut_ok l plan -> trecs (cut l plan) = l.
Proof. intro H. rewrite cut_recs. now apply firstn_all2. Qed.

Lemma cut_fids plan : forall l, map t_fid (cut l plan) = map fst plan.
Proof.
  induction plan as [|[fid n] plan IH]; intro l; cbn [cut map t_fid fst]; [reflexivity | now rewrite IH].
Qed.

Lemma sorted_firstn n l : sorted l -> sorted (firstn n l).
Proof.
  revert l. induction n as [|n IH]; intros l Hs; [constructor|]. destruct l as [|x l]; [constructor|].
  cbn [firstn]. apply sorted_cons_inv in Hs as [Hs Hf]. constructor; [now apply IH|].
  rewrite Forall_forall in *. intros y Hy. apply Hf.
  rewrite <- (firstn_skipn n l). apply in_or_app. now left.
Qed.

Lemma sorted_skipn n l : sorted l -> sorted (skipn n l).
Proof.
  revert l. induction n as [|n IH]; intros l Hs; [exact Hs|]. destruct l as [|x l]; [constructor|].
  cbn [skipn]. apply sorted_cons_inv in Hs as [Hs _]. now apply IH.
Qed.

Lemma cut_sorted plan : forall l, sorted l -> Forall (fun t => sorted (t_recs t)) (cut l plan).
Proof.
  induction plan as [|[fid n] plan IH]; intros l Hs; cbn [cut]; constructor.
  - cbn [t_recs]. now apply sorted_firstn.
  - apply IH. now apply sorted_skipn.
Qed.

(** * Refinement of record sets *)

(** [refines B A]: [B] holds only records of [A], and every record of [A] is
    represented in [B] by one of the same internal key that is at least as recent. *)
Definition refines (B A : list rec) : Prop :=
  (forall x, In x B -> In x A) /\
  (forall y, In y A -> exists x, In x B /\ r_key x = r_key y /\ r_ver x = r_ver y /\ r_seq y <= r_seq x).

Lemma refines_same B A : (forall x, In x B <-> In x A) -> refines B A.
Proof.
  intro H. split; [intros x; apply H|]. intros y Hy. exists y. split; [now apply H|]. repeat split; lia.
Qed.

Lemma refines_refl A : refines A A.
Proof. apply refines_same. tauto. Qed.

Lemma refines_app B1 A1 B2 A2 : refines B1 A1 -> refines B2 A2 -> refines (B1 ++ B2) (A1 ++ A2).
Proof.
  intros [H1 H2] [H3 H4]. split.
  - intros x Hx. apply in_or_app. apply in_app_or in Hx as [Hx|Hx]; auto.
  - intros y Hy. apply in_app_or in Hy as [Hy|Hy]; [destruct (H2 y Hy) as (x & Hx & Hr) | destruct (H4 y Hy) as (x & Hx & Hr)];
      exists x; (split; [apply in_or_app; auto | exact Hr]).
Qed.

Lemma refines_set B B' A A' :
  (forall x, In x B' <-> In x B) -> (forall x, In x A' <-> In x A) -> refines B A -> refines B' A'.
Proof.
  intros HB HA [H1 H2]. split.
  - intros x Hx. apply HA, H1, HB, Hx.
  - intros y Hy. destruct (H2 y (proj1 (HA y) Hy)) as (x & Hx & Hr). exists x. split; [now apply HB | exact Hr].
Qed.

Lemma content_ok_refines s s' ws :
  refines (contents s') (contents s) -> content_ok s ws -> content_ok s' ws.
Proof.
  intros [H1 H2] [C1 C2]. split.
  - intros x Hx. apply C1, all_recs_contents, H1, all_recs_contents, Hx.
  - intros w Hw. destruct (C2 w Hw) as (y & Hy & Ek & Ev & Hg).
    destruct (H2 y (proj1 (all_recs_contents s y) Hy)) as (x & Hx & Ek' & Ev' & Hs).
    exists x. split; [now apply all_recs_contents|]. split; [congruence|]. split; [congruence|].
    eapply geq_trans; [|exact Hg]. right. split; [exact Ev' | exact Hs].
Qed.

(** The merged and cut stream refines its inputs, when the sources are in recency order. *)
Definition stream_srcs (top bot : list table) : list (list rec) :=
  map t_recs (rev top) ++ [trecs bot].

Lemma compact_stream_eq top bot : compact_stream top bot = merge_all (stream_srcs top bot).
Proof. reflexivity. Qed.

Lemma stream_srcs_recs top bot x : In x (concat (stream_srcs top bot)) <-> In x (trecs top) \/ In x (trecs bot).
Proof.
  unfold stream_srcs, trecs. rewrite concat_app, in_app_iff, in_concat_map_rev. cbn [concat]. rewrite app_nil_r. tauto.
Qed.

Lemma cut_stream_refines top bot added :
  within_ok (stream_srcs top bot) -> cut_ok (compact_stream top bot) added ->
  refines (trecs (cut (compact_stream top bot) added)) (trecs top ++ trecs bot).
Proof.
  intros Hw Hc. rewrite (cut_all _ _ Hc), compact_stream_eq. split.
  - intros x Hx. apply merge_all_in in Hx. apply in_or_app. now apply stream_srcs_recs.
  - intros y Hy. apply merge_all_repr; [exact Hw|]. apply stream_srcs_recs. now apply in_app_or.
Qed.

(** * Tables, picks and drops *)
Lemma in_trecs ts x : In x (trecs ts) <-> exists t, In t ts /\ In x (t_recs t).
Proof.
  unfold trecs. rewrite in_concat. split.
  - intros (l & Hl & Hx). apply in_map_iff in Hl as (t & <- & Ht). eauto.
  - intros (t & Ht & Hx). exists (t_recs t). split; [now apply in_map | exact Hx].
Qed.

Lemma trecs_app a b : trecs (a ++ b) = trecs a ++ trecs b.
Proof. unfold trecs. now rewrite map_app, concat_app. Qed.

Lemma trecs_ext ts ts' x : (forall t, In t ts <-> In t ts') -> In x (trecs ts) <-> In x (trecs ts').
Proof. intro H. rewrite !in_trecs. split; intros (t & Ht & Hx); exists t; (split; [now apply H | exact Hx]). Qed.

Lemma trecs_incl ts ts' x : (forall t, In t ts -> In t ts') -> In x (trecs ts) -> In x (trecs ts').
Proof. intro H. rewrite !in_trecs. intros (t & Ht & Hx); exists t; (split; [now apply H | exact Hx]). Qed.

Lemma pick_drop_in ids ts t : In t ts <-> In t (pick ids ts) \/ In t (drop ids ts).
Proof. unfold pick, drop. rewrite !filter_In. destruct (fid_in ids t); cbn [negb]; intuition discriminate. Qed.

Lemma trecs_pick_drop ids ts x : In x (trecs ts) <-> In x (trecs (pick ids ts)) \/ In x (trecs (drop ids ts)).
Proof.
  rewrite !in_trecs. split.
  - intros (t & Ht & Hx). apply (pick_drop_in ids) in Ht as [Ht|Ht]; [left | right]; eauto.
  - intros [(t & Ht & Hx)|(t & Ht & Hx)]; exists t; (split; [apply (pick_drop_in ids); auto | exact Hx]).
Qed.

Lemma pick_in ids ts t : In t (pick ids ts) -> In t ts.
Proof. unfold pick. rewrite filter_In. tauto. Qed.

Lemma ins_in {A} (leb : A -> A -> bool) a l x : In x (ins leb a l) <-> x = a \/ In x l.
Proof.
  induction l as [|y l IH]; cbn [ins In]; [intuition|].
  destruct (leb a y); cbn [In]; [intuition | rewrite IH; intuition].
Qed.

Lemma isort_cons' {A} (leb : A -> A -> bool) x l : isort leb (x :: l) = ins leb x (isort leb l).
Proof. unfold isort. cbn [rev]. rewrite fold_left_app. reflexivity. Qed.

Lemma isort_in {A} (leb : A -> A -> bool) l x : In x (isort leb l) <-> In x l.
Proof.
  induction l as [|y l IH]; [reflexivity|]. rewrite isort_cons', ins_in, IH. cbn [In]. intuition.
Qed.

Lemma filter_concat {A} (f : A -> bool) (l : list (list A)) : filter f (concat l) = concat (map (filter f) l).
Proof. induction l as [|a l IH]; [reflexivity|]. cbn [concat map]. now rewrite filter_app, IH. Qed.

Lemma shards_drop_all ids sh : shards_all (shards_drop ids sh) = drop ids (shards_all sh).
Proof. unfold shards_all, shards_drop, drop. now rewrite filter_concat. Qed.

Lemma level_recs_eq lv : level_recs lv = trecs (shards_all (lv_shards lv)) ++ trecs (lv_main lv).
Proof. reflexivity. Qed.

(** * Levels of a state *)
Definition lvl_idx (lvl : N) : nat := N.to_nat (lvl - 1).
Definition lvl_in (s : state) (lvl : N) : Prop := (lvl_idx lvl < length (st_lvls s))%nat.

Lemma update_nth_app {A} (f : A -> A) l1 : forall k l, update_nth (length l1 + k) f (l1 ++ l) = l1 ++ update_nth k f l.
Proof. induction l1 as [|x l1 IH]; intros k l; [reflexivity|]. cbn [length plus app update_nth]. now rewrite IH. Qed.

Lemma nth_app_plus {A} (d : A) l1 k l : nth (length l1 + k) (l1 ++ l) d = nth k l d.
Proof. induction l1 as [|x l1 IH]; [reflexivity|]. cbn [length plus app nth]. exact IH. Qed.

Lemma set_level_split s lvl :
  lvl_in s lvl -> exists l1 l2, st_lvls s = l1 ++ get_level s lvl :: l2 /\
                                forall lv', st_lvls (set_level s lvl lv') = l1 ++ lv' :: l2.
Proof.
  unfold lvl_in, get_level, set_level, lvl_idx. intro H. cbn [st_lvls].
  destruct (nth_split (st_lvls s) {| lv_shards := []; lv_main := [] |} H) as (l1 & l2 & E & El).
  exists l1, l2. split; [exact E|]. intro lv'. rewrite E at 1. rewrite <- El.
  rewrite <- (Nat.add_0_r (length l1)). now rewrite update_nth_app.
Qed.

Lemma set_level2_split s lvl :
  1 <= lvl -> (S (lvl_idx lvl) < length (st_lvls s))%nat ->
  exists l1 l2, st_lvls s = l1 ++ get_level s lvl :: get_level s (lvl + 1) :: l2 /\
    forall lv' nx', st_lvls (set_level (set_level s (lvl + 1) nx') lvl lv') = l1 ++ lv' :: nx' :: l2.
Proof.
  intros H1 H. assert (Hi : lvl_idx (lvl + 1) = S (lvl_idx lvl)) by (unfold lvl_idx; lia).
  unfold get_level, set_level. fold (lvl_idx lvl). fold (lvl_idx (lvl + 1)). rewrite Hi. cbn [st_lvls].
  set (d := {| lv_shards := []; lv_main := [] |}).
  assert (H' : (lvl_idx lvl < length (st_lvls s))%nat) by lia.
  destruct (nth_split (st_lvls s) d H') as (l1 & r & E & El).
  destruct r as [|b l2].
  { exfalso. rewrite E, app_length in H. cbn [length] in H. lia. }
  exists l1, l2.
  assert (Eb : nth (S (lvl_idx lvl)) (st_lvls s) d = b).
  { rewrite E at 1. rewrite <- El. replace (S (length l1)) with (length l1 + 1)%nat by lia.
    rewrite nth_app_plus. reflexivity. }
  rewrite Eb. split; [exact E|]. intros lv' nx'. rewrite E at 1. rewrite <- El.
  replace (S (length l1)) with (length l1 + 1)%nat by lia. rewrite update_nth_app. cbn [update_nth].
  rewrite <- (Nat.add_0_r (length l1)) at 1. rewrite update_nth_app. reflexivity.
Qed.

Lemma refines_contents s s' :
  st_mem s' = st_mem s -> st_imms s' = st_imms s ->
  refines (trecs (st_l0 s') ++ concat (map level_recs (st_lvls s')))
          (trecs (st_l0 s) ++ concat (map level_recs (st_lvls s))) ->
  refines (contents s') (contents s).
Proof.
  intros E1 E2 H. unfold contents. rewrite E1, E2. apply refines_app; [apply refines_refl|].
  apply refines_app; [apply refines_refl | exact H].
Qed.

Lemma refines_levels l1 l2 A A' :
  refines A' A ->
  refines (concat (map level_recs l1) ++ A' ++ concat (map level_recs l2))
          (concat (map level_recs l1) ++ A ++ concat (map level_recs l2)).
Proof. intro H. apply refines_app; [apply refines_refl|]. apply refines_app; [exact H | apply refines_refl]. Qed.

(** A single level changes. *)
Lemma refines_set_level s lvl lv' :
  lvl_in s lvl -> refines (level_recs lv') (level_recs (get_level s lvl)) ->
  refines (contents (set_level s lvl lv')) (contents s).
Proof.
  intros Hin H. destruct (set_level_split s lvl Hin) as (l1 & l2 & E & E').
  apply refines_contents; [reflexivity | reflexivity|]. rewrite (E' lv'), E. cbn [set_level st_l0].
  apply refines_app; [apply refines_refl|]. rewrite !map_app, !concat_app. cbn [map concat].
  now apply refines_levels.
Qed.

(** Two adjacent levels change. *)
Lemma refines_set_level2 s lvl lv' nx' :
  1 <= lvl -> (S (lvl_idx lvl) < length (st_lvls s))%nat ->
  refines (level_recs lv' ++ level_recs nx') (level_recs (get_level s lvl) ++ level_recs (get_level s (lvl + 1))) ->
  refines (contents (set_level (set_level s (lvl + 1) nx') lvl lv')) (contents s).
Proof.
  intros H1 Hin H. destruct (set_level2_split s lvl H1 Hin) as (l1 & l2 & E & E').
  apply refines_contents; [reflexivity | reflexivity|]. rewrite (E' lv' nx'), E. cbn [set_level st_l0].
  apply refines_app; [apply refines_refl|]. rewrite !map_app, !concat_app. cbn [map concat].
  rewrite (app_assoc (level_recs lv') (level_recs nx')).
  rewrite (app_assoc (level_recs (get_level s lvl)) (level_recs (get_level s (lvl + 1)))).
  now apply refines_levels.
Qed.

Lemma refines_set_l0 s ts' :
  refines (trecs ts') (trecs (st_l0 s)) -> refines (contents (set_l0 s ts')) (contents s).
Proof.
  intro H. apply refines_contents; [reflexivity | reflexivity|]. cbn [set_l0 st_l0 st_lvls].
  apply refines_app; [exact H | apply refines_refl].
Qed.

Lemma refines_absorb Nw T B R :
  refines Nw (T ++ B) -> (forall x, In x B -> In x R) -> refines (Nw ++ R) (T ++ R).
Proof.
  intros [H1 H2] HB. split.
  - intros x Hx. apply in_or_app. apply in_app_or in Hx as [Hx|Hx]; [|now right].
    apply H1 in Hx. apply in_app_or in Hx as [Hx|Hx]; [now left | right; now apply HB].
  - intros y Hy. apply in_app_or in Hy as [Hy|Hy].
    + destruct (H2 y) as (x & Hx & Hr); [apply in_or_app; now left|]. exists x. split; [apply in_or_app; now left | exact Hr].
    + exists y. split; [apply in_or_app; now right|]. repeat split; lia.
Qed.

(** * The kinds of compaction refine the contents

    [merge order]: the sources of the merge iterator (the picked upper
    tables, newest first, then the picked lower tables as one run) are in
    recency order on equal internal keys — [within_ok (stream_srcs tops bots)].
    It is derived from [scan_inv] for each kind below. *)

(** L0 -> L0: needs the ids of the new tables to be different from the compacted ones. *)
Definition fresh_ids (top : list N) (added : list (N * N)) : Prop :=
  forall p, In p added -> existsb (N.eqb (fst p)) top = false.

Lemma cut_fresh top added l t : fresh_ids top added -> In t (cut l added) -> fid_in top t = false.
Proof.
  intros Hf Ht. apply (in_map t_fid) in Ht. rewrite cut_fids in Ht.
  apply in_map_iff in Ht as (p & Ep & Hp). unfold fid_in. rewrite <- Ep. now apply Hf.
Qed.

Lemma compact_l0l0_refines s lvl top bot added :
  let tops := pick top (st_l0 s) in
  within_ok (stream_srcs tops []) -> cut_ok (compact_stream tops []) added -> fresh_ids top added ->
  refines (contents (compact s KL0L0 lvl top bot added)) (contents s).
Proof.
  intros tops Hw Hc Hf. unfold compact. change (contents s) with (contents (bump_fid s (map fst added))).
  apply refines_set_l0. cbn [bump_fid st_l0]. fold tops.
  set (new := cut (compact_stream tops []) added).
  pose proof (cut_stream_refines tops [] added Hw Hc) as Hr. fold new in Hr.
  eapply refines_set; [| |exact (refines_app _ _ _ _ Hr (refines_refl (trecs (drop top (st_l0 s)))))].
  - intro x. rewrite in_app_iff, !in_trecs. split.
    + intros (t & Ht & Hx). unfold drop in Ht. apply filter_In in Ht as [Ht Hn]. apply isort_in, in_app_or in Ht as [Ht|Ht].
      * right. exists t. split; [|exact Hx]. unfold drop. apply filter_In. now split.
      * left. eauto.
    + intros [(t & Ht & Hx)|(t & Ht & Hx)]; exists t; (split; [|exact Hx]); unfold drop; apply filter_In.
      * split; [apply isort_in, in_or_app; now right|]. now rewrite (cut_fresh top added _ t Hf Ht).
      * unfold drop in Ht. apply filter_In in Ht as [Ht Hn]. split; [apply isort_in, in_or_app; now left | exact Hn].
  - intro x. rewrite (trecs_pick_drop top (st_l0 s) x), !in_app_iff. fold tops. cbn [trecs map concat In]. tauto.
Qed.

(** ingest buffer -> main tables of the same level *)
Lemma compact_drain_refines s lvl top bot added :
  let lv := get_level s lvl in
  let tops := pick top (shards_all (lv_shards lv)) in
  let bots := pick bot (lv_main lv) in
  lvl_in s lvl ->
  within_ok (stream_srcs tops bots) -> cut_ok (compact_stream tops bots) added ->
  refines (contents (compact s KDrain lvl top bot added)) (contents s).
Proof.
  intros lv tops bots Hin Hw Hc. unfold compact. change (contents s) with (contents (bump_fid s (map fst added))).
  apply refines_set_level; [exact Hin|]. change (get_level (bump_fid s (map fst added)) lvl) with lv.
  fold tops. fold bots. set (new := cut (compact_stream tops bots) added).
  pose proof (cut_stream_refines tops bots added Hw Hc) as Hr. fold new in Hr.
  rewrite !level_recs_eq. cbn [lv_shards lv_main]. rewrite shards_drop_all.
  eapply refines_set; [| |exact (refines_app _ _ _ _ Hr (refines_refl
     (trecs (drop top (shards_all (lv_shards lv))) ++ trecs (drop bot (lv_main lv)))))].
  - intro x. rewrite !in_app_iff.
    rewrite (trecs_ext (isort min_leb (drop bot (lv_main lv) ++ new)) (drop bot (lv_main lv) ++ new) x (isort_in _ _)).
    rewrite trecs_app, in_app_iff. tauto.
  - intro x. rewrite !in_app_iff.
    rewrite (trecs_pick_drop top (shards_all (lv_shards lv)) x), (trecs_pick_drop bot (lv_main lv) x).
    fold tops. fold bots. tauto.
Qed.

(** main tables of one level -> main tables of the next *)
Lemma compact_regular_refines s lvl top bot added :
  let lv := get_level s lvl in
  let nx := get_level s (lvl + 1) in
  let tops := pick top (lv_main lv) in
  let bots := pick bot (lv_main nx) in
  1 <= lvl -> (S (lvl_idx lvl) < length (st_lvls s))%nat ->
  pick top (shards_all (lv_shards lv)) = [] ->
  within_ok (stream_srcs tops bots) -> cut_ok (compact_stream tops bots) added ->
  refines (contents (compact s KRegular lvl top bot added)) (contents s).
Proof.
  intros lv nx tops bots H1 Hin Hns Hw Hc. unfold compact. change (contents s) with (contents (bump_fid s (map fst added))).
  apply refines_set_level2; [exact H1 | exact Hin|].
  change (get_level (bump_fid s (map fst added)) lvl) with lv.
  change (get_level (bump_fid s (map fst added)) (lvl + 1)) with nx.
  fold tops. fold bots. set (new := cut (compact_stream tops bots) added).
  pose proof (cut_stream_refines tops bots added Hw Hc) as Hr. fold new in Hr.
  rewrite !level_recs_eq. cbn [lv_shards lv_main]. rewrite shards_drop_all.
  eapply refines_set; [| |exact (refines_app _ _ _ _ Hr (refines_refl
     (trecs (shards_all (lv_shards lv)) ++ trecs (drop top (lv_main lv))
      ++ trecs (shards_all (lv_shards nx)) ++ trecs (drop bot (lv_main nx)))))].
  - intro x. rewrite !in_app_iff.
    rewrite (trecs_ext (isort min_leb (drop bot (lv_main nx) ++ new)) (drop bot (lv_main nx) ++ new) x (isort_in _ _)).
    rewrite trecs_app, in_app_iff.
    rewrite (trecs_pick_drop top (shards_all (lv_shards lv)) x), Hns. cbn [trecs map concat In]. tauto.
  - intro x. rewrite !in_app_iff.
    rewrite (trecs_pick_drop top (lv_main lv) x), (trecs_pick_drop bot (lv_main nx) x).
    fold tops. fold bots. tauto.
Qed.

(** * Ingest shards: [shards_add] *)
Lemma update_nth_length {A} (f : A -> A) l : forall n, length (update_nth n f l) = length l.
Proof. induction l as [|x l IH]; intros [|n]; cbn [update_nth length]; auto. Qed.

Lemma update_nth_snoc_in {A} (a : A) acc : forall n t,
  In t (concat (update_nth n (fun l => l ++ [a]) acc)) <-> In t (concat acc) \/ (t = a /\ (n < length acc)%nat).
Proof.
  induction acc as [|x acc IH]; intros n t.
  - destruct n; cbn [update_nth concat length In]; intuition lia.
  - destruct n as [|n]; cbn [update_nth concat length].
    + rewrite !in_app_iff. cbn [In]. split.
      * intros [[H|[<-|[]]]|H]; auto. right. split; [reflexivity | lia].
      * intros [[H|H]|[-> _]]; auto.
    + rewrite !in_app_iff, IH. split.
      * intros [H|[H|[-> H]]]; auto. right. split; [reflexivity | lia].
      * intros [[H|H]|[-> H]]; auto. right. right. split; [reflexivity | lia].
Qed.

Definition add_to_shard (acc : list (list table)) (t : table) : list (list table) :=
  update_nth (shard_of t) (fun l => l ++ [t]) acc.

Lemma fold_add_in ts : forall acc t,
  In t (concat (fold_left add_to_shard ts acc)) <->
  In t (concat acc) \/ (In t ts /\ (shard_of t < length acc)%nat).
Proof.
  induction ts as [|a ts IH]; intros acc t; cbn [fold_left In]; [tauto|].
  rewrite IH. unfold add_to_shard. rewrite update_nth_length, update_nth_snoc_in.
  split.
  - intros [[H|[-> H]]|[H1 H2]]; auto.
  - intros [H|[[<-|H1] H2]]; auto.
Qed.

Lemma concat_map_isort_in {A} (leb : A -> A -> bool) (l : list (list A)) x :
  In x (concat (map (isort leb) l)) <-> In x (concat l).
Proof.
  rewrite !in_concat. split.
  - intros (y & Hy & Hx). apply in_map_iff in Hy as (z & <- & Hz). exists z. split; [exact Hz | now apply isort_in in Hx].
  - intros (y & Hy & Hx). exists (isort leb y). split; [now apply in_map | now apply isort_in].
Qed.

Lemma four_shards_in sh t : In t (concat (four_shards sh)) <-> In t (concat sh).
Proof. destruct sh; cbn; tauto. Qed.

Lemma shards_add_in ts sh t :
  In t (shards_all (shards_add ts sh)) <->
  In t (shards_all sh) \/ (In t ts /\ (shard_of t < length (four_shards sh))%nat).
Proof.
  unfold shards_all, shards_add. rewrite concat_map_isort_in.
  change (fun acc t0 => update_nth (shard_of t0) (fun l => l ++ [t0]) acc) with add_to_shard.
  now rewrite fold_add_in, four_shards_in.
Qed.

(** Every table has a shard when the buffer has its four shards. *)
Definition shards_room (ts : list table) (sh : list (list table)) : Prop :=
  forall t, In t ts -> (shard_of t < length (four_shards sh))%nat.

Lemma shard_of_lt4 t : (shard_of t < 4)%nat.
Proof.
  unfold shard_of. destruct (t_min t) as [|b l]; [lia|]. pose proof (b2n_lt b) as Hb.
  assert (b2n b / 64 < 4) by (apply N.div_lt_upper_bound; lia). lia.
Qed.

Lemma shards_room_4 ts sh : length (four_shards sh) = 4%nat -> shards_room ts sh.
Proof. intros E t _. rewrite E. apply shard_of_lt4. Qed.

Lemma four_shards_drop_length ids sh :
  length (four_shards sh) = 4%nat -> length (four_shards (shards_drop ids sh)) = 4%nat.
Proof. destruct sh as [|a sh]; [reflexivity|]. cbn [four_shards shards_drop map length]. now rewrite map_length. Qed.

Lemma trecs_shards_add ts sh x :
  shards_room ts sh ->
  In x (trecs (shards_all (shards_add ts sh))) <-> In x (trecs ts) \/ In x (trecs (shards_all sh)).
Proof.
  intro Hr. rewrite !in_trecs. split.
  - intros (t & Ht & Hx). apply shards_add_in in Ht as [Ht|[Ht _]]; [right | left]; eauto.
  - intros [(t & Ht & Hx)|(t & Ht & Hx)]; exists t; (split; [|exact Hx]); apply shards_add_in; [right | left]; auto.
Qed.

(** ingest buffer -> ingest buffer of the same level (the lower tables stay) *)
Lemma compact_keep_refines s lvl top bot added :
  let lv := get_level s lvl in
  let tops := pick top (shards_all (lv_shards lv)) in
  let bots := pick bot (lv_main lv) in
  lvl_in s lvl ->
  within_ok (stream_srcs tops bots) -> cut_ok (compact_stream tops bots) added ->
  shards_room (cut (compact_stream tops bots) added) (shards_drop top (lv_shards lv)) ->
  refines (contents (compact s KKeep lvl top bot added)) (contents s).
Proof.
  intros lv tops bots Hin Hw Hc Hroom. unfold compact. change (contents s) with (contents (bump_fid s (map fst added))).
  apply refines_set_level; [exact Hin|]. change (get_level (bump_fid s (map fst added)) lvl) with lv.
  fold tops. fold bots. fold tops bots in Hroom. set (new := cut (compact_stream tops bots) added) in *.
  pose proof (cut_stream_refines tops bots added Hw Hc) as Hr. fold new in Hr.
  rewrite !level_recs_eq. cbn [lv_shards lv_main].
  assert (HB : forall x, In x (trecs bots) ->
                 In x (trecs (drop top (shards_all (lv_shards lv))) ++ trecs (lv_main lv))).
  { intros x Hx. apply in_or_app. right. revert Hx. apply trecs_incl. apply pick_in. }
  eapply refines_set; [| |exact (refines_absorb _ _ _ _ Hr HB)].
  - intro x. rewrite !in_app_iff. rewrite (trecs_shards_add new _ x Hroom), shards_drop_all.
    rewrite (trecs_ext (isort min_leb (lv_main lv)) (lv_main lv) x (isort_in _ _)). tauto.
  - intro x. rewrite !in_app_iff. rewrite (trecs_pick_drop top (shards_all (lv_shards lv)) x). fold tops. tauto.
Qed.

(** L0 tables -> ingest buffer of a level (no merge) *)
Lemma compact_move_refines s lvl top bot added :
  let lv := get_level s lvl in
  lvl_in s lvl -> shards_room (pick top (st_l0 s)) (lv_shards lv) ->
  refines (contents (compact s KMove lvl top bot added)) (contents s).
Proof.
  intros lv Hin Hroom. unfold compact. cbn [bump_fid st_l0].
  change (get_level (bump_fid s (map fst added)) lvl) with lv.
  set (s1 := set_l0 (bump_fid s (map fst added)) (drop top (st_l0 s))).
  destruct (set_level_split s1 lvl Hin) as (l1 & l2 & E & E').
  change (get_level s1 lvl) with lv in E. change (st_lvls s1) with (st_lvls s) in E.
  apply refines_same. intro x. unfold contents. rewrite E', E. cbn [set_level s1 set_l0 bump_fid st_mem st_imms st_l0].
  rewrite !map_app, !concat_app. cbn [map concat]. rewrite !level_recs_eq. cbn [lv_shards lv_main].
  rewrite !in_app_iff. rewrite (trecs_shards_add _ _ x Hroom).
  change (concat (map t_recs (st_l0 s))) with (trecs (st_l0 s)).
  change (concat (map t_recs (drop top (st_l0 s)))) with (trecs (drop top (st_l0 s))).
  rewrite (trecs_pick_drop top (st_l0 s) x). tauto.
Qed.

(** * Merge order = scan order, from the ordering invariant *)
Lemma within_ok_filter (f : table -> bool) l :
  within_ok (map t_recs l) -> within_ok (map t_recs (filter f l)).
Proof.
  induction l as [|a l IH]; cbn [map filter]; intro H; [exact H|].
  apply within_ok_cons in H as [H1 H2]. destruct (f a); cbn [map]; [|now apply IH].
  apply within_ok_cons. split; [|now apply IH].
  eapply src_before_mono; [intros x Hx; exact Hx | | exact H1].
  intros x. apply (trecs_incl (filter f l) l). intros t Ht. apply filter_In in Ht. tauto.
Qed.

Lemma within_ok_snoc_run A B :
  within_ok A -> src_before (concat A) B -> within_ok (A ++ [B]).
Proof.
  intros HA HB. apply within_ok_app. split; [exact HA|]. split; [apply within_ok_single|].
  cbn [concat]. now rewrite app_nil_r.
Qed.

Lemma scan_within s : scan_inv (scan_srcs s) -> within_ok (scan_srcs s).
Proof. intros (_ & _ & H). exact H. Qed.

Lemma l0_within s : scan_inv (scan_srcs s) -> within_ok (map t_recs (rev (st_l0 s))).
Proof.
  intro H. apply scan_within in H. rewrite scan_srcs_eq in H.
  apply within_ok_app in H as (_ & H & _). now apply within_ok_app in H as (H & _ & _).
Qed.

Lemma levels_within s : scan_inv (scan_srcs s) -> within_ok (concat (map level_srcs (st_lvls s))).
Proof.
  intro H. apply scan_within in H. rewrite scan_srcs_eq in H.
  apply within_ok_app in H as (_ & H & _). now apply within_ok_app in H as (_ & H & _).
Qed.

Lemma level_within s l1 lv l2 :
  scan_inv (scan_srcs s) -> st_lvls s = l1 ++ lv :: l2 -> within_ok (level_srcs lv).
Proof.
  intros H E. apply levels_within in H. rewrite E, map_app, concat_app in H. cbn [map concat] in H.
  apply within_ok_app in H as (_ & H & _). now apply within_ok_app in H as (H & _ & _).
Qed.

Lemma l0_merge_order s top :
  scan_inv (scan_srcs s) -> within_ok (stream_srcs (pick top (st_l0 s)) []).
Proof.
  intro Ht. unfold stream_srcs. apply within_ok_snoc_run; [|apply src_before_nil_r].
  unfold pick. rewrite <- filter_rev'. apply within_ok_filter. now apply l0_within.
Qed.

(** Equal keys only inside one source: any arrangement is in recency order. *)
Definition same_src_keys (srcs : list (list rec)) : Prop :=
  forall a b x y, In a srcs -> In b srcs -> In x a -> In y b -> r_key x = r_key y -> a = b.

Lemma same_src_within srcs : Forall sorted srcs -> same_src_keys srcs -> within_ok srcs.
Proof.
  intros Hs Hk l1 l2 E x y Hx Hy Ek Ev. apply in_concat in Hx as (a & Ha & Hx). apply in_concat in Hy as (b & Hb & Hy).
  assert (Ha' : In a srcs) by (rewrite E; apply in_or_app; now left).
  assert (Hb' : In b srcs) by (rewrite E; apply in_or_app; now right).
  pose proof (Hk a b x y Ha' Hb' Hx Hy Ek) as <-.
  rewrite Forall_forall in Hs. rewrite (sorted_unique a x y (Hs a Ha') Hx Hy Ek Ev). lia.
Qed.

Lemma main_disjoint_same_src ts :
  Forall (fun t => sorted (t_recs t)) ts -> main_disjoint ts -> same_src_keys (map t_recs ts).
Proof.
  induction ts as [|t ts IH]; intros Hs Hd; [intros a b x y []|].
  inversion Hs as [|? ? Hst Hs']; subst. destruct Hd as (Hne & Hlt & Hd). rewrite Forall_forall in Hlt, Hs'.
  assert (Hcross : forall u x y, In u ts -> In x (t_recs t) -> In y (t_recs u) -> r_key x <> r_key y).
  { intros u x y Hu Hx Hy Ek.
    destruct (table_key_bounds t x Hst Hx) as [_ Hx2]. destruct (table_key_bounds u y (Hs' u Hu) Hy) as [Hy1 _].
    specialize (Hlt u Hu). rewrite Ek in Hx2.
    pose proof (bytes_leb_ltb_trans _ _ _ Hx2 Hlt) as H1. pose proof (bytes_ltb_leb_trans _ _ _ H1 Hy1) as H2.
    rewrite bytes_ltb_irrefl in H2. discriminate. }
  intros a b x y Ha Hb Hx Hy Ek. cbn [map In] in Ha, Hb.
  destruct Ha as [<-|Ha], Hb as [<-|Hb]; [reflexivity | | |].
  - exfalso. apply in_map_iff in Hb as (u & <- & Hu). exact (Hcross u x y Hu Hx Hy Ek).
  - exfalso. apply in_map_iff in Ha as (u & <- & Hu). exact (Hcross u y x Hu Hy Hx (eq_sym Ek)).
  - apply (IH (proj2 (Forall_forall _ _) Hs') Hd a b x y Ha Hb Hx Hy Ek).
Qed.

Lemma same_src_incl srcs srcs' :
  (forall a, In a srcs' -> In a srcs) -> same_src_keys srcs -> same_src_keys srcs'.
Proof. intros Hi H a b x y Ha Hb. apply H; auto. Qed.

(** An upper level is scanned before the next one. *)
Lemma levels_before s l1 lv nx l2 :
  scan_inv (scan_srcs s) -> st_lvls s = l1 ++ lv :: nx :: l2 -> src_before (level_recs lv) (level_recs nx).
Proof.
  intros H E. apply levels_within in H. rewrite E, map_app, concat_app in H. cbn [map concat] in H.
  apply within_ok_app in H as (_ & H & _). apply within_ok_app in H as (_ & _ & H).
  rewrite concat_app in H. apply src_before_app_r in H as [H _].
  eapply src_before_mono; [| |exact H]; intros x Hx; now apply level_srcs_recs.
Qed.

Lemma regular_merge_order s lvl top bot :
  src_inv s -> scan_inv (scan_srcs s) -> 1 <= lvl -> (S (lvl_idx lvl) < length (st_lvls s))%nat ->
  within_ok (stream_srcs (pick top (lv_main (get_level s lvl))) (pick bot (lv_main (get_level s (lvl + 1))))).
Proof.
  intros Hsrc Ht H1 Hin. destruct (set_level2_split s lvl H1 Hin) as (l1 & l2 & E & _).
  set (lv := get_level s lvl) in *. set (nx := get_level s (lvl + 1)) in *.
  assert (Hlv : In lv (st_lvls s)) by (rewrite E; apply in_or_app; right; now left).
  pose proof (sv_lvls _ Hsrc) as Hl. rewrite Forall_forall in Hl. destruct (Hl lv Hlv) as (_ & Hms & Hmd).
  unfold stream_srcs. apply within_ok_snoc_run.
  - apply same_src_within.
    + apply Forall_forall. intros a Ha. apply in_map_iff in Ha as (t & <- & Ht').
      apply in_rev, pick_in in Ht'. rewrite Forall_forall in Hms. now apply Hms.
    + eapply same_src_incl; [|exact (main_disjoint_same_src _ Hms Hmd)].
      intros a Ha. apply in_map_iff in Ha as (t & <- & Ht'). apply in_map. now apply in_rev, pick_in in Ht'.
  - eapply src_before_mono; [| |exact (levels_before s l1 lv nx l2 Ht E)].
    + intros x Hx. apply (proj1 (in_concat_map_rev t_recs _ x)) in Hx. rewrite level_recs_eq. apply in_or_app. right.
      revert Hx. apply trecs_incl, pick_in.
    + intros x Hx. rewrite level_recs_eq. apply in_or_app. right. revert Hx. apply trecs_incl, pick_in.
Qed.

(** Ingest compactions take their upper tables from one shard. *)
Definition one_shard (top : list N) (shards : list (list table)) : Prop :=
  exists pre sh post, shards = pre ++ sh :: post /\ pick top (concat pre) = [] /\ pick top (concat post) = [].

Lemma ingest_merge_order s lvl top bot :
  let lv := get_level s lvl in
  scan_inv (scan_srcs s) -> lvl_in s lvl -> one_shard top (lv_shards lv) ->
  within_ok (stream_srcs (pick top (shards_all (lv_shards lv))) (pick bot (lv_main lv))).
Proof.
  intros lv Ht Hin (pre & sh & post & E & Hpre & Hpost).
  destruct (set_level_split s lvl Hin) as (l1 & l2 & El & _). fold lv in El.
  pose proof (level_within s l1 lv l2 Ht El) as Hw.
  assert (Es : concat (map (@rev table) (pre ++ sh :: post))
               = concat (map (@rev table) pre) ++ rev sh ++ concat (map (@rev table) post))
    by (rewrite map_app, concat_app; reflexivity).
  unfold level_srcs in Hw. rewrite E, Es in Hw. rewrite <- !app_assoc in Hw. rewrite !map_app in Hw.
  apply within_ok_app in Hw as (_ & Hw & _). apply within_ok_app in Hw as (Hsh & _ & Hb).
  rewrite concat_app in Hb. apply src_before_app_r in Hb as [_ Hb].
  assert (Etops : pick top (shards_all (lv_shards lv)) = pick top sh).
  { unfold shards_all. rewrite E, concat_app. cbn [concat]. unfold pick in *. rewrite !filter_app, Hpre, Hpost.
    now rewrite app_nil_r. }
  rewrite Etops. unfold stream_srcs. apply within_ok_snoc_run.
  - unfold pick. rewrite <- filter_rev'. now apply within_ok_filter.
  - eapply src_before_mono; [| |exact Hb].
    + intros x Hx. change (In x (trecs (rev (pick top sh)))) in Hx. change (In x (trecs (rev sh))).
      revert Hx. apply trecs_incl. intros t Ht'. apply in_rev, pick_in in Ht'. now apply -> in_rev.
    + intros x. apply trecs_incl, pick_in.
Qed.

(** * [content_ok] is preserved by each kind of compaction *)
Section Kinds.
  Variables (s : state) (ws : list rec) (lvl : N) (top bot : list N) (added : list (N * N)).
  Hypothesis Hsrc : src_inv s.
  Hypothesis Htier : scan_inv (scan_srcs s).
  Hypothesis Hcontent : content_ok s ws.

  Theorem compact_move_content_ok :
    lvl_in s lvl -> shards_room (pick top (st_l0 s)) (lv_shards (get_level s lvl)) ->
    content_ok (compact s KMove lvl top bot added) ws.
  Proof. intros H1 H2. eapply content_ok_refines; [|exact Hcontent]. now apply compact_move_refines. Qed.

  Theorem compact_l0l0_content_ok :
    cut_ok (compact_stream (pick top (st_l0 s)) []) added -> fresh_ids top added ->
    content_ok (compact s KL0L0 lvl top bot added) ws.
  Proof.
    intros H1 H2. eapply content_ok_refines; [|exact Hcontent].
    apply compact_l0l0_refines; [now apply l0_merge_order | exact H1 | exact H2].
  Qed.

  Theorem compact_drain_content_ok :
    let lv := get_level s lvl in
    lvl_in s lvl -> one_shard top (lv_shards lv) ->
    cut_ok (compact_stream (pick top (shards_all (lv_shards lv))) (pick bot (lv_main lv))) added ->
    content_ok (compact s KDrain lvl top bot added) ws.
  Proof.
    intros lv H1 H2 H3. eapply content_ok_refines; [|exact Hcontent].
    apply compact_drain_refines; [exact H1 | now apply ingest_merge_order | exact H3].
  Qed.

  Theorem compact_keep_content_ok :
    let lv := get_level s lvl in
    let tops := pick top (shards_all (lv_shards lv)) in
    let bots := pick bot (lv_main lv) in
    lvl_in s lvl -> one_shard top (lv_shards lv) ->
    cut_ok (compact_stream tops bots) added ->
    shards_room (cut (compact_stream tops bots) added) (shards_drop top (lv_shards lv)) ->
    content_ok (compact s KKeep lvl top bot added) ws.
  Proof.
    intros lv tops bots H1 H2 H3 H4. eapply content_ok_refines; [|exact Hcontent].
    apply compact_keep_refines; [exact H1 | now apply ingest_merge_order | exact H3 | exact H4].
  Qed.

  Theorem compact_regular_content_ok :
    let lv := get_level s lvl in
    let nx := get_level s (lvl + 1) in
    1 <= lvl -> (S (lvl_idx lvl) < length (st_lvls s))%nat ->
    pick top (shards_all (lv_shards lv)) = [] ->
    cut_ok (compact_stream (pick top (lv_main lv)) (pick bot (lv_main nx))) added ->
    content_ok (compact s KRegular lvl top bot added) ws.
  Proof.
    intros lv nx H1 H2 H3 H4. eapply content_ok_refines; [|exact Hcontent].
    apply compact_regular_refines; [exact H1 | exact H2 | exact H3 | now apply regular_merge_order | exact H4].
  Qed.
End Kinds.

(** * The hypotheses are satisfiable: a history through every kind of compaction *)
Definition cx_ops : list op :=
  [OPut (mk "a" mx "a1" 1); OPut (mk "k" mx "v1" 2); ORotate; OFlush;
   OPut (mk "k" mx "v2" 3); ORotate; OFlush].
Definition cx_ws : list rec := writes cx_ops.
Definition cx_s0 : state := run (init 1) cx_ops.
Definition cx_l0 : state := compact cx_s0 KL0L0 0 [1; 2] [] [(7, 2)].
Definition cx_s1 : state := compact cx_s0 KMove 5 [1; 2] [] [].
Definition cx_keep : state := compact cx_s1 KKeep 5 [1; 2] [] [(7, 2)].
Definition cx_s2 : state := compact cx_s1 KDrain 5 [1; 2] [] [(7, 2)].
Definition cx_s3 : state := compact cx_s2 KRegular 5 [7] [] [(8, 2)].

Lemma cx_s0_J : J cx_s0 cx_ws.
Proof. apply (run_J cx_ops (init 1) [] (J_init 1)); vm_compute; reflexivity. Qed.

Lemma cx_inv s : tier_inv_b s = true -> src_inv s /\ scan_inv (scan_srcs s).
Proof. apply tier_inv_b_sound. Qed.

Example cx_l0_content_ok : content_ok cx_l0 cx_ws.
Proof.
  destruct cx_s0_J as [Hs Ht Hc _ _ _]. apply compact_l0l0_content_ok; try assumption.
  - apply cut_okb_spec. vm_compute. reflexivity.
  - intros p [<-|[]]. reflexivity.
Qed.

Example cx_s1_content_ok : content_ok cx_s1 cx_ws.
Proof.
  destruct cx_s0_J as [Hs Ht Hc _ _ _]. apply compact_move_content_ok; try assumption.
  - unfold lvl_in. vm_compute. lia.
  - apply shards_room_4. reflexivity.
Qed.

Lemma cx_one_shard : one_shard [1; 2] (lv_shards (get_level cx_s1 5)).
Proof.
  exists [[]], (pick [1; 2] (st_l0 cx_s0)), [[]; []]. split; [vm_compute; reflexivity|]. split; reflexivity.
Qed.

Example cx_keep_content_ok : content_ok cx_keep cx_ws.
Proof.
  destruct (cx_inv cx_s1 ltac:(vm_compute; reflexivity)) as [Hs Ht].
  apply compact_keep_content_ok; try assumption.
  - exact cx_s1_content_ok.
  - unfold lvl_in. vm_compute. lia.
  - exact cx_one_shard.
  - apply cut_okb_spec. vm_compute. reflexivity.
  - apply shards_room_4. reflexivity.
Qed.

Example cx_s2_content_ok : content_ok cx_s2 cx_ws.
Proof.
  destruct (cx_inv cx_s1 ltac:(vm_compute; reflexivity)) as [Hs Ht].
  apply compact_drain_content_ok; try assumption.
  - exact cx_s1_content_ok.
  - unfold lvl_in. vm_compute. lia.
  - exact cx_one_shard.
  - apply cut_okb_spec. vm_compute. reflexivity.
Qed.

Example cx_s3_content_ok : content_ok cx_s3 cx_ws.
Proof.
  destruct (cx_inv cx_s2 ltac:(vm_compute; reflexivity)) as [Hs Ht].
  apply compact_regular_content_ok; try assumption.
  - exact cx_s2_content_ok.
  - lia.
  - vm_compute. lia.
  - reflexivity.
  - apply cut_okb_spec. vm_compute. reflexivity.
Qed.

(** ... and reads of the final state return the latest write. *)
Example cx_s3_reads k v : get cx_s3 k v = latest_at cx_ws k v.
Proof.
  destruct (cx_inv cx_s3 ltac:(vm_compute; reflexivity)) as [Hs Ht].
  apply get_latest; [exact Hs | exact Ht | exact cx_s3_content_ok | exact (j_seq _ _ cx_s0_J)].
Qed.

Example cx_s3_value :
  option_map r_val (get cx_s3 (of_string "k") mx) = Some (of_string "v2") /\
  List.length (lv_main (get_level cx_s3 6)) = 1%nat.
Proof. vm_compute. split; reflexivity. Qed.

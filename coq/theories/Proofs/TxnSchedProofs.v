(** C05: invariant of [Model.TxnSched] over all schedules (both versions of
    the oracle; the watermark operations are atomic). *)
From Coq Require Import List NArith ZArith Bool Lia ZifyN ZifyBool.
From NoKV Require Import Base.Bytes Base.Sched Spec.SerialSpec Model.TxnOracle Model.TxnSched
                         Proofs.TxnStoreLemmas.
Import ListNotations.
Local Open Scope N_scope.

(** * The sequential watermark never passes an index with a positive count *)
Lemma adv_ge f cnt last d : d <= wm_advance f cnt last d.
Proof.
  revert d; induction f as [|f IH]; intros d; cbn [wm_advance]; [lia|].
  destruct ((d <? last) && (cnt (d + 1)%N <=? 0)%Z); [specialize (IH (d + 1)); lia | lia].
Qed.
Lemma adv_le f cnt last d : d <= last -> wm_advance f cnt last d <= last.
Proof.
  revert d; induction f as [|f IH]; intros d H; cbn [wm_advance]; [exact H|].
  destruct (d <? last) eqn:E; cbn [andb]; [|exact H].
  destruct (cnt (d + 1)%N <=? 0)%Z; [|exact H]. apply IH. apply N.ltb_lt in E. lia.
Qed.
Lemma adv_stops f cnt last d j : d < j -> (0 < cnt j)%Z -> wm_advance f cnt last d < j.
Proof.
  revert d; induction f as [|f IH]; intros d H Hc; cbn [wm_advance]; [exact H|].
  destruct (d <? last); cbn [andb]; [|exact H].
  destruct (cnt (d + 1)%N <=? 0)%Z eqn:E; [|exact H].
  apply IH; [|exact Hc]. destruct (N.eq_dec (d + 1) j) as [<-|Hne]; [apply Z.leb_le in E; lia | lia].
Qed.

Definition wm_ok (w : wm) : Prop :=
  wm_done w <= wm_last w /\ forall i, (0 < wm_cnt w i)%Z -> wm_done w < i.

Lemma wm_cnt_add i d w j :
  wm_cnt (wm_add i d w) j = if i =? 0 then wm_cnt w j else if j =? i then (wm_cnt w j + d)%Z else wm_cnt w j.
Proof. unfold wm_add. destruct (i =? 0); reflexivity. Qed.

Lemma wm_done_add_ge i d w : wm_done w <= wm_done (wm_add i d w).
Proof. unfold wm_add. destruct (i =? 0); [lia|]. cbn. apply adv_ge. Qed.

Lemma wm_ok_add i d w :
  wm_ok w -> ((0 < d)%Z -> wm_done w < i) -> wm_ok (wm_add i d w).
Proof.
  intros [H1 H2] Hi. unfold wm_add. destruct (i =? 0) eqn:E0; [split; assumption|].
  split; cbn.
  - now apply adv_le.
  - intros j Hj. apply adv_stops; [|exact Hj].
    destruct (j =? i) eqn:E; [|now apply H2]. apply N.eqb_eq in E. subst j.
    destruct (Z.ltb_spec 0 (wm_cnt w i)) as [Hp|Hp]; [now apply H2|]. apply Hi. lia.
Qed.

Lemma wm_ok_set_last i w : wm_ok w -> wm_ok (wm_set_last i w).
Proof. intros [H1 H2]. split; cbn; [lia | exact H2]. Qed.

Lemma wm_ok_begin i w : wm_ok w -> wm_done w < i -> wm_ok (wm_begin i w).
Proof.
  intros H Hi. unfold wm_begin. apply wm_ok_add; [now apply wm_ok_set_last | intros _; exact Hi].
Qed.
Lemma wm_ok_finish i w : wm_ok w -> wm_ok (wm_finish i w).
Proof. intros H. unfold wm_finish. apply wm_ok_add; [exact H | lia]. Qed.

Lemma wm_last_add' i d w : wm_last (wm_add i d w) = wm_last w.
Proof. unfold wm_add. destruct (i =? 0); reflexivity. Qed.

(** * Invariant *)
Definition chosen (pc : tpc) : option N :=
  match pc with
  | PNew _ => None
  | PLoad1 _ n => Some n
  | PLoad2 _ r | PWait r _ | PRead r _ _ _ _ | PCommit r _ _ _ | PApply r _ _ _ _ | PFin r _ _ => Some r
  end.

Definition entry (ts : N) (k : bytes) (v : option bytes) : sentry := {| se_key := k; se_ver := ts; se_val := v |}.

Record InvS (s : sstate) : Prop := {
  z_pos : 1 <= o_next (s_orc s);
  z_last : wm_last (o_txnmark (s_orc s)) = o_next (s_orc s) - 1;
  z_wm : wm_ok (o_txnmark (s_orc s));
  z_zero : forall j, o_next (s_orc s) <= j -> wm_cnt (o_txnmark (s_orc s)) j = 0%Z;
  z_rts : forall t r, chosen (s_threads s t) = Some r -> r < o_next (s_orc s);
  z_fly : forall t r obs ts todo ws, s_threads s t = PApply r obs ts todo ws ->
            (0 < wm_cnt (o_txnmark (s_orc s)) ts)%Z /\ 1 <= ts < o_next (s_orc s) /\ In (ts, ws) (s_issued s) /\
            (forall k v, In (k, v) ws -> In (k, v) todo \/ In (entry ts k v) (s_store s));
  z_uniq : forall t1 t2 r1 o1 td1 w1 r2 o2 td2 w2 ts,
            s_threads s t1 = PApply r1 o1 ts td1 w1 -> s_threads s t2 = PApply r2 o2 ts td2 w2 -> t1 = t2;
  z_sep : forall t r t' r' obs ts todo ws,
            left_readts (s_threads s t) = Some r -> s_threads s t' = PApply r' obs ts todo ws -> r < ts;
  z_iss : forall ts ws, In (ts, ws) (s_issued s) ->
            (exists t r obs todo, s_threads s t = PApply r obs ts todo ws) \/ fully_applied (s_store s) ts ws;
  z_obs : forall t r, left_readts (s_threads s t) = Some r ->
            forall k v, In (k, v) (obs_of (s_threads s t)) -> v = read_at (s_store s) k r }.

Definition not_apply (pc : tpc) : Prop := match pc with PApply _ _ _ _ _ => False | _ => True end.

Section Steps.
  Variable fixed : bool.
  Variable fp : bytes -> N.
  Variable c : cfg.

  Lemma set_thread_same f t pc : set_thread f t pc t = pc.
  Proof. unfold set_thread. now rewrite N.eqb_refl. Qed.
  Lemma set_thread_other f t pc j : j <> t -> set_thread f t pc j = f j.
  Proof. intros H. unfold set_thread. apply N.eqb_neq in H. now rewrite H. Qed.

  (** a step of thread [t] that keeps the timestamp counter, the commit
      watermark, the store and the issued list, between non-applying states *)
  Lemma inv_local s o' t pc' :
    InvS s ->
    o_next o' = o_next (s_orc s) -> o_txnmark o' = o_txnmark (s_orc s) ->
    not_apply (s_threads s t) -> not_apply pc' ->
    (forall r, chosen pc' = Some r -> r < o_next (s_orc s)) ->
    (forall r, left_readts pc' = Some r ->
       (forall t' r' obs ts todo ws, s_threads s t' = PApply r' obs ts todo ws -> r < ts) /\
       (forall k v, In (k, v) (obs_of pc') -> v = read_at (s_store s) k r)) ->
    InvS (upd s o' (s_store s) t pc' (s_issued s)).
  Proof.
    intros HI Hn Hm Hold Hnew Hch Hleft.
    assert (Hfly : forall j r obs ts todo ws,
               set_thread (s_threads s) t pc' j = PApply r obs ts todo ws ->
               j <> t /\ s_threads s j = PApply r obs ts todo ws).
    { intros j r obs ts todo ws H. destruct (N.eq_dec j t) as [->|Hj].
      - rewrite set_thread_same in H. rewrite H in Hnew. contradiction.
      - rewrite set_thread_other in H by exact Hj. auto. }
    constructor; cbn [upd s_orc s_store s_threads s_issued]; rewrite ?Hn, ?Hm.
    - apply (z_pos s HI).
    - apply (z_last s HI).
    - apply (z_wm s HI).
    - apply (z_zero s HI).
    - intros j r H. destruct (N.eq_dec j t) as [->|Hj].
      + rewrite set_thread_same in H. now apply Hch.
      + rewrite set_thread_other in H by exact Hj. now apply (z_rts s HI j).
    - intros j r obs ts todo ws H. apply Hfly in H as [_ H]. now apply (z_fly s HI j r obs ts todo ws).
    - intros t1 t2 r1 o1 td1 w1 r2 o2 td2 w2 ts H1 H2. apply Hfly in H1 as [_ H1]. apply Hfly in H2 as [_ H2].
      now apply (z_uniq s HI t1 t2 r1 o1 td1 w1 r2 o2 td2 w2 ts).
    - intros j r j' r' obs ts todo ws H1 H2. apply Hfly in H2 as [_ H2].
      destruct (N.eq_dec j t) as [->|Hj].
      + rewrite set_thread_same in H1. destruct (Hleft r H1) as [Hs _]. now apply (Hs j' r' obs ts todo ws).
      + rewrite set_thread_other in H1 by exact Hj. now apply (z_sep s HI j r j' r' obs ts todo ws).
    - intros ts ws H. destruct (z_iss s HI ts ws H) as [(j & r & obs & todo & Hj)|Hf]; [left|now right].
      exists j, r, obs, todo. rewrite set_thread_other; [exact Hj|]. intros ->. rewrite Hj in Hold. contradiction.
    - intros j r H k v Hkv. destruct (N.eq_dec j t) as [->|Hj].
      + rewrite set_thread_same in H, Hkv. destruct (Hleft r H) as [_ Ho]. now apply Ho.
      + rewrite set_thread_other in H, Hkv by exact Hj. now apply (z_obs s HI j r).
  Qed.

  Lemma left_chosen pc r : left_readts pc = Some r -> chosen pc = Some r.
  Proof. destruct pc; cbn; congruence. Qed.

  Lemma inv_after_reads s t r fps obs ws :
    InvS s -> not_apply (s_threads s t) -> r < o_next (s_orc s) ->
    (forall t' r' obs' ts todo ws', s_threads s t' = PApply r' obs' ts todo ws' -> r < ts) ->
    (forall k v, In (k, v) obs -> v = read_at (s_store s) k r) ->
    InvS (after_reads s t r fps obs ws).
  Proof.
    intros HI Hna Hr Hsep Hobs. unfold after_reads. destruct ws as [|w ws].
    - apply inv_local; auto; cbn; try tauto.
      + intros r0 E. inversion E; subst. exact Hr.
      + intros r0 E. inversion E; subst. split; [exact Hsep | exact Hobs].
    - apply inv_local; auto; cbn; try tauto.
      + intros r0 E. inversion E; subst. exact Hr.
      + intros r0 E. inversion E; subst. split; [exact Hsep | exact Hobs].
  Qed.

  Lemma cleanup_proj o : o_next (orc_cleanup fixed c o) = o_next o /\ o_txnmark (orc_cleanup fixed c o) = o_txnmark o.
  Proof.
    unfold orc_cleanup. destruct (negb (cf_detect c)); [auto|]. destruct (_ <=? _); auto.
  Qed.

  Theorem tstep_invS s t s' : InvS s -> tstep fixed fp c s t = Some s' -> InvS s'.
  Proof.
    intros HI. unfold tstep.
    pose proof (z_pos s HI) as Hpos. pose proof (z_last s HI) as Hlast.
    destruct (s_threads s t) as [p|p n|p r|r p|r todo fps obs ws|r fps obs ws|r obs ts todo ws|r obs res] eqn:Epc.
    - (* PNew *)
      destruct fixed; intro H; inversion H; subst; apply inv_local; auto; cbn; try tauto; try rewrite Epc; cbn; auto;
        try discriminate; intros r E; inversion E; subst; unfold read_ts; lia.
    - (* PLoad1 *)
      intro H; inversion H; subst. apply inv_local; auto; cbn; try rewrite Epc; cbn; auto; try discriminate.
      intros r E; inversion E; subst. pose proof (z_rts s HI t n) as Hn. rewrite Epc in Hn. specialize (Hn eq_refl). lia.
    - (* PLoad2 *)
      intro H; inversion H; subst. apply inv_local; auto; cbn; try rewrite Epc; cbn; auto; try discriminate.
      intros r0 E; inversion E; subst. pose proof (z_rts s HI t r0) as Hn. rewrite Epc in Hn. now apply Hn.
    - (* PWait *)
      destruct (r <=? wm_done (o_txnmark (s_orc s))) eqn:Eg; [|discriminate]. apply N.leb_le in Eg.
      assert (Hr : r < o_next (s_orc s)) by (pose proof (z_rts s HI t r) as Hn; rewrite Epc in Hn; now apply Hn).
      assert (Hsep : forall t' r' obs' ts todo ws', s_threads s t' = PApply r' obs' ts todo ws' -> r < ts).
      { intros t' r' obs' ts todo ws' Ht'. destruct (z_fly s HI t' r' obs' ts todo ws' Ht') as (Hc & _).
        destruct (z_wm s HI) as [_ Hw]. specialize (Hw ts Hc). lia. }
      destruct (p_reads p) as [|k ks]; intro H; inversion H; subst.
      + apply inv_after_reads; auto; [rewrite Epc; exact I | intros k v []].
      + apply inv_local; auto; cbn; try rewrite Epc; cbn; auto.
        * intros r0 E; inversion E; subst. exact Hr.
        * intros r0 E; inversion E; subst. split; [exact Hsep | intros k0 v []].
    - (* PRead *)
      assert (Hr : r < o_next (s_orc s)) by (pose proof (z_rts s HI t r) as Hn; rewrite Epc in Hn; now apply Hn).
      assert (Hsep : forall t' r' obs' ts todo' ws', s_threads s t' = PApply r' obs' ts todo' ws' -> r < ts).
      { intros t' r' obs' ts todo' ws' Ht'. apply (z_sep s HI t r t' r' obs' ts todo' ws'); [now rewrite Epc | exact Ht']. }
      assert (Hobs : forall k v, In (k, v) obs -> v = read_at (s_store s) k r).
      { intros k v Hkv. apply (z_obs s HI t r); rewrite Epc; [reflexivity | exact Hkv]. }
      destruct todo as [|k todo].
      + intro H; inversion H; subst. apply inv_after_reads; auto. rewrite Epc; exact I.
      + assert (Hobs' : forall k0 v, In (k0, v) ((k, read_at (s_store s) k r) :: obs) -> v = read_at (s_store s) k0 r).
        { intros k0 v [E|Hkv]; [inversion E; subst; reflexivity | now apply Hobs]. }
        destruct todo as [|k2 todo]; intro H; inversion H; subst.
        * apply inv_after_reads; auto. rewrite Epc; exact I.
        * apply inv_local; auto; cbn; try rewrite Epc; cbn; auto.
          -- intros r0 E; inversion E; subst. exact Hr.
          -- intros r0 E; inversion E; subst. split; [exact Hsep | exact Hobs'].
    - (* PCommit *)
      assert (Hr : r < o_next (s_orc s)) by (pose proof (z_rts s HI t r) as Hn; rewrite Epc in Hn; now apply Hn).
      assert (Hsep : forall t' r' obs' ts todo' ws', s_threads s t' = PApply r' obs' ts todo' ws' -> r < ts).
      { intros t' r' obs' ts todo' ws' Ht'. apply (z_sep s HI t r t' r' obs' ts todo' ws'); [now rewrite Epc | exact Ht']. }
      assert (Hobs : forall k v, In (k, v) obs -> v = read_at (s_store s) k r).
      { intros k v Hkv. apply (z_obs s HI t r); rewrite Epc; [reflexivity | exact Hkv]. }
      destruct (has_conflict (s_orc s) (mk_txn r fps)).
      { intro H; inversion H; subst. apply inv_local; auto; cbn; try rewrite Epc; cbn; auto.
        - intros r0 E; inversion E; subst. exact Hr.
        - intros r0 E; inversion E; subst. split; [exact Hsep | exact Hobs]. }
      set (o1 := orc_cleanup fixed c (orc_done_read t r (s_orc s))).
      destruct (cleanup_proj (orc_done_read t r (s_orc s))) as [Hn1 Hm1]. fold o1 in Hn1, Hm1. cbn in Hn1, Hm1.
      unfold orc_issue. intro H; inversion H; subst s'; clear H.
      set (ts := o_next o1) in *.
      assert (Hts : ts = o_next (s_orc s)) by exact Hn1.
      assert (Hfly : forall j r0 obs0 ts0 todo0 ws0,
                 set_thread (s_threads s) t (PApply r obs ts ws ws) j = PApply r0 obs0 ts0 todo0 ws0 ->
                 (j = t /\ r0 = r /\ obs0 = obs /\ ts0 = ts /\ todo0 = ws /\ ws0 = ws) \/
                 (j <> t /\ s_threads s j = PApply r0 obs0 ts0 todo0 ws0)).
      { intros j r0 obs0 ts0 todo0 ws0 Hj. destruct (N.eq_dec j t) as [->|Hne].
        - rewrite set_thread_same in Hj. inversion Hj; subst. left. repeat split; reflexivity.
        - rewrite set_thread_other in Hj by exact Hne. right. auto. }
      destruct (z_wm s HI) as [Hd Hw].
      constructor; cbn [upd s_orc s_store s_threads s_issued o_next o_txnmark].
      + lia.
      + unfold wm_begin. rewrite wm_last_add'. cbn. rewrite Hm1, Hlast. lia.
      + apply wm_ok_begin; rewrite Hm1; [apply (z_wm s HI) | lia].
      + intros j Hj. unfold wm_begin. rewrite wm_cnt_add. cbn [wm_set_last wm_cnt]. rewrite Hm1.
        destruct (ts =? 0); [apply (z_zero s HI); lia|].
        destruct (j =? ts) eqn:E; [apply N.eqb_eq in E; lia | apply (z_zero s HI); lia].
      + intros j r0 Hj. destruct (N.eq_dec j t) as [->|Hne].
        * rewrite set_thread_same in Hj. cbn in Hj. inversion Hj; subst. lia.
        * rewrite set_thread_other in Hj by exact Hne. pose proof (z_rts s HI j r0 Hj). lia.
      + intros j r0 obs0 ts0 todo0 ws0 Hj. unfold wm_begin. rewrite wm_cnt_add. cbn [wm_set_last wm_cnt]. rewrite Hm1.
        assert (E0 : ts =? 0 = false) by (apply N.eqb_neq; lia). rewrite E0.
        apply Hfly in Hj as [(-> & -> & -> & -> & -> & ->)|[Hne Hj]].
        * rewrite N.eqb_refl. rewrite (z_zero s HI ts) by lia. repeat split; try lia; try (now left); try (intros; now left).
        * destruct (z_fly s HI j r0 obs0 ts0 todo0 ws0 Hj) as (F1 & F2 & F3 & F4).
          assert (E : ts0 =? ts = false) by (apply N.eqb_neq; lia). rewrite E.
          repeat split; try lia; try exact F1; try (now right); try exact F4.
      + intros t1 t2 r1 ob1 td1 w1 r2 ob2 td2 w2 ts0 H1 H2.
        apply Hfly in H1 as [(-> & _ & _ & E1 & _)|[Hne1 H1]]; apply Hfly in H2 as [(-> & _ & _ & E2 & _)|[Hne2 H2]];
          try reflexivity.
        * destruct (z_fly s HI _ _ _ _ _ _ H2) as (_ & F2 & _). lia.
        * destruct (z_fly s HI _ _ _ _ _ _ H1) as (_ & F2 & _). lia.
        * now apply (z_uniq s HI t1 t2 r1 ob1 td1 w1 r2 ob2 td2 w2 ts0).
      + intros j r0 j' r' obs' ts0 todo0 ws0 H1 H2.
        assert (Hleft : left_readts (s_threads s j) = Some r0).
        { destruct (N.eq_dec j t) as [->|Hne]; [rewrite set_thread_same in H1; cbn in H1; now rewrite Epc|].
          now rewrite set_thread_other in H1 by exact Hne. }
        apply Hfly in H2 as [(-> & _ & _ & -> & _)|[Hne2 H2]].
        * pose proof (z_rts s HI j r0 (left_chosen _ _ Hleft)). lia.
        * now apply (z_sep s HI j r0 j' r' obs' ts0 todo0 ws0).
      + intros ts0 ws0 [E|Hin].
        * injection E as <- <-. left. exists t, r, obs, ws. apply set_thread_same.
        * destruct (z_iss s HI ts0 ws0 Hin) as [(j & r0 & obs0 & todo0 & Hj)|Hf]; [left|now right].
          exists j, r0, obs0, todo0. rewrite set_thread_other; [exact Hj|]. intros ->. rewrite Hj in Epc. discriminate.
      + intros j r0 H1 k v Hkv. destruct (N.eq_dec j t) as [->|Hne].
        * rewrite set_thread_same in H1, Hkv. cbn in H1, Hkv. inversion H1; subst. now apply Hobs.
        * rewrite set_thread_other in H1, Hkv by exact Hne. now apply (z_obs s HI j r0).
    - (* PApply *)
      destruct (z_fly s HI t r obs ts todo ws Epc) as (F1 & F2 & F3 & F4).
      destruct todo as [|[k0 v0] todo]; intro H; inversion H; subst s'; clear H.
      + (* doneCommit *)
        assert (Hfly : forall j r0 obs0 ts0 todo0 ws0,
                   set_thread (s_threads s) t (PFin r obs (COk ts)) j = PApply r0 obs0 ts0 todo0 ws0 ->
                   j <> t /\ s_threads s j = PApply r0 obs0 ts0 todo0 ws0).
        { intros j r0 obs0 ts0 todo0 ws0 Hj. destruct (N.eq_dec j t) as [->|Hne].
          - rewrite set_thread_same in Hj. discriminate.
          - rewrite set_thread_other in Hj by exact Hne. auto. }
        constructor; cbn [upd s_orc s_store s_threads s_issued orc_done_commit o_next o_txnmark].
        * exact Hpos.
        * unfold wm_finish. now rewrite wm_last_add'.
        * apply wm_ok_finish, (z_wm s HI).
        * intros j Hj. unfold wm_finish. rewrite wm_cnt_add.
          destruct (ts =? 0); [now apply (z_zero s HI)|].
          destruct (j =? ts) eqn:E; [apply N.eqb_eq in E; lia | now apply (z_zero s HI)].
        * intros j r0 Hj. destruct (N.eq_dec j t) as [->|Hne].
          -- rewrite set_thread_same in Hj. cbn in Hj. inversion Hj; subst.
             pose proof (z_rts s HI t r0) as Hn. rewrite Epc in Hn. now apply Hn.
          -- rewrite set_thread_other in Hj by exact Hne. now apply (z_rts s HI j r0).
        * intros j r0 obs0 ts0 todo0 ws0 Hj. apply Hfly in Hj as [Hne Hj].
          destruct (z_fly s HI j r0 obs0 ts0 todo0 ws0 Hj) as (G1 & G2 & G3 & G4).
          unfold wm_finish. rewrite wm_cnt_add.
          assert (E0 : ts =? 0 = false) by (apply N.eqb_neq; lia). rewrite E0.
          assert (E : ts0 =? ts = false).
          { apply N.eqb_neq. intros ->. apply Hne. now apply (z_uniq s HI j t r0 obs0 todo0 ws0 r obs [] ws ts). }
          rewrite E. auto.
        * intros t1 t2 r1 ob1 td1 w1 r2 ob2 td2 w2 ts0 H1 H2. apply Hfly in H1 as [_ H1]. apply Hfly in H2 as [_ H2].
          now apply (z_uniq s HI t1 t2 r1 ob1 td1 w1 r2 ob2 td2 w2 ts0).
        * intros j r0 j' r' obs' ts0 todo0 ws0 H1 H2. apply Hfly in H2 as [_ H2].
          assert (Hleft : left_readts (s_threads s j) = Some r0).
          { destruct (N.eq_dec j t) as [->|Hne]; [rewrite set_thread_same in H1; cbn in H1; now rewrite Epc|].
            now rewrite set_thread_other in H1 by exact Hne. }
          now apply (z_sep s HI j r0 j' r' obs' ts0 todo0 ws0).
        * intros ts0 ws0 Hin. destruct (z_iss s HI ts0 ws0 Hin) as [(j & r0 & obs0 & todo0 & Hj)|Hf]; [|now right].
          destruct (N.eq_dec j t) as [->|Hne].
          -- rewrite Epc in Hj. inversion Hj; subst. right. intros k v Hkv.
             destruct (F4 k v Hkv) as [[]|Hs]. exact Hs.
          -- left. exists j, r0, obs0, todo0. now rewrite set_thread_other by exact Hne.
        * intros j r0 H1 k v Hkv. destruct (N.eq_dec j t) as [->|Hne].
          -- rewrite set_thread_same in H1, Hkv. cbn in H1, Hkv. inversion H1; subst.
             apply (z_obs s HI t r0); rewrite Epc; [reflexivity | exact Hkv].
          -- rewrite set_thread_other in H1, Hkv by exact Hne. now apply (z_obs s HI j r0).
      + (* one entry *)
        cbn [fst snd].
        assert (Hfly : forall j r0 obs0 ts0 todo0 ws0,
                   set_thread (s_threads s) t (PApply r obs ts todo ws) j = PApply r0 obs0 ts0 todo0 ws0 ->
                   exists todo1, s_threads s j = PApply r0 obs0 ts0 todo1 ws0 /\
                                 (j = t -> todo1 = (k0, v0) :: todo0 /\ ts0 = ts /\ ws0 = ws) /\ (j <> t -> todo1 = todo0)).
        { intros j r0 obs0 ts0 todo0 ws0 Hj. destruct (N.eq_dec j t) as [->|Hne].
          - rewrite set_thread_same in Hj. inversion Hj; subst. exists ((k0, v0) :: todo0). rewrite Epc.
            split; [reflexivity|]. split; [intros _; repeat split; reflexivity | intro Hc; exfalso; now apply Hc].
          - rewrite set_thread_other in Hj by exact Hne. exists todo0.
            split; [exact Hj|]. split; [intro Hc; exfalso; now apply Hne | intros _; reflexivity]. }
        constructor; cbn [upd s_orc s_store s_threads s_issued].
        * exact Hpos.
        * exact Hlast.
        * apply (z_wm s HI).
        * apply (z_zero s HI).
        * intros j r0 Hj. destruct (N.eq_dec j t) as [->|Hne].
          -- rewrite set_thread_same in Hj. cbn in Hj. inversion Hj; subst.
             pose proof (z_rts s HI t r0) as Hn. rewrite Epc in Hn. now apply Hn.
          -- rewrite set_thread_other in Hj by exact Hne. now apply (z_rts s HI j r0).
        * intros j r0 obs0 ts0 todo0 ws0 Hj. apply Hfly in Hj as [todo1 (Hj & Hsame & Hoth)].
          destruct (z_fly s HI j r0 obs0 ts0 todo1 ws0 Hj) as (G1 & G2 & G3 & G4).
          repeat split; auto; try lia. intros k v Hkv. destruct (G4 k v Hkv) as [Hin|Hs]; [|right; now right].
          destruct (N.eq_dec j t) as [->|Hne].
          -- destruct (Hsame eq_refl) as (-> & -> & ->). destruct Hin as [E|Hin]; [|now left].
             inversion E; subst. right. now left.
          -- rewrite (Hoth Hne) in Hin. now left.
        * intros t1 t2 r1 ob1 td1 w1 r2 ob2 td2 w2 ts0 H1 H2.
          apply Hfly in H1 as [x1 (H1 & _)]. apply Hfly in H2 as [x2 (H2 & _)].
          now apply (z_uniq s HI t1 t2 r1 ob1 x1 w1 r2 ob2 x2 w2 ts0).
        * intros j r0 j' r' obs' ts0 todo0 ws0 H1 H2. apply Hfly in H2 as [x2 (H2 & _)].
          assert (Hleft : left_readts (s_threads s j) = Some r0).
          { destruct (N.eq_dec j t) as [->|Hne]; [rewrite set_thread_same in H1; cbn in H1; now rewrite Epc|].
            now rewrite set_thread_other in H1 by exact Hne. }
          now apply (z_sep s HI j r0 j' r' obs' ts0 x2 ws0).
        * intros ts0 ws0 Hin. destruct (z_iss s HI ts0 ws0 Hin) as [(j & r0 & obs0 & todo0 & Hj)|Hf].
          -- left. destruct (N.eq_dec j t) as [->|Hne].
             ++ rewrite Epc in Hj. inversion Hj; subst. exists t, r0, obs0, todo. apply set_thread_same.
             ++ exists j, r0, obs0, todo0. now rewrite set_thread_other by exact Hne.
          -- right. intros k v Hkv. right. now apply Hf.
        * intros j r0 H1 k v Hkv.
          assert (Hleft : left_readts (s_threads s j) = Some r0 /\ In (k, v) (obs_of (s_threads s j))).
          { destruct (N.eq_dec j t) as [->|Hne]; [rewrite set_thread_same in H1, Hkv; cbn in H1, Hkv; now rewrite Epc|].
            now rewrite set_thread_other in H1, Hkv by exact Hne. }
          destruct Hleft as [Hl Ho].
          pose proof (z_sep s HI j r0 t r obs ts ((k0, v0) :: todo) ws Hl Epc) as Hlt.
          change ({| se_key := k0; se_ver := ts; se_val := v0 |} :: s_store s)
            with ([{| se_key := k0; se_ver := ts; se_val := v0 |}] ++ s_store s).
          rewrite read_at_app_above; [now apply (z_obs s HI j r0)|].
          intros e [<-|[]]. exact Hlt.
    - discriminate.
  Qed.
End Steps.

Section Theorems.
  Variable fixed : bool.
  Variable fp : bytes -> N.
  Variable c : cfg.

  Lemma invS_init progs : InvS (s_init progs).
  Proof.
    constructor; cbn; try lia; try (intros; discriminate); try (intros; contradiction); try reflexivity.
    split; cbn; [lia | intros i H; lia].
  Qed.

  Theorem reachable_invS progs s : reachable (tstep fixed fp c) (s_init progs) s -> InvS s.
  Proof.
    apply (inv_reachable (tstep fixed fp c) InvS); [apply invS_init | intros; eapply tstep_invS; eauto].
  Qed.

  (** Every commit timestamp at or below the read timestamp of a transaction
      that has left readTs is fully applied. *)
  Theorem inv_all_schedules progs sched t r :
    let s := Sched.run (tstep fixed fp c) (s_init progs) sched in
    left_readts (s_threads s t) = Some r ->
    forall ts ws, In (ts, ws) (s_issued s) -> ts <= r -> fully_applied (s_store s) ts ws.
  Proof.
    intros s Hl ts ws Hin Hle.
    pose proof (reachable_invS progs s (run_reachable _ _ sched)) as HI.
    destruct (z_iss s HI ts ws Hin) as [(j & r0 & obs0 & todo0 & Hj)|Hf]; [|exact Hf].
    pose proof (z_sep s HI t r j r0 obs0 ts todo0 ws Hl Hj). lia.
  Qed.

  (** Every value a transaction has read is what its snapshot holds now: two
      reads of one key agree, whatever ran in between. *)
  Theorem repeatable_all_schedules progs sched t r :
    let s := Sched.run (tstep fixed fp c) (s_init progs) sched in
    left_readts (s_threads s t) = Some r ->
    (forall k v, In (k, v) (obs_of (s_threads s t)) -> v = read_at (s_store s) k r) /\
    (forall k v1 v2, In (k, v1) (obs_of (s_threads s t)) -> In (k, v2) (obs_of (s_threads s t)) -> v1 = v2).
  Proof.
    intros s Hl. pose proof (reachable_invS progs s (run_reachable _ _ sched)) as HI.
    split; [exact (z_obs s HI t r Hl)|].
    intros k v1 v2 H1 H2. rewrite (z_obs s HI t r Hl k v1 H1), (z_obs s HI t r Hl k v2 H2). reflexivity.
  Qed.

  Lemma read_at_filter_above (st : store) k r ts :
    r < ts -> read_at (filter (fun e => negb (se_ver e =? ts)) st) k r = read_at st k r.
  Proof.
    intros Hlt. unfold read_at.
    assert (H : latest_at (filter (fun e => negb (se_ver e =? ts)) st) k r = latest_at st k r).
    { induction st as [|e st IH]; [reflexivity|]. cbn [filter].
      destruct (se_ver e =? ts) eqn:E; cbn [negb latest_at].
      - apply N.eqb_eq in E. rewrite IH.
        replace (se_ver e <=? r) with false by (symmetry; apply N.leb_gt; lia). now rewrite andb_false_r.
      - now rewrite IH. }
    now rewrite H.
  Qed.

  (** No partial view: for a transaction that has left readTs and any commit
      ever issued, either the commit is at or below the read timestamp and all
      of its writes are in the store, or it is above and removing every one of
      its entries from the store changes nothing the transaction can read. *)
  Theorem no_partial_all_schedules progs sched t r :
    let s := Sched.run (tstep fixed fp c) (s_init progs) sched in
    left_readts (s_threads s t) = Some r ->
    forall ts ws, In (ts, ws) (s_issued s) ->
      (ts <= r /\ fully_applied (s_store s) ts ws) \/
      (r < ts /\ forall k, read_at (filter (fun e => negb (se_ver e =? ts)) (s_store s)) k r = read_at (s_store s) k r).
  Proof.
    intros s Hl ts ws Hin. destruct (N.le_gt_cases ts r) as [Hle|Hgt].
    - left. split; [exact Hle | now apply (inv_all_schedules progs sched t r Hl ts ws)].
    - right. split; [exact Hgt | intros k; now apply read_at_filter_above].
  Qed.
End Theorems.

(** * The pre-repair oracle under a schedule (F7): a reader that has chosen its
    read timestamp but not yet called readMark.Begin is overtaken by a commit,
    a finished reader and a pruning commit; it then commits over a write it
    never saw. *)
From Coq Require Import String.
Definition f7_k := unhex "6b"%string.
Definition f7_k2 := unhex "6c"%string.
Definition f7_cfg := {| cf_detect := true; cf_maxcount := 64; cf_maxsize := 1048576; cf_vthr := 1024 |}.
Definition f7_fp (b : bytes) : N := N.of_nat (List.length b) * 1000 + match b with x :: _ => b2n x | [] => 0 end.
Definition f7_progs (t : N) : tprog :=
  if t =? 0 then {| p_reads := []; p_writes := [(f7_k, Some (unhex "00"%string))] |}
  else if t =? 1 then {| p_reads := [f7_k]; p_writes := [(f7_k, Some (unhex "0b"%string))] |}
  else if t =? 2 then {| p_reads := []; p_writes := [(f7_k, Some (unhex "0c"%string))] |}
  else if t =? 3 then {| p_reads := [f7_k2]; p_writes := [] |}
  else {| p_reads := []; p_writes := [(f7_k2, Some (unhex "0d"%string))] |}.
Definition f7_sched : list N :=
  [0;0;0;0;0;0;0; 1;1; 2;2;2;2;2;2;2; 3;3;3;3;3; 4;4;4;4;4;4;4; 1;1;1;1;1;1].

Lemma legacy_schedule_refuted :
  exists t r obs ts k v e,
    let s := Sched.run (tstep false f7_fp f7_cfg) (s_init f7_progs) f7_sched in
    s_threads s t = PFin r obs (COk ts) /\ In (k, v) obs /\ In e (s_store s) /\ se_key e = k /\
    r < se_ver e /\ se_ver e < ts.
Proof.
  exists 1, 1, [(f7_k, Some (unhex "00"%string))], 4, f7_k, (Some (unhex "00"%string)),
         {| se_key := f7_k; se_ver := 2; se_val := Some (unhex "0c"%string) |}.
  vm_compute. repeat split; auto.
Qed.

Example repaired_schedule_conflicts :
  exists r obs,
    s_threads (Sched.run (tstep true f7_fp f7_cfg) (s_init f7_progs)
                   [0;0;0;0;0; 1; 2;2;2;2;2; 3;3;3; 4;4;4;4;4; 1;1;1;1]) 1 = PFin r obs CConflict.
Proof. eexists. eexists. vm_compute. reflexivity. Qed.

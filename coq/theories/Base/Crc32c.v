(** Executable bitwise CRC-32C (Castagnoli), reflected polynomial 0x82F63B78,
    as computed by Go's [hash/crc32] with [crc32.MakeTable(crc32.Castagnoli)]:
    register initialised to 0xFFFFFFFF, final xor 0xFFFFFFFF.
    Writing [a] then [b] to one hasher gives [crc32c (a ++ b)]. *)
From Coq Require Import List NArith Bool String.
From Coq Require Import Init.Byte Strings.Byte.
From NoKV Require Import Base.Bytes.
Import ListNotations.
Local Open Scope N_scope.
Local Open Scope string_scope.

Definition crc_poly : N := 2197175160.      (* 0x82F63B78 *)
Definition crc_mask : N := 4294967295.      (* 0xFFFFFFFF *)

(** one shift of the reflected LFSR *)
Definition crc_shift (c : N) : N :=
  if N.odd c then N.lxor (N.div2 c) crc_poly else N.div2 c.

Definition crc_shift8 (c : N) : N :=
  crc_shift (crc_shift (crc_shift (crc_shift (crc_shift (crc_shift (crc_shift (crc_shift c))))))).

(** absorb one byte *)
Definition crc_byte (c : N) (b : byte) : N := crc_shift8 (N.lxor c (b2n b)).

(** register after absorbing [bs] starting from register [c] *)
Definition crc_update (c : N) (bs : bytes) : N := fold_left crc_byte bs c.

Definition crc32c (bs : bytes) : N := N.lxor (crc_update crc_mask bs) crc_mask.

(** known answer: crc32c "123456789" = 0xE3069283 *)
Example crc32c_kat : crc32c (unhex "313233343536373839") = 3808858755.
Proof. vm_compute. reflexivity. Qed.

Example crc32c_empty : crc32c [] = 0.
Proof. vm_compute. reflexivity. Qed.

(** * The register stays within 32 bits *)
From Coq Require Import ZArith Lia ZifyN.

Lemma lxor_lt a b n : a < 2 ^ n -> b < 2 ^ n -> N.lxor a b < 2 ^ n.
Proof.
  intros Ha Hb.
  destruct (N.eq_dec (N.lxor a b) 0) as [E|E].
  { rewrite E. apply N.neq_0_lt_0. apply N.pow_nonzero. lia. }
  destruct (N.eq_dec n 0) as [->|Hn].
  { simpl in Ha, Hb. assert (a = 0) by lia. assert (b = 0) by lia. subst. now simpl in E. }
  apply N.log2_lt_pow2; [lia|].
  eapply N.le_lt_trans; [apply N.log2_lxor|].
  apply N.max_lub_lt.
  - destruct (N.eq_dec a 0) as [->|Ha0]; [simpl; lia|]. apply N.log2_lt_pow2; lia.
  - destruct (N.eq_dec b 0) as [->|Hb0]; [simpl; lia|]. apply N.log2_lt_pow2; lia.
Qed.

Definition two32c : N := 4294967296.

Lemma lxor_lt32 a b : a < two32c -> b < two32c -> N.lxor a b < two32c.
Proof. change two32c with (2 ^ 32). apply lxor_lt. Qed.

Lemma crc_shift_lt c : c < two32c -> crc_shift c < two32c.
Proof.
  intro H. unfold crc_shift.
  assert (Hd : N.div2 c < two32c).
  { rewrite N.div2_div. unfold two32c in *. Zify.zify. Z.div_mod_to_equations. lia. }
  destruct (N.odd c); [|exact Hd].
  apply lxor_lt32; [exact Hd|]. unfold crc_poly, two32c. lia.
Qed.

Lemma crc_shift8_lt c : c < two32c -> crc_shift8 c < two32c.
Proof. intro H. unfold crc_shift8. now repeat apply crc_shift_lt. Qed.

Lemma crc_byte_lt c b : c < two32c -> crc_byte c b < two32c.
Proof.
  intro H. unfold crc_byte. apply crc_shift8_lt. apply lxor_lt32; [exact H|].
  pose proof (b2n_lt b). unfold two32c. lia.
Qed.

Lemma crc_update_lt bs : forall c, c < two32c -> crc_update c bs < two32c.
Proof.
  unfold crc_update. induction bs as [|b bs IH]; intros c H; simpl; [exact H|].
  apply IH. now apply crc_byte_lt.
Qed.

Lemma crc32c_lt bs : crc32c bs < two32c.
Proof.
  unfold crc32c. apply lxor_lt32.
  - apply crc_update_lt. unfold crc_mask, two32c. lia.
  - unfold crc_mask, two32c. lia.
Qed.

Lemma crc_update_app c (a b : bytes) : crc_update c (a ++ b)%list = crc_update (crc_update c a) b.
Proof. unfold crc_update. apply fold_left_app. Qed.

(** Go [encoding/binary] unsigned varints: [PutUvarint]/[AppendUvarint],
    [Uvarint] (slice) and [ReadUvarint] (stream), including the overflow rule. *)
From Coq Require Import List NArith ZArith Bool Lia ZifyN ZifyNat ZifyBool.
From Coq Require Import Init.Byte.
From NoKV Require Import Base.Bytes Base.Num.
Import ListNotations.
Local Open Scope N_scope.

(** PutUvarint for a uint64 (at most 10 bytes) *)
Fixpoint put_uvarint_aux (fuel : nat) (x : N) : bytes :=
  match fuel with
  | O => [n2b x]
  | S f => if x <? 128 then [n2b x] else n2b (x mod 128 + 128) :: put_uvarint_aux f (x / 128)
  end.
Definition put_uvarint (x : N) : bytes := put_uvarint_aux 9 x.

(** Uvarint: [UvOk v n] = (v, n) with n > 0; [UvShort] = (0, 0) buffer too small;
    [UvOver n] = (0, -n) overflow after reading n bytes. *)
Inductive uv_res := UvOk (v n : N) | UvShort | UvOver (n : N).

(** [i] bytes read so far, [acc] the value so far, [m] = 2^(7 i) *)
Fixpoint uvarint_aux (i acc m : N) (bs : bytes) : uv_res :=
  match bs with
  | [] => UvShort
  | b :: bs' =>
      if i =? 10 then UvOver 11
      else if b2n b <? 128 then
        if (i =? 9) && (1 <? b2n b) then UvOver 10 else UvOk (acc + b2n b * m) (i + 1)
      else uvarint_aux (i + 1) (acc + (b2n b - 128) * m) (m * 128) bs'
  end.
Definition uvarint (bs : bytes) : uv_res := uvarint_aux 0 0 1 bs.

(** ReadUvarint on a byte stream *)
Inductive rv_res := RvOk (v n : N) | RvEof | RvUnexpectedEof | RvOverflow.
Definition read_uvarint (bs : bytes) : rv_res :=
  match uvarint bs with
  | UvOk v n => RvOk v n
  | UvOver _ => RvOverflow
  | UvShort => if 10 <=? blen bs then RvOverflow
               else if blen bs =? 0 then RvEof else RvUnexpectedEof
  end.

(** sizeVarint *)
Definition size_varint (x : N) : N := blen (put_uvarint x).

(** * Round trip *)
Fixpoint uv_lim (fuel : nat) : N := match fuel with O => 2 | S f => 128 * uv_lim f end.

Lemma uv_lim_9 : uv_lim 9 = two64.
Proof. reflexivity. Qed.

Lemma uvarint_put_aux fuel : forall x i acc m rest,
  i + N.of_nat fuel = 9 -> x < uv_lim fuel ->
  uvarint_aux i acc m (put_uvarint_aux fuel x ++ rest) =
  UvOk (acc + x * m) (i + blen (put_uvarint_aux fuel x)).
Proof.
  induction fuel as [|f IH]; intros x i acc m rest Hi Hx.
  - cbn [put_uvarint_aux app uvarint_aux uv_lim] in *.
    assert (i = 9) by lia. subst i. cbn [N.eqb Pos.eqb].
    rewrite b2n_n2b by lia.
    destruct (x <? 128) eqn:E; [|lia].
    replace (1 <? x) with false by lia. cbn [andb]. rewrite blen_cons, blen_nil. f_equal.
  - cbn [put_uvarint_aux uv_lim] in *.
    destruct (x <? 128) eqn:E.
    + cbn [app uvarint_aux]. destruct (i =? 10) eqn:E10; [lia|].
      rewrite b2n_n2b by lia. rewrite E.
      replace (i =? 9) with false by lia. cbn [andb]. rewrite blen_cons, blen_nil. f_equal.
    + cbn [app uvarint_aux]. destruct (i =? 10) eqn:E10; [lia|].
      assert (Hb : x mod 128 + 128 < 256) by zdm.
      rewrite b2n_n2b by exact Hb.
      destruct (x mod 128 + 128 <? 128) eqn:E2; [lia|].
      rewrite IH; [|lia|zdm]. rewrite blen_cons. f_equal; [|lia].
      replace (x mod 128 + 128 - 128) with (x mod 128) by lia.
      rewrite <- N.add_assoc. f_equal.
      rewrite (N.div_mod x 128) at 3 by lia. lia.
Qed.

Lemma uvarint_put x rest :
  x < two64 -> uvarint (put_uvarint x ++ rest) = UvOk x (blen (put_uvarint x)).
Proof.
  intro H. unfold uvarint, put_uvarint. rewrite uvarint_put_aux; [|reflexivity|now rewrite uv_lim_9].
  f_equal; lia.
Qed.

Lemma read_uvarint_put x rest :
  x < two64 -> read_uvarint (put_uvarint x ++ rest) = RvOk x (blen (put_uvarint x)).
Proof. intro H. unfold read_uvarint. now rewrite uvarint_put. Qed.

Lemma put_uvarint_aux_len fuel x : 1 <= blen (put_uvarint_aux fuel x) <= N.of_nat fuel + 1.
Proof.
  revert x. induction fuel as [|f IH]; intro x; cbn [put_uvarint_aux].
  - rewrite blen_cons, blen_nil. lia.
  - destruct (x <? 128); [rewrite blen_cons, blen_nil; lia|].
    rewrite blen_cons. specialize (IH (x / 128)). lia.
Qed.

Lemma put_uvarint_len x : 1 <= blen (put_uvarint x) <= 10.
Proof. unfold put_uvarint. pose proof (put_uvarint_aux_len 9 x). lia. Qed.

(** * Decoding never reads beyond the buffer and never goes backwards *)
Lemma uvarint_aux_bound bs : forall i acc m v n,
  uvarint_aux i acc m bs = UvOk v n -> i < n <= i + blen bs.
Proof.
  induction bs as [|b bs IH]; intros i acc m v n H; cbn [uvarint_aux] in H; [discriminate|].
  destruct (i =? 10); [discriminate|].
  destruct (b2n b <? 128).
  - destruct ((i =? 9) && (1 <? b2n b)); [discriminate|]. inversion H; subst. rewrite blen_cons. lia.
  - apply IH in H. rewrite blen_cons. lia.
Qed.

Lemma uvarint_bound bs v n : uvarint bs = UvOk v n -> 0 < n <= blen bs.
Proof. unfold uvarint. intro H. apply uvarint_aux_bound in H. lia. Qed.

Lemma uvarint_aux_n_le_10 bs : forall i acc m v n,
  uvarint_aux i acc m bs = UvOk v n -> i <= 10 -> n <= 10.
Proof.
  induction bs as [|b bs IH]; intros i acc m v n H Hi; cbn [uvarint_aux] in H; [discriminate|].
  destruct (i =? 10) eqn:E10; [discriminate|].
  destruct (b2n b <? 128).
  - destruct ((i =? 9) && (1 <? b2n b)); [discriminate|]. inversion H; subst. lia.
  - apply IH in H; lia.
Qed.

(** decoded values fit 64 bits *)
Lemma uvarint_aux_val bs : forall i acc m v n,
  uvarint_aux i acc m bs = UvOk v n ->
  i <= 9 -> m = 128 ^ i -> acc < m -> v < two64.
Proof.
  induction bs as [|b bs IH]; intros i acc m v n H Hi Hm Hacc; cbn [uvarint_aux] in H; [discriminate|].
  destruct (i =? 10) eqn:E10; [discriminate|].
  pose proof (b2n_lt b) as Hb.
  destruct (b2n b <? 128) eqn:Eb.
  - destruct ((i =? 9) && (1 <? b2n b)) eqn:E9; [discriminate|]. inversion H; subst.
    destruct (N.eq_dec i 9) as [->|Hn9].
    + cbn [N.eqb Pos.eqb andb] in E9. assert (b2n b <= 1) by lia.
      change (128 ^ 9) with 9223372036854775808 in *. unfold two64. nia.
    + assert (Hi8 : i <= 8) by lia.
      assert (Hp : 128 ^ i <= 128 ^ 8) by (apply N.pow_le_mono_r; lia).
      change (128 ^ 8) with 72057594037927936 in Hp. unfold two64. nia.
  - destruct (N.eq_dec i 9) as [->|Hn9].
    + (* i = 9 with continuation: next step overflows or is short *)
      destruct bs as [|b2 bs2]; cbn [uvarint_aux] in H; [discriminate|].
      cbn [N.add N.eqb Pos.eqb Pos.add Pos.succ] in H. discriminate.
    + apply IH in H; [exact H|lia| |].
      * rewrite Hm. replace (i + 1) with (N.succ i) by lia. rewrite N.pow_succ_r'. lia.
      * nia.
Qed.

Lemma uvarint_val bs v n : uvarint bs = UvOk v n -> v < two64.
Proof. unfold uvarint. intro H. eapply uvarint_aux_val in H; eauto; try reflexivity; lia. Qed.

(** kv.sizeVarint: [for { n++; x >>= 7; if x == 0 { break } }] *)
Fixpoint size_varint_go (fuel : nat) (x : N) : N :=
  match fuel with
  | O => 1
  | S f => if x / 128 =? 0 then 1 else 1 + size_varint_go f (x / 128)
  end.

Lemma size_varint_go_put fuel : forall x, size_varint_go fuel x = blen (put_uvarint_aux fuel x).
Proof.
  induction fuel as [|f IH]; intro x; cbn [size_varint_go put_uvarint_aux].
  - now rewrite blen_cons, blen_nil.
  - destruct (x <? 128) eqn:E.
    + replace (x / 128 =? 0) with true by (symmetry; apply N.eqb_eq; zdm). now rewrite blen_cons, blen_nil.
    + replace (x / 128 =? 0) with false by (symmetry; apply N.eqb_neq; zdm). rewrite blen_cons, IH. reflexivity.
Qed.

(** the loop runs at most 10 times for a uint64 *)
Lemma size_varint_law x : size_varint_go 9 x = blen (put_uvarint x).
Proof. apply size_varint_go_put. Qed.

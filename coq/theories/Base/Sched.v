(** Generic interleaving semantics for the properties quantified over
    schedules.  A system is a state type [G] and a partial step function
    [tstep g t] for thread [t] ([None] = thread [t] is disabled or finished in
    [g]).  A schedule is any list of thread ids; a disabled pick is skipped, so
    every list is a schedule and "for all schedules" is "for all lists". *)
From Coq Require Import List.
Import ListNotations.

Section Sched.
  Context {G T : Type} (tstep : G -> T -> option G).

  Definition step1 (g : G) (t : T) : G :=
    match tstep g t with Some g' => g' | None => g end.

  Definition run (g : G) (sched : list T) : G := fold_left step1 sched g.

  Inductive reachable (g0 : G) : G -> Prop :=
  | reach_init : reachable g0 g0
  | reach_step g t g' : reachable g0 g -> tstep g t = Some g' -> reachable g0 g'.

  Lemma run_app g s1 s2 : run g (s1 ++ s2) = run (run g s1) s2.
  Proof. unfold run. apply fold_left_app. Qed.

  Lemma reachable_step1 g0 g t : reachable g0 g -> reachable g0 (step1 g t).
  Proof.
    intro H. unfold step1. destruct (tstep g t) eqn:E; [eapply reach_step; eauto | exact H].
  Qed.

  Lemma reachable_run g0 g sched : reachable g0 g -> reachable g0 (run g sched).
  Proof.
    revert g; induction sched as [|t s IH]; intros g H; cbn; [exact H|].
    apply IH. now apply reachable_step1.
  Qed.

  Lemma run_reachable g0 sched : reachable g0 (run g0 sched).
  Proof. apply reachable_run. constructor. Qed.

  (** Every reachable state is produced by some schedule. *)
  Lemma reachable_is_run g0 g : reachable g0 g -> exists sched, g = run g0 sched.
  Proof.
    induction 1 as [|g t g' _ [s ->] Hs].
    - now exists [].
    - exists (s ++ [t]). rewrite run_app. cbn. unfold step1. now rewrite Hs.
  Qed.

  (** The invariant rule. *)
  Theorem inv_reachable (Inv : G -> Prop) g0 :
    Inv g0 ->
    (forall g t g', Inv g -> tstep g t = Some g' -> Inv g') ->
    forall g, reachable g0 g -> Inv g.
  Proof.
    intros H0 Hstep g Hr. induction Hr as [|g t g' _ IH Hs]; [exact H0 | eauto].
  Qed.

  Corollary inv_run (Inv : G -> Prop) g0 :
    Inv g0 ->
    (forall g t g', Inv g -> tstep g t = Some g' -> Inv g') ->
    forall sched, Inv (run g0 sched).
  Proof. intros H0 Hs sched. eapply inv_reachable; eauto. apply run_reachable. Qed.

  (** Strengthened rule: the step may use that the source state is reachable. *)
  Theorem inv_reachable_strong (Inv : G -> Prop) g0 :
    Inv g0 ->
    (forall g t g', reachable g0 g -> Inv g -> tstep g t = Some g' -> Inv g') ->
    forall g, reachable g0 g -> Inv g.
  Proof.
    intros H0 Hstep g Hr. induction Hr as [|g t g' Hr' IH Hs]; [exact H0 | eauto].
  Qed.

  (** Progress by a ranking function: if every enabled step strictly
      decreases [rank], every execution without skipped picks has at most
      [rank g] steps. *)
  Fixpoint exec (g : G) (sched : list T) : option G :=
    match sched with
    | [] => Some g
    | t :: s => match tstep g t with Some g' => exec g' s | None => None end
    end.

  Theorem rank_bounds_exec (rank : G -> nat) :
    (forall g t g', tstep g t = Some g' -> rank g' < rank g) ->
    forall sched g g', exec g sched = Some g' -> length sched + rank g' <= rank g.
  Proof.
    intros Hdec. induction sched as [|t s IH]; intros g g' H; cbn in *.
    - inversion H; subst. apply le_n.
    - destruct (tstep g t) eqn:E; [|discriminate].
      specialize (IH _ _ H). specialize (Hdec _ _ _ E).
      apply PeanoNat.Nat.le_trans with (m := S (length s + rank g')).
      + apply le_n.
      + apply PeanoNat.Nat.le_trans with (m := S (rank g0)); [now apply le_n_S | exact Hdec].
  Qed.
End Sched.

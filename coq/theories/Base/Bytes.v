(** Byte strings as [list byte]; hex literals for the correspondence files;
    bytewise lexicographic order ([bytes.Compare]). *)
From Coq Require Import List NArith Ascii String Bool Lia.
From Coq Require Import Init.Byte Strings.Byte.
Import ListNotations.
Local Open Scope N_scope.

Definition bytes := list byte.

Definition b2n (b : byte) : N := Byte.to_N b.
Definition n2b (n : N) : byte :=
  match Byte.of_N (n mod 256) with Some b => b | None => x00 end.

Definition byte_eqb (a b : byte) : bool := Byte.eqb a b.

Fixpoint bytes_eqb (a b : bytes) : bool :=
  match a, b with
  | [], [] => true
  | x :: a', y :: b' => byte_eqb x y && bytes_eqb a' b'
  | _, _ => false
  end.

(** [bytes.Compare] *)
Fixpoint bytes_cmp (a b : bytes) : comparison :=
  match a, b with
  | [], [] => Eq
  | [], _ :: _ => Lt
  | _ :: _, [] => Gt
  | x :: a', y :: b' =>
      match N.compare (b2n x) (b2n y) with
      | Eq => bytes_cmp a' b'
      | c => c
      end
  end.

Definition bytes_ltb (a b : bytes) : bool :=
  match bytes_cmp a b with Lt => true | _ => false end.
Definition bytes_leb (a b : bytes) : bool :=
  match bytes_cmp a b with Gt => false | _ => true end.

Fixpoint is_prefix (p s : bytes) : bool :=
  match p, s with
  | [], _ => true
  | x :: p', y :: s' => byte_eqb x y && is_prefix p' s'
  | _ :: _, [] => false
  end.

(** [bytes.Contains] / [strings.Contains] *)
Fixpoint contains (s sub : bytes) : bool :=
  is_prefix sub s ||
  match s with
  | [] => false
  | _ :: s' => contains s' sub
  end.

(** hex literals: the harness prints byte strings as lower-case hex. *)
Definition hexval (a : ascii) : N :=
  let n := N_of_ascii a in
  if (48 <=? n) && (n <=? 57) then n - 48
  else if (97 <=? n) && (n <=? 102) then n - 87
  else if (65 <=? n) && (n <=? 70) then n - 55
  else 0.

Fixpoint unhex (s : string) : bytes :=
  match s with
  | String a (String b s') => n2b (hexval a * 16 + hexval b) :: unhex s'
  | _ => []
  end.

Definition of_string (s : string) : bytes := list_byte_of_string s.

(** * Facts *)

Lemma b2n_inj a b : b2n a = b2n b -> a = b.
Proof.
  unfold b2n. intro H.
  assert (Hs : Some a = Some b).
  { rewrite <- (Byte.of_to_N a), <- (Byte.of_to_N b). now rewrite H. }
  now inversion Hs.
Qed.

Lemma b2n_lt b : b2n b < 256.
Proof. unfold b2n. pose proof (Byte.to_N_bounded b). lia. Qed.

Lemma n2b_b2n b : n2b (b2n b) = b.
Proof.
  unfold n2b. rewrite N.mod_small by apply b2n_lt.
  unfold b2n. now rewrite Byte.of_to_N.
Qed.

Lemma b2n_n2b n : n < 256 -> b2n (n2b n) = n.
Proof.
  intro H. unfold n2b, b2n. rewrite N.mod_small by exact H.
  destruct (Byte.of_N n) eqn:E.
  - now apply Byte.to_of_N.
  - apply Byte.of_N_None_iff in E. lia.
Qed.

Lemma byte_eqb_eq a b : byte_eqb a b = true <-> a = b.
Proof. unfold byte_eqb. split; [apply Byte.byte_dec_bl | apply Byte.byte_dec_lb]. Qed.

Lemma byte_eqb_refl a : byte_eqb a a = true.
Proof. now apply byte_eqb_eq. Qed.

Lemma byte_eqb_neq a b : byte_eqb a b = false <-> a <> b.
Proof.
  split.
  - intros H E. apply byte_eqb_eq in E. congruence.
  - intros H. destruct (byte_eqb a b) eqn:E; [apply byte_eqb_eq in E; contradiction | reflexivity].
Qed.

Lemma bytes_eqb_eq a b : bytes_eqb a b = true <-> a = b.
Proof.
  revert b; induction a as [|x a IH]; intros [|y b]; simpl; split; intro H;
    try reflexivity; try discriminate.
  - apply andb_true_iff in H as [H1 H2]. apply byte_eqb_eq in H1. apply IH in H2. congruence.
  - inversion H; subst. apply andb_true_iff; split; [apply byte_eqb_refl | now apply IH].
Qed.

Lemma bytes_eqb_refl a : bytes_eqb a a = true.
Proof. now apply bytes_eqb_eq. Qed.

Lemma bytes_eqb_neq a b : bytes_eqb a b = false <-> a <> b.
Proof.
  split.
  - intros H E. apply bytes_eqb_eq in E. congruence.
  - intros H. destruct (bytes_eqb a b) eqn:E; [apply bytes_eqb_eq in E; contradiction | reflexivity].
Qed.

Lemma bytes_cmp_eq a b : bytes_cmp a b = Eq <-> a = b.
Proof.
  revert b; induction a as [|x a IH]; intros [|y b]; simpl; split; intro H;
    try reflexivity; try discriminate.
  - destruct (N.compare_spec (b2n x) (b2n y)) as [E|E|E]; try discriminate.
    apply b2n_inj in E. apply IH in H. congruence.
  - inversion H; subst. rewrite N.compare_refl. now apply IH.
Qed.

Lemma bytes_cmp_refl a : bytes_cmp a a = Eq.
Proof. now apply bytes_cmp_eq. Qed.

Lemma bytes_cmp_antisym a b : bytes_cmp b a = CompOpp (bytes_cmp a b).
Proof.
  revert b; induction a as [|x a IH]; intros [|y b]; simpl; try reflexivity.
  rewrite (N.compare_antisym (b2n x) (b2n y)).
  destruct (N.compare (b2n x) (b2n y)); simpl; auto.
Qed.

Lemma bytes_cmp_lt_trans a b c :
  bytes_cmp a b = Lt -> bytes_cmp b c = Lt -> bytes_cmp a c = Lt.
Proof.
  revert b c; induction a as [|x a IH]; intros [|y b] [|z c]; simpl; try congruence.
  destruct (N.compare_spec (b2n x) (b2n y)) as [E1|E1|E1];
  destruct (N.compare_spec (b2n y) (b2n z)) as [E2|E2|E2]; try congruence; intros H1 H2.
  - rewrite E1, E2, N.compare_refl. eauto.
  - rewrite E1. apply N.compare_lt_iff in E2. now rewrite E2.
  - rewrite <- E2. apply N.compare_lt_iff in E1. now rewrite E1.
  - assert (E : b2n x < b2n z) by lia. apply N.compare_lt_iff in E. now rewrite E.
Qed.

Lemma bytes_cmp_gt_lt a b : bytes_cmp a b = Gt <-> bytes_cmp b a = Lt.
Proof.
  rewrite (bytes_cmp_antisym a b). destruct (bytes_cmp a b); simpl; split; congruence.
Qed.

Lemma bytes_ltb_irrefl a : bytes_ltb a a = false.
Proof. unfold bytes_ltb. now rewrite bytes_cmp_refl. Qed.

Lemma bytes_ltb_trans a b c : bytes_ltb a b = true -> bytes_ltb b c = true -> bytes_ltb a c = true.
Proof.
  unfold bytes_ltb.
  destruct (bytes_cmp a b) eqn:E1; try discriminate.
  destruct (bytes_cmp b c) eqn:E2; try discriminate.
  intros _ _. now rewrite (bytes_cmp_lt_trans _ _ _ E1 E2).
Qed.

Lemma bytes_leb_ltb a b : bytes_leb a b = negb (bytes_ltb b a).
Proof.
  unfold bytes_leb, bytes_ltb. rewrite (bytes_cmp_antisym a b).
  destruct (bytes_cmp a b); reflexivity.
Qed.

Lemma bytes_ltb_leb_trans a b c : bytes_ltb a b = true -> bytes_leb b c = true -> bytes_ltb a c = true.
Proof.
  unfold bytes_ltb, bytes_leb.
  destruct (bytes_cmp a b) eqn:E1; try discriminate.
  destruct (bytes_cmp b c) eqn:E2; try discriminate; intros _ _.
  - apply bytes_cmp_eq in E2; subst. now rewrite E1.
  - now rewrite (bytes_cmp_lt_trans _ _ _ E1 E2).
Qed.

Lemma bytes_leb_ltb_trans a b c : bytes_leb a b = true -> bytes_ltb b c = true -> bytes_ltb a c = true.
Proof.
  unfold bytes_ltb, bytes_leb.
  destruct (bytes_cmp a b) eqn:E1; try discriminate;
  destruct (bytes_cmp b c) eqn:E2; try discriminate; intros _ _.
  - apply bytes_cmp_eq in E1; subst. now rewrite E2.
  - now rewrite (bytes_cmp_lt_trans _ _ _ E1 E2).
Qed.

Lemma bytes_leb_refl a : bytes_leb a a = true.
Proof. unfold bytes_leb. now rewrite bytes_cmp_refl. Qed.

Lemma bytes_leb_trans a b c : bytes_leb a b = true -> bytes_leb b c = true -> bytes_leb a c = true.
Proof.
  intros H1 H2. rewrite bytes_leb_ltb. destruct (bytes_ltb c a) eqn:E; [|reflexivity].
  pose proof (bytes_ltb_leb_trans _ _ _ E H1) as H3.
  pose proof (bytes_ltb_leb_trans _ _ _ H3 H2) as H4.
  now rewrite bytes_ltb_irrefl in H4.
Qed.

Lemma bytes_ltb_total a b : bytes_ltb a b = false -> bytes_ltb b a = false -> a = b.
Proof.
  unfold bytes_ltb. rewrite (bytes_cmp_antisym a b).
  destruct (bytes_cmp a b) eqn:E; simpl; try discriminate.
  intros _ _. now apply bytes_cmp_eq.
Qed.

Lemma is_prefix_app p s : is_prefix p (p ++ s) = true.
Proof. induction p as [|x p IH]; simpl; [reflexivity|]. now rewrite byte_eqb_refl. Qed.

Lemma is_prefix_spec p s : is_prefix p s = true <-> exists t, s = p ++ t.
Proof.
  revert s; induction p as [|x p IH]; intros s; simpl.
  - split; [intros _; now exists s | reflexivity].
  - destruct s as [|y s]; split.
    + discriminate.
    + intros [t H]; discriminate.
    + intro H. apply andb_true_iff in H as [H1 H2]. apply byte_eqb_eq in H1. apply IH in H2 as [t ->].
      exists t. now subst.
    + intros [t H]. inversion H; subst. rewrite byte_eqb_refl. simpl. apply IH. now exists t.
Qed.

Lemma contains_spec s sub : contains s sub = true <-> exists a b, s = a ++ sub ++ b.
Proof.
  induction s as [|x s IH]; simpl.
  - rewrite orb_false_r. split.
    + intro H. apply is_prefix_spec in H as [t H]. exists [], t. exact H.
    + intros [a [b H]]. destruct a; simpl in H.
      * apply is_prefix_spec. now exists b.
      * discriminate.
  - rewrite orb_true_iff. split.
    + intros [H|H].
      * apply is_prefix_spec in H as [t H]. exists [], t. exact H.
      * apply IH in H as [a [b ->]]. now exists (x :: a), b.
    + intros [a [b H]]. destruct a as [|y a]; simpl in H.
      * left. apply is_prefix_spec. now exists b.
      * right. apply IH. inversion H. now exists a, b.
Qed.

(** Fixed-width unsigned numbers as [N] with explicit wraps, and the
    big-/little-endian byte layouts of [encoding/binary]. *)
From Coq Require Import List NArith ZArith Bool Lia ZifyN ZifyNat ZifyBool.
From Coq Require Import Init.Byte Strings.Byte.
From NoKV Require Import Base.Bytes.
Import ListNotations.
Local Open Scope N_scope.

Definition two8 : N := 256.
Definition two16 : N := 65536.
Definition two24 : N := 16777216.
Definition two31 : N := 2147483648.
Definition two32 : N := 4294967296.
Definition two63 : N := 9223372036854775808.
Definition two64 : N := 18446744073709551616.

Definition u8 (n : N) : N := n mod two8.
Definition u32 (n : N) : N := n mod two32.
Definition u64 (n : N) : N := n mod two64.

(** length of a byte string as [N] (Go [len]) *)
Definition blen (b : bytes) : N := N.of_nat (length b).

(** [s[:n]] and [s[n:]] for [n <= len s] (callers check the bound first) *)
Definition take (n : N) (b : bytes) : bytes := firstn (N.to_nat n) b.
Definition drop (n : N) (b : bytes) : bytes := skipn (N.to_nat n) b.

(** [binary.BigEndian.PutUint32] / [Uint32]; the argument is taken mod 2^32. *)
Definition be32 (n : N) : bytes :=
  [n2b (n / two24); n2b (n / two16); n2b (n / two8); n2b n].
Definition be32_val (a b c d : byte) : N :=
  b2n a * two24 + b2n b * two16 + b2n c * two8 + b2n d.
Definition rd_be32 (bs : bytes) : option N :=
  match bs with
  | a :: b :: c :: d :: _ => Some (be32_val a b c d)
  | _ => None
  end.

(** [binary.BigEndian.PutUint64] / [Uint64] *)
Definition be64 (n : N) : bytes := be32 (n / two32) ++ be32 n.
Definition rd_be64 (bs : bytes) : option N :=
  match bs with
  | a :: b :: c :: d :: e :: f :: g :: h :: _ =>
      Some (be32_val a b c d * two32 + be32_val e f g h)
  | _ => None
  end.

(** [binary.LittleEndian] *)
Definition le32 (n : N) : bytes := rev (be32 n).
Definition rd_le32 (bs : bytes) : option N :=
  match bs with
  | a :: b :: c :: d :: _ => Some (be32_val d c b a)
  | _ => None
  end.
Definition le64 (n : N) : bytes := rev (be64 n).
Definition rd_le64 (bs : bytes) : option N :=
  match bs with
  | a :: b :: c :: d :: e :: f :: g :: h :: _ =>
      Some (be32_val h g f e * two32 + be32_val d c b a)
  | _ => None
  end.

(** * Facts *)

Ltac zdm := Zify.zify; Z.div_mod_to_equations; lia.

Lemma b2n_n2b_mod n : b2n (n2b n) = n mod 256.
Proof.
  unfold n2b, b2n.
  assert (H : n mod 256 < 256) by (apply N.mod_lt; lia).
  destruct (Byte.of_N (n mod 256)) eqn:E.
  - now apply Byte.to_of_N.
  - apply Byte.of_N_None_iff in E. lia.
Qed.

Lemma n2b_mod n : n2b (n mod 256) = n2b n.
Proof. unfold n2b. now rewrite N.mod_mod by lia. Qed.

Lemma n2b_inj a b : a < 256 -> b < 256 -> n2b a = n2b b -> a = b.
Proof.
  intros Ha Hb H. rewrite <- (b2n_n2b a Ha), <- (b2n_n2b b Hb). now rewrite H.
Qed.

Lemma blen_app a b : blen (a ++ b) = blen a + blen b.
Proof. unfold blen. rewrite app_length. lia. Qed.

Lemma blen_nil : blen [] = 0.
Proof. reflexivity. Qed.

Lemma blen_cons x a : blen (x :: a) = 1 + blen a.
Proof. unfold blen. simpl length. lia. Qed.

Lemma take_app_exact a b : take (blen a) (a ++ b) = a.
Proof.
  unfold take, blen. rewrite Nat2N.id.
  rewrite firstn_app, Nat.sub_diag, firstn_all. simpl. now rewrite app_nil_r.
Qed.

Lemma drop_app_exact a b : drop (blen a) (a ++ b) = b.
Proof.
  unfold drop, blen. rewrite Nat2N.id.
  rewrite skipn_app, Nat.sub_diag, skipn_all. reflexivity.
Qed.

Lemma take_all a : take (blen a) a = a.
Proof. unfold take, blen. rewrite Nat2N.id. apply firstn_all. Qed.

Lemma drop_all a : drop (blen a) a = [].
Proof. unfold drop, blen. rewrite Nat2N.id. apply skipn_all. Qed.

Lemma take_drop n a : take n a ++ drop n a = a.
Proof. apply firstn_skipn. Qed.

Lemma blen_take n a : n <= blen a -> blen (take n a) = n.
Proof. unfold blen, take. intro H. rewrite firstn_length. lia. Qed.

Lemma blen_drop n a : blen (drop n a) = blen a - n.
Proof. unfold blen, drop. rewrite skipn_length. lia. Qed.

Lemma be32_length n : length (be32 n) = 4%nat.
Proof. reflexivity. Qed.

Lemma blen_be32 n : blen (be32 n) = 4.
Proof. reflexivity. Qed.

Lemma be64_length n : length (be64 n) = 8%nat.
Proof. reflexivity. Qed.

Lemma blen_be64 n : blen (be64 n) = 8.
Proof. reflexivity. Qed.

Lemma be32_val_be32 n :
  be32_val (n2b (n / two24)) (n2b (n / two16)) (n2b (n / two8)) (n2b n) = n mod two32.
Proof.
  unfold be32_val. rewrite !b2n_n2b_mod. unfold two24, two16, two8, two32. zdm.
Qed.

Lemma be32_val_lt a b c d : be32_val a b c d < two32.
Proof.
  unfold be32_val, two24, two16, two8, two32.
  pose proof (b2n_lt a); pose proof (b2n_lt b); pose proof (b2n_lt c); pose proof (b2n_lt d). lia.
Qed.

Lemma rd_be32_be32 n r : rd_be32 (be32 n ++ r) = Some (n mod two32).
Proof. cbn [be32 app rd_be32]. now rewrite be32_val_be32. Qed.

Lemma rd_be64_be64 n r : rd_be64 (be64 n ++ r) = Some (n mod two64).
Proof.
  unfold be64. cbn [be32 app rd_be64]. rewrite !be32_val_be32.
  f_equal. unfold two32, two64. zdm.
Qed.

Lemma be32_be32_val a b c d : be32 (be32_val a b c d) = [a; b; c; d].
Proof.
  unfold be32, be32_val, two24, two16, two8.
  pose proof (b2n_lt a); pose proof (b2n_lt b); pose proof (b2n_lt c); pose proof (b2n_lt d).
  set (A := b2n a) in *. set (B := b2n b) in *. set (C := b2n c) in *. set (D := b2n d) in *.
  set (X := A * 16777216 + B * 65536 + C * 256 + D).
  assert (E1 : X / 16777216 = A) by (unfold X; zdm).
  assert (E2 : (X / 65536) mod 256 = B) by (unfold X; zdm).
  assert (E3 : (X / 256) mod 256 = C) by (unfold X; zdm).
  assert (E4 : X mod 256 = D) by (unfold X; zdm).
  rewrite E1. rewrite <- (n2b_mod (X / 65536)), E2. rewrite <- (n2b_mod (X / 256)), E3.
  rewrite <- (n2b_mod X), E4. unfold A, B, C, D. now rewrite !n2b_b2n.
Qed.

Lemma be32_inj a b : a < two32 -> b < two32 -> be32 a = be32 b -> a = b.
Proof.
  intros Ha Hb H.
  pose proof (rd_be32_be32 a []) as Ea. pose proof (rd_be32_be32 b []) as Eb.
  rewrite H in Ea. rewrite Ea in Eb. inversion Eb as [E].
  rewrite !N.mod_small in E by assumption. exact E.
Qed.

Lemma rd_le32_le32 n r : rd_le32 (le32 n ++ r) = Some (n mod two32).
Proof. unfold le32. cbn [be32 rev app rd_le32]. now rewrite be32_val_be32. Qed.

Lemma rd_le64_le64 n r : rd_le64 (le64 n ++ r) = Some (n mod two64).
Proof.
  unfold le64, be64. cbn [be32 rev app rd_le64]. rewrite !be32_val_be32.
  f_equal. unfold two32, two64. zdm.
Qed.

Lemma rd_be32_short bs : (length bs < 4)%nat -> rd_be32 bs = None.
Proof.
  destruct bs as [|a [|b [|c [|d bs]]]]; simpl; intro H; try reflexivity; lia.
Qed.

Lemma rd_be32_some bs : (4 <= length bs)%nat -> exists v, rd_be32 bs = Some v.
Proof.
  destruct bs as [|a [|b [|c [|d bs]]]]; simpl; intro H; try lia. eauto.
Qed.

(** C32 — the watermark never passes an unfinished index.

    Proved for all schedules and any number of threads:
    - C32_monotone: the mark never decreases (both Begin orders, rebuilds included);
    - C32_safe_no_rebuild: for the repaired Begin order, as long as no window
      rebuild has been stored and no Done has decremented without a counted
      Begin of the same thread and index ([Good]), the mark is below every index
      begun in order (first write while lastIndex was below it) whose thread has
      not yet issued the matching Done;
    - C32_wait: a WaitForMark i that returned saw the mark at or above i
      (rebuilds included); C32_wait_done: hence, under [Good], every in-order
      index at or below i is done.
    Refuted by concrete schedules: the Begin order before the repair
    (C32_unfixed_refuted, F6, repaired) and the code as it is now when a window
    rebuild races with a slot update on the old window (C32_safe_refuted, F28,
    known finding C32-F28) — which is why C32_safe_no_rebuild carries [Good]. *)
From Coq Require Import List NArith.
From NoKV Require Import Base.Sched Model.Watermark Spec.WatermarkSpec Proofs.WatermarkProofs
  Proofs.WatermarkSafeProofs Proofs.WatermarkWaitProofs.
Import ListNotations.
Local Open Scope N_scope.

Theorem C32_monotone : forall fixed g0 g, reachable (tstep fixed) g0 g -> g_done g0 <= g_done g.
Proof. exact watermark_monotone. Qed.
Print Assumptions C32_monotone.

Theorem C32_monotone_run : forall fixed g sched, g_done g <= g_done (run (tstep fixed) g sched).
Proof. exact watermark_monotone_run. Qed.
Print Assumptions C32_monotone_run.

Theorem C32_safe_no_rebuild : forall size progs g,
  reachable (tstep true) (init size progs) g -> Good g ->
  forall i t, In (i, t) (g_tracked g) -> g_done g < i.
Proof. exact watermark_safe_no_rebuild. Qed.
Print Assumptions C32_safe_no_rebuild.

Theorem C32_wait : forall size progs g,
  reachable (tstep true) (init size progs) g -> Forall (fun i => i <= g_done g) (g_waitret g).
Proof. exact watermark_wait. Qed.
Print Assumptions C32_wait.

Theorem C32_wait_done : forall size progs g,
  reachable (tstep true) (init size progs) g -> Good g ->
  forall i, In i (g_waitret g) -> forall j t, In (j, t) (g_tracked g) -> i < j.
Proof. exact watermark_wait_done. Qed.
Print Assumptions C32_wait_done.

(** before the repair: Begin published lastIndex before counting the slot *)
Theorem C32_unfixed_refuted :
  exists size progs sched, safe_b (run (tstep false) (init size progs) sched) = false.
Proof. exact watermark_unfixed_refuted. Qed.
Print Assumptions C32_unfixed_refuted.

(** now: indices 2 and 6 are begun in order and unfinished, the mark is 2 *)
Theorem C32_safe_refuted :
  exists size progs sched,
    let g := run (tstep true) (init size progs) sched in
    g_tracked g = [(6, 1%nat); (2, 0%nat)] /\ g_done g = 2 /\ safe_b g = false.
Proof. exact watermark_safe_refuted. Qed.
Print Assumptions C32_safe_refuted.

Theorem C32_oracle_decides : forall tr, trace_safe_b tr = true <-> trace_safe tr.
Proof. exact trace_safe_b_spec. Qed.
Print Assumptions C32_oracle_decides.

Theorem C32_monotone_oracle_decides : forall tr d, monotone_from_b d tr = true <-> monotone_from d tr.
Proof. exact monotone_from_b_spec. Qed.
Print Assumptions C32_monotone_oracle_decides.

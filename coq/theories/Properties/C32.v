(** C32 — the watermark never passes an unfinished index.

    Proved for all schedules: the mark never decreases (C32_monotone).
    Safety ("the mark stays below every index begun in order and not finished")
    is refuted twice by concrete schedules: for the order of Begin before the
    repair (C32_unfixed_refuted, F6, repaired) and for the code as it is now
    when a window rebuild races with a slot update on the old window
    (C32_safe_refuted, F28, known finding C32-F28).  The safety statement
    restricted to runs without a rebuild is NOT proved in this development;
    it is only checked on the executions of the correspondence run. *)
From Coq Require Import List NArith.
From NoKV Require Import Base.Sched Model.Watermark Spec.WatermarkSpec Proofs.WatermarkProofs.
Import ListNotations.
Local Open Scope N_scope.

Theorem C32_monotone : forall fixed g0 g, reachable (tstep fixed) g0 g -> g_done g0 <= g_done g.
Proof. exact watermark_monotone. Qed.
Print Assumptions C32_monotone.

Theorem C32_monotone_run : forall fixed g sched, g_done g <= g_done (run (tstep fixed) g sched).
Proof. exact watermark_monotone_run. Qed.
Print Assumptions C32_monotone_run.

(** before the repair: Begin published lastIndex before counting the slot *)
Theorem C32_unfixed_refuted :
  exists size progs sched, safe_b (run (tstep false) (init size progs) sched) = false.
Proof. exact watermark_unfixed_refuted. Qed.
Print Assumptions C32_unfixed_refuted.

(** now: indices 2 and 6 are begun in order and unfinished, the mark is 2 *)
Theorem C32_safe_refuted :
  exists size progs sched,
    let g := run (tstep true) (init size progs) sched in
    g_tracked g = [(6, 1%nat); (2, 0%nat)] /\ g_done g = 2 /\ safe_b g = false.
Proof. exact watermark_safe_refuted. Qed.
Print Assumptions C32_safe_refuted.

Theorem C32_oracle_decides : forall tr, trace_safe_b tr = true <-> trace_safe tr.
Proof. exact trace_safe_b_spec. Qed.
Print Assumptions C32_oracle_decides.

Theorem C32_monotone_oracle_decides : forall tr d, monotone_from_b d tr = true <-> monotone_from d tr.
Proof. exact monotone_from_b_spec. Qed.
Print Assumptions C32_monotone_oracle_decides.

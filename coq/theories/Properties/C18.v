(** C18 — a distributed transaction's outcome is unique, final and conflict-free.

    Statements are about [lrun h], the logical state (locks and per-key record
    timelines) that the working-tree code maintains ([C18_refines]: the store
    of the model represents it and every non-scan response is the
    protocol's), for every history [h] of well-formed requests.  A record
    [r] on key [k] with [lr_kind r = OpRollback] says that transaction
    [lr_start r] is rolled back on [k]; any other record says it is committed
    on [k] at [lr_ts r].  Timestamp uniqueness enters as the hypotheses
    [req_no_commit_at] / [req_keeps] on the *later* requests, which [uniq_ts]
    implies ([C18_uniq_ts_*]). *)
From Coq Require Import List NArith Bool.
From NoKV Require Import Base.Bytes Model.Percolator Model.KvApply Spec.PercoSpec
  Proofs.PercoProofs Proofs.PercoInvProofs Proofs.PercoIdemProofs.
Import ListNotations.
Local Open Scope N_scope.

Theorem C18_refines : forall h,
  forallb req_ok h = true -> R (apply_all current h) (lrun h) /\ Inv (lrun h).
Proof. exact refines. Qed.
Print Assumptions C18_refines.

(** Once transaction [s] is rolled back on key [k], it stays rolled back, [k]
    never gets a committed record of [s], and every later Commit of [s] whose
    key list contains [k] answers with a key error. *)
Theorem C18_rollback_final_state : forall h1 h2 k s,
  forallb req_ok (h1 ++ h2) = true ->
  rolled_back (ls_at (lrun h1) k) s -> Forall (req_no_commit_at s) h2 ->
  let a := lrun (h1 ++ h2) in
  rolled_back (ls_at a k) s /\
  (forall r, In r (ks_recs (ls_at a k)) -> lr_start r = s -> lr_kind r = OpRollback) /\
  (forall keys cv, In k keys -> keys_ok keys = true -> s <= cv -> exists e, snd (l_commit a keys s cv) = Some e).
Proof. exact rollback_final_spec. Qed.
Print Assumptions C18_rollback_final_state.

Theorem C18_rollback_final : forall h1 h2 k s keys cv,
  forallb req_ok (h1 ++ h2) = true ->
  rolled_back (ls_at (lrun h1) k) s -> Forall (req_no_commit_at s) h2 ->
  In k keys -> keys_ok keys = true -> s < cv ->
  exists e, snd (apply_req current (apply_all current (h1 ++ h2)) (RCommit keys s cv)) = PCommit (Some e).
Proof. exact rollback_final. Qed.
Print Assumptions C18_rollback_final.

(** A record on a key is never removed; a rollback of its transaction leaves
    the key untouched; reads at or above a committed put/delete never fall
    back below it. *)
Theorem C18_commit_final : forall h1 h2 k rc,
  forallb req_ok (h1 ++ h2) = true ->
  In rc (ks_recs (ls_at (lrun h1) k)) ->
  Forall (req_keeps (lr_ts rc) (lr_start rc)) h2 ->
  let ks := ls_at (lrun (h1 ++ h2)) k in
  In rc (ks_recs ks) /\
  l_rollback_key ks (lr_start rc) = ks /\
  (forall t, committed_data rc = true -> lr_ts rc <= t ->
     exists x, newest_committed (ks_recs ks) t = Some x /\ lr_ts rc <= lr_ts x).
Proof. exact commit_final. Qed.
Print Assumptions C18_commit_final.

(** Two transactions committed on a common key have disjoint [start, commit] intervals. *)
Theorem C18_no_overlap : forall h k r1 r2,
  forallb req_ok h = true ->
  In r1 (ks_recs (ls_at (lrun h) k)) -> In r2 (ks_recs (ls_at (lrun h) k)) ->
  lr_kind r1 <> OpRollback -> lr_kind r2 <> OpRollback -> lr_start r1 <> lr_start r2 ->
  lr_ts r1 < lr_start r2 \/ lr_ts r2 < lr_start r1.
Proof. exact no_overlap. Qed.
Print Assumptions C18_no_overlap.

Theorem C18_uniq_ts_no_commit_at : forall h1 h2 s,
  uniq_ts (h1 ++ h2) -> In s (flat_map starts_of h1) -> Forall (req_no_commit_at s) h2.
Proof. exact uniq_no_commit_at. Qed.
Print Assumptions C18_uniq_ts_no_commit_at.

Theorem C18_uniq_ts_keeps : forall h1 h2 c s,
  uniq_ts (h1 ++ h2) -> In (c, s) (flat_map commits_of h1) -> Forall (req_keeps c s) h2.
Proof. exact uniq_keeps. Qed.
Print Assumptions C18_uniq_ts_keeps.

(** Every request acts on a key only through prewrite / commit / rollback /
    min-commit-push transitions of its own transaction (used by all of the above). *)
Theorem C18_requests_are_transitions : forall a r,
  req_ok r = true -> areach r a (fst (lstep a r)).
Proof. exact lstep_reach. Qed.
Print Assumptions C18_requests_are_transitions.

(** The code before the repair of F18: a Commit arriving after the rollback was acknowledged. *)
Theorem C18_commit_after_rollback_refuted_legacy :
  forallb req_ok (wit_f18 ++ [RCommit [B1 97] 10 20]) = true /\
  snd (apply_req legacy (apply_all legacy wit_f18) (RCommit [B1 97] 10 20)) = PCommit None /\
  snd (lstep (lrun wit_f18) (RCommit [B1 97] 10 20)) = PCommit (Some (KEAbort AbRolledBack)).
Proof. exact legacy_commit_after_rollback. Qed.
Print Assumptions C18_commit_after_rollback_refuted_legacy.

(** the hypotheses of the finality theorems hold on concrete histories *)
Theorem C18_rollback_final_nonvacuous :
  let h1 := wit_f18 in let h2 := [RCommit [B1 97] 10 20; RGet (B1 97) 30] in
  forallb req_ok (h1 ++ h2) = true /\ rolled_back (ls_at (lrun h1) (B1 97)) 10 /\
  Forall (req_no_commit_at 10) h2 /\ uniq_ts (h1 ++ h2).
Proof. exact rollback_final_nonvacuous. Qed.
Print Assumptions C18_rollback_final_nonvacuous.

Theorem C18_commit_final_nonvacuous :
  let h2 := [RRollback [B1 97] 10; RResolve [B1 97] 10 0; RCheck (B1 97) 10 1000 0 true] in
  forallb req_ok (wit_committed ++ h2) = true /\
  In wit_committed_rec (ks_recs (ls_at (lrun wit_committed) (B1 97))) /\
  Forall (req_keeps 20 10) h2.
Proof. exact commit_final_nonvacuous. Qed.
Print Assumptions C18_commit_final_nonvacuous.

(** A request (with pairwise distinct keys) applied twice in a row leaves the
    logical state as after the first application ... *)
Theorem C18_idempotent_state : forall a r,
  req_ok r = true -> req_nodup r -> Inv2 a ->
  aeq (fst (lstep (fst (lstep a r)) r)) (fst (lstep a r)).
Proof. exact lstep_idem. Qed.
Print Assumptions C18_idempotent_state.

(** ... hence every GET and every reported lock of the model is the same
    after [h ++ [r; r]] as after [h ++ [r]]. *)
Theorem C18_idempotent : forall h r k t,
  forallb req_ok (h ++ [r]) = true -> req_nodup r ->
  handle_get current (apply_all current (h ++ [r; r])) k t = handle_get current (apply_all current (h ++ [r])) k t /\
  get_lock (apply_all current (h ++ [r; r])) k = get_lock (apply_all current (h ++ [r])) k.
Proof. exact repeat_changes_nothing. Qed.
Print Assumptions C18_idempotent.

Theorem C18_idempotent_nonvacuous :
  forallb req_ok (wit_f18 ++ [RCommit [B1 97] 10 20]) = true /\ req_nodup (RCommit [B1 97] 10 20).
Proof. exact repeat_nonvacuous. Qed.
Print Assumptions C18_idempotent_nonvacuous.

(** Re-applying an *older* part of the command log is not harmless on the
    working tree: a re-applied prewrite overwrites its own lock and resets the
    MinCommitTs a reader had pushed (observation, see the report; no read
    result changes). *)
Theorem C18_reapply_prefix_refuted :
  forallb req_ok (wit_reapply ++ firstn 1 wit_reapply) = true /\
  option_map l_min_commit (get_lock (apply_all current wit_reapply) (B1 97)) = Some 51 /\
  option_map l_min_commit (get_lock (apply_all current (wit_reapply ++ firstn 1 wit_reapply)) (B1 97)) = Some 0.
Proof. exact reapply_prefix_refuted. Qed.
Print Assumptions C18_reapply_prefix_refuted.

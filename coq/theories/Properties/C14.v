(** C14 — corrupted log and table bytes are never served as valid data.

    Proved: the CRC-32C step is injective, hence for messages of EVERY length any
    change confined to one byte — in particular every single-bit flip — changes
    the checksum; for the WAL framing, a one-byte change in type ++ payload or in
    the stored checksum makes DecodeRecord return ErrBadChecksum (never Ok).
    Not proved (partial): flips in length-bearing fields (WAL length word, entry
    header varints) re-frame the record — accepted only on a checksum coincidence
    of the data; value-log and SST block framings have no theorem here (the
    value-log record codec is covered by the exhaustive-flip correspondence, SST
    blocks are not covered). *)
From Coq Require Import List NArith.
From Coq Require Import Init.Byte.
From NoKV Require Import Base.Bytes Base.Num Base.Crc32c Model.WalCodec Spec.WalSpec Spec.CorruptSpec
  Proofs.WalProofs Proofs.CorruptProofs.
Import ListNotations.
Local Open Scope N_scope.

Theorem crc_single_bit : forall m i, i < 8 * blen m -> crc32c (flip_bit i m) <> crc32c m.
Proof. exact CorruptProofs.crc_single_bit. Qed.
Print Assumptions crc_single_bit.

Theorem crc_one_byte_change : forall a b, one_byte_diff a b -> crc32c a <> crc32c b.
Proof. exact crc_one_byte. Qed.
Print Assumptions crc_one_byte_change.

Theorem crc_step_injective : forall a b, a < two32c -> b < two32c -> crc_shift a = crc_shift b -> a = b.
Proof. exact crc_shift_inj. Qed.
Print Assumptions crc_step_injective.

Theorem C14_wal_payload : forall r body' rest,
  rec_ok r -> one_byte_diff (fst r :: snd r) body' ->
  decode_record (be32 (blen (snd r) + 1) ++ body' ++ be32 (crc32c (fst r :: snd r)) ++ rest) = DBadCrc.
Proof. exact wal_body_corrupt. Qed.
Print Assumptions C14_wal_payload.

Theorem C14_wal_stored_crc : forall r crc' rest,
  rec_ok r -> one_byte_diff (be32 (crc32c (fst r :: snd r))) crc' ->
  decode_record (be32 (blen (snd r) + 1) ++ (fst r :: snd r) ++ crc' ++ rest) = DBadCrc.
Proof. exact wal_crc_corrupt. Qed.
Print Assumptions C14_wal_stored_crc.

(** a single-bit flip is a one-byte change (so the two theorems above apply to it) *)
Theorem C14_flip_is_one_byte : forall m i, i < 8 * blen m -> one_byte_diff m (flip_bit i m).
Proof. exact flip_bit_diff. Qed.
Print Assumptions C14_flip_is_one_byte.

(** C14 — corrupted log and table bytes are never served as valid data (PARTIAL).

    Proved: the CRC-32C step is injective, hence for messages of EVERY length any
    change confined to one byte — in particular every single-bit flip — changes
    the checksum.  WAL record and value-log / WAL-payload entry record: a one-byte
    change in the checksummed body (with the length-bearing fields intact) or in the
    stored checksum gives ErrBadChecksum, never Ok.  C14_len_field_partial: whatever
    bytes DecodeRecord is handed (e.g. after a flip of the length word, which re-frames
    the stream), it accepts only a span that is exactly a well-formed frame whose
    stored checksum equals the checksum of its content — a flipped length is accepted
    iff the re-framed span happens to carry its own matching checksum.
    Not proved: the same characterisation for the entry header varints; the SST block
    and index checksums (lsm/table.go loadBlock, file/sstable_linux.go) have no model —
    they are covered by exhaustive bit flips of small table files read through the real
    table path (test-level evidence, oracle only). *)
From Coq Require Import List NArith.
From Coq Require Import Init.Byte.
From NoKV Require Import Base.Bytes Base.Num Base.Crc32c Model.WalCodec Model.EntryCodec Spec.WalSpec Spec.CorruptSpec
  Proofs.WalProofs Proofs.CodecRtProofs Proofs.CorruptProofs.
Import ListNotations.
Local Open Scope N_scope.

Theorem crc_single_bit : forall m i, i < 8 * blen m -> crc32c (flip_bit i m) <> crc32c m.
Proof. exact CorruptProofs.crc_single_bit. Qed.
Print Assumptions crc_single_bit.

Theorem crc_one_byte_change : forall a b, one_byte_diff a b -> crc32c a <> crc32c b.
Proof. exact crc_one_byte. Qed.
Print Assumptions crc_one_byte_change.

Theorem crc_step_injective : forall a b, a < two32c -> b < two32c -> crc_shift a = crc_shift b -> a = b.
Proof. exact crc_shift_inj. Qed.
Print Assumptions crc_step_injective.

Theorem C14_wal_payload : forall r body' rest,
  rec_ok r -> one_byte_diff (fst r :: snd r) body' ->
  decode_record (be32 (blen (snd r) + 1) ++ body' ++ be32 (crc32c (fst r :: snd r)) ++ rest) = DBadCrc.
Proof. exact wal_body_corrupt. Qed.
Print Assumptions C14_wal_payload.

Theorem C14_wal_stored_crc : forall r crc' rest,
  rec_ok r -> one_byte_diff (be32 (crc32c (fst r :: snd r))) crc' ->
  decode_record (be32 (blen (snd r) + 1) ++ (fst r :: snd r) ++ crc' ++ rest) = DBadCrc.
Proof. exact wal_crc_corrupt. Qed.
Print Assumptions C14_wal_stored_crc.

(** a single-bit flip is a one-byte change (so the two theorems above apply to it) *)
Theorem C14_flip_is_one_byte : forall m i, i < 8 * blen m -> one_byte_diff m (flip_bit i m).
Proof. exact flip_bit_diff. Qed.
Print Assumptions C14_flip_is_one_byte.

(** value-log / WAL-payload entry record (kv.DecodeEntryFrom) *)
Theorem C14_vlog_body : forall e key' val' rest,
  entry_ok e -> blen key' = blen (e_key e) -> blen val' = blen (e_val e) ->
  one_byte_diff (e_key e ++ e_val e) (key' ++ val') ->
  decode_entry_from (enc_header (blen (e_key e)) (blen (e_val e)) (e_meta e) (e_exp e) ++ key' ++ val' ++
                     be32 (crc32c (enc_entry_body e)) ++ rest) = EdBadCrc.
Proof. exact entry_body_corrupt. Qed.
Print Assumptions C14_vlog_body.

Theorem C14_vlog_stored_crc : forall e crc' rest,
  entry_ok e -> one_byte_diff (be32 (crc32c (enc_entry_body e))) crc' ->
  decode_entry_from (enc_entry_body e ++ crc' ++ rest) = EdBadCrc.
Proof. exact entry_crc_corrupt. Qed.
Print Assumptions C14_vlog_stored_crc.

(** length-bearing field of the WAL frame: acceptance implies a self-consistent frame *)
Theorem C14_len_field_partial : forall bs ty p len rest,
  decode_record bs = DOk ty p len rest ->
  bs = be32 len ++ (ty :: p) ++ be32 (crc32c (ty :: p)) ++ rest /\ len = blen p + 1 /\ len < two32.
Proof. exact decode_record_ok_inv. Qed.
Print Assumptions C14_len_field_partial.

(** C25 — commands only execute against the region that owns their keys. *)
From Coq Require Import List NArith Bool.
From NoKV Require Import Base.Bytes Model.CmdValidate Spec.CmdValidateSpec Proofs.CmdValidateProofs.
Import ListNotations.
Local Open Scope N_scope.

(** Acceptance = current epoch, supported kinds only, every named non-empty key in range. *)
Theorem C25_accept_iff : forall m re rs, validate m re rs = Accept <-> owned m re rs.
Proof. exact validate_iff. Qed.
Print Assumptions C25_accept_iff.

Theorem C25_accept : forall m re rs,
  validate m re rs = Accept ->
  re = Some (m_epoch m) /\
  forall r, In (Some r) rs ->
    supported r /\ forall k, In k (named_keys r) -> k <> [] -> in_range m k.
Proof. exact validate_accept. Qed.
Print Assumptions C25_accept.

Theorem C25_reject_complete : forall m re rs,
  re <> Some (m_epoch m) \/
  (exists r, In (Some r) rs /\
     (~ supported r \/ exists k, In k (named_keys r) /\ k <> [] /\ ~ in_range m k)) ->
  validate m re rs = RegionError.
Proof. exact validate_reject. Qed.
Print Assumptions C25_reject_complete.

(** [keyInRange] is membership in [start, end) for every non-empty key. *)
Theorem C25_key_in_range : forall m k, k <> [] -> (key_in_range m k = true <-> in_range m k).
Proof. exact key_in_range_spec. Qed.
Print Assumptions C25_key_in_range.

(** Scan results: after trimming the applier's responses no non-empty key outside the range is left. *)
Theorem C25_scan_trim : forall m rs os,
  shaped rs os -> forall k, In k (all_keys (trim m rs os)) -> k <> [] -> in_range m k.
Proof. exact trim_keys_owned. Qed.
Print Assumptions C25_scan_trim.

(** ... and exactly the out-of-range (and nil) entries are removed, nothing else changes. *)
Theorem C25_scan_trim_exact : forall m rs os,
  shaped rs os -> trim m rs os = map (resp_expected m) os.
Proof. exact trim_exact. Qed.
Print Assumptions C25_scan_trim_exact.

(** Before the repair of [trimScanResponse] (request i paired with response i
    although the applier emits nothing for nil requests) a key outside the
    range survived. *)
Theorem C25_scan_trim_positional_refuted :
  shaped w_reqs w_resps /\
  In w_key (all_keys (trim_positional w_meta w_reqs w_resps)) /\
  ~ in_range w_meta w_key.
Proof. exact trim_positional_leaks. Qed.
Print Assumptions C25_scan_trim_positional_refuted.

(** The boolean oracles of the correspondence decide the specification. *)
Theorem C25_oracle_decides : forall m re rs, owned_b m re rs = true <-> owned m re rs.
Proof. exact owned_b_spec. Qed.
Print Assumptions C25_oracle_decides.

Theorem C25_shape_oracle_decides : forall rs os, shaped_b rs os = true <-> shaped rs os.
Proof. exact shaped_b_spec. Qed.
Print Assumptions C25_shape_oracle_decides.

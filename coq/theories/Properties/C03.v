(** C03 — committed transactions are serializable and read their snapshot.

    Model: [Model.TxnOracle] (call-atomic; the schedule dimension is C05), the
    oracle after the repair of /verif/fixes/txn-active-reads.md ([fixed = true]).
    [fp] (kv.MemHash) and the configuration [c] are arbitrary; no injectivity
    of [fp] is assumed. *)
From Coq Require Import List NArith Bool.
From NoKV Require Import Base.Bytes Spec.SerialSpec Model.TxnOracle Proofs.TxnStoreLemmas Proofs.TxnProofs.
Import ListNotations.
Local Open Scope N_scope.

(** A read returns the transaction's pending write if any, else the newest
    committed version at or below the read timestamp (tombstone => not found). *)
Theorem C03_snapshot_read :
  forall (fp : bytes -> N) (c : cfg) s id k t,
    st_txns s id = Some t -> t_discarded t = false ->
    snd (step true fp c s (Get id k)) =
    ORead (match (if t_update t then kv_get (t_pending t) k else None) with
           | Some v => v
           | None => read_at (st_store s) k (t_readts t)
           end).
Proof. exact snapshot_read. Qed.
Print Assumptions C03_snapshot_read.

(** ... and that snapshot never changes while the transaction is live. *)
Theorem C03_snapshot_stable :
  forall (fp : bytes -> N) (c : cfg) ops s id t k,
    Inv fp c s -> st_txns s id = Some t -> t_discarded t = false ->
    Forall (fun o => o <> Reopen) ops ->
    read_at (st_store (run_state true fp c s ops)) k (t_readts t) = read_at (st_store s) k (t_readts t).
Proof. exact snapshot_stable. Qed.
Print Assumptions C03_snapshot_stable.

Theorem C03_invariant_reachable :
  forall (fp : bytes -> N) (c : cfg) ops, Inv fp c (run_state true fp c st_init ops).
Proof. exact reachable_inv. Qed.
Print Assumptions C03_invariant_reachable.

(** With conflict detection, a commit that returns nil read no key that has a
    version above its read timestamp. *)
Theorem C03_conflict :
  forall (fp : bytes -> N) (c : cfg) ops id t s' ts,
    cf_detect c = true ->
    let s := run_state true fp c st_init ops in
    st_txns s id = Some t -> t_discarded t = false ->
    step true fp c s (Commit id) = (s', OCommitted ts) ->
    forall k v e, In (k, v) (t_log t) -> In e (st_store s) -> se_key e = k -> se_ver e <= t_readts t.
Proof. exact conflict_sound. Qed.
Print Assumptions C03_conflict.

(** Serial replay in commit-timestamp order reproduces every read and the
    final store, for every sequence of calls. *)
Theorem C03_serializable :
  forall (fp : bytes -> N) (c : cfg) ops,
    cf_detect c = true ->
    let s := run_state true fp c st_init ops in
    serial_execution (rev (map to_srec (st_hist s)))
                     (fun k => read_at (st_store s) k (o_next (st_orc s))).
Proof. exact serializable. Qed.
Print Assumptions C03_serializable.

(** The oracle as it was before the repair (conflict history pruned at
    readMark.DoneUntil()) violates [C03_conflict]: a witness interleaving. *)
Theorem C03_conflict_legacy_refuted :
  exists ops id t s' ts,
    let s := run_state false wfp wcfg st_init ops in
    st_txns s id = Some t /\ t_discarded t = false /\
    step false wfp wcfg s (Commit id) = (s', OCommitted ts) /\
    exists k v e, In (k, v) (t_log t) /\ In e (st_store s) /\ se_key e = k /\ t_readts t < se_ver e.
Proof. exact legacy_conflict_refuted. Qed.
Print Assumptions C03_conflict_legacy_refuted.

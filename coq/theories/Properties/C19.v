(** C19 — locks live exactly from prewrite until commit or rollback.

    Over the ideal store interface (one entry per (cf, key, version); the tie
    of that interface to the LSM under flush/compaction is C01/C02's). *)
From Coq Require Import List NArith Bool.
From NoKV Require Import Base.Bytes Model.Percolator Model.KvApply Spec.PercoSpec
  Proofs.PercoProofs Proofs.PercoInvProofs.
Import ListNotations.
Local Open Scope N_scope.

(** [reader.GetLock] reports exactly the logical lock of the key. *)
Theorem C19_lock_reported : forall h k,
  forallb req_ok h = true ->
  get_lock (apply_all current h) k = option_map ll_rec (ks_lock (ls_at (lrun h) k)).
Proof. exact lock_refines. Qed.
Print Assumptions C19_lock_reported.

(** Lifetime, per transition (every request is a sequence of them,
    [C18_requests_are_transitions]): a held lock stays with its transaction
    until that transaction's commit or rollback puts a record on the key ... *)
Theorem C19_lock_until_finished : forall lab x y l,
  ktrans lab x y -> ks_lock x = Some l ->
  (exists l', ks_lock y = Some l' /\ l_ts (ll_rec l') = l_ts (ll_rec l)) \/
  (ks_lock y = None /\ exists r, In r (ks_recs y) /\ lr_start r = l_ts (ll_rec l) /\
                                 (lab = KRollback (l_ts (ll_rec l)) \/ (exists cv, lab = KCommit (l_ts (ll_rec l)) cv) \/
                                  lab = KFinish (l_ts (ll_rec l)))).
Proof. exact lock_until_finished. Qed.
Print Assumptions C19_lock_until_finished.

(** ... a lock appears only through a prewrite of its transaction ... *)
Theorem C19_lock_only_by_prewrite : forall lab x y l',
  ktrans lab x y -> ks_lock y = Some l' ->
  (exists l, ks_lock x = Some l /\ l_ts (ll_rec l) = l_ts (ll_rec l')) \/ lab = KPrewrite (l_ts (ll_rec l')).
Proof. exact lock_only_by_prewrite. Qed.
Print Assumptions C19_lock_only_by_prewrite.

(** ... and in no reachable state does a key carry the lock of a transaction
    that already has a commit or rollback record on it: with the finality of
    records (C18_commit_final, C18_rollback_final_state) a removed lock never reappears. *)
Theorem C19_lock_never_reappears : forall h k l r,
  forallb req_ok h = true ->
  ks_lock (ls_at (lrun h) k) = Some l -> In r (ks_recs (ls_at (lrun h) k)) -> lr_start r <> l_ts (ll_rec l).
Proof. exact lock_not_finished. Qed.
Print Assumptions C19_lock_never_reappears.

(** CheckTxnStatus rolls the primary back iff its lock has a TTL and
    current_ts >= ts + ttl, with Go's wrapping uint64 addition -- for a lock
    whose transaction has no record on the key (always the case without
    storage faults, C19_lock_never_reappears; with its commit record present
    the status check removes the left-behind lock and reports the commit). *)
Theorem C19_ttl : forall s primary l lts cur caller rb,
  get_lock s primary = Some l -> l_ts l = lts -> get_write_by_start_ts s primary lts = None ->
  (cr_action (snd (check_txn_status current s primary lts cur caller rb)) = ActTTLExpireRollback <->
   l_ttl l <> 0 /\ wrap64 (l_ts l + l_ttl l) <= cur).
Proof. exact ttl_rule. Qed.
Print Assumptions C19_ttl.

Theorem C19_ttl_rollback_effect : forall h primary l lts cur caller rb,
  forallb req_ok h = true ->
  ks_lock (ls_at (lrun h) primary) = Some l -> l_ts (ll_rec l) = lts -> lock_expired (ll_rec l) cur = true ->
  let a' := fst (l_check (lrun h) primary lts cur caller rb) in
  ks_lock (ls_at a' primary) = None /\ rolled_back (ls_at a' primary) lts.
Proof. exact ttl_rollback_effect. Qed.
Print Assumptions C19_ttl_rollback_effect.

(** A commit below the lock's MinCommitTs is refused and changes nothing (the lock is kept). *)
Theorem C19_min_commit : forall s k keys l start cv,
  is_nil k = false -> get_lock s k = Some l -> l_ts l = start -> cv < l_min_commit l ->
  commit current s (k :: keys) start cv = (s, Some (KECommitTsExpired k cv (l_min_commit l))).
Proof. exact min_commit_rule. Qed.
Print Assumptions C19_min_commit.

Theorem C19_min_commit_push : forall s primary l lts cur caller rb,
  get_lock s primary = Some l -> l_ts l = lts -> get_write_by_start_ts s primary lts = None ->
  is_lock_expired l cur = false ->
  0 < caller -> l_min_commit l < wrap64 (caller + 1) ->
  let '(s', r) := check_txn_status current s primary lts cur caller rb in
  cr_action r = ActMinCommitPushed /\
  exists l', get_lock s' primary = Some l' /\ l_ts l' = l_ts l /\ l_min_commit l' = wrap64 (caller + 1).
Proof. exact min_commit_push. Qed.
Print Assumptions C19_min_commit_push.

(** The code before the repair of rollbackKey: a rollback of transaction 20
    removed the lock transaction 10 held on the key. *)
Theorem C19_foreign_rollback_refuted_legacy :
  forallb req_ok wit_foreign = true /\
  get_lock (apply_all legacy wit_foreign) (B1 107) = None /\
  option_map (fun l => l_ts (ll_rec l)) (ks_lock (ls_at (lrun wit_foreign) (B1 107))) = Some 10.
Proof. exact legacy_foreign_rollback_removes_lock. Qed.
Print Assumptions C19_foreign_rollback_refuted_legacy.

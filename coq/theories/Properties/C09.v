(** C09 — with synchronous writes, acknowledged writes survive any crash.

    Partial (record granularity).  With SyncWrites, for every workload, every annotation and
    every crash position: every record acknowledged before the crash is among the records
    recovery loads, at its position, with its value ([C09_acked_records_recovered]; [t_ackpos]
    is the length of the accepted-record sequence at the last acknowledgement).  Not proved
    here (correspondence only): that the LSM lookup over the recovered sources returns the
    last record of a key (C01), and that recovered value pointers resolve. *)
From Coq Require Import List NArith.
From NoKV Require Import Model.Fs Model.Recovery Spec.CrashSpec Proofs.CrashProofs.
Import ListNotations.
Local Open Scope N_scope.

Theorem C09_acked_records_recovered : forall w p seg nb, 0 < seg ->
  let st := state_at p (compile true w) (init seg nb) in
  let n := N.to_nat (t_ackpos (snd st)) in
  (n <= length (recovered_log (recover (crash st))))%nat /\
  firstn n (recovered_log (recover (crash st))) = firstn n (t_log (snd st)).
Proof. exact acked_recovered. Qed.
Print Assumptions C09_acked_records_recovered.

(** non-vacuity: a state with two acknowledged, recovered records *)
Theorem C09_example :
  let st := state_at 6 (compile true w13) (init 1 1) in
  (t_ackpos (snd st), length (recovered_log (recover (crash st)))) = (2, 2%nat).
Proof. exact acked_example. Qed.
Print Assumptions C09_example.

(** the boolean oracle used by the correspondence decides the specification *)
Theorem C09_oracle_decides : forall bs acked keys rd,
  acked_durable_b bs acked keys rd = true <-> acked_durable bs acked keys rd.
Proof. exact acked_durable_b_spec. Qed.
Print Assumptions C09_oracle_decides.

(** the oracle for a second incarnation (new acknowledged writes on the recovered store, clean
    close, reopen) decides its specification *)
Theorem C09_second_oracle_decides : forall keys r1 bs2 r2,
  second_ok_b keys r1 bs2 r2 = true <-> second_ok keys r1 bs2 r2.
Proof. exact second_ok_b_spec. Qed.
Print Assumptions C09_second_oracle_decides.

(** the oracle of the wal.Manager-level sub-family (appended + Sync'ed records survive a crash,
    the replay is a prefix of what was appended) decides its specification *)
Theorem C09_wal_oracle_decides : forall appended acked replayed,
  wal_acked_durable_b appended acked replayed = true <-> wal_acked_durable appended acked replayed.
Proof. exact wal_acked_durable_b_spec. Qed.
Print Assumptions C09_wal_oracle_decides.

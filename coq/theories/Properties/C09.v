(** C09 — with synchronous writes, acknowledged writes survive any crash. *)
From Coq Require Import List NArith.
From NoKV Require Import Model.Fs Model.Recovery Spec.CrashSpec Proofs.CrashProofs.
Import ListNotations.
Local Open Scope N_scope.

(** the boolean oracle used by the correspondence decides the specification *)
Theorem C09_oracle_decides : forall bs acked keys rd,
  acked_durable_b bs acked keys rd = true <-> acked_durable bs acked keys rd.
Proof. exact acked_durable_b_spec. Qed.
Print Assumptions C09_oracle_decides.

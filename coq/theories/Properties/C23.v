(** C23 — only the current leader serves reads and proposals, and reads are
    linearizable.

    Partial by design: raft is not modelled.  Who is leader ([VStatus]) and the
    index returned by ReadIndex are inputs; the ReadIndex contract (the index
    covers every write acknowledged before the read was issued) and log
    matching / ordered delivery are premises. *)
From Coq Require Import List NArith Bool.
From NoKV Require Import Base.Bytes Spec.SerialSpec Spec.Linearizable Model.CmdPipeline Spec.ClusterSpec
                         Proofs.LinearizableProofs Proofs.ClusterProofs.
Import ListNotations.
Local Open Scope N_scope.

(** A store whose raft status is not leader answers NotLeader (with the leader
    hint) and nothing else happens: no id is consumed, no waiter registered,
    the state machine, the apply log and the apply mark are untouched — for
    ProposeCommand and for ReadCommand, whatever id the caller supplied. *)
Theorem C23_not_leader :
  forall (cmd resp sm : Type) nid term lead region given w (s : store cmd resp sm N),
    propose_command nid (VStatus false term lead) region given w s = (s, ONotLeader lead) /\
    read_command_start nid (VStatus false term lead) given s = (s, ONotLeader lead).
Proof. exact (fun cmd resp sm nid term lead region given w s =>
                conj (@not_leader_propose cmd resp sm nid term lead region given w s)
                     (@not_leader_read cmd resp sm nid term lead given s)). Qed.
Print Assumptions C23_not_leader.

(** In the cluster: the call changes no store and registers no proposal. *)
Theorem C23_not_leader_cluster :
  forall (cmd resp sm : Type) (applier : sm -> cmd -> sm * option resp) (g : gstate cmd resp sm) s region w c term lead,
    let g' := gstep applier (next_id (W := N)) g (GPropose s region w c (VStatus false term lead)) in
    (forall x, snd (g_stores g' x) = snd (g_stores g x)) /\ g_props g' = g_props g /\
    g_outs g' = (w, ONotLeader lead) :: g_outs g.
Proof. exact @not_leader_global. Qed.
Print Assumptions C23_not_leader_cluster.

(** A read that [WaitApplied ridx] lets through on a store that was handed the
    first [n] committed entries returns what the state machine answers after
    exactly these [n] entries, and — by the ReadIndex contract — every write
    acknowledged before the read was issued is among them. *)
Theorem C23_read_linearizable :
  forall (cmd resp sm : Type) (applier : sm -> cmd -> sm * option resp)
         (committed : list (entry cmd)) (bs : list (list (entry cmd))) (m : sm) (c : cmd) ridx r n,
    applier_total applier -> Forall (Forall digestible) bs ->
    log_indexed committed ->
    concat bs = firstn n committed ->
    read_command_serve applier ridx c (run_batches applier bs (store_init m)) = Some r ->
    r = snd (applier (exec_cmds applier m (map snd (cmds_of (firstn n committed)))) c) /\
    (forall acked, (forall e, In e acked -> In e committed /\ e_index e <= ridx) ->
                   forall e, In e acked -> In e (firstn n committed)).
Proof. exact @read_linearizable. Qed.
Print Assumptions C23_read_linearizable.

(** The premises are satisfiable on a concrete run (two batches, a read at index 2). *)
Theorem C23_premises_satisfiable :
  applier_total ex_ap /\ Forall (Forall digestible) ex_bs /\ log_indexed ex_committed /\
  concat ex_bs = firstn 2 ex_committed /\
  read_command_serve ex_ap 2 99 (run_batches ex_ap ex_bs (store_init (W := N) [])) = Some (Some [20; 10]) /\
  applied_cmds (run_batches (resp := list N) ex_ap ex_bs (store_init [])) = cmds_of (firstn 2 ex_committed).
Proof. exact read_linearizable_premises. Qed.
Print Assumptions C23_premises_satisfiable.

(** The history oracle of the correspondence decides linearizability (shared with C34). *)
Theorem C23_oracle_decides : forall h, lin_check h = true <-> linearizable h.
Proof. exact lin_check_spec. Qed.
Print Assumptions C23_oracle_decides.

(** C02 — versioned reads return the newest entry at or below the requested version.

    Same model and specification as C01.  The full statement (arbitrary
    version orders) is refuted for the faithful model ([C02_order_refuted]:
    the first memtable / level that holds any version <= v answers — known
    finding C02-F4); [C02_reads_latest_version] is the statement that holds:
    whenever the sources are ordered by recency (which writes with increasing
    versions per key maintain), a read at [v] returns the write with the
    greatest version <= [v]. *)
From Coq Require Import List NArith.
From NoKV Require Import Base.Bytes Model.Lsm Spec.MvccSpec Spec.LsmSpec
     Proofs.LsmOrder Proofs.LsmRead Proofs.LsmGet Proofs.LsmMain Proofs.LsmWitness.

Theorem C02_reads_latest_version : forall s ws k v,
  src_inv s -> tier_inv (tiers_of s) -> content_ok s ws -> seq_functional ws ->
  get s k v = latest_at ws k v.
Proof. exact get_latest. Qed.
Print Assumptions C02_reads_latest_version.

(** Every source lookup is "greatest version <= v of this key in this source". *)
Theorem C02_source_search : forall k v l x,
  sorted l -> src_search k v l = Some x ->
  In x l /\ is_cand k v x /\ forall y, In y l -> is_cand k v y -> (r_ver y <= r_ver x)%N.
Proof. exact src_search_some. Qed.
Print Assumptions C02_source_search.

Theorem C02_source_search_none : forall k v l,
  sorted l -> src_search k v l = None -> forall y, In y l -> ~ is_cand k v y.
Proof. exact src_search_none. Qed.
Print Assumptions C02_source_search_none.

Theorem C02_tiered_read_latest : forall k v tiers,
  tier_inv tiers -> is_latest (all_recs tiers) k v (tget k v tiers).
Proof. exact tget_latest. Qed.
Print Assumptions C02_tiered_read_latest.

Theorem C02_order_refuted :
  exists ops k v, option_map r_val (get (run (init 1) ops) k v)
                  <> option_map r_val (latest_at (writes ops) k v).
Proof. exact out_of_order_refuted. Qed.
Print Assumptions C02_order_refuted.

(** Newest-version reads for whole histories of versioned writes (per key:
    versions never decrease), memtable rotations and flushes, of any length
    (Proofs/LsmPreserve.v). *)
From NoKV Require Import Proofs.LsmInv Proofs.LsmPreserve.

Theorem C02_versioned_memtables_l0 : forall m ops,
  forallb mlf_op ops = true -> puts_monotone ops = true ->
  forall k v, get (run (init m) ops) k v = latest_at (writes ops) k v.
Proof. exact lww_memtables_l0. Qed.
Print Assumptions C02_versioned_memtables_l0.

(** With every kind of maintenance step (Proofs/LsmChecked.v): admissible
    writes, compactions from states that pass the boolean ordering checker
    with admissible plans; if the final state passes the checker, a read at
    [v] returns the newest version <= [v]. *)
From NoKV Require Import Spec.LsmInvB Proofs.LsmCompact Proofs.LsmChecked.

Theorem C02_checked_run_reads : forall m ops,
  run_checked (init m) nil ops = true -> tier_inv_b (run (init m) ops) = true ->
  forall k v, get (run (init m) ops) k v = latest_at (writes ops) k v.
Proof. exact checked_run_reads. Qed.
Print Assumptions C02_checked_run_reads.

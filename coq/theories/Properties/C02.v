(** C02 — versioned reads return the newest entry at or below the requested version.

    Same model and specification as C01: Model/Lsm.v is the read path after the
    repair of the first-hit rule (known finding C02-F4, fixed: LSM.Get used to
    return the first memtable / level holding any version <= v, so an older
    version written later hid a newer one that was already flushed; it now
    keeps the greatest version over every memtable and level).

    [C02_reads_any_version_order] is the full statement for histories of
    writes in ARBITRARY version order, memtable rotations, flushes and reopens
    of any length; with compactions the statement rests on the recency order
    of equal internal keys ([scan_inv], no order between versions), which the
    ingest buffer can break for equal versions only (C01-F2). *)
From Coq Require Import String List NArith.
From NoKV Require Import Base.Bytes Model.Lsm Spec.MvccSpec Spec.LsmSpec
     Proofs.LsmOrder Proofs.LsmRead Proofs.LsmGet Proofs.LsmMain Proofs.LsmWitness.

Theorem C02_reads_latest_version : forall s ws k v,
  src_inv s -> scan_inv (scan_srcs s) -> content_ok s ws -> seq_functional ws ->
  get s k v = latest_at ws k v.
Proof. exact get_latest. Qed.
Print Assumptions C02_reads_latest_version.

(** Every source lookup is "greatest version <= v of this key in this source". *)
Theorem C02_source_search : forall k v l x,
  sorted l -> src_search k v l = Some x ->
  In x l /\ is_cand k v x /\ forall y, In y l -> is_cand k v y -> (r_ver y <= r_ver x)%N.
Proof. exact src_search_some. Qed.
Print Assumptions C02_source_search.

Theorem C02_source_search_none : forall k v l,
  sorted l -> src_search k v l = None -> forall y, In y l -> ~ is_cand k v y.
Proof. exact src_search_none. Qed.
Print Assumptions C02_source_search_none.

(** The scan over all sources returns the latest write among the scanned records. *)
Theorem C02_scan_read_latest : forall k v srcs,
  scan_inv srcs -> is_latest (concat srcs) k v (tier_best k v srcs).
Proof. exact scan_latest. Qed.
Print Assumptions C02_scan_read_latest.

(** The read path is that scan. *)
Theorem C02_get_is_scan : forall s k v, src_inv s -> get s k v = tier_best k v (scan_srcs s).
Proof. exact get_is_flat. Qed.
Print Assumptions C02_get_is_scan.

(** The former witness of C02-F4 (write (a,7); flush; write (a,5); read at 10)
    now returns version 7. *)
Theorem C02_out_of_order_fixed :
  option_map r_val (get (run (init 1) out_of_order) (of_string "a"%string) 10) = Some (of_string "new"%string) /\
  option_map r_val (latest_at (writes out_of_order) (of_string "a"%string) 10) = Some (of_string "new"%string) /\
  option_map r_val (get (run (init 1) out_of_order) (of_string "a"%string) 6) = Some (of_string "old"%string).
Proof. exact out_of_order_ok. Qed.
Print Assumptions C02_out_of_order_fixed.

(** Newest-version reads for whole histories of writes in any version order,
    memtable rotations, flushes and reopens, of any length
    (Proofs/LsmPreserve.v).  [number] assigns the ghost acknowledgement indices
    1, 2, ... in history order; the only condition on the writes is a positive
    version. *)
From NoKV Require Import Proofs.LsmInv Proofs.LsmPreserve.

Theorem C02_reads_any_version_order : forall m ops,
  forallb mlfr_op ops = true -> forallb ver_pos ops = true ->
  forall k v, get (run (init m) (number ops)) k v = latest_at (writes (number ops)) k v.
Proof. exact reads_any_version_order. Qed.
Print Assumptions C02_reads_any_version_order.

Theorem C02_versioned_memtables_l0 : forall m ops,
  forallb mlf_op ops = true -> puts_monotone ops = true ->
  forall k v, get (run (init m) ops) k v = latest_at (writes ops) k v.
Proof. exact lww_memtables_l0. Qed.
Print Assumptions C02_versioned_memtables_l0.

(** With every kind of maintenance step (Proofs/LsmChecked.v): admissible
    writes, compactions from states that pass the boolean ordering checker
    with admissible plans; if the final state passes the checker, a read at
    [v] returns the newest version <= [v]. *)
From NoKV Require Import Spec.LsmInvB Proofs.LsmCompact Proofs.LsmChecked.

Theorem C02_checked_run_reads : forall m ops,
  run_checked (init m) nil ops = true -> tier_inv_b (run (init m) ops) = true ->
  forall k v, get (run (init m) ops) k v = latest_at (writes ops) k v.
Proof. exact checked_run_reads. Qed.
Print Assumptions C02_checked_run_reads.

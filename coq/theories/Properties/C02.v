From NoKV Require Import Model.Lsm.
Theorem C02_placeholder : True. Proof. exact I. Qed.
Print Assumptions C02_placeholder.

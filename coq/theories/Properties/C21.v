(** C21 — persisted raft state and log survive a process crash.

    [run true]  = the tree with fixes/raft-wal-sync-before-publish.md,
    [run false] = the tree before it.  [probe s k] = what OpenWALStorage reports
    on the crash image of state [s] ([k] = how many still-buffered records the
    bufio writer had pushed out by itself).  A history may contain crashes
    ([OCrash]), compactions and records of other writers of the shared WAL; every
    prefix of a history is a history, so "after the return of operation i" is
    "at the end of the history ops[0..i]". *)
From Coq Require Import List NArith.
From NoKV Require Import Model.RaftStore Spec.RaftStoreSpec Proofs.RaftStoreProofs.

(** For every history the raft library can produce (no append leaving a gap,
    no stale snapshot), and whatever part of the userland buffer survived, the
    reopened storage reports exactly the persisted history: the last persisted
    hard state, the last snapshot, FirstIndex/LastIndex and the log folded from
    all persisted appends, later conflicting appends winning. *)
Theorem C21_recover : forall ops k, recovers ops (probe (run true init ops) k).
Proof. exact recover_sync. Qed.
Print Assumptions C21_recover.

(** If the persisted hard states form a chain (term never decreases; within a
    term a cast vote is kept), then between any two crash points the recovered
    term and vote do not go backwards. *)
Theorem C21_term_vote_monotone : forall ops1 ops2 k1 k2 a2,
  spec_run a_init (ops1 ++ ops2) = Some a2 -> hs_chain hs_empty (ops1 ++ ops2) ->
  exists o1 o2, probe (run true init ops1) k1 = Ok o1 /\
                probe (run true init (ops1 ++ ops2)) k2 = Ok o2 /\
                hs_le (o_hs o1) (o_hs o2).
Proof. exact term_vote_monotone. Qed.
Print Assumptions C21_term_vote_monotone.

(** handleReady/processReady: once the messages of every Ready so far have been
    handed to the transport, a crash recovers everything those Readys carried. *)
Theorem C21_persist_before_send : forall rds k,
  length (snd (process_readies true init rds)) = length rds ->
  recovers (concat (map ready_ops rds)) (probe (fst (process_readies true init rds)) k).
Proof. exact persist_before_send. Qed.
Print Assumptions C21_persist_before_send.

(** The tree before the repair (AppendRecords without Sync): a Ready that was
    persisted, and whose messages were sent, is gone after a process crash
    (here OpenWALStorage even fails: the manifest pointer is ahead of the log). *)
Theorem C21_recover_refuted_before_fix :
  exists ops k, ~ recovers ops (probe (run false init ops) k).
Proof. exact recover_refuted_nosync. Qed.
Print Assumptions C21_recover_refuted_before_fix.

(** The boolean oracle used by the correspondence check decides the specification. *)
Theorem C21_oracle_decides : forall ops r, recovers_b ops r = true <-> recovers ops r.
Proof. exact recovers_b_spec. Qed.
Print Assumptions C21_oracle_decides.

(** C28 — client two-phase commit is atomic across regions.

    [x] is the transaction (start, commit version, primary, keys).  The
    theorems quantify over *every* history of well-formed requests -- the
    client's own RPCs with any failures, retries and duplicates, readers
    resolving its locks at any moment, other transactions -- in which each
    request respects the protocol discipline [allowed]
    (Spec/Client2pcSpec.v; [drun x h = Some _]).  The logical state [a] is the
    one the stores of all regions represent (C18_refines; the state is per
    key, so one logical state stands for all regions).  That the real client
    and resolver produce disciplined histories, and that [Model/Client2pc.v]
    predicts the client's RPC sequence, is what the correspondence check
    establishes on every case. *)
From Coq Require Import List NArith Bool.
From NoKV Require Import Base.Bytes Model.Percolator Model.KvApply Model.Client2pc
  Spec.PercoSpec Spec.Client2pcSpec Proofs.PercoProofs Proofs.PercoInvProofs Proofs.Client2pcProofs.
Import ListNotations.
Local Open Scope N_scope.

(** Once no key of [x] is locked by [x] any more (its locks are resolved),
    every key carries [x]'s commit record at the commit version, or no key
    carries a commit record of [x] at all. *)
Theorem C28_atomic : forall x, tx_ok x = true -> forall h a g,
  forallb req_ok h = true ->
  drun x h = Some (a, g) -> resolved x a = true -> atomic x a.
Proof. exact atomic_after_resolve. Qed.
Print Assumptions C28_atomic.

(** If the call has failed while the primary had no commit record, and no
    primary-deciding Commit is sent afterwards ([qrun_from]: later Commits of
    [x] come only once the primary is committed), then after resolution no key
    of [x] has a commit record of [x]. *)
Theorem C28_fail_before_primary : forall x, tx_ok x = true -> forall h1 h2 a g a' g',
  forallb req_ok (h1 ++ h2) = true ->
  drun x h1 = Some (a, g) -> primary_committed x a = false ->
  qrun_from x a g h2 = Some (a', g') -> resolved x a' = true ->
  forall k, In k (x_keys x) -> no_commit x a' k = true.
Proof. exact fail_before_primary_run. Qed.
Print Assumptions C28_fail_before_primary.

(** One disciplined request keeps the invariant behind both theorems. *)
Theorem C28_invariant_step : forall x, tx_ok x = true -> forall a g r,
  INV x a g -> req_ok r = true -> allowed x a g r = true ->
  INV x (fst (lstep a r)) (g ++ locked_keys x (fst (lstep a r))).
Proof. exact INV_step. Qed.
Print Assumptions C28_invariant_step.

(** A key that carries [x]'s commit record is read, at the commit version, as
    what [x] wrote (with C17_get: GET at commit_ts returns it). *)
Theorem C28_commit_visible_read : forall x a k,
  Inv2 a -> commit_visible x a k = true ->
  exists rc, In rc (ks_recs (ls_at a k)) /\ lr_start rc = x_start x /\ lr_ts rc = x_commit x /\
             lr_kind rc <> OpRollback /\
             (committed_data rc = true -> newest_committed (ks_recs (ls_at a k)) (x_commit x) = Some rc).
Proof. exact commit_visible_read. Qed.
Print Assumptions C28_commit_visible_read.

(** The hypotheses are satisfiable: the model client's own request sequence
    is disciplined and ends committed on all keys; with a reader pushing
    MinCommitTs it ends resolved with no key committed. *)
Theorem C28_atomic_nonvacuous :
  tx_ok wit_f24_x = true /\ forallb req_ok wit_c28_history = true /\
  (exists a g, drun wit_f24_x wit_c28_history = Some (a, g) /\ resolved wit_f24_x a = true /\
               forallb (commit_visible wit_f24_x a) (x_keys wit_f24_x) = true) /\
  (exists a g, drun wit_f24_x (wit_f24_history ccurrent) = Some (a, g) /\ resolved wit_f24_x a = true /\
               forallb (no_commit wit_f24_x a) (x_keys wit_f24_x) = true).
Proof. exact atomic_nonvacuous. Qed.
Print Assumptions C28_atomic_nonvacuous.

(** The code before the repair of F24 (keys of the primary's region committed
    in mutation order): a non-primary key commits, then the primary fails
    (MinCommitTs pushed by a reader), and resolution rolls the rest back; the
    request sequence is not disciplined (its Commit does not start with the primary). *)
Theorem C28_atomic_refuted_legacy :
  forallb req_ok (wit_f24_history clegacy) = true /\
  resolved wit_f24_x (lrun (wit_f24_history clegacy)) = true /\
  atomic_b wit_f24_x (lrun (wit_f24_history clegacy)) = false /\
  commit_visible wit_f24_x (lrun (wit_f24_history clegacy)) (B1 97) = true /\
  no_commit wit_f24_x (lrun (wit_f24_history clegacy)) (B1 98) = true /\
  atomic_b wit_f24_x (lrun (wit_f24_history ccurrent)) = true.
Proof. exact f24_refuted_legacy. Qed.
Print Assumptions C28_atomic_refuted_legacy.

Theorem C28_legacy_not_disciplined : drun wit_f24_x (wit_f24_history clegacy) = None.
Proof. exact legacy_not_disciplined. Qed.
Print Assumptions C28_legacy_not_disciplined.

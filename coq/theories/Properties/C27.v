(** C27 — PD timestamps and IDs are unique and increasing across restarts.
    [failing] = the requests whose checkpoint write fails with an I/O error (they return an
    error, respond nothing and leave the file as it was); every statement is for any such set.
    Any number of concurrent requests, every schedule, crashes and restarts
    (with any start flags and any new requests) at any point. *)
From Coq Require Import List NArith.
From NoKV Require Import Base.Sched Model.PdAlloc Spec.PdAllocSpec Proofs.PdAllocProofs.
Import ListNotations.
Local Open Scope N_scope.

(** the reservations of an incarnation are non-empty intervals, strictly
    increasing in reservation order, above the incarnation's base and at or below
    the counter: no two reservations share a value *)
Theorem C27_unique_increasing : forall failing a b reqs g k,
  a <= max_u64 -> b <= max_u64 -> reachable (tstep true failing) (init a b reqs) g ->
  chain (base g k) (counter g k) (rlog g k) /\
  forall l1 e1 l2 e2 l3, rlog g k = l1 ++ e1 :: l2 ++ e2 :: l3 ->
    1 <= snd e1 /\ 1 <= snd e2 /\ fst e2 + snd e2 - 1 < fst e1.
Proof. exact pd_unique_increasing. Qed.
Print Assumptions C27_unique_increasing.

(** at every point every value already responded (in this or an earlier
    incarnation) is at or below the checkpoint on disk *)
Theorem C27_checkpoint_covers : forall failing a b reqs g,
  a <= max_u64 -> b <= max_u64 -> reachable (tstep true failing) (init a b reqs) g ->
  covered (g_ck_id g) (g_ck_ts g) (g_resp g ++ g_resp_old g).
Proof. exact pd_checkpoint_covers. Qed.
Print Assumptions C27_checkpoint_covers.

(** a crash at any reachable state followed by a restart resumes above everything responded ... *)
Theorem C27_restart_above : forall failing a b reqs g a2 b2 reqs2 g2,
  a <= max_u64 -> b <= max_u64 -> reachable (tstep true failing) (init a b reqs) g ->
  tstep true failing g (Crash a2 b2 reqs2) = Some g2 ->
  forall r, In r (g_resp g ++ g_resp_old g) -> iv_end r <= counter g2 (iv_kind r).
Proof. exact pd_restart_above. Qed.
Print Assumptions C27_restart_above.

(** ... hence no reservation of a later incarnation reuses a value responded earlier *)
Theorem C27_no_reuse_after_restart : forall failing a b reqs g,
  a <= max_u64 -> b <= max_u64 -> reachable (tstep true failing) (init a b reqs) g ->
  forall r f c, In r (g_resp_old g) -> In (f, c) (rlog g (iv_kind r)) -> iv_end r < f.
Proof. exact pd_no_reuse_after_restart. Qed.
Print Assumptions C27_no_reuse_after_restart.

(** the code before the repair (counters read outside any mutex): a value responded
    before a crash is reserved again after the restart (F23) *)
Theorem C27_unfixed_refuted :
  exists a b reqs sched,
    let g := run (tstep false (fun _ => false)) (init a b reqs) sched in
    exists r f c, In r (g_resp_old g) /\ In (f, c) (rlog g (iv_kind r)) /\ f <= iv_end r.
Proof. exact pd_unfixed_refuted. Qed.
Print Assumptions C27_unfixed_refuted.

Theorem C27_oracle_decides : forall tr seen, trace_ok_b seen tr = true <-> trace_ok seen tr.
Proof. exact trace_ok_b_spec. Qed.
Print Assumptions C27_oracle_decides.

Theorem C27_restart_oracle_decides : forall rs seen, restart_ok_b seen rs = true <-> restart_ok seen rs.
Proof. exact restart_ok_b_spec. Qed.
Print Assumptions C27_restart_oracle_decides.

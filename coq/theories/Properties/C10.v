(** C10 — recovery after any crash yields a prefix-consistent, readable state.

    Model: Model/Recovery.v (write path as micro-operations, [crash], [recover], [get]) over
    Model/Fs.v.  Spec: Spec/CrashSpec.v ([prefix_consistent]).

    Partial.  Proved for every sequence of micro-operations (hence every workload, every
    annotation, every crash position): what recovery loads is, record for record and in order,
    the sequence of records the engine accepted minus the part still in the WAL's userland
    buffer — no gap, no reordering, no record that was never written
    ([C10_recovered_log_prefix]).  The statement at batch granularity (the recovered reads are
    those of a prefix of the client batches) is REFUTED on the current tree: F13,
    [C10_prefix_refuted].  Not proved here (validated by the correspondence only): that the
    LSM lookup over the recovered sources returns the last record of a key in that sequence
    (C01's theorems about the read path), and that every recovered value pointer resolves
    (value-log head persistence and reconcileManifest, as repaired by
    fixes/C10-vlog-head-before-wal.md). *)
From Coq Require Import List NArith.
From NoKV Require Import Model.Fs Model.Recovery Spec.CrashSpec Proofs.CrashProofs.
Import ListNotations.
Local Open Scope N_scope.

(** [t_log]: every record handed to the WAL writer, in order (ghost); [t_buf]: the records
    still in the userland buffer; [recovered_log]: the records of the recovered sources,
    oldest source first. *)
Theorem C10_recovered_log_prefix : forall ms p seg nb, 0 < seg ->
  let st := state_at p ms (init seg nb) in
  recovered_log (recover (crash st)) ++ t_buf (snd st) = t_log (snd st).
Proof. exact recovered_log_prefix. Qed.
Print Assumptions C10_recovered_log_prefix.

(** the structural invariant behind it holds in every reachable state *)
Theorem C10_invariant : forall p ms seg nb, 0 < seg -> InvS (state_at p ms (init seg nb)).
Proof. exact state_at_inv. Qed.
Print Assumptions C10_invariant.

(** F13: one transaction = several WAL records with nothing marking the batch boundary; a
    memtable rotation (or a bufio overflow) inside SetBatch writes the first records to the
    segment file; a crash there recovers part of the transaction. *)
Theorem C10_prefix_refuted :
  exists sync seg nb w p keys,
    ~ prefix_consistent (client_batches w) keys (get (recover (crash (state_at p (compile sync w) (init seg nb))))).
Proof. exact c10_refuted. Qed.
Print Assumptions C10_prefix_refuted.

(** non-vacuity (the crash point of the refutation: one record recovered, the log holds one) *)
Theorem C10_example :
  let st := state_at 3 (compile true w13) (init 1 1) in
  (length (recovered_log (recover (crash st))), length (t_buf (snd st)), length (t_log (snd st))) = (1%nat, 0%nat, 1%nat).
Proof. exact prefix_example. Qed.
Print Assumptions C10_example.

(** the boolean oracle used by the correspondence decides the specification *)
Theorem C10_oracle_decides : forall bs keys rd,
  prefix_consistent_b bs keys rd = true <-> prefix_consistent bs keys rd.
Proof. exact prefix_consistent_b_spec. Qed.
Print Assumptions C10_oracle_decides.

(** C10 — recovery after any crash yields a prefix-consistent, readable state.

    Model: Model/Recovery.v (write path as micro-operations, [crash], [recover], [get]) over
    Model/Fs.v.  Spec: Spec/CrashSpec.v ([prefix_consistent]).  The full statement (for every
    workload, every annotation and every crash position the recovered reads are those of a
    prefix of the client batches) is REFUTED on the current tree: F13, see [C10_prefix_refuted]. *)
From Coq Require Import List NArith.
From NoKV Require Import Model.Fs Model.Recovery Spec.CrashSpec Proofs.CrashProofs.
Import ListNotations.
Local Open Scope N_scope.

(** F13: one transaction = several WAL records with nothing marking the batch boundary; a
    memtable rotation (or a bufio overflow) inside SetBatch writes the first records to the
    segment file; a crash there recovers part of the transaction. *)
Theorem C10_prefix_refuted :
  exists sync seg nb w p keys,
    ~ prefix_consistent (client_batches w) keys (get (recover (crash (state_at p (compile sync w) (init seg nb))))).
Proof. exact c10_refuted. Qed.
Print Assumptions C10_prefix_refuted.

(** the boolean oracle used by the correspondence decides the specification *)
Theorem C10_oracle_decides : forall bs keys rd,
  prefix_consistent_b bs keys rd = true <-> prefix_consistent bs keys rd.
Proof. exact prefix_consistent_b_spec. Qed.
Print Assumptions C10_oracle_decides.

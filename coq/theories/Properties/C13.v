(** C13 — WAL replays exactly what was appended, tolerating any torn tail.

    [rec_ok r]: the payload length + 1 fits the 32-bit length word (payloads
    below 4 GiB); segment ids stay below 100000 (file names sort numerically). *)
From Coq Require Import List NArith.
From Coq Require Import Init.Byte.
From NoKV Require Import Base.Bytes Base.Num Model.WalCodec Model.Wal Spec.WalSpec Proofs.WalProofs.
Import ListNotations.
Local Open Scope N_scope.

(** Replay of everything appended, for every record list (all types, all
    sizes), every configured segment size: exactly the appended records, in
    order, with their types, at the positions AppendRecords reported, no error. *)
Theorem C13_replay_all : forall cfg rs,
  Forall rec_ok rs ->
  let w := fst (append_all (open_wal cfg []) rs) in
  let infos := snd (append_all (open_wal cfg []) rs) in
  replay (files w) = (mk_infos infos rs, None) /\
  replay_recs (files w) = (rs, None) /\
  map pos_info (fst (replay (files w))) = infos.
Proof. exact replay_all. Qed.
Print Assumptions C13_replay_all.

(** Framing: a complete record decodes to itself whatever follows; a proper
    prefix of a record is recognised by length alone (no assumption on the CRC). *)
Theorem C13_decode_encode : forall r rest,
  rec_ok r -> decode_record (enc r ++ rest) = DOk (fst r) (snd r) (blen (snd r) + 1) rest.
Proof. exact decode_enc. Qed.
Print Assumptions C13_decode_encode.

Theorem C13_prefix_free : forall r k,
  rec_ok r -> k < rec_size r ->
  (k = 0 /\ take k (enc r) = []) \/ (0 < k /\ decode_record (take k (enc r)) = DPartial).
Proof. exact decode_proper_prefix. Qed.
Print Assumptions C13_prefix_free.

(** The newest segment cut at ANY byte [c]: replay yields exactly the records of
    the older segments and the records completely written before the cut. [lay] is
    the placement of the records into segments that the appends produced. *)
Theorem C13_torn_tail : forall cfg rs c,
  Forall rec_ok rs ->
  let w := fst (append_all (open_wal cfg []) rs) in
  exists lay : layout,
    map snd (files w) = map encs lay /\ concat lay = rs /\
    replay_recs (cut_last c (files w)) = (surviving lay c, None).
Proof. exact torn_tail. Qed.
Print Assumptions C13_torn_tail.

(** VerifyDir on the cut directory succeeds, and a log reopened on it (any segment
    size) that appends [rs'] replays the surviving records followed by [rs']. *)
Theorem C13_reopen_appends : forall cfg cfg' rs c rs',
  Forall rec_ok rs -> Forall rec_ok rs' ->
  let w := fst (append_all (open_wal cfg []) rs) in
  exists lay : layout,
    map snd (files w) = map encs lay /\ concat lay = rs /\
    snd (verify_dir (cut_last c (files w))) = None /\
    let w2 := fst (append_all (open_wal cfg' (fst (verify_dir (cut_last c (files w))))) rs') in
    replay_recs (files w2) = (surviving lay c ++ rs', None).
Proof. exact reopen_appends. Qed.
Print Assumptions C13_reopen_appends.

(** the positions AppendRecords reports depend on the payload lengths only *)
Theorem C13_placement_by_length : forall rs w,
  snd (append_all w rs) = fst (place (w_segsize w) (w_id w) (blen (w_act w)) (map (fun r => blen (snd r)) rs)) /\
  (let w' := fst (append_all w rs) in
   (w_id w', blen (w_act w')) = snd (place (w_segsize w) (w_id w) (blen (w_act w)) (map (fun r => blen (snd r)) rs))
   /\ w_segsize w' = w_segsize w).
Proof. exact place_spec. Qed.
Print Assumptions C13_placement_by_length.

(** non-vacuity: two records, the second torn by a cut at byte 15 *)
Theorem C13_example :
  let rs := [(x00, [x61; x62]); (x01, [x63])] in
  Forall rec_ok rs /\
  replay_recs (cut_last 15 (files (fst (append_all (open_wal 0 []) rs)))) = ([(x00, [x61; x62])], None).
Proof. exact wal_example. Qed.
Print Assumptions C13_example.

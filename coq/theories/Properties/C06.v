(** C06 — iterators return exactly the live snapshot in order, honouring options. *)
From Coq Require Import List NArith Bool.
From NoKV Require Import Base.Bytes Model.Keys Model.Lsm Spec.MvccSpec Proofs.LsmOrder Spec.LsmSpec
     Proofs.LsmGet Model.LsmIter Spec.IterSpec Proofs.IterProofs.
Import ListNotations.
Local Open Scope N_scope.

(** The merged internal stream under every iterator (sources in the order of
    lsm.NewIterators, binary tree of MergeIterators) is sorted, and a seek on it
    answers exactly like the point read LSM.Get, for every key and version. *)
Theorem C06_merged_stream_matches_get : forall s k v,
  iter_inv s -> seq_functional (all_recs (tiers_of s)) ->
  src_search k v (db_stream current s false PRewind) = get s k v.
Proof. exact stream_get. Qed.
Print Assumptions C06_merged_stream_matches_get.

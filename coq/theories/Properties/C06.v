(** C06 — iterators return exactly the live snapshot in order, honouring options.

    Model: Model/LsmIter.v ([current] = the code after the repairs of
    /verif/fixes/C06-*.md, [legacy] = the code as found).  Specification:
    Spec/IterSpec.v ([spec_scan] over the history of acknowledged writes). *)
From Coq Require Import List NArith Bool String.
From NoKV Require Import Base.Bytes Model.Keys Model.Lsm Spec.MvccSpec Proofs.LsmOrder Spec.LsmSpec
     Proofs.LsmGet Proofs.LsmMain Spec.LsmInvB Model.LsmIter Spec.IterSpec Proofs.IterProofs.
Import ListNotations.
Local Open Scope N_scope.

(** The merged internal stream under every iterator (sources in the order of
    lsm.NewIterators, binary tree of MergeIterators, left node kept on equal
    internal keys) answers a seek exactly like the point read LSM.Get, for
    every key and version and every state satisfying [iter_inv]: sorted
    sources, disjoint main tables, and copies of one internal key most recent
    first in scan order ([scan_inv]).  Since the repair of LSM.Get (greatest
    version over every source) no version order between sources is needed:
    every theorem below holds under this weaker invariant, e.g. for states
    mixing plain-API (sentinel version) and transactional writes. *)
Theorem C06_merged_stream_matches_get : forall s k v,
  iter_inv s -> seq_functional (all_recs (tiers_of s)) ->
  src_search k v (db_stream current s false PRewind) = Lsm.get s k v.
Proof. exact stream_get. Qed.
Print Assumptions C06_merged_stream_matches_get.

(** Forward transaction scans (Rewind, then Next until invalid), for EVERY record of Prefix /
    prefixIsKey (NewKeyIterator's filter) / SinceTs / LowerBound / UpperBound /
    KeyOnly, every read timestamp and every state satisfying the LSM ordering
    invariant whose contents are the history [ws]: the items are exactly
    [spec_scan] — the live newest visible version of every key of the default
    column family inside the bounds, in ascending user-key order, once. *)
Theorem C06_txn_iter : forall now s ws readTs o,
  iter_inv s -> content_ok s ws -> seq_functional ws -> (forall w, In w ws -> wf_key w = true) ->
  o_rev o = false -> o_all o = false ->
  map item_sitem (txn_list current now s readTs [] o ARewind) = spec_scan now ws [] readTs (sopts_of o None)
  /\ Forall (fun i => i_cf i = cf_default) (txn_list current now s readTs [] o ARewind).
Proof. exact txn_scan_fwd. Qed.
Print Assumptions C06_txn_iter.

(** The same with AllVersions (and hence for Txn.NewKeyIterator, which is
    AllVersions + prefixIsKey): every live version at or below readTs of every
    key inside the bounds, keys ascending, versions newest first, each once. *)
Theorem C06_txn_iter_all_versions : forall now s ws readTs o,
  iter_inv s -> content_ok s ws -> seq_functional ws -> (forall w, In w ws -> wf_key w = true) ->
  o_rev o = false -> o_all o = true ->
  map item_sitem (txn_list current now s readTs [] o ARewind) = spec_scan now ws [] readTs (sopts_of o None).
Proof. exact txn_scan_fwd_all. Qed.
Print Assumptions C06_txn_iter_all_versions.

(** Seek + Next*: forward Seek to any non-empty target (with or without
    AllVersions, any bounds, including the clamping to LowerBound and the
    rejection at UpperBound) lists exactly the scan restricted to keys >= target. *)
Theorem C06_txn_iter_seek : forall now s ws readTs o key,
  iter_inv s -> content_ok s ws -> seq_functional ws -> (forall w, In w ws -> wf_key w = true) ->
  o_rev o = false -> key <> [] ->
  map item_sitem (txn_list current now s readTs [] o (ASeek key)) = spec_scan now ws [] readTs (sopts_of o (Some key)).
Proof. exact txn_scan_fwd_seek. Qed.
Print Assumptions C06_txn_iter_seek.

(** Update transactions: with pending writes (distinct keys, stamped with
    readTs by newPendingWritesIterator and merged in front of the LSM sources)
    the forward scan lists the snapshot overlaid with the transaction's own
    writes: a pending write shadows the committed versions of its key, a
    pending delete hides the key. *)
Theorem C06_txn_iter_pending : forall now s ws pw readTs o,
  iter_inv s -> content_ok s ws -> seq_functional ws -> (forall w, In w (ws ++ pw) -> wf_key w = true) ->
  pw <> [] -> NoDup (map r_key pw) -> (forall p, In p pw -> r_ver p = readTs) ->
  o_rev o = false -> o_all o = false ->
  map item_sitem (txn_list current now s readTs pw o ARewind) = spec_scan now ws pw readTs (sopts_of o None).
Proof. exact txn_scan_fwd_pending. Qed.
Print Assumptions C06_txn_iter_pending.

Theorem C06_txn_iter_pending_nonvacuous :
  pw_ex <> [] /\ NoDup (map r_key pw_ex) /\ (forall p, In p pw_ex -> r_ver p = 3) /\
  (forall w, In w (w_ex ++ pw_ex) -> wf_key w = true) /\
  map item_sitem (txn_list current 100 s_ex 3 pw_ex (plain_opts false false) ARewind)
  = [ {| s_key := of_string "a"; s_ver := 3; s_val := of_string "y" |};
      {| s_key := of_string "ab"; s_ver := 3; s_val := of_string "p" |};
      {| s_key := of_string "b"; s_ver := 3; s_val := of_string "q" |} ].
Proof. exact ex_pending. Qed.
Print Assumptions C06_txn_iter_pending_nonvacuous.

(** ... and every listed value is what a point read of the snapshot returns. *)
Theorem C06_matches_get : forall now s ws readTs o i,
  iter_inv s -> content_ok s ws -> seq_functional ws -> (forall w, In w ws -> wf_key w = true) ->
  o_rev o = false -> o_all o = false ->
  In i (txn_list current now s readTs [] o ARewind) ->
  spec_get now ws [] readTs (i_key i) = Some (i_val i).
Proof. exact txn_scan_fwd_get. Qed.
Print Assumptions C06_matches_get.

(** The model of Txn.Get (pending write, then LSM.Get at readTs, tombstones
    and expired entries not found) returns that same point read of the
    snapshot, for every key: scans and point reads agree. *)
Theorem C06_txn_get : forall now s ws readTs u,
  iter_inv s -> content_ok s ws -> seq_functional ws ->
  txn_get current now s readTs [] (sbase u) = spec_get now ws [] readTs u.
Proof. exact txn_get_spec. Qed.
Print Assumptions C06_txn_get.

(** Refuted on the code as found (C06-G1, repaired since): a committed EMPTY
    value served by a table came back as a nil slice and Txn.Get read
    [Value == nil && Meta == 0] as not found, while the scan listed the key. *)
Theorem C06_txn_get_legacy_refuted :
  tier_inv_b s_g1 = true /\ txn_get legacy 100 s_g1 1 [] (sbase [Byte.x61]) = None /\
  spec_get 100 w_g1 [] 1 [Byte.x61] = Some [] /\
  txn_get current 100 s_g1 1 [] (sbase [Byte.x61]) = Some [] /\
  map item_sitem (txn_list current 100 s_g1 1 [] (plain_opts false false) ARewind)
  = [ {| s_key := [Byte.x61]; s_ver := 1; s_val := [] |} ].
Proof. exact g1_refuted. Qed.
Print Assumptions C06_txn_get_legacy_refuted.

(** The hypotheses are satisfiable on a state with a memtable, a sealed
    memtable and an L0 table, a tombstone shadowing an older version, and
    byte-prefix keys; the listing there is a@3, ab@3 (b is deleted). *)
Theorem C06_txn_iter_nonvacuous :
  iter_inv s_ex /\ content_ok s_ex w_ex /\ seq_functional w_ex /\ (forall w, In w w_ex -> wf_key w = true).
Proof. exact ex_hyps. Qed.
Print Assumptions C06_txn_iter_nonvacuous.

(** Reverse scans.  With AllVersions the listing is the forward listing
    mirrored (keys descending, versions of a key oldest first), for every
    option record.  Without AllVersions the full statement is refuted
    (C06_txn_iter_reverse_refuted, finding C06-F9); it holds exactly outside
    that class: when no key has two versions visible at readTs. *)
Theorem C06_txn_iter_reverse_all_versions : forall now s ws readTs o,
  iter_inv s -> content_ok s ws -> seq_functional ws -> (forall w, In w ws -> wf_key w = true) ->
  o_rev o = true -> o_all o = true ->
  map item_sitem (txn_list current now s readTs [] o ARewind) = spec_scan now ws [] readTs (sopts_of o None).
Proof. exact txn_scan_rev_all. Qed.
Print Assumptions C06_txn_iter_reverse_all_versions.

Theorem C06_txn_iter_reverse_partial : forall now s ws readTs o,
  iter_inv s -> content_ok s ws -> seq_functional ws -> (forall w, In w ws -> wf_key w = true) ->
  no_repeat (filter (visible readTs) (fstream s)) = true ->
  o_rev o = true -> o_all o = false ->
  map item_sitem (txn_list current now s readTs [] o ARewind) = spec_scan now ws [] readTs (sopts_of o None).
Proof. exact txn_scan_rev_partial. Qed.
Print Assumptions C06_txn_iter_reverse_partial.

(** Reverse Seek, including TxnIterator.Seek's fallback (Rewind and skip the
    items above the target): keys <= target, clamped at the exclusive
    UpperBound, rejected below LowerBound. *)
Theorem C06_txn_iter_reverse_seek : forall now s ws readTs o key,
  iter_inv s -> content_ok s ws -> seq_functional ws -> (forall w, In w ws -> wf_key w = true) ->
  o_rev o = true -> o_all o = true -> key <> [] ->
  map item_sitem (txn_list current now s readTs [] o (ASeek key)) = spec_scan now ws [] readTs (sopts_of o (Some key)).
Proof. exact txn_scan_rev_seek_all. Qed.
Print Assumptions C06_txn_iter_reverse_seek.

Theorem C06_txn_iter_reverse_seek_partial : forall now s ws readTs o key,
  iter_inv s -> content_ok s ws -> seq_functional ws -> (forall w, In w ws -> wf_key w = true) ->
  no_repeat (filter (visible readTs) (fstream s)) = true ->
  o_rev o = true -> o_all o = false -> key <> [] ->
  map item_sitem (txn_list current now s readTs [] o (ASeek key)) = spec_scan now ws [] readTs (sopts_of o (Some key)).
Proof. exact txn_scan_rev_seek_partial. Qed.
Print Assumptions C06_txn_iter_reverse_seek_partial.

Theorem C06_txn_iter_reverse_partial_nonvacuous :
  no_repeat (filter (visible max_u64) (fstream s_db)) = true.
Proof. exact ex_rev_hyp. Qed.
Print Assumptions C06_txn_iter_reverse_partial_nonvacuous.

(** DB.NewIterator, forward, any bounds: outside the class of known finding
    C06-F10 (the merged stream holds default-column-family records only and one
    version per key — [simple_stream]) the listing is [spec_scan] at the maximal
    read timestamp: live keys only (tombstones and expired entries skipped). *)
Theorem C06_db_iter_partial : forall now s ws od,
  iter_inv s -> content_ok s ws -> seq_functional ws ->
  (forall w, In w ws -> wf_key w = true /\ r_ver w <= max_u64) ->
  simple_stream (fstream s) = true -> d_asc od = true ->
  map item_sitem (db_list current now s od ARewind) = spec_scan now ws [] max_u64 (sopts_of_d od None).
Proof. exact db_scan_fwd_partial. Qed.
Print Assumptions C06_db_iter_partial.

Theorem C06_db_iter_reverse_partial : forall now s ws od,
  iter_inv s -> content_ok s ws -> seq_functional ws ->
  (forall w, In w ws -> wf_key w = true /\ r_ver w <= max_u64) ->
  simple_stream (fstream s) = true -> d_asc od = false ->
  map item_sitem (db_list current now s od ARewind) = spec_scan now ws [] max_u64 (sopts_of_d od None).
Proof. exact db_scan_rev_partial. Qed.
Print Assumptions C06_db_iter_reverse_partial.

Theorem C06_db_iter_seek_partial : forall now s ws od key,
  iter_inv s -> content_ok s ws -> seq_functional ws ->
  (forall w, In w ws -> wf_key w = true /\ r_ver w <= max_u64) ->
  simple_stream (fstream s) = true -> d_asc od = true -> key <> [] ->
  map item_sitem (db_list current now s od (ASeek key)) = spec_scan now ws [] max_u64 (sopts_of_d od (Some key)).
Proof. exact db_scan_fwd_seek_partial. Qed.
Print Assumptions C06_db_iter_seek_partial.

Theorem C06_db_iter_partial_nonvacuous :
  iter_inv s_db /\ content_ok s_db w_db /\ seq_functional w_db /\
  (forall w, In w w_db -> wf_key w = true /\ r_ver w <= max_u64) /\ simple_stream (fstream s_db) = true.
Proof. exact ex_db_hyps. Qed.
Print Assumptions C06_db_iter_partial_nonvacuous.

(** The boolean oracle of the correspondence decides the specification. *)
Theorem C06_oracle_decides : forall now ws pw readTs o l,
  scan_ok_b now ws pw readTs o l = true <-> is_scan now ws pw readTs o l.
Proof. exact scan_ok_b_spec. Qed.
Print Assumptions C06_oracle_decides.

(** [spec_scan] is not an arbitrary function: without AllVersions it is THE
    listing that is strictly monotone in the user key and contains exactly the
    visible items ([scan_rel], Spec/IterSpec.v), for any pending writes; the
    oracle therefore decides that relation. *)
Theorem C06_spec_is_the_relation : forall now ws pw readTs so l,
  so_all so = false -> (scan_ok_b now ws pw readTs so l = true <-> scan_rel now ws pw readTs so l).
Proof. exact scan_ok_b_rel. Qed.
Print Assumptions C06_spec_is_the_relation.

(** Refuted on the code as found (repaired since):
    F8 — a committed delete of b leaves b in the forward scan;
    F3 — of two sealed memtables holding the same internal key the iterator took the older. *)
Theorem C06_txn_iter_legacy_refuted :
  tier_inv_b s_f8 = true /\
  scan_ok_b 100 w_f8 [] 2 (sopts_of (plain_opts false false) None)
            (map item_sitem (txn_list legacy 100 s_f8 2 [] (plain_opts false false) ARewind)) = false /\
  scan_ok_b 100 w_f8 [] 2 (sopts_of (plain_opts false false) None)
            (map item_sitem (txn_list current 100 s_f8 2 [] (plain_opts false false) ARewind)) = true.
Proof. exact f8_legacy_refuted. Qed.
Print Assumptions C06_txn_iter_legacy_refuted.

Theorem C06_merged_stream_legacy_refuted :
  tier_inv_b s_f3 = true /\
  option_map r_val (src_search (sbase (of_string "a")) max_u64 (db_stream legacy s_f3 false PRewind)) = Some (of_string "1") /\
  option_map r_val (Lsm.get s_f3 (sbase (of_string "a")) max_u64) = Some (of_string "2") /\
  option_map r_val (src_search (sbase (of_string "a")) max_u64 (db_stream current s_f3 false PRewind)) = Some (of_string "2").
Proof. exact f3_legacy_refuted. Qed.
Print Assumptions C06_merged_stream_legacy_refuted.

(** Refuted on the current code (known findings):
    C06-F9 — a reverse scan lists the oldest visible version;
    C06-F10 — DB.NewIterator lists every version. *)
Theorem C06_txn_iter_reverse_refuted :
  tier_inv_b s_f9 = true /\
  scan_ok_b 100 w_f9 [] 2 (sopts_of (plain_opts true false) None)
            (map item_sitem (txn_list current 100 s_f9 2 [] (plain_opts true false) ARewind)) = false.
Proof. exact f9_reverse_refuted. Qed.
Print Assumptions C06_txn_iter_reverse_refuted.

Theorem C06_db_iter_refuted :
  tier_inv_b s_f9 = true /\
  scan_ok_b 100 w_f9 [] max_u64 (sopts_of (plain_opts false false) None)
            (map item_sitem (db_list current 100 s_f9 dflt_dopts ARewind)) = false.
Proof. exact f10_db_refuted. Qed.
Print Assumptions C06_db_iter_refuted.

(** C37 — operations and Close always finish (proof-partial: the Go
    scheduler's fairness, time.Sleep granularity and goroutine starvation are
    not exhibited by the model; statements are about [Model.CommitQueue]). *)
From Coq Require Import List NArith Bool.
From NoKV Require Import Base.Bytes Base.Sched Spec.SerialSpec Spec.Linearizable Model.CommitQueue
                         Proofs.CommitQueueProofs Proofs.CommitQueueLin Proofs.CommitQueueClose.
From NoKV Require Model.TxnOracle Proofs.TxnNoHang.
Import ListNotations.
Local Open Scope N_scope.

Theorem C37_invariant_reachable :
  forall cap bmax progs g, reachable tstep (g_init cap bmax progs) g -> Inv37 g.
Proof. exact reachable_inv37. Qed.
Print Assumptions C37_invariant_reachable.

(** Deadlock freedom: in every reachable state every client is finished, can
    step, waits for the worker which can step, or waits for the L0 throttle;
    a Close waiting for the worker is never stuck. *)
Theorem C37_no_stuck_state :
  forall cap bmax progs g,
    (1 <= cap)%nat ->
    reachable tstep (g_init cap bmax progs) g ->
    (forall t, 3 <= t ->
       let c := g_clients g t in
       finished c \/ tstep g t <> None \/ (waits_for_worker g c /\ tstep g 0 <> None) \/ waits_for_throttle g c) /\
    (g_close g = ClClosed -> tstep g 2 <> None \/ tstep g 0 <> None) /\
    (g_close g = ClNot \/ g_close g = ClWaited -> tstep g 2 <> None).
Proof. exact no_stuck_state. Qed.
Print Assumptions C37_no_stuck_state.

(** Ranking function: after Close began every step of the worker, the closing
    goroutine and the clients decreases [rank]; executions have at most
    [rank] such steps. *)
Theorem C37_rank_decreases :
  forall cids g t g',
    NoDup cids -> (forall x, In x cids -> 3 <= x) -> (1 <= g_bmax g)%nat ->
    tstep_c cids g t = Some g' -> (rank cids g' < rank cids g)%nat.
Proof. exact rank_decreases. Qed.
Print Assumptions C37_rank_decreases.

Theorem C37_progress :
  forall cids sched g g',
    NoDup cids -> (forall x, In x cids -> 3 <= x) -> (1 <= g_bmax g)%nat ->
    exec (tstep_c cids) g sched = Some g' -> (length sched + rank cids g' <= rank cids g)%nat.
Proof. exact progress_after_close. Qed.
Print Assumptions C37_progress.

Theorem C37_worker_decreases :
  forall cids g g', (1 <= g_bmax g)%nat -> tstep g 0 = Some g' -> (rank cids g' < rank cids g)%nat.
Proof. exact worker_decreases_rank. Qed.
Print Assumptions C37_worker_decreases.

Theorem C37_throttle_keeps_rank : forall cids g g', tstep g 1 = Some g' -> rank cids g' = rank cids g.
Proof. exact throttle_keeps_rank. Qed.
Print Assumptions C37_throttle_keeps_rank.

(** A write issued after Close began never waits: each of its (at most three)
    own steps is enabled and it ends in an error without touching the
    memtable or the queue. *)
Theorem C37_after_close :
  forall g t,
    closed_b (g_close g) = true -> 3 <= t ->
    let c := g_clients g t in
    (forall k v hot big call, c_pc c = PStart (CSet k v hot big) call ->
       exists g', tstep g t = Some g' /\
         (c_pc (g_clients g' t) = PSend (CSet k v hot big) call \/
          c_pc (g_clients g' t) = PLin (CSet k v hot big) call (RFail WHot)) /\ g_mem g' = g_mem g) /\
    (forall k v hot big call, c_pc c = PSend (CSet k v hot big) call ->
       exists g' e, tstep g t = Some g' /\ c_pc (g_clients g' t) = PLin (CSet k v hot big) call (RFail e) /\
                    g_mem g' = g_mem g /\ g_pipe g' = g_pipe g) /\
    (forall o call r, c_pc c = PLin o call r -> exists g', tstep g t = Some g' /\ c_pc (g_clients g' t) = PIdle).
Proof. exact after_close. Qed.
Print Assumptions C37_after_close.

Theorem C37_closed_is_stable :
  forall g t g', tstep g t = Some g' -> closed_b (g_close g) = true -> closed_b (g_close g') = true.
Proof. exact closed_mono. Qed.
Print Assumptions C37_closed_is_stable.

(** Transaction layer (call-atomic model [Model.TxnOracle]): every exit of
    Commit after the commit timestamp was issued - success, ErrTxnTooBig from
    the write path, the closed commit queue, a failing apply - releases the
    timestamp, so the commit watermark stands at the last issued timestamp in
    every reachable state and NewTransaction never waits in WaitForMark. *)
Theorem C37_commit_mark_settled :
  forall (fp : bytes -> N) (c : TxnOracle.cfg) ops,
    TxnNoHang.mark_settled
      (TxnOracle.o_txnmark (TxnOracle.st_orc (TxnOracle.run_state true fp c TxnOracle.st_init ops))).
Proof. exact TxnNoHang.reachable_settled. Qed.
Print Assumptions C37_commit_mark_settled.

Theorem C37_begin_never_waits :
  forall (fp : bytes -> N) (c : TxnOracle.cfg) ops id u,
    snd (TxnOracle.step true fp c (TxnOracle.run_state true fp c TxnOracle.st_init ops) (TxnOracle.Begin id u))
    <> TxnOracle.OErr TxnOracle.EHang.
Proof. exact TxnNoHang.begin_never_waits. Qed.
Print Assumptions C37_begin_never_waits.

(** Known finding C37-F2.  Full statement: the first commit after a reopen gets
    a timestamp above every stored version (and returns).  It is refuted when
    the store holds the sentinel version 2^64-1 of the plain API: the
    timestamp counter wraps to 0, the assertion in newCommitTs fails and the
    process ends.  It holds for every other recovered maximum. *)
Theorem C37_commit_after_reopen_refuted :
  exists m, m < TxnOracle.two64 /\ TxnOracle.commit_after_open m = TxnOracle.RcFatal.
Proof. exact TxnNoHang.commit_after_open_refuted. Qed.
Print Assumptions C37_commit_after_reopen_refuted.

Theorem C37_commit_after_reopen_partial :
  forall m, m < TxnOracle.sentinel_version ->
    exists ts, TxnOracle.commit_after_open m = TxnOracle.RcCommits ts /\ m < ts.
Proof. exact TxnNoHang.commit_after_open_below_sentinel. Qed.
Print Assumptions C37_commit_after_reopen_partial.

(** C31 — the RESP parser is total and allocation-bounded.

    [parse repaired_limits] is the model of parseRESP as it is now (after the
    repair of F27); [parse unrepaired_limits] is the parser before the repair.
    The first component of the result is the list of sizes passed to [make]. *)
From Coq Require Import List NArith ZArith.
From NoKV Require Import Base.Bytes Model.Resp Spec.RespSpec Proofs.RespProofs.
Import ListNotations.
Local Open Scope N_scope.

(** No byte string makes the parser panic (or the model run out of fuel). *)
Theorem C31_total : forall s, no_panic (snd (parse repaired_limits s)).
Proof. exact parse_total. Qed.
Print Assumptions C31_total.

(** For every byte string, the memory requested on behalf of declared lengths
    is at most 24 * (bytes consumed) + 90112, whatever the outcome. *)
Theorem C31_alloc : forall s,
  let '(al, r) := parse repaired_limits s in
  len (presult_rest r) <= len s /\ alloc_bounded (len s - len (presult_rest r)) al.
Proof. exact parse_alloc. Qed.
Print Assumptions C31_alloc.

(** Every well-formed array within the protocol limits (nil and empty bulk
    strings included), followed by anything, parses into exactly its arguments
    and leaves exactly the rest unread. *)
Theorem C31_parse_array : forall args rest,
  array_within args = true ->
  snd (parse repaired_limits (enc_array args ++ rest)) = POk false args rest.
Proof. exact parse_array_roundtrip. Qed.
Print Assumptions C31_parse_array.

(** Every inline command (non-empty words free of white space, separated by
    one space, not starting with '*') parses into exactly its words. *)
Theorem C31_parse_inline : forall fs rest,
  inline_ok fs = true ->
  snd (parse repaired_limits (enc_inline fs ++ rest)) = POk false (map Some fs) rest.
Proof. exact parse_inline_roundtrip. Qed.
Print Assumptions C31_parse_inline.

(** The boolean oracle of the correspondence check decides the observation predicate. *)
Theorem C31_oracle_decides : forall input f o, obs_ok_b input f o = true <-> obs_ok input f o.
Proof. exact obs_ok_b_spec. Qed.
Print Assumptions C31_oracle_decides.

(** Before the repair of F27 both halves fail: 13 bytes request 51.5 GB ... *)
Theorem C31_alloc_refuted_before_repair :
  exists s, let '(al, r) := parse unrepaired_limits s in
            ~ alloc_bounded (len s) al /\ 51539607528 <= sumN al.
Proof. exact unrepaired_alloc_refuted. Qed.
Print Assumptions C31_alloc_refuted_before_repair.

(** ... and 22 bytes make [make] panic in a goroutine without recover. *)
Theorem C31_total_refuted_before_repair :
  exists s, is_panic (snd (parse unrepaired_limits s)) = true.
Proof. exact unrepaired_total_refuted. Qed.
Print Assumptions C31_total_refuted_before_repair.

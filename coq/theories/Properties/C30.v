(** C30 — concurrent Redis clients never lose updates (embedded backend).

    [final detect base progs sched] runs the clients' programs under the
    schedule [sched] (any list of client ids; a pick of a finished client is
    skipped) at transaction-step granularity; [detect] is
    Options.DetectConflicts. *)
From Coq Require Import List NArith ZArith.
From NoKV Require Import Base.Sched Model.RedisConc Spec.RedisConcSpec Proofs.RedisConcProofs.
Import ListNotations.

(** With conflict detection on (what cmd/nokv-redis/main.go sets since the
    repair of F25): for all programs of INCR-family commands, all initial
    contents and all schedules, the value of the key equals the initial value
    plus the deltas of the commands that replied successfully. *)
Theorem C30_counter : forall base progs sched,
  Forall (fun p => forallb is_incr p = true) progs ->
  let g := final true base progs sched in
  num (latest base (hist g)) = (num base + acked g)%Z.
Proof. exact counter_no_lost_update. Qed.
Print Assumptions C30_counter.

(** ... and of any number of concurrent SET NX on an absent key at most one replies OK. *)
Theorem C30_setnx_once : forall progs sched,
  Forall (fun p => forallb is_setnx p = true) progs ->
  (oks (final true None progs sched) <= 1)%nat.
Proof. exact (fun progs sched => setnx_at_most_once None progs sched eq_refl). Qed.
Print Assumptions C30_setnx_once.

(** With detection off (the option value the gateway used before the repair:
    NewDefaultOptions leaves DetectConflicts false) two clients lose an update ... *)
Theorem C30_counter_refuted_without_detection :
  let g := final false None two_incr interleaved in
  finished g = true /\ acked g = 2%Z /\ latest None (hist g) = Some 1%Z.
Proof. exact lost_update_without_detection. Qed.
Print Assumptions C30_counter_refuted_without_detection.

(** ... and two SET NX are both told OK. *)
Theorem C30_setnx_refuted_without_detection :
  let g := final false None two_setnx interleaved in finished g = true /\ oks g = 2%nat.
Proof. exact setnx_twice_without_detection. Qed.
Print Assumptions C30_setnx_refuted_without_detection.

(** The hypotheses are satisfiable and the schedule above is a real conflict:
    with detection on the second committer is refused. *)
Theorem C30_same_schedule_with_detection :
  let g := final true None two_incr interleaved in
  finished g = true /\ acked g = 1%Z /\ conflicts g = 1%nat /\ latest None (hist g) = Some 1%Z.
Proof. exact same_schedule_with_detection. Qed.
Print Assumptions C30_same_schedule_with_detection.

(** Known finding C30-F26 (raft-backed deployment, not repaired): the value is
    read at one timestamp and written under a later, fresh start timestamp,
    which the percolator prewrite check cannot relate to the read: the same
    two-client schedule loses an update with no conflict reported, and two
    SET NX both succeed. *)
Theorem C30_raft_counter_refuted :
  let g := final_raft true None two_incr interleaved in
  finished g = true /\ acked g = 2%Z /\ conflicts g = 0%nat /\ latest None (hist g) = Some 1%Z.
Proof. exact raft_lost_update. Qed.
Print Assumptions C30_raft_counter_refuted.

Theorem C30_raft_setnx_refuted :
  let g := final_raft true None two_setnx interleaved in finished g = true /\ oks g = 2%nat.
Proof. exact raft_setnx_twice. Qed.
Print Assumptions C30_raft_setnx_refuted.

(** The boolean oracles of the correspondence check decide the specification. *)
Theorem C30_oracle_decides : forall init fin acks,
  counter_ok_b init fin acks = true <-> counter_ok init fin acks.
Proof. exact counter_ok_b_spec. Qed.
Print Assumptions C30_oracle_decides.

(** C16 — encodings round-trip, keys order correctly, decoders fail safely.

    Models describe the code after the repairs in fixes/codec-decoders-panic-alloc.md.
    Every codec of the property has its round-trip theorem: uvarint, internal key,
    entry record, value pointer, value struct, lock record, write record, raft entry
    batch, raft hard-state / snapshot framing, command frame, manifest edit, and the
    WAL record (C13_decode_encode).  Protobuf bodies are opaque byte strings. *)
From Coq Require Import List NArith.
From NoKV Require Import Base.Bytes Base.Num Base.Varint Model.Keys Model.EntryCodec Model.PercoCodec
  Model.RaftCodec Model.ManifestCodec Model.WalCodec Spec.CodecSpec Proofs.KeysProofs Proofs.CodecProofs Proofs.ManifestCodecProofs Proofs.CodecRtProofs.
Import ListNotations.
Local Open Scope N_scope.

(** internal keys order by column family and user key ascending, then version descending *)
Theorem C16_key_order : forall a b,
  ikey_wf a -> ikey_wf b -> compare_keys (enc_ikey a) (enc_ikey b) = Some (ikey_compare a b).
Proof. exact compare_keys_enc. Qed.
Print Assumptions C16_key_order.

Theorem C16_key_order_strict : forall a b c,
  ikey_compare a b = Lt -> ikey_compare b c = Lt -> ikey_compare a c = Lt.
Proof. exact ikey_compare_lt_trans. Qed.
Print Assumptions C16_key_order_strict.

Theorem C16_key_order_eq : forall a b, ikey_compare a b = Eq -> a = b.
Proof. exact ikey_compare_eq. Qed.
Print Assumptions C16_key_order_eq.

Theorem rt_ikey : forall k, ikey_wf k -> split_ikey (enc_ikey k) = k.
Proof. exact split_enc_ikey. Qed.
Print Assumptions rt_ikey.

Theorem rt_uvarint : forall x rest, x < two64 -> uvarint (put_uvarint x ++ rest) = UvOk x (blen (put_uvarint x)).
Proof. exact uvarint_put. Qed.
Print Assumptions rt_uvarint.

Theorem rt_lock : forall l, lock_ok l -> decode_lock (enc_lock l) = DVal l.
Proof. exact CodecProofs.rt_lock. Qed.
Print Assumptions rt_lock.

Theorem rt_raft_blob : forall gid body,
  gid < two64 -> blen body < two64 -> decode_raft_blob (enc_raft_blob gid body) = Some (gid, body).
Proof. exact CodecProofs.rt_raft_blob. Qed.
Print Assumptions rt_raft_blob.

Theorem rt_command : forall body, decode_command (enc_command body) = Some body.
Proof. exact CodecProofs.rt_command. Qed.
Print Assumptions rt_command.

Theorem rt_vptr : forall p,
  p_len p < two32 -> p_off p < two32 -> p_fid p < two32 -> p_bucket p < two32 ->
  decode_vptr (enc_vptr p) = p.
Proof. exact CodecProofs.rt_vptr. Qed.
Print Assumptions rt_vptr.

Theorem rt_value : forall v, v_meta v < 256 -> v_exp v < two64 -> decode_value (enc_value v) = v.
Proof. exact CodecProofs.rt_value. Qed.
Print Assumptions rt_value.

Theorem rt_write : forall w, write_ok w -> decode_write (enc_write w) = DVal w.
Proof. exact CodecRtProofs.rt_write. Qed.
Print Assumptions rt_write.

Theorem rt_raft_entries : forall gid bodies,
  gid < two64 -> N.of_nat (length bodies) < two64 -> Forall (fun b => blen b < two64) bodies ->
  decode_raft_entries (enc_raft_entries gid bodies) = Some (gid, bodies).
Proof. exact CodecRtProofs.rt_raft_entries. Qed.
Print Assumptions rt_raft_entries.

(** the entry record (WAL payload / value-log record) followed by anything *)
Theorem rt_entry : forall e rest,
  entry_ok e -> decode_entry_from (enc_entry e ++ rest) = EdOk e (u32 (blen (enc_entry e))) rest.
Proof. exact CodecRtProofs.rt_entry. Qed.
Print Assumptions rt_entry.

(** the manifest edit record; [cn e] is [e] up to what the format does not store
    (DeleteValueLog keeps only bucket and file id, ValueLogHead implies Valid, a region
    delete keeps only the id), and [apply v (cn e) = apply v e] (C15: rt_edit_apply) *)
Theorem rt_edit : forall e rest, edit_ok e -> read_edit (enc_edit e ++ rest) = ReOk (cn e) rest.
Proof. exact ManifestCodecProofs.rt_edit. Qed.
Print Assumptions rt_edit.

(** ValueStruct.EncodedSize (the buffer size callers reserve) is exactly the encoded length *)
Theorem C16_value_size : forall v, blen (v_value v) + 11 < two32 -> encoded_size v = blen (enc_value v).
Proof. exact value_size_law. Qed.
Print Assumptions C16_value_size.

(** decoders never panic, for ALL byte strings (the models carry Go's index and
    slice-bounds checks as an explicit [DPanic] outcome) *)
Theorem C16_total_lock : forall data, decode_lock data <> DPanic.
Proof. exact decode_lock_total. Qed.
Print Assumptions C16_total_lock.

Theorem C16_total_write : forall data, decode_write data <> DPanic.
Proof. exact decode_write_total. Qed.
Print Assumptions C16_total_write.

Theorem C16_total_edit : forall data, decode_edit data <> DPanic.
Proof. exact decode_edit_total. Qed.
Print Assumptions C16_total_edit.

Theorem C16_total_read_edit : forall bs, read_edit bs <> RePanic.
Proof. exact read_edit_total. Qed.
Print Assumptions C16_total_read_edit.

(** a decoded uvarint never moves the cursor backwards or past the buffer *)
Theorem C16_uvarint_bound : forall bs v n, uvarint bs = UvOk v n -> 0 < n <= blen bs.
Proof. exact uvarint_bound. Qed.
Print Assumptions C16_uvarint_bound.

(** allocation requested on the word of an unvalidated length / count field *)
Theorem C16_alloc_entry : forall bs, decode_entry_prealloc bs <= 2 * max_prealloc.
Proof. exact decode_entry_prealloc_le. Qed.
Print Assumptions C16_alloc_entry.

Theorem C16_alloc_wal_record : forall bs, decode_record_prealloc bs <= max_prealloc.
Proof. exact decode_record_prealloc_le. Qed.
Print Assumptions C16_alloc_wal_record.

Theorem C16_alloc_read_edit : forall bs, read_edit_prealloc bs <= 65536.
Proof. exact read_edit_prealloc_le. Qed.
Print Assumptions C16_alloc_read_edit.

Theorem C16_alloc_edit_peers : forall data, decode_edit_alloc data <= blen data.
Proof. exact decode_edit_alloc_le. Qed.
Print Assumptions C16_alloc_edit_peers.

Theorem C16_alloc_raft_entries : forall data, decode_raft_entries_alloc data <= blen data.
Proof. exact decode_raft_entries_alloc_le. Qed.
Print Assumptions C16_alloc_raft_entries.

(** the boolean allocation oracle of the correspondence decides its specification *)
Theorem C16_oracle_decides : forall n a, alloc_ok n a = true <-> alloc_ok_prop n a.
Proof. exact alloc_ok_spec. Qed.
Print Assumptions C16_oracle_decides.

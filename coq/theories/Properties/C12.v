(** C12 — clean close and reopen preserve contents and timestamp monotonicity. *)
From Coq Require Import List NArith.
From NoKV Require Import Base.Bytes Model.Lsm Spec.MvccSpec Spec.LsmSpec Proofs.LsmMain.

Theorem C12_reads_latest : forall s ws k v,
  Proofs.LsmGet.src_inv s -> tier_inv (tiers_of s) -> content_ok s ws -> seq_functional ws ->
  get s k v = latest_at ws k v.
Proof. exact get_latest. Qed.
Print Assumptions C12_reads_latest.

(** Close + reopen of a state satisfying the invariant [J] (Proofs/LsmPreserve.v:
    sorted sources, recency-ordered tiers, contents = history, L0 file ids in
    list order, ingest shards in sortShards order) rebuilds the same state, so
    every read returns what it returned before; [J] holds along every history
    of admissible writes, rotations, flushes and reopens. *)
From NoKV Require Import Proofs.LsmInv Proofs.LsmPreserve Proofs.LsmWitness.

Theorem C12_reopen_same_reads : forall s ws,
  J s ws -> forall k v, get (reopen s) k v = get s k v.
Proof. exact reopen_same_reads. Qed.
Print Assumptions C12_reopen_same_reads.

Theorem C12_reopen_preserves_invariant : forall s ws, J s ws -> J (reopen s) ws.
Proof. exact reopen_J. Qed.
Print Assumptions C12_reopen_preserves_invariant.

Theorem C12_reopen_run_same_reads : forall m ops,
  forallb mlfr_op ops = true -> puts_monotone ops = true ->
  forall k v, get (reopen (run (init m) ops)) k v = get (run (init m) ops) k v.
Proof. exact reopen_run_same_reads. Qed.
Print Assumptions C12_reopen_run_same_reads.

Theorem C12_reads_latest_with_reopen : forall m ops,
  forallb mlfr_op ops = true -> puts_monotone ops = true ->
  forall k v, get (run (init m) ops) k v = latest_at (writes ops) k v.
Proof. exact lww_reopen. Qed.
Print Assumptions C12_reads_latest_with_reopen.

(** C12 — clean close and reopen preserve contents and timestamp monotonicity. *)
From Coq Require Import List NArith.
From NoKV Require Import Base.Bytes Model.Lsm Spec.MvccSpec Spec.LsmSpec Proofs.LsmMain.

Theorem C12_reads_latest : forall s ws k v,
  Proofs.LsmGet.src_inv s -> scan_inv (scan_srcs s) -> content_ok s ws -> seq_functional ws ->
  get s k v = latest_at ws k v.
Proof. exact get_latest. Qed.
Print Assumptions C12_reads_latest.

(** Close + reopen of a state satisfying the invariant [J] (Proofs/LsmPreserve.v:
    sorted sources, recency-ordered tiers, contents = history, L0 file ids in
    list order, ingest shards in sortShards order) rebuilds the same state, so
    every read returns what it returned before; [J] holds along every history
    of admissible writes, rotations, flushes and reopens. *)
From NoKV Require Import Proofs.LsmInv Proofs.LsmPreserve Proofs.LsmWitness.

Theorem C12_reopen_same_reads : forall s ws,
  J s ws -> forall k v, get (reopen s) k v = get s k v.
Proof. exact reopen_same_reads. Qed.
Print Assumptions C12_reopen_same_reads.

Theorem C12_reopen_preserves_invariant : forall s ws, J s ws -> J (reopen s) ws.
Proof. exact reopen_J. Qed.
Print Assumptions C12_reopen_preserves_invariant.

Theorem C12_reopen_run_same_reads : forall m ops,
  forallb mlfr_op ops = true -> puts_monotone ops = true ->
  forall k v, get (reopen (run (init m) ops)) k v = get (run (init m) ops) k v.
Proof. exact reopen_run_same_reads. Qed.
Print Assumptions C12_reopen_run_same_reads.

Theorem C12_reads_latest_with_reopen : forall m ops,
  forallb mlfr_op ops = true -> puts_monotone ops = true ->
  forall k v, get (run (init m) ops) k v = latest_at (writes ops) k v.
Proof. exact lww_reopen. Qed.
Print Assumptions C12_reads_latest_with_reopen.

(** Timestamp monotonicity across close + reopen (Proofs/LsmMaxVersion.v):
    LSM.MaxVersion bounds every stored version, so the commit timestamp Open
    seeds from it exceeds every version acknowledged before the close — for
    transactional histories (no version is the plain-API sentinel 2^64-1);
    [content_ok] holds along every checked history ([C12_checked_run_contents]). *)
From NoKV Require Import Spec.LsmInvB Proofs.LsmCompact Proofs.LsmChecked Proofs.LsmMaxVersion.

Theorem C12_next_ts_after_reopen_above : forall s ws,
  content_ok s ws -> (forall w, In w ws -> (r_ver w < 18446744073709551615)%N) ->
  forall w, In w ws -> (r_ver w < next_ts_after_open (reopen s))%N.
Proof. exact next_ts_after_reopen_above. Qed.
Print Assumptions C12_next_ts_after_reopen_above.

Theorem C12_max_version_bounds : forall s x, In x (contents s) -> (r_ver x <= max_version s)%N.
Proof. exact max_version_ge. Qed.
Print Assumptions C12_max_version_bounds.

(** Reopen never loses or invents a record, in any state. *)
Theorem C12_reopen_keeps_contents : forall s ws, content_ok s ws -> content_ok (reopen s) ws.
Proof. exact reopen_content_ok. Qed.
Print Assumptions C12_reopen_keeps_contents.

Theorem C12_checked_run_contents : forall m ops,
  run_checked (init m) nil ops = true -> content_ok (run (init m) ops) (writes ops).
Proof. exact checked_run_contents. Qed.
Print Assumptions C12_checked_run_contents.

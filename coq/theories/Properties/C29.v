(** C29 — Redis gateway commands follow Redis semantics. *)
From Coq Require Import List NArith ZArith String.
From NoKV Require Import Base.Bytes Model.Resp Model.Redis Spec.RedisSpec Spec.RedisMsSpec Proofs.RedisProofs.
Import ListNotations.
Local Open Scope N_scope.

(** The gateway as it is now ([current]): for every command sequence whose
    clock values are below 2^62 and whose keys are non-empty, started on an
    empty database, the replies of the model of execute + embedded backend
    are the replies of the reference semantics, and the store (tombstones and
    expiry seconds abstracted) is the reference's map. *)
Theorem C29_refines : forall cmds,
  clocks_ok cmds = true -> keys_nonempty cmds = true ->
  snd (run current [] cmds) = snd (spec_run empty_map cmds)
  /\ forall k, abs (fst (run current [] cmds)) k = fst (spec_run empty_map cmds) k.
Proof. exact refines_from_empty. Qed.
Print Assumptions C29_refines.

(** From any related pair of states (not only the empty database). *)
Theorem C29_refines_from : forall cmds st m,
  R st m -> clocks_ok cmds = true -> keys_nonempty cmds = true ->
  snd (run current st cmds) = snd (spec_run m cmds)
  /\ R (fst (run current st cmds)) (fst (spec_run m cmds)).
Proof. exact run_refines. Qed.
Print Assumptions C29_refines_from.

(** The hypotheses are satisfiable on a sequence with expiry, INCR, MGET, DEL. *)
Theorem C29_refines_nonvacuous :
  clocks_ok sample_cmds = true /\ keys_nonempty sample_cmds = true
  /\ snd (run current [] sample_cmds)
     = [RSimple n_OK; RInt 42; RArr [Some (of_string "42"%string); None]; RNil; RInt 0].
Proof. exact refines_hypotheses_satisfiable. Qed.
Print Assumptions C29_refines_nonvacuous.

(** The boolean oracle of the correspondence check decides conformance to the reference. *)
Theorem C29_oracle_decides : forall cmds obs, conforms_b cmds obs = true <-> conforms cmds obs.
Proof. exact conforms_b_spec. Qed.
Print Assumptions C29_oracle_decides.

(** Before the repairs made for this property ([original]): *)
Theorem C29_decrby_min_refuted_before_repair :
  snd (run original [] w_decrby) = [RInt min_int64; RBulk min_txt]
  /\ snd (spec_run empty_map w_decrby) = [RErr ROverflow; RNil].
Proof. exact original_decrby_refuted. Qed.
Print Assumptions C29_decrby_min_refuted_before_repair.

Theorem C29_ping_refuted_before_repair :
  snd (run original [] w_ping) = [RSimple n_PONG] /\ snd (spec_run empty_map w_ping) = [RBulk []]
  /\ snd (run original [] w_ping3) = [RBulk v1] /\ snd (spec_run empty_map w_ping3) = [RErr (RArity n_PING)].
Proof. exact original_ping_refuted. Qed.
Print Assumptions C29_ping_refuted_before_repair.

Theorem C29_expire_overflow_refuted_before_repair :
  snd (run original [] w_expire) = [RSimple n_OK]
  /\ snd (spec_run empty_map w_expire) = [RErr RInvalidExpire]
  /\ option_map e_exp (find (fst (run original [] w_expire)) k1) = Some 101.
Proof. exact original_expire_refuted. Qed.
Print Assumptions C29_expire_overflow_refuted_before_repair.

Theorem C29_empty_value_refuted_before_repair :
  snd (run original [] w_empty) = [RSimple n_OK; RNil; RArr [None]]
  /\ snd (spec_run empty_map w_empty) = [RSimple n_OK; RBulk []; RArr [Some []]].
Proof. exact original_empty_value_refuted. Qed.
Print Assumptions C29_empty_value_refuted_before_repair.

(** Not repaired (known finding C29-F1): the empty key. *)
Theorem C29_empty_key_refuted :
  snd (run current [] w_empty_key) = [RErr REmptyKey; RErr REmptyKey]
  /\ snd (spec_run empty_map w_empty_key) = [RSimple n_OK; RBulk v1]
  /\ keys_nonempty w_empty_key = false.
Proof. exact empty_key_refuted. Qed.
Print Assumptions C29_empty_key_refuted.

(** Known finding C29-F2: against the millisecond-precise reference
    (Spec/RedisMsSpec.v) the store's whole-second expiry is visible. A key set
    with PXAT 300 ms ahead is born expired ... *)
Theorem C29_ms_deadline_refuted :
  snd (run current [] (to_seconds w_pxat_ms)) = [RSimple n_OK; RNil]
  /\ snd (spec_run_ms 0 empty_map w_pxat_ms) = [RSimple n_OK; RBulk (of_string "41"%string)]
  /\ within_granularity w_pxat_ms (map encode_reply [RSimple n_OK; RNil]) = true.
Proof. exact ms_granularity_refuted. Qed.
Print Assumptions C29_ms_deadline_refuted.

(** ... and a key set with PX 1 outlives its deadline until the next full second. *)
Theorem C29_ms_deadline_late_refuted :
  snd (run current [] (to_seconds w_px_late)) = [RSimple n_OK; RBulk (of_string "41"%string)]
  /\ snd (spec_run_ms 0 empty_map w_px_late) = [RSimple n_OK; RNil]
  /\ within_granularity w_px_late (map encode_reply [RSimple n_OK; RBulk (of_string "41"%string)]) = true.
Proof. exact ms_granularity_late_refuted. Qed.
Print Assumptions C29_ms_deadline_late_refuted.

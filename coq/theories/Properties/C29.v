(** C29 — Redis gateway commands follow Redis semantics. *)
From Coq Require Import List NArith ZArith.
From NoKV Require Import Base.Bytes Model.Resp Model.Redis Spec.RedisSpec Proofs.RedisProofs.
Import ListNotations.
Local Open Scope N_scope.

(** Before the repairs made for this property ([original]): *)
Theorem C29_decrby_min_refuted_before_repair :
  snd (run original [] w_decrby) = [RInt min_int64; RBulk min_txt]
  /\ snd (spec_run empty_map w_decrby) = [RErr ROverflow; RNil].
Proof. exact original_decrby_refuted. Qed.
Print Assumptions C29_decrby_min_refuted_before_repair.

Theorem C29_ping_refuted_before_repair :
  snd (run original [] w_ping) = [RSimple n_PONG] /\ snd (spec_run empty_map w_ping) = [RBulk []]
  /\ snd (run original [] w_ping3) = [RBulk v1] /\ snd (spec_run empty_map w_ping3) = [RErr (RArity n_PING)].
Proof. exact original_ping_refuted. Qed.
Print Assumptions C29_ping_refuted_before_repair.

Theorem C29_expire_overflow_refuted_before_repair :
  snd (run original [] w_expire) = [RSimple n_OK]
  /\ snd (spec_run empty_map w_expire) = [RErr RInvalidExpire]
  /\ option_map e_exp (find (fst (run original [] w_expire)) k1) = Some 101.
Proof. exact original_expire_refuted. Qed.
Print Assumptions C29_expire_overflow_refuted_before_repair.

Theorem C29_empty_value_refuted_before_repair :
  snd (run original [] w_empty) = [RSimple n_OK; RNil; RArr [None]]
  /\ snd (spec_run empty_map w_empty) = [RSimple n_OK; RBulk []; RArr [Some []]].
Proof. exact original_empty_value_refuted. Qed.
Print Assumptions C29_empty_value_refuted_before_repair.

(** Not repaired (known finding C29-F1): the empty key. *)
Theorem C29_empty_key_refuted :
  snd (run current [] w_empty_key) = [RErr REmptyKey; RErr REmptyKey]
  /\ snd (spec_run empty_map w_empty_key) = [RSimple n_OK; RBulk v1]
  /\ keys_nonempty w_empty_key = false.
Proof. exact empty_key_refuted. Qed.
Print Assumptions C29_empty_key_refuted.

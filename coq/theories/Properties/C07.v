(** C07 — both memtable engines behave as the same ordered map.

    Sequential semantics only (concurrent inserts are exercised by the
    harness as a stress test, not proved).  Entries are (internal key, value);
    the order is [cmpk] = utils.CompareKeys: column family and user key
    ascending, version descending. *)
From Coq Require Import List NArith Bool.
From NoKV Require Import Base.Bytes Base.Num Model.Keys Model.Sst Spec.SstSpec
                         Model.MemIndexSkl Model.MemIndexArt Spec.MemIndexSpec Proofs.MemIndexProofs.

(** the skiplist model is the ordered map of the writes, for every insertion
    sequence (any keys, any order, overwrites): its iteration is the sorted
    list of last-written bindings, Search is "first binding >= target with the
    target's base key", Seek/Next enumerate the bindings >= / <= the target *)
Theorem C07_skl_map : forall ops,
  let l := skl_of ops in
  is_map_of ops l /\
  forall q, skl_search l q = mi_search_seek l q /\
            (forall asc, skl_seek asc l q = spec_from asc l q) /\
            (forall asc, skl_iter asc l = spec_iter asc l).
Proof. exact skl_map_theorem. Qed.
Print Assumptions C07_skl_map.

(** the engines differ in general (F11): with "a"@5 and "a\x00"@5 inserted, the
    skiplist finds ("a", max version) -> "a"@5 as the specification demands, the
    ART does not, and both iteration orders differ; the key set is not radix-safe *)
Theorem C07_refuted :
  exists ops q,
    radix_safe (q :: map e_key ops) = false /\
    (exists e, skl_search (skl_of ops) q = Some e /\ mi_search (skl_of ops) q = Some e) /\
    art_search (art_of ops) q = None /\
    art_iter true (art_of ops) <> skl_iter true (skl_of ops) /\
    art_iter false (art_of ops) <> skl_iter false (skl_of ops).
Proof. exact art_refuted. Qed.
Print Assumptions C07_refuted.

(** PARTIAL: agreement of the ART model with the skiplist model is established
    only on a small radix-safe scope, by evaluation of every case: every
    insertion sequence of at most 4 entries (with repetition, every order)
    over 6 equal-length internal keys, every one of 16 targets.  The general
    statement "forall ks, radix_safe ks -> ART = skiplist" is NOT proved. *)
Theorem C07_art_eq_skl_small_scope_partial : forall ops q,
  (length ops <= 4)%nat -> incl ops scope_entries -> In q scope_targets ->
  radix_safe (q :: map e_key ops) = true /\
  art_search (art_of ops) q = skl_search (skl_of ops) q /\
  (forall asc, art_seek asc (art_of ops) q = skl_seek asc (skl_of ops) q) /\
  (forall asc, art_iter asc (art_of ops) = skl_iter asc (skl_of ops)).
Proof. exact art_eq_skl_small_scope. Qed.
Print Assumptions C07_art_eq_skl_small_scope_partial.

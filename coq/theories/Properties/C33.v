(** C33 — at most one database holds a working directory at a time.
    Any number of contenders, every schedule, any set [faulty] of contenders whose unlink of
    LOCK fails during Release. *)
From Coq Require Import List NArith.
From NoKV Require Import Base.Sched Model.DirLock Spec.DirLockSpec Proofs.DirLockProofs.
Import ListNotations.

(** in every reachable state at most one contender is between a successful
    AcquireDirLock and the start of its Release *)
Theorem C33_exclusive : forall faulty n g,
  reachable (tstep true faulty) (init n) g ->
  forall t u i j, nth_error (g_pcs g) t = Some (PHold i) -> nth_error (g_pcs g) u = Some (PHold j) -> t = u.
Proof. exact dirlock_exclusive. Qed.
Print Assumptions C33_exclusive.

(** the same for the observable the correspondence compares, for every schedule *)
Theorem C33_exclusive_run : forall faulty n sched, at_most_one (holders (run (tstep true faulty) (init n) sched)).
Proof. exact dirlock_exclusive_run. Qed.
Print Assumptions C33_exclusive_run.

(** the step order before the repair (unlock, close, unlink; no re-check after flock)
    lets contenders 1 and 2 hold the directory together (F29) *)
Theorem C33_unfixed_refuted : exists n sched, holders (run (tstep false (fun _ => false)) (init n) sched) = [1; 2].
Proof. exact dirlock_unfixed_refuted. Qed.
Print Assumptions C33_unfixed_refuted.

Theorem C33_oracle_decides : forall obs, exclusive_trace_b obs = true <-> exclusive_trace obs.
Proof. exact exclusive_trace_b_spec. Qed.
Print Assumptions C33_oracle_decides.

Theorem C33_close_oracle_decides : forall ops released, close_held_b released ops = true <-> close_held released ops.
Proof. exact close_held_b_spec. Qed.
Print Assumptions C33_close_oracle_decides.

(** C11 — once reopened, contents change only through new writes.

    Partial.  Model: [recover], [get] (LSM.Get as repaired by 2f52ea0: the greatest version
    <= the requested one over every source, the first source wins ties) and the maintenance
    steps [maint_step] of Model/Recovery.v; value-log GC is [gc_file] (vlog_gc.go:rewrite as
    repaired by fixes/C11-gc-live-pointer-equality.md: only the record the LSM tree points
    at is live).

    Proved, for every recovered store and every schedule:
    - [C11_stable_partial]: schedules without value-log operations ([is_gc]: GC and the filler
      writes that rotate a value-log file; i.e. rotation, flushes, the L0 move) keep every
      read (flushes and the move are order-preserving relabellings of the sources in the
      model, which is C01's maintenance theorem);
    - [C11_gc_writes_back_referenced_only]: every record a GC step writes back is the target
      of the value pointer of a non-tombstone record of the store with the same key — bytes no
      logged record refers to (the leftovers of a request that crashed between its value-log
      write and the WAL) are never written back;
    - [C11_gc_without_writeback_keeps_sources]: a GC step that writes nothing back leaves the
      sources untouched (it only deletes the file).
    Not proved (correspondence only: forced GC of every sealed file at every crash point, 0
    violations): that a GC step with write-backs keeps every read (the written-back copy ties
    with the record it copies and wins as the newest source), and that a deleted file is not
    the target of a visible pointer.  For plain (non-transactional) keys the concurrent case
    — a client overwrite between GC's liveness decision and its write-back — is known finding
    C08-F12 and outside C11's sequential maintenance schedules.

    The two former refutations are now examples of stability: F4 through GC ([C11_gc_example],
    repaired at the root by 2f52ea0) and the lost write resurrected by GC
    ([C11_lost_write_example], repaired here). *)
From Coq Require Import List NArith Bool.
From NoKV Require Import Model.Fs Model.Recovery Spec.CrashSpec Proofs.CrashProofs.
Import ListNotations.
Local Open Scope N_scope.

Theorem C11_stable_partial : forall ms s k,
  forallb (fun m => negb (is_gc m)) ms = true -> get (maint_all ms s) k = get s k.
Proof. exact maint_no_gc_stable. Qed.
Print Assumptions C11_stable_partial.

Theorem C11_gc_writes_back_referenced_only : forall s b f vrs vr,
  fget pair_eqb (b, f) (s_vlog s) = Some vrs ->
  In vr (gc_scan s b f 0 vrs) ->
  exists src r j,
    In src (s_src s) /\ In r src /\ r_key r = v_key vr /\ r_ver r <= v_ver vr /\ r_del r = false /\
    r_ptr r = Some {| p_b := b; p_f := f; p_slot := N.of_nat j |} /\ nth_error vrs j = Some vr.
Proof. exact gc_writes_back_referenced. Qed.
Print Assumptions C11_gc_writes_back_referenced_only.

Theorem C11_gc_without_writeback_keeps_sources : forall s b f vrs,
  fget pair_eqb (b, f) (s_vlog s) = Some vrs -> gc_scan s b f 0 vrs = [] ->
  s_src (gc_file s b f) = s_src s.
Proof. exact gc_file_sources. Qed.
Print Assumptions C11_gc_without_writeback_keeps_sources.

(** the former F4 witness: GC writes the version-1 record back (one record in the newest
    memtable) and the read of key 1 still returns the version-2 value *)
Theorem C11_gc_example :
  (get s11 1 = OV 2) /\ (get (maint_all [MtFlushAll; MtGc 0 0] s11) 1 = OV 2) /\
  (length (hd (@nil rec) (s_src (maint_all [MtFlushAll; MtGc 0 0] s11))) = 1%nat).
Proof. exact c11_gc_example. Qed.
Print Assumptions C11_gc_example.

(** the lost write: the sealed file holds a record no logged record refers to; GC keeps key 1 *)
Theorem C11_lost_write_example :
  (fget pair_eqb (0, 0) (s_vlog s_lost) =
    Some [{| v_key := 1; v_ver := 1; v_vid := 1 |}; {| v_key := 1; v_ver := 2; v_vid := 2 |}]) /\
  (get s_lost 1 = OV 1) /\ (get (maint_all [MtFlushAll; MtGc 0 0] s_lost) 1 = OV 1).
Proof. exact c11_lost_write_example. Qed.
Print Assumptions C11_lost_write_example.

(** non-vacuity of the partial theorem *)
Theorem C11_example :
  get (maint_all [MtFlushAll; MtMove] s11) 1 = OV 2 /\ forallb (fun m => negb (is_gc m)) [MtFlushAll; MtMove] = true.
Proof. exact maint_example. Qed.
Print Assumptions C11_example.

(** the boolean oracle used by the correspondence decides the specification *)
Theorem C11_oracle_decides : forall keys r0 stages,
  stable_b keys r0 stages = true <-> stable keys r0 stages.
Proof. exact stable_b_spec. Qed.
Print Assumptions C11_oracle_decides.

(** C11 — once reopened, contents change only through new writes.

    Partial.  The full statement (reads after any maintenance schedule on a recovered store
    equal the reads right after recovery) is REFUTED on the current tree: value-log GC writes a
    live old version of a key back into the newest memtable and the versioned lookup (known
    finding C02-F4) then returns it instead of a newer, already flushed version
    ([C11_stable_refuted]).  Proved: schedules without GC (rotation, flushes, the L0 move) keep
    every read ([C11_stable_partial]); the model treats flushes and the move as order-preserving
    relabellings of the sources, which is C01's maintenance theorem.  Not proved: GC steps whose
    write-backs are all the visible records of their keys ([maint_safe], the class the
    correspondence uses to recognise the finding). *)
From Coq Require Import List NArith Bool.
From NoKV Require Import Model.Fs Model.Recovery Spec.CrashSpec Proofs.CrashProofs.
Import ListNotations.
Local Open Scope N_scope.

Theorem C11_stable_partial : forall ms s k,
  forallb (fun m => negb (is_gc m)) ms = true -> get (maint_all ms s) k = get s k.
Proof. exact maint_no_gc_stable. Qed.
Print Assumptions C11_stable_partial.

Theorem C11_stable_refuted :
  exists sync seg nb w ms k,
    let s := recover (crash (exec_all (compile sync w) (init seg nb))) in
    get (maint_all ms s) k <> get s k.
Proof. exact c11_refuted. Qed.
Print Assumptions C11_stable_refuted.

(** non-vacuity of the partial theorem on the recovered store of the refutation *)
Theorem C11_example :
  get (maint_all [MtFlushAll; MtMove] s11) 1 = OV 2 /\ forallb (fun m => negb (is_gc m)) [MtFlushAll; MtMove] = true.
Proof. exact maint_example. Qed.
Print Assumptions C11_example.

(** the boolean oracle used by the correspondence decides the specification *)
Theorem C11_oracle_decides : forall keys r0 stages,
  stable_b keys r0 stages = true <-> stable keys r0 stages.
Proof. exact stable_b_spec. Qed.
Print Assumptions C11_oracle_decides.

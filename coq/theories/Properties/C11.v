(** C11 — once reopened, contents change only through new writes. *)
From Coq Require Import List NArith.
From NoKV Require Import Model.Fs Model.Recovery Spec.CrashSpec Proofs.CrashProofs.
Import ListNotations.
Local Open Scope N_scope.

(** F4 through GC: value-log GC writes a live old version of a key back into the newest
    memtable; the versioned lookup stops at the first source holding any version of the key,
    so a newer version that was flushed earlier is shadowed: an overwritten value reappears. *)
Theorem C11_stable_refuted :
  exists sync seg nb w ms k,
    let s := recover (crash (exec_all (compile sync w) (init seg nb))) in
    get (maint_all ms s) k <> get s k.
Proof. exact c11_refuted. Qed.
Print Assumptions C11_stable_refuted.

(** the boolean oracle used by the correspondence decides the specification *)
Theorem C11_oracle_decides : forall keys r0 stages,
  stable_b keys r0 stages = true <-> stable keys r0 stages.
Proof. exact stable_b_spec. Qed.
Print Assumptions C11_oracle_decides.

(** C04 — transaction commit is atomic with strictly increasing commit versions
    (call-atomic model [Model.TxnOracle]; crash atomicity is C10). *)
From Coq Require Import List NArith Bool.
From NoKV Require Import Base.Bytes Spec.SerialSpec Model.TxnOracle Proofs.TxnStoreLemmas Proofs.TxnProofs.
Import ListNotations.
Local Open Scope N_scope.

(** nil => every pending write is stored at the one version [ts]; an error
    (conflict, too big, blocked/closed, discarded) or an empty commit => the
    store is unchanged. *)
Theorem C04_all_or_nothing :
  forall (fp : bytes -> N) (c : cfg) s id s' x,
    step true fp c s (Commit id) = (s', x) ->
    match x with
    | OCommitted ts => exists t, st_txns s id = Some t /\ t_pending t <> [] /\
                                 st_store s' = entries ts (t_pending t) ++ st_store s
    | _ => st_store s' = st_store s
    end.
Proof. exact commit_all_or_nothing. Qed.
Print Assumptions C04_all_or_nothing.

(** The writes become visible together: snapshots below [ts] see none of them,
    snapshots at or above [ts] see all of them. *)
Theorem C04_visible_together :
  forall (fp : bytes -> N) (c : cfg) ops id s' ts,
    let s := run_state true fp c st_init ops in
    step true fp c s (Commit id) = (s', OCommitted ts) ->
    exists t, st_txns s id = Some t /\
      (forall e, In e (st_store s) -> se_ver e < ts) /\
      (forall k v, v < ts -> read_at (st_store s') k v = read_at (st_store s) k v) /\
      (forall k v, ts <= v -> read_at (st_store s') k v =
                              match kv_get (t_pending t) k with Some x => x | None => read_at (st_store s) k v end).
Proof. exact commit_visible_together. Qed.
Print Assumptions C04_visible_together.

(** The commit version exceeds every version stored before, in every reachable
    state, including after Close/Reopen (initCommitState(MaxVersion)). *)
Theorem C04_monotone :
  forall (fp : bytes -> N) (c : cfg) ops id s' ts,
    let s := run_state true fp c st_init ops in
    step true fp c s (Commit id) = (s', OCommitted ts) ->
    forall e, In e (st_store s) -> se_ver e < ts.
Proof. exact commit_monotone. Qed.
Print Assumptions C04_monotone.

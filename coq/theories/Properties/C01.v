From NoKV Require Import Model.Lsm.
Theorem C01_placeholder : True. Proof. exact I. Qed.
Print Assumptions C01_placeholder.

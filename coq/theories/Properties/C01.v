(** C01 — the plain KV API is last-writer-wins under any background maintenance.

    Model: Model/Lsm.v (read path and maintenance of the LSM tree, as the code
    is after the repairs of the L0 tie rule and of the first-hit rule).  Spec: Spec/MvccSpec.v
    ([latest_at]: greatest version, then most recent acknowledgement — for the
    plain API every write carries the same sentinel version, so this is "last
    writer wins").

    Status: the full statement is refuted for the faithful model
    ([C01_lww_refuted]: two L0 tables holding the same plain key move into one
    ingest buffer, which orders them by key range — known finding C01-F2).
    What is proved for every state: the read path returns exactly the latest
    acknowledged write whenever the copies of one internal key are ordered by
    recency along the scan ([C01_reads_latest]); the preservation of that ordering by each maintenance
    step is in Properties/C01 (memtable / L0 part) and otherwise checked on
    every replayed trace by the correspondence. *)
From Coq Require Import List NArith.
From NoKV Require Import Base.Bytes Model.Lsm Spec.MvccSpec Spec.LsmSpec
     Proofs.LsmOrder Proofs.LsmRead Proofs.LsmGet Proofs.LsmMain Proofs.LsmWitness.

Theorem C01_reads_latest : forall s ws k v,
  src_inv s -> scan_inv (scan_srcs s) -> content_ok s ws -> seq_functional ws ->
  get s k v = latest_at ws k v.
Proof. exact get_latest. Qed.
Print Assumptions C01_reads_latest.

(** The pruned, structured search (range tests, max-version pruning, binary
    search of the main tables, early exit on an exact version) equals scanning
    every source in order and keeping the greatest version <= v. *)
Theorem C01_pruning_sound : forall s k v, src_inv s -> get s k v = tier_best k v (scan_srcs s).
Proof. exact get_is_flat. Qed.
Print Assumptions C01_pruning_sound.

Theorem C01_lww_refuted :
  exists ops k v, option_map r_val (get (run (init 1) ops) k v)
                  <> option_map r_val (latest_at (writes ops) k v).
Proof. exact ingest_tie_refuted. Qed.
Print Assumptions C01_lww_refuted.

(** The boolean oracle of the correspondence computes the specification. *)
Theorem C01_oracle_decides : forall ws k v, is_latest ws k v (latest_at ws k v).
Proof. exact latest_at_is_latest. Qed.
Print Assumptions C01_oracle_decides.

(** Last-writer-wins for whole histories of writes, memtable rotations and
    flushes (any length): the invariant of [C01_reads_latest] holds initially
    and is preserved by each step (Proofs/LsmPreserve.v).  [puts_monotone]:
    each write has a positive version and a fresh larger acknowledgement index
    (ghost state) — true of every plain-API history. *)
From NoKV Require Import Proofs.LsmInv Proofs.LsmPreserve.

Theorem C01_lww_memtables_l0 : forall m ops,
  forallb mlf_op ops = true -> puts_monotone ops = true ->
  forall k v, get (run (init m) ops) k v = latest_at (writes ops) k v.
Proof. exact lww_memtables_l0. Qed.
Print Assumptions C01_lww_memtables_l0.

(** The same with close + reopen steps anywhere in the history. *)
Theorem C01_lww_memtables_l0_reopen : forall m ops,
  forallb mlfr_op ops = true -> puts_monotone ops = true ->
  forall k v, get (run (init m) ops) k v = latest_at (writes ops) k v.
Proof. exact lww_reopen. Qed.
Print Assumptions C01_lww_memtables_l0_reopen.

(** The plain API itself: every write carries the same positive sentinel
    version [c] and acknowledgement indices increase ([plain_api c ops]). *)
Theorem C01_lww_plain_api : forall m c ops,
  forallb mlfr_op ops = true -> plain_api c ops = true ->
  forall k v, get (run (init m) ops) k v = latest_at (writes ops) k v.
Proof. exact lww_plain_api. Qed.
Print Assumptions C01_lww_plain_api.

(** Compaction keeps the contents (Proofs/LsmCompact.v, Proofs/LsmChecked.v):
    from a state that passes the boolean ordering checker [tier_inv_b]
    (sound for [src_inv] and [tier_inv], Spec/LsmInvB.v) and with an admissible
    plan [plan_okb] (the level exists, the upper tables of an ingest compaction
    come from one shard, the cut counts cover the merged stream, new ids are
    fresh, ...), every kind of compaction leaves each acknowledged write
    represented by a record of its internal key that is at least as recent. *)
From NoKV Require Import Spec.LsmInvB Proofs.LsmCompact Proofs.LsmChecked.

Theorem C01_checker_sound : forall s,
  tier_inv_b s = true -> src_inv s /\ scan_inv (scan_srcs s).
Proof. exact tier_inv_b_sound. Qed.
Print Assumptions C01_checker_sound.

Theorem C01_checker_decides : forall s,
  tier_inv_b s = true <-> src_inv s /\ scan_inv (scan_srcs s).
Proof. exact tier_inv_b_decides. Qed.
Print Assumptions C01_checker_decides.

Theorem C01_compaction_keeps_contents : forall s ws k lvl top bot added,
  tier_inv_b s = true -> plan_okb s k lvl top bot added = true ->
  content_ok s ws -> content_ok (compact s k lvl top bot added) ws.
Proof. exact plan_ok_content. Qed.
Print Assumptions C01_compaction_keeps_contents.

Theorem C01_compaction_keeps_records : forall s k lvl top bot added,
  tier_inv_b s = true -> plan_okb s k lvl top bot added = true ->
  let s' := compact s k lvl top bot added in
  (forall x, In x (all_recs (tiers_of s')) -> In x (all_recs (tiers_of s))) /\
  (forall y, In y (all_recs (tiers_of s)) ->
     exists x, In x (all_recs (tiers_of s')) /\ r_key x = r_key y /\ r_ver x = r_ver y /\
               (r_seq y <= r_seq x)%N).
Proof. exact plan_ok_records. Qed.
Print Assumptions C01_compaction_keeps_records.

(** Whole histories with every kind of step: admissible writes, and
    compactions that start from checked states with admissible plans, never
    lose or invent a write; if the final state passes the ordering checker,
    every read returns the latest acknowledged write. *)
Theorem C01_checked_run_contents : forall m ops,
  run_checked (init m) nil ops = true -> content_ok (run (init m) ops) (writes ops).
Proof. exact checked_run_contents. Qed.
Print Assumptions C01_checked_run_contents.

Theorem C01_checked_run_reads : forall m ops,
  run_checked (init m) nil ops = true -> tier_inv_b (run (init m) ops) = true ->
  forall k v, get (run (init m) ops) k v = latest_at (writes ops) k v.
Proof. exact checked_run_reads. Qed.
Print Assumptions C01_checked_run_reads.

From Coq Require Import ZArith.
From NoKV Require Import Model.Targets Proofs.TargetsProofs Proofs.LsmMove.

(** The planner's base level (destination of L0 moves; model of compact.BuildTargets,
    tied to the code by differential testing of the pure function and of the planner's
    own targets before every L0 compaction) never lies below a level that holds data... *)
Theorem C01_base_level_above_data : forall sizes o j,
  (1 <= j < t_base (build_targets sizes o))%nat -> (nth j sizes 0 <= 0)%Z.
Proof. exact base_level_above_data. Qed.
Print Assumptions C01_base_level_above_data.

(** ...and a move of the oldest L0 tables to such a level keeps the recency order across
    tiers (memtables, L0, every level).  The order INSIDE the destination's ingest buffer
    is the known finding C01-F2 and is not claimed. *)
Theorem C01_move_to_base_keeps_cross : forall s sizes o top bot added,
  let b := N.of_nat (t_base (build_targets sizes o)) in
  sizes_of_state sizes s ->
  lvl_in s b -> shards_room (pick top (st_l0 s)) (lv_shards (get_level s b)) ->
  cross_ok (tiers_of s) ->
  recs_geq (trecs (drop top (st_l0 s))) (trecs (pick top (st_l0 s))) ->
  cross_ok (tiers_of (compact s KMove b top bot added)).
Proof. exact move_to_base_keeps_cross. Qed.
Print Assumptions C01_move_to_base_keeps_cross.

(** C01 — the plain KV API is last-writer-wins under any background maintenance.

    Model: Model/Lsm.v (read path and maintenance of the LSM tree, as the code
    is after the repair of the L0 tie rule).  Spec: Spec/MvccSpec.v
    ([latest_at]: greatest version, then most recent acknowledgement — for the
    plain API every write carries the same sentinel version, so this is "last
    writer wins").

    Status: the full statement is refuted for the faithful model
    ([C01_lww_refuted]: two L0 tables holding the same plain key move into one
    ingest buffer, which orders them by key range — known finding C01-F2).
    What is proved for every state: the read path returns exactly the latest
    acknowledged write whenever the sources are ordered by recency
    ([C01_reads_latest]); the preservation of that ordering by each maintenance
    step is in Properties/C01 (memtable / L0 part) and otherwise checked on
    every replayed trace by the correspondence. *)
From Coq Require Import List NArith.
From NoKV Require Import Base.Bytes Model.Lsm Spec.MvccSpec Spec.LsmSpec
     Proofs.LsmOrder Proofs.LsmRead Proofs.LsmGet Proofs.LsmMain Proofs.LsmWitness.

Theorem C01_reads_latest : forall s ws k v,
  src_inv s -> tier_inv (tiers_of s) -> content_ok s ws -> seq_functional ws ->
  get s k v = latest_at ws k v.
Proof. exact get_latest. Qed.
Print Assumptions C01_reads_latest.

(** The pruned, structured search equals scanning every source tier by tier. *)
Theorem C01_pruning_sound : forall s k v, src_inv s -> get s k v = tget k v (tiers_of s).
Proof. exact get_is_tget. Qed.
Print Assumptions C01_pruning_sound.

Theorem C01_lww_refuted :
  exists ops k v, option_map r_val (get (run (init 1) ops) k v)
                  <> option_map r_val (latest_at (writes ops) k v).
Proof. exact ingest_tie_refuted. Qed.
Print Assumptions C01_lww_refuted.

(** The boolean oracle of the correspondence computes the specification. *)
Theorem C01_oracle_decides : forall ws k v, is_latest ws k v (latest_at ws k v).
Proof. exact latest_at_is_latest. Qed.
Print Assumptions C01_oracle_decides.

(** Last-writer-wins for whole histories of writes, memtable rotations and
    flushes (any length): the invariant of [C01_reads_latest] holds initially
    and is preserved by each step (Proofs/LsmPreserve.v).  [puts_monotone]:
    each write has a positive version, a fresh larger acknowledgement index and
    is at least as recent as the earlier writes of its key — true of every
    plain-API history (equal sentinel versions). *)
From NoKV Require Import Proofs.LsmInv Proofs.LsmPreserve.

Theorem C01_lww_memtables_l0 : forall m ops,
  forallb mlf_op ops = true -> puts_monotone ops = true ->
  forall k v, get (run (init m) ops) k v = latest_at (writes ops) k v.
Proof. exact lww_memtables_l0. Qed.
Print Assumptions C01_lww_memtables_l0.

(** The same with close + reopen steps anywhere in the history. *)
Theorem C01_lww_memtables_l0_reopen : forall m ops,
  forallb mlfr_op ops = true -> puts_monotone ops = true ->
  forall k v, get (run (init m) ops) k v = latest_at (writes ops) k v.
Proof. exact lww_reopen. Qed.
Print Assumptions C01_lww_memtables_l0_reopen.

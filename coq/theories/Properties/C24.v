(** C24 — splits and merges keep regions a partition with increasing epochs. *)
From Coq Require Import List NArith Bool.
From NoKV Require Import Base.Bytes Model.Pd Spec.PdSpec Model.Regions Spec.RegionsSpec Proofs.RegionsProofs.
Import ListNotations.
Local Open Scope N_scope.

(** Every merge the store accepts (left or right neighbour, bounded or
    unbounded) keeps the catalog a partition covering exactly the same keys;
    the target's version grows by one, its state does not move backwards, the
    source disappears and nothing else changes. *)
Theorem C24_partition_merge : forall s target source s',
  partition (smem s) -> merge s target source = (s', true) ->
  partition (smem s') /\ same_cover (smem s) (smem s') /\
  exists t src t',
    rfind target (smem s) = Some t /\ rfind source (smem s) = Some src /\
    rfind target (smem s') = Some t' /\ rfind source (smem s') = None /\
    g_ver (r_reg t') = (g_ver (r_reg t) + 1) mod 2^64 /\
    forward (r_state t) (r_state t') /\
    forall id, id <> target -> id <> source -> rfind id (smem s') = rfind id (smem s).
Proof. exact merge_partition. Qed.
Print Assumptions C24_partition_merge.

(** Every split the store accepts, at any key, of a command whose child takes
    over the parent's end under an unused id, keeps the catalog a partition
    covering exactly the same keys; the parent's version grows by one. *)
Theorem C24_partition_split : forall s parent key child s',
  partition (smem s) -> split_wf (smem s) parent child ->
  split s parent key child = (s', true) ->
  partition (smem s') /\ same_cover (smem s) (smem s') /\
  exists p p' ch,
    rfind parent (smem s) = Some p /\ rfind parent (smem s') = Some p' /\
    rfind (rid child) (smem s') = Some ch /\ r_state ch = 1 /\
    g_ver (r_reg p') = (g_ver (r_reg p) + 1) mod 2^64 /\ forward (r_state p) (r_state p').
Proof. exact split_partition. Qed.
Print Assumptions C24_partition_split.

(** A split that fails because its child names no peer on this store (the peer
    builder rejects the child AFTER the parent was shrunk) never succeeds, keeps
    the catalog a partition covering exactly the same keys, and leaves every
    region's range and epoch as they were: the shrink is undone. *)
Theorem C24_failed_split_restores : forall s parent key child s' ok,
  partition (smem s) -> split_unhosted s parent key child = (s', ok) ->
  ok = false /\ partition (smem s') /\ same_cover (smem s) (smem s') /\
  (forall id, option_map r_reg (rfind id (smem s')) = option_map r_reg (rfind id (smem s))).
Proof. exact split_unhosted_partition. Qed.
Print Assumptions C24_failed_split_restores.

(** Non-vacuity: on the catalog {1: [a, z)} a split at "m" with an unhostable
    child goes through the shrink and the restore (the parent's entry is
    rewritten), and the catalog is a partition. *)
Example C24_failed_split_restores_example :
  let p := {| r_reg := {| g_id := 1; g_start := [n2b 97]; g_end := [n2b 122]; g_ver := 4; g_conf := 1 |}; r_state := 1 |} in
  let ch := {| r_reg := {| g_id := 2; g_start := []; g_end := [n2b 122]; g_ver := 1; g_conf := 1 |}; r_state := 0 |} in
  let s := {| smem := [p]; sdisk := [p] |} in
  partition_b (smem s) = true /\
  split_unhosted s 1 [n2b 109] ch = (s, false) /\
  fst (split s 1 [n2b 109] ch) <> s.
Proof. exact failed_split_example. Qed.

(** A removal takes away exactly the removed region's keys. *)
Theorem C24_partition_remove : forall s id s',
  partition (smem s) -> remove_region s id = Some s' ->
  partition (smem s') /\
  exists m, rfind id (smem s) = Some m /\ rfind id (smem s') = None /\
            (forall k, covered (smem s) k <-> covered (smem s') k \/ contains (r_reg m) k) /\
            (forall k, ~ (covered (smem s') k /\ contains (r_reg m) k)).
Proof. exact remove_partition. Qed.
Print Assumptions C24_partition_remove.

(** The version counter is a uint64: +1 is a strict increase below 2^64-1. *)
Theorem C24_epoch_increases : forall v, v < 2^64 - 1 -> v < (v + 1) mod 2^64.
Proof. exact ver_increases. Qed.
Print Assumptions C24_epoch_increases.

(** [updateRegion] stores a meta iff the lifecycle state moves forward
    (New < Running < Removing < Tombstone, New only to Running). *)
Theorem C24_state_forward : forall s m s',
  update_region s m = Some s' ->
  exists m', rfind (rid m) (smem s') = Some m' /\ r_reg m' = r_reg m /\
             forward (current_state (smem s) (rid m)) (r_state m').
Proof. exact update_region_forward. Qed.
Print Assumptions C24_state_forward.

Theorem C24_state_backward_rejected : forall s m,
  rid m <> 0 ->
  ~ forward (current_state (smem s) (rid m)) (if r_state m =? 0 then 1 else r_state m) ->
  update_region s m = None.
Proof. exact update_region_rejects_backward. Qed.
Print Assumptions C24_state_backward_rejected.

(** After any sequence of operations a restart loads the same catalog. *)
Theorem C24_reload : forall ops, smem (reload (run store_init ops)) = smem (run store_init ops).
Proof. exact reload_same. Qed.
Print Assumptions C24_reload.

(** Before the repair of handleMergeCommand: merging the left neighbour into
    an unbounded target succeeded and lost the keys below the boundary. *)
Theorem C24_merge_old_refuted :
  partition (smem w_store) /\
  exists s', merge_old w_store 2 1 = (s', true) /\
             covered (smem w_store) w_lost /\ ~ covered (smem s') w_lost.
Proof. exact merge_old_refuted. Qed.
Print Assumptions C24_merge_old_refuted.

(** Oracles of the correspondence. *)
Theorem C24_partition_oracle_decides : forall c, partition_b c = true <-> partition c.
Proof. exact partition_b_spec. Qed.
Print Assumptions C24_partition_oracle_decides.

Theorem C24_cover_oracle_complete : forall c c', same_cover c c' -> same_cover_b c c' = true.
Proof. exact same_cover_b_complete. Qed.
Print Assumptions C24_cover_oracle_complete.

Theorem C24_forward_oracle_decides : forall cur next, forward_b cur next = true <-> forward cur next.
Proof. exact forward_b_spec. Qed.
Print Assumptions C24_forward_oracle_decides.

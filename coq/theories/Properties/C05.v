(** C05 — a transaction never sees another transaction partially or late.

    Model: [Model.TxnSched] on [Base.Sched]; the statements hold for every
    schedule, every set of thread programs, both versions of the oracle
    ([fixed]), every fingerprint function and configuration.  The watermark
    operations Begin/Done/DoneUntil/WaitForMark are atomic steps here; their
    internals are property C32. *)
From Coq Require Import List NArith Bool.
From NoKV Require Import Base.Bytes Base.Sched Spec.SerialSpec Model.TxnOracle Model.TxnSched
                         Proofs.TxnSchedProofs.
Import ListNotations.
Local Open Scope N_scope.

Theorem C05_invariant_reachable :
  forall fixed (fp : bytes -> N) (c : cfg) progs s,
    reachable (tstep fixed fp c) (s_init progs) s -> InvS s.
Proof. exact reachable_invS. Qed.
Print Assumptions C05_invariant_reachable.

(** For every transaction that left readTs with value r, every commit
    timestamp <= r ever issued is fully applied. *)
Theorem C05_inv :
  forall fixed (fp : bytes -> N) (c : cfg) progs sched t r,
    let s := Sched.run (tstep fixed fp c) (s_init progs) sched in
    left_readts (s_threads s t) = Some r ->
    forall ts ws, In (ts, ws) (s_issued s) -> ts <= r -> fully_applied (s_store s) ts ws.
Proof. exact inv_all_schedules. Qed.
Print Assumptions C05_inv.

Theorem C05_repeatable :
  forall fixed (fp : bytes -> N) (c : cfg) progs sched t r,
    let s := Sched.run (tstep fixed fp c) (s_init progs) sched in
    left_readts (s_threads s t) = Some r ->
    (forall k v, In (k, v) (obs_of (s_threads s t)) -> v = read_at (s_store s) k r) /\
    (forall k v1 v2, In (k, v1) (obs_of (s_threads s t)) -> In (k, v2) (obs_of (s_threads s t)) -> v1 = v2).
Proof. exact repeatable_all_schedules. Qed.
Print Assumptions C05_repeatable.

Theorem C05_no_partial :
  forall fixed (fp : bytes -> N) (c : cfg) progs sched t r,
    let s := Sched.run (tstep fixed fp c) (s_init progs) sched in
    left_readts (s_threads s t) = Some r ->
    forall ts ws, In (ts, ws) (s_issued s) ->
      (ts <= r /\ fully_applied (s_store s) ts ws) \/
      (r < ts /\ forall k, read_at (filter (fun e => negb (se_ver e =? ts)) (s_store s)) k r = read_at (s_store s) k r).
Proof. exact no_partial_all_schedules. Qed.
Print Assumptions C05_no_partial.

(** F7: with the pre-repair oracle a schedule exists in which a transaction
    commits although a key it read was overwritten after its snapshot (its
    readMark.Begin came after the pruning). *)
Theorem C05_legacy_prune_refuted :
  exists t r obs ts k v e,
    let s := Sched.run (tstep false f7_fp f7_cfg) (s_init f7_progs) f7_sched in
    s_threads s t = PFin r obs (COk ts) /\ In (k, v) obs /\ In e (s_store s) /\ se_key e = k /\
    r < se_ver e /\ se_ver e < ts.
Proof. exact legacy_schedule_refuted. Qed.
Print Assumptions C05_legacy_prune_refuted.

(** C36 — WAL segment cleanup never removes data still needed.

    The faithful model of the current tree violates the property as soon as a
    raft group shares the WAL (known findings C36-F1..F4).  The refutations
    are concrete histories; the partial theorems below state what does hold. *)
From Coq Require Import List NArith.
From NoKV Require Import Model.RaftStore Spec.RaftStoreSpec Model.WalGc Spec.WalGcSpec Proofs.WalGcProofs.
Import ListNotations.

(** C36_safe would be: forall reachable s and o, safe_step s o.  Refuted: *)

(** F1: nothing truncated yet (SegmentIndex = 0): flushing memtable 1 removes
    segment 1, which holds the group's whole log, because only the segment of
    the group's latest record is protected. *)
Theorem C36_safe_refuted_flush_untruncated : ~ safe_step (run st0 w1) WFlush.
Proof. exact safe_refuted_flush. Qed.
Print Assumptions C36_safe_refuted_flush_untruncated.

(** F1 (hard state): the latest hard state lives in a segment below
    SegmentIndex and goes away with it. *)
Theorem C36_safe_refuted_flush_hardstate : ~ safe_step (run st0 w1b) WFlush.
Proof. exact safe_refuted_hs_below_segidx. Qed.
Print Assumptions C36_safe_refuted_flush_hardstate.

(** F2: the watchdog ignores the flush checkpoint: it removes the segment of a
    sealed memtable that is not installed as a table. *)
Theorem C36_safe_refuted_watchdog_unflushed : ~ safe_step (run st0 w2) WWatchdog.
Proof. exact safe_refuted_watchdog. Qed.
Print Assumptions C36_safe_refuted_watchdog_unflushed.

(** F3: a memtable without LSM writes is flushed by deleting its segment without
    consulting the raft pointers. *)
Theorem C36_safe_refuted_flush_empty_memtable : ~ safe_step (run st0 w3) WFlush.
Proof. exact safe_refuted_empty_flush. Qed.
Print Assumptions C36_safe_refuted_flush_empty_memtable.

(** C36_recover would be: after a crash every acknowledged write and every
    group's hard state and untruncated entries come back.  Refuted: *)

(** F4: even a removal that hurt nobody (only truncated entries and a superseded
    hard state) leaves a log OpenWALStorage cannot replay (MemoryStorage.Append
    panics on the gap below the first surviving entry). *)
Theorem C36_recover_refuted_after_harmless_removal :
  (forall id, In id (snd (step (run st0 (removelast w4)) WFlush)) ->
     ~ needed (run st0 (removelast w4)) (run st0 w4) id) /\
  snd (step (run st0 (removelast w4)) WFlush) = [1%N] /\
  ~ raft_recovered_ok 1 w4 (recovered_raft (run st0 w4) 1).
Proof. exact recover_refuted_legit_removal. Qed.
Print Assumptions C36_recover_refuted_after_harmless_removal.

(** F1 seen from the crash: the group's log is gone. *)
Theorem C36_recover_refuted_lost_log :
  ~ raft_recovered_ok 1 (w1 ++ [WFlush]) (recovered_raft (run st0 (w1 ++ [WFlush])) 1).
Proof. exact recover_refuted_lost_log. Qed.
Print Assumptions C36_recover_refuted_lost_log.

(** F2 seen from the crash: an acknowledged DB write is gone. *)
Theorem C36_recover_refuted_lost_write :
  recovered_get (run st0 (w2 ++ [WWatchdog])) 0 <> expect_get (w2 ++ [WWatchdog]) 0 None.
Proof. exact recover_refuted_lost_write. Qed.
Print Assumptions C36_recover_refuted_lost_write.

(** F5: a segment that was flushed long ago but is retained for a raft group is
    replayed into a memtable by the reopening DB; its old write of key 0 shadows
    the newer value that is already in a table. *)
Theorem C36_recover_refuted_stale_replay :
  expect_get w5 0 None = Some 2%N /\ recovered_get (run st0 w5) 0 = Some 1%N.
Proof. exact recover_refuted_stale_replay. Qed.
Print Assumptions C36_recover_refuted_stale_replay.

(** What does hold, for every history (memtable ids grow): the flush remover
    and the recovery cleanup never remove a segment holding writes of a memtable
    that is not installed as a table; and when no raft group shares the WAL
    (the excluded class: [no_raft ops = false]) every remover - flush, watchdog,
    recovery cleanup - is safe. *)
Theorem C36_safe_partial : forall ids act ops,
  (0 < act)%N -> fresh_rotations act ops ->
  let s := run (init ids act) ops in
  (forall id, In id (snd (step s WFlush)) -> ~ lsm_needed s (fst (step s WFlush)) id) /\
  (forall id, In id (recovery_removed s) -> ~ lsm_needed s s id) /\
  (no_raft ops = true -> (forall o, is_raft_op o = false -> safe_step s o) /\ safe_recovery s).
Proof. exact safe_partial. Qed.
Print Assumptions C36_safe_partial.

(** The boolean oracle used by the correspondence check decides the specification. *)
Theorem C36_oracle_decides : forall pre post id, needed_b pre post id = true <-> needed pre post id.
Proof. exact needed_b_spec. Qed.
Print Assumptions C36_oracle_decides.

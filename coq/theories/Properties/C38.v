(** C38 — topology validation accepts exactly the well-formed configurations. *)
From Coq Require Import List NArith.
From NoKV Require Import Base.Bytes Model.Config Spec.ConfigSpec Proofs.ConfigProofs.

Theorem C38_iff : forall f, validate f = None <-> well_formed f.
Proof. exact validate_iff. Qed.
Print Assumptions C38_iff.

Theorem C38_error_names_a_real_defect : forall f e, validate f = Some e -> err_present f e.
Proof. exact validate_error_sound. Qed.
Print Assumptions C38_error_names_a_real_defect.

(** The boolean oracle used by the correspondence check decides the specification. *)
Theorem C38_oracle_decides : forall f, well_formed_b f = true <-> well_formed f.
Proof. exact well_formed_b_spec. Qed.
Print Assumptions C38_oracle_decides.

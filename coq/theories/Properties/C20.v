(** C20 — key latches exclude overlapping requests without deadlock.
    All statements are for any stripe count, any hash function, any number of
    requests with any key sets, and every reachable state / schedule. *)
From Coq Require Import List NArith.
From NoKV Require Import Base.Bytes Base.Sched Model.Latch Spec.LatchSpec Proofs.LatchProofs.

(** every stripe has at most one holder, and two requests sharing a non-empty
    key are never both inside their critical section *)
Theorem C20_mutex : forall nstripes hash reqs g,
  reachable tstep (init nstripes hash reqs) g ->
  NoDup (map fst (g_locks g)) /\
  forall t1 t2 k1 k2, t1 <> t2 -> in_crit g t1 k1 -> in_crit g t2 k2 -> ~ conflict k1 k2.
Proof. exact latch_mutex. Qed.
Print Assumptions C20_mutex.

(** in every reachable state with an unfinished request some thread can step *)
Theorem C20_deadlock_free : forall nstripes hash reqs g,
  reachable tstep (init nstripes hash reqs) g ->
  (exists t th, nth_error (g_threads g) t = Some th /\ th_pc th <> Fin) ->
  exists t g', tstep g t = Some g'.
Proof. exact latch_deadlock_free. Qed.
Print Assumptions C20_deadlock_free.

(** progress: every execution has at most [rank init] steps, and a state in
    which nothing can step has every request finished — so every acquisition
    succeeds under any scheduler that keeps picking enabled threads *)
Theorem C20_progress_bounded : forall nstripes hash reqs sched g,
  exec tstep (init nstripes hash reqs) sched = Some g ->
  length sched + rank g <= rank (init nstripes hash reqs).
Proof. exact latch_bounded. Qed.
Print Assumptions C20_progress_bounded.

Theorem C20_progress_complete : forall nstripes hash reqs g,
  reachable tstep (init nstripes hash reqs) g -> (forall t, tstep g t = None) ->
  forall t th, nth_error (g_threads g) t = Some th -> th_pc th = Fin.
Proof. exact latch_stuck_means_finished. Qed.
Print Assumptions C20_progress_complete.

Theorem C20_release_idempotent : forall (l : locks) (gd : guard),
  let '(l1, g1) := release l gd in release l1 g1 = (l1, g1).
Proof. exact release_idempotent. Qed.
Print Assumptions C20_release_idempotent.

(** the boolean oracle of the correspondence decides the trace specification *)
Theorem C20_oracle_decides : forall reqs evs inside,
  exclusive_b reqs inside evs = true <-> exclusive reqs inside evs.
Proof. exact exclusive_b_spec. Qed.
Print Assumptions C20_oracle_decides.

(** C22 — replicas apply identical command sequences and answer each proposal once.

    Partial by design: the consensus algorithm (go.etcd.io/raft/v3) is not
    modelled; what it delivers is an input of [Model.CmdPipeline], and what is
    assumed of it appears as premises ([delivery_ok], [election_safe],
    [entries_valid]).  What is proved is NoKV's glue: commandPipeline,
    ProposeCommand, handleReady's apply path. *)
From Coq Require Import List NArith Bool.
From NoKV Require Import Base.Bytes Model.CmdPipeline Spec.ClusterSpec Proofs.ClusterProofs.
Import ListNotations.
Local Open Scope N_scope.

(** Every store incarnation executes the commands of the entries it is handed,
    in delivery order, none skipped, none twice; its state is the sequential
    execution of exactly these commands. *)
Theorem C22_same_sequence :
  forall (cmd resp sm : Type) (applier : sm -> cmd -> sm * option resp),
    applier_total applier ->
    forall (bs : list (list (entry cmd))) (s : store cmd resp sm N),
      Forall (Forall digestible) bs ->
      applied_cmds (run_batches applier bs s) = applied_cmds s ++ cmds_of (concat bs) /\
      s_sm (run_batches applier bs s) = exec_cmds applier (s_sm s) (map snd (cmds_of (concat bs))).
Proof. exact @same_sequence. Qed.
Print Assumptions C22_same_sequence.

(** Hence, with raft's ordered delivery of one committed sequence (log
    matching), what a fresh incarnation has executed is a contiguous segment
    of the committed command list starting at its storage's first index. *)
Theorem C22_same_sequence_committed :
  forall (cmd resp sm : Type) (applier : sm -> cmd -> sm * option resp),
    applier_total applier ->
    forall committed first (bs : list (list (entry cmd))) (m : sm),
      delivery_ok committed first bs -> Forall (Forall digestible) bs ->
      exists n, applied_cmds (run_batches applier bs (store_init m)) = cmds_of (firstn n (skipn first committed)) /\
                s_sm (run_batches applier bs (store_init m)) =
                  exec_cmds applier m (map snd (cmds_of (firstn n (skipn first committed)))).
Proof. exact @same_sequence_committed. Qed.
Print Assumptions C22_same_sequence_committed.

(** A proposal that is handed a result was registered on that store, for the
    region and under the id of the entry whose application produced the result,
    and that entry carries the command of this very proposal — for every trace of restarts,
    calls, deliveries and timeouts on any number of stores.  Premises: what is
    assumed of raft ([election_safe]: within one region (raft group) a term has
    one leader and a restarted store must win a later term — terms of different
    regions are unrelated; [entries_valid]: delivered entries were
    created by some ProposeCommand) and the ranges of the 32+32 bit packing. *)
Theorem C22_response_matches :
  forall (cmd resp sm : Type) (applier : sm -> cmd -> sm * option resp) (init_sm : sm) (tr : list (gevent cmd)),
    let g := grun applier init_sm (next_id (W := N)) tr in
    calls_small tr -> terms_ok (g_props g) -> election_safe (g_props g) ->
    entries_valid applier init_sm (next_id (W := N)) tr ->
    response_matches g.
Proof. exact @response_matches_run. Qed.
Print Assumptions C22_response_matches.

(** The (region, id) pairs under which proposals are registered are pairwise
    different across stores and restarts (the content of the repairs of F20);
    the ids alone are not — see [C22_premises_satisfiable_two_regions]. *)
Theorem C22_ids_unique :
  forall (cmd resp sm : Type) (applier : sm -> cmd -> sm * option resp) (init_sm : sm) (tr : list (gevent cmd)),
    let g := grun applier init_sm (next_id (W := N)) tr in
    calls_small tr -> terms_ok (g_props g) -> election_safe (g_props g) ->
    NoDup (map (fun pr => (pr_region pr, pr_id pr)) (g_props g)).
Proof. exact @ids_unique_run. Qed.
Print Assumptions C22_ids_unique.

(** Two stores lead a region in DIFFERENT terms (election safety), so the ids
    they hand out must differ whatever their request counters are - with no
    bound on the number of requests a store has served: the counter is masked
    to 32 bits and never reaches the term half of the id. *)
Theorem C22_ids_of_different_terms_differ :
  forall (t1 t2 : N) (p1 p2 : pipe N),
    t1 < 2^32 -> t2 < 2^32 -> t1 <> t2 ->
    fst (next_id t1 p1) <> fst (next_id t2 p2).
Proof. exact next_id_terms_differ. Qed.
Print Assumptions C22_ids_of_different_terms_differ.

(** Answered once: completing a proposal removes its waiter; a later entry with
    the same id completes nobody. *)
Theorem C22_answered_once :
  forall (region id : N) (p p' : pipe N) (w : N),
    complete region id p = (p', Some w) ->
    lookup (pkey region id) (p_props p) = Some w /\ lookup (pkey region id) (p_props p') = None /\ p_seq p' = p_seq p /\
    (forall id' w', lookup id' (p_props p') = Some w' -> lookup id' (p_props p) = Some w').
Proof. exact complete_some. Qed.
Print Assumptions C22_answered_once.

(** Finding F20 (parent commit: [nextProposalID] = per-store counter): the same
    statement is false, under the same assumptions on raft. *)
Theorem C22_response_matches_refuted_before_fix :
  exists tr, let g := grun rapply ([] : rsm) (next_id_v0 (W := N)) tr in
             calls_small tr /\ terms_ok (g_props g) /\ election_safe (g_props g) /\
             entries_valid rapply ([] : rsm) (next_id_v0 (W := N)) tr /\
             ~ response_matches g.
Proof. exact f20_refuted. Qed.
Print Assumptions C22_response_matches_refuted_before_fix.

(** The premises of [C22_response_matches] hold on that scenario once ids carry
    the term (non-vacuity), and there the caller on store 1 is left waiting. *)
Theorem C22_premises_satisfiable :
  let g := grun rapply ([] : rsm) (next_id (W := N)) f20_trace_fixed in
  calls_small f20_trace_fixed /\ terms_ok (g_props g) /\ election_safe (g_props g) /\
  entries_valid rapply ([] : rsm) (next_id (W := N)) f20_trace_fixed /\
  completions g 2 <> [] /\ completions g 1 = [].
Proof. exact f20_fixed_hyps. Qed.
Print Assumptions C22_premises_satisfiable.

(** Finding F20, second half (commit b93c45d: ids carry the term, but the
    waiters of all regions of a store were keyed by the id alone, and terms are
    per region): a waiter registered for region 1 receives the result of an
    entry of region 2 that carries the same id. *)
Theorem C22_region_collision_refuted_before_fix :
  exists (p1 p2 : pipe N) (w : N),
    register_v1 1 (mk_id 2 1) w pipe_init = (RegOk, p1) /\
    complete_v1 2 (mk_id 2 1) p1 = (p2, Some w).
Proof. exact region_collision_refuted. Qed.
Print Assumptions C22_region_collision_refuted_before_fix.

(** With the region in the key, an entry of another region completes nobody. *)
Theorem C22_other_region_completes_nobody :
  forall r1 r2 id (w : N) (p p1 : pipe N),
    r1 <> r2 -> id < 2^64 -> register r1 id w p = (RegOk, p1) ->
    lookup (pkey r2 id) (p_props p) = None -> complete r2 id p1 = (p1, None).
Proof. exact complete_other_region. Qed.
Print Assumptions C22_other_region_completes_nobody.

(** The premises of [C22_response_matches] hold on the two-region scenario
    (stores 1 and 2 lead regions 1 and 2 in the same term number and hand out
    the same id); store 1's caller is not answered by region 2's entry. *)
Theorem C22_premises_satisfiable_two_regions :
  let g := grun rapply ([] : rsm) (next_id (W := N)) two_region_trace in
  calls_small two_region_trace /\ terms_ok (g_props g) /\ election_safe (g_props g) /\
  entries_valid rapply ([] : rsm) (next_id (W := N)) two_region_trace /\
  map pr_id (g_props g) = [mk_id 2 1; mk_id 2 1] /\
  completions g 2 <> [] /\ completions g 1 = [].
Proof. exact two_region_hyps. Qed.
Print Assumptions C22_premises_satisfiable_two_regions.

(** The oracle of the correspondence for "all stores agree on what sits at an
    index" decides its specification. *)
Theorem C22_oracle_decides : forall evs, agree_b evs = true <-> agree evs.
Proof. exact agree_b_spec. Qed.
Print Assumptions C22_oracle_decides.

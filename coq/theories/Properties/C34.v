(** C34 — concurrent plain writes and reads are linearizable.

    Model: [Model.CommitQueue] on [Base.Sched] (clients, the single commit
    worker, the throttle, Close).  The statement quantifies over every
    schedule, every client program, queue capacity and batch limit. *)
From Coq Require Import List NArith Bool.
From NoKV Require Import Base.Bytes Base.Sched Spec.SerialSpec Spec.Linearizable Model.CommitQueue
                         Proofs.LinearizableProofs Proofs.CommitQueueProofs Proofs.CommitQueueLin.
Import ListNotations.
Local Open Scope N_scope.

Theorem C34_linearizable :
  forall cap bmax (progs : N -> list cop) (sched : list N),
    let g := run tstep (g_init cap bmax progs) sched in
    quiescent g -> linearizable (history g).
Proof. exact linearizable_all_schedules. Qed.
Print Assumptions C34_linearizable.

(** The only step that changes the memtable is the worker applying an enqueued
    request: a write that returns an error (which it does before enqueueing)
    has no effect. *)
Theorem C34_error_no_effect :
  forall g t g',
    tstep g t = Some g' -> g_mem g' <> g_mem g ->
    t = 0 /\ exists a r b, g_pipe g = a ++ (r, Batched) :: b /\ g_mem g' = (r_k r, r_v r) :: g_mem g.
Proof. exact error_no_effect. Qed.
Print Assumptions C34_error_no_effect.

(** The brute-force checker used by the correspondence decides the specification. *)
Theorem C34_lin_check_sound : forall h, lin_check h = true -> linearizable h.
Proof. exact lin_check_sound. Qed.
Print Assumptions C34_lin_check_sound.

Theorem C34_lin_check_complete : forall h, linearizable h -> lin_check h = true.
Proof. exact lin_check_complete. Qed.
Print Assumptions C34_lin_check_complete.

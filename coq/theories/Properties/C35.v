(** C35 — SST tables serve exactly the entries they were built from.

    [es] is any list of entries with strictly ascending internal keys
    ([sorted]: utils.CompareKeys order = base key ascending, version
    descending) whose keys are longer than 8 bytes and fit the uint16 header
    fields ([keys_ok]); [bsz] any block size; [wb, bpk, k] the bloom settings
    (bits per key and probe count are inputs: the float arithmetic producing
    them is not modelled).  [t] is the table the builder model produces. *)
From Coq Require Import List NArith Bool.
From NoKV Require Import Base.Bytes Base.Num Model.Keys Model.Bloom Model.Sst Spec.SstSpec Proofs.SstProofs.

(** the builder never panics on such input *)
Theorem C35_build_total : forall bsz wb bpk k es,
  keys_ok es -> sorted es -> exists t, build bsz wb bpk k es = Some t.
Proof. exact build_total. Qed.
Print Assumptions C35_build_total.

(** full iteration returns exactly the built entries, forward in order, reverse in reverse order *)
Theorem C35_iter : forall bsz wb bpk k es t,
  keys_ok es -> sorted es -> build bsz wb bpk k es = Some t ->
  iterate true t = Some (spec_iter true es) /\ iterate false t = Some (spec_iter false es).
Proof. exact final_iter. Qed.
Print Assumptions C35_iter.

(** forward Seek lands on the first entry >= target over the whole table (for
    every target, including those between two blocks), and Next continues
    with every later entry *)
Theorem C35_seek_fwd : forall bsz wb bpk k es t,
  keys_ok es -> sorted es -> build bsz wb bpk k es = Some t ->
  forall key, ti_item (tseek true t key) = spec_seek true es key /\
              seek_iterate true t key = Some (spec_from true es key).
Proof. exact final_seek_fwd. Qed.
Print Assumptions C35_seek_fwd.

(** reverse Seek lands on the last entry <= target, and Next continues downwards *)
Theorem C35_seek_rev : forall bsz wb bpk k es t,
  keys_ok es -> sorted es -> build bsz wb bpk k es = Some t ->
  forall key, ti_item (tseek false t key) = spec_seek false es key /\
              seek_iterate false t key = Some (spec_from false es key).
Proof. exact final_seek_rev. Qed.
Print Assumptions C35_seek_rev.

(** table.Search = seek on the sorted list, then same base key, then the
    caller's version bound (the abstraction Model/Lsm.v uses for a table);
    the bloom filter never hides a stored key *)
Theorem C35_search : forall bsz wb bpk k es t,
  keys_ok es -> sorted es -> build bsz wb bpk k es = Some t ->
  forall key maxvs, search t key maxvs = spec_search_seek es key maxvs.
Proof. exact final_search. Qed.
Print Assumptions C35_search.

(** every built entry is found by a point lookup at its own key *)
Theorem C35_point : forall bsz wb bpk k es t,
  keys_ok es -> sorted es -> build bsz wb bpk k es = Some t ->
  forall e maxvs, In e es ->
  search t (e_key e) maxvs = if (maxvs <? parse_ts (e_key e))%N then Some e else None.
Proof. exact final_point. Qed.
Print Assumptions C35_point.

Theorem bloom_no_false_negative : forall hs bpk k h,
  In h hs -> may_contain (build_bloom hs bpk k) h = true.
Proof. exact bloom_no_false_negative_lemma. Qed.
Print Assumptions bloom_no_false_negative.

(** tableIterator.Seek as it was before the repair fixes/F5-table-seek-next-block.md:
    a two-block table and a target between the blocks on which the old forward
    Seek is invalid and the old Search misses a stored older version, while
    the repaired code answers as specified *)
Theorem C35_seek_fwd_orig_refuted :
  exists es key t,
    sorted es /\ keys_ok es /\ build 64 false 0 0 es = Some t /\
    ti_item (tseek_orig true t key) = None /\ spec_seek true es key <> None /\
    search_orig t key 0 = None /\ spec_search es key 0 <> None /\
    ti_item (tseek true t key) = spec_seek true es key /\ search t key 0 = spec_search es key 0.
Proof. exact seek_orig_refuted. Qed.
Print Assumptions C35_seek_fwd_orig_refuted.

(** [cmpk] is utils.CompareKeys on keys longer than 8 bytes *)
Theorem C35_cmpk_is_compare_keys : forall a b,
  (8 < blen a)%N -> (8 < blen b)%N -> compare_keys a b = Some (cmpk a b).
Proof. exact cmpk_compare_keys. Qed.
Print Assumptions C35_cmpk_is_compare_keys.

(** the boolean preconditions used by the correspondence decide [sorted] and [keys_ok] *)
Theorem C35_oracle_sorted : forall es, sorted_b es = true <-> sorted es.
Proof. exact sorted_b_spec. Qed.
Print Assumptions C35_oracle_sorted.

Theorem C35_oracle_keys_ok : forall es, keys_ok_b es = true <-> keys_ok es.
Proof. exact keys_ok_b_spec. Qed.
Print Assumptions C35_oracle_keys_ok.

(** C15 — manifest reload equals in-memory state across rewrites and crashes.

    [hist_ok v es]: every edit fits its Go field types and its payload the 32-bit
    length prefix ([edit_ok]), and an AddFile never adds a file id that its level
    already holds ([fresh]: file ids are unique per level — sort.Slice in
    writeSnapshot is not stable, so with duplicate ids the reloaded order is not
    determined by the code).  [version_eq]: Spec/ManifestSpec.v.  The model
    describes the code after fixes/manifest-reload-equals-memory.md. *)
From Coq Require Import List NArith.
From NoKV Require Import Base.Bytes Base.Num Model.ManifestCodec Model.Manifest Spec.ManifestSpec
  Proofs.ManifestCodecProofs Proofs.ManifestProofs Proofs.CodecProofs.
Import ListNotations.
Local Open Scope N_scope.

(** the edit record round-trips (what was an explicit premise before) *)
Theorem rt_edit : forall e rest, edit_ok e -> read_edit (enc_edit e ++ rest) = ReOk (cn e) rest.
Proof. exact ManifestCodecProofs.rt_edit. Qed.
Print Assumptions rt_edit.

Theorem rt_edit_apply : forall v e, apply v (cn e) = apply v e.
Proof. exact apply_cn. Qed.
Print Assumptions rt_edit_apply.

(** for every history given as LogEdits batches and every rewrite threshold: the
    in-memory version is the fold of the edits, and a reopened manager reads an equal one *)
Theorem C15_reload : forall thr batches,
  hist_ok empty_version (concat batches) ->
  let m := log_all (create_new thr) batches in
  m_ver m = state_after (concat batches) /\
  exists v', reload (m_fs m) = RpOk v' /\ version_eq v' (m_ver m).
Proof. exact reload_eq. Qed.
Print Assumptions C15_reload.

(** the same with I/O errors (faults, not crashes) injected into any of the calls — the write of
    the batch, or the create / write / sync of the new manifest, the write of CURRENT.tmp or the
    rename during the rewrite the call triggers — and the history going on afterwards: memory is
    the fold of the applied edits ([applied]: all but the batches whose write failed) and a
    reopened manager reads an equal version *)
Theorem C15_reload_faults : forall thr steps,
  hist_ok empty_version (applied steps) ->
  let m := fst (log_all_f (create_new thr) steps) in
  m_ver m = state_after (applied steps) /\
  exists v', reload (m_fs m) = RpOk v' /\ version_eq v' (m_ver m).
Proof. exact reload_faults. Qed.
Print Assumptions C15_reload_faults.

(** a snapshot of any well-formed version reloads to an equal version *)
Theorem C15_snapshot : forall v,
  winv v -> lnodup v ->
  exists v', replay_manifest (enc_all (snapshot_edits v)) = RpOk v' /\ version_eq v' v.
Proof. exact snapshot_reload. Qed.
Print Assumptions C15_snapshot.

(** every reachable version is well-formed (so C15_snapshot applies to it) *)
Theorem C15_reachable_wf : forall E, hist_ok empty_version E -> winv (state_after E) /\ lnodup (state_after E).
Proof. exact state_winv. Qed.
Print Assumptions C15_reachable_wf.

(** a crash at any effect of a LogEdits call (torn append at any byte, snapshot write torn
    at any byte, CURRENT.tmp with any content, after the rename, after the removal of the
    old manifest): Verify + Open succeed and read the state after a prefix of the edits
    that contains every edit of the calls that had returned *)
Theorem C15_crash_prefix : forall thr batches batch fsc,
  hist_ok empty_version (concat batches ++ batch) ->
  crash_fs (log_all (create_new thr) batches) batch fsc ->
  exists j v', (length (concat batches) <= j <= length (concat batches ++ batch))%nat /\
               recover fsc = RpOk v' /\ version_eq v' (state_after (firstn j (concat batches ++ batch))).
Proof. exact crash_prefix. Qed.
Print Assumptions C15_crash_prefix.

Theorem C15_version_eq_congruence : forall a b e,
  version_eq a b -> lnodup a -> lnodup b -> fresh a e -> version_eq (apply a e) (apply b e).
Proof. exact version_eq_apply. Qed.
Print Assumptions C15_version_eq_congruence.

Theorem C15_replay_never_panics : forall bs, read_edit bs <> RePanic.
Proof. exact read_edit_total. Qed.
Print Assumptions C15_replay_never_panics.

(** non-vacuity: a history that triggers a rewrite *)
Theorem C15_example :
  let f := {| fm_level := 0; fm_id := 7; fm_size := 100; fm_smallest := []; fm_largest := []; fm_created := 1;
              fm_vsize := 0; fm_ingest := false |} in
  let bs := [[EAddFile f; ELogPointer 3 9]; [ELogPointer 4 10]] in
  needs_rewrite (appended (create_new 20) (hd [] bs)) = true /\
  reload (m_fs (log_all (create_new 20) bs)) = RpOk (m_ver (log_all (create_new 20) bs)).
Proof. exact manifest_example. Qed.
Print Assumptions C15_example.

(** C15 — manifest reload equals in-memory state (PARTIAL).

    Proved: replaying the manifest file that holds the encodings of the logged
    edits yields the fold of [apply] over the edits (as the decoder returns them),
    also when the file ends in a torn record that the reader reports as a clean
    EOF; the decoder under replay never panics.  The round trip of the edit record
    ([rt_edit]) is an explicit PREMISE on the codec model here — it has no proof
    yet; it is checked on every generated edit by the C16 correspondence
    (decode (real encode e) = e).  Not modelled: rewriteLocked / writeSnapshot /
    CURRENT replacement and crash points (C15_snapshot, C15_crash_prefix are
    absent); the correspondence checks reload equality across automatic rewrites
    on the real code. *)
From Coq Require Import List NArith.
From NoKV Require Import Base.Bytes Base.Num Model.ManifestCodec Model.Manifest Spec.ManifestSpec
  Proofs.ManifestProofs Proofs.CodecProofs.
Import ListNotations.
Local Open Scope N_scope.

Theorem C15_reload_partial : forall (ok : edit -> Prop) (cn : edit -> edit),
  (forall e rest, ok e -> read_edit (enc_edit e ++ rest) = ReOk (cn e) rest) ->
  forall es, Forall ok es ->
  replay_manifest (enc_all es) = RpOk (apply_all empty_version (map cn es)).
Proof. exact reload. Qed.
Print Assumptions C15_reload_partial.

Theorem C15_torn_tail_partial : forall (ok : edit -> Prop) (cn : edit -> edit),
  (forall e rest, ok e -> read_edit (enc_edit e ++ rest) = ReOk (cn e) rest) ->
  forall es, Forall ok es -> forall tail, read_edit tail = ReEof ->
  replay_manifest (enc_all es ++ tail) = RpOk (apply_all empty_version (map cn es)).
Proof. exact reload_then_eof. Qed.
Print Assumptions C15_torn_tail_partial.

Theorem C15_replay_never_panics : forall bs, read_edit bs <> RePanic.
Proof. exact read_edit_total. Qed.
Print Assumptions C15_replay_never_panics.

(** C26 — PD routes every key to the unique region containing it. *)
From Coq Require Import List NArith Bool.
From NoKV Require Import Base.Bytes Model.Pd Spec.PdSpec Proofs.PdProofs.
Import ListNotations.
Local Open Scope N_scope.

(** A heartbeat is accepted iff it has a real id and a non-empty range, is not
    epoch-stale and its key set is disjoint from every other known region. *)
Theorem C26_accept_iff : forall c m,
  catalog_ok c -> ((exists c', upsert c m = inl c') <-> acceptable c m).
Proof. exact upsert_accept_iff. Qed.
Print Assumptions C26_accept_iff.

(** After any sequence of heartbeats and removals the catalog has one entry
    per id, non-empty ranges, and pairwise disjoint key sets. *)
Theorem C26_disjoint_inv : forall ops, catalog_ok (mem (run pd_init ops)).
Proof. exact reachable_ok. Qed.
Print Assumptions C26_disjoint_inv.

(** Routing is exact (hence unique) on every catalog satisfying the invariant ... *)
Theorem C26_route : forall c k r,
  catalog_ok c -> (route c k = Some r <-> In r c /\ contains r k).
Proof. exact route_iff. Qed.
Print Assumptions C26_route.

Theorem C26_route_none : forall c k,
  catalog_ok c -> (route c k = None <-> forall r, In r c -> ~ contains r k).
Proof. exact route_none_iff. Qed.
Print Assumptions C26_route_none.

(** ... and after any history the persisted regions restore to the same map
    with the same routes. *)
Theorem C26_reload : forall ops,
  let s := run pd_init ops in
  exists c', restore (disk s) = Some c' /\ same_catalog c' (mem s) /\
             forall k, route c' k = route (mem s) k.
Proof. exact reload_reachable. Qed.
Print Assumptions C26_reload.

(** Before the repair (no range check in UpsertRegionHeartbeat) an inverted
    range was accepted and hid the region containing the key. *)
Theorem C26_route_unchecked_refuted :
  exists c1 c2,
    upsert_nocheck [] w_wide = inl c1 /\ upsert_nocheck c1 w_inverted = inl c2 /\
    In w_wide c2 /\ contains w_wide w_key /\ route c2 w_key = None.
Proof. exact route_unchecked_refuted. Qed.
Print Assumptions C26_route_unchecked_refuted.

(** The boolean oracles of the correspondence decide the specification. *)
Theorem C26_accept_oracle_decides : forall c m,
  catalog_ok c -> (acceptable_b c m = true <-> acceptable c m).
Proof. exact acceptable_b_spec. Qed.
Print Assumptions C26_accept_oracle_decides.

Theorem C26_route_oracle_decides : forall c k res,
  catalog_ok c -> (route_ok_b c k res = true <-> res = route c k).
Proof. exact route_ok_b_spec. Qed.
Print Assumptions C26_route_oracle_decides.

(** C17 — transactional reads return the newest committed value visible at their timestamp.

    [apply_all current h] is the store after the request history [h] under the
    working-tree code (Model/Percolator.v, Model/KvApply.v); [lrun h] is the
    logical state of the protocol specification (Spec/PercoSpec.v): per key the
    lock and the timeline of commit / rollback records. *)
From Coq Require Import List NArith Bool.
From NoKV Require Import Base.Bytes Model.Percolator Model.KvApply Spec.PercoSpec Proofs.PercoProofs.
Local Open Scope N_scope.

(** A GET is the protocol's read of the logical state: blocked by a lock with
    start ts <= t, otherwise the newest committed put/delete at or below t. *)
Theorem C17_get : forall h k t,
  forallb req_ok h = true ->
  handle_get current (apply_all current h) k t = lget (lrun h) k t.
Proof. exact get_refines. Qed.
Print Assumptions C17_get.

(** The same, with the read rule spelled out. *)
Theorem C17_get_unfolded : forall h k t,
  forallb req_ok h = true ->
  let ks := ls_at (lrun h) k in
  (forall l, ks_lock ks = Some l -> l_ts (ll_rec l) <= t ->
     handle_get current (apply_all current h) k t = GLocked k (ll_rec l)) /\
  ((forall l, ks_lock ks = Some l -> t < l_ts (ll_rec l)) ->
     handle_get current (apply_all current h) k t =
     match newest_committed (ks_recs ks) t with
     | Some r => match lr_kind r with OpPut => GValue (lr_val r) | _ => GNotFound end
     | None => GNotFound
     end).
Proof. exact get_spec. Qed.
Print Assumptions C17_get_unfolded.

(** [newest_committed] is a put/delete record with commit ts <= t and none is
    newer (rollback and lock-only records are never chosen). *)
Theorem C17_newest_committed_is_newest : forall rs t,
  match newest_committed rs t with
  | None => forall r, In r rs -> visible_at t r = false
  | Some x => In x rs /\ visible_at t x = true /\
              forall r, In r rs -> visible_at t r = true -> lr_ts r <= lr_ts x
  end.
Proof. exact newest_committed_spec. Qed.
Print Assumptions C17_newest_committed_is_newest.

(** Every response of the model other than a scan's is the protocol's response
    (this is what the correspondence oracle evaluates on observed responses). *)
Theorem C17_responses_refine : forall h,
  forallb req_ok h = true -> all_agree h (responses current h) (lresponses h).
Proof. exact refines_responses. Qed.
Print Assumptions C17_responses_refine.

(** The code before the repair of F17 ([legacy]) violated the property: a
    rolled-back transaction, or a lock-only one, above a committed value hid it. *)
Theorem C17_get_refuted_legacy_rollback :
  forallb req_ok wit_f17_rollback = true /\
  handle_get legacy (apply_all legacy wit_f17_rollback) (B1 97) 35 = GNotFound /\
  lget (lrun wit_f17_rollback) (B1 97) 35 = GValue (B1 1).
Proof. exact legacy_get_refuted_rollback. Qed.
Print Assumptions C17_get_refuted_legacy_rollback.

Theorem C17_get_refuted_legacy_lockonly :
  forallb req_ok wit_f17_lockonly = true /\
  handle_get legacy (apply_all legacy wit_f17_lockonly) (B1 98) 60 = GNotFound /\
  lget (lrun wit_f17_lockonly) (B1 98) 60 = GValue (B1 1) /\
  handle_scan legacy (apply_all legacy wit_f17_lockonly) nil true 10 60 = (cons (B1 98, nil) nil, None).
Proof. exact legacy_get_refuted_lockonly. Qed.
Print Assumptions C17_get_refuted_legacy_lockonly.

(** C17 — transactional reads return the newest committed value visible at their timestamp.

    [apply_all current h] is the store after the request history [h] under the
    working-tree code (Model/Percolator.v, Model/KvApply.v); [lrun h] is the
    logical state of the protocol specification (Spec/PercoSpec.v): per key the
    lock and the timeline of commit / rollback records. *)
From Coq Require Import List NArith Bool.
From NoKV Require Import Base.Bytes Model.Percolator Model.KvApply Spec.PercoSpec Proofs.PercoProofs Proofs.PercoScanProofs.
Local Open Scope N_scope.

(** A GET is the protocol's read of the logical state: blocked by a lock with
    start ts <= t, otherwise the newest committed put/delete at or below t. *)
Theorem C17_get : forall h k t,
  forallb req_ok h = true ->
  handle_get current (apply_all current h) k t = lget (lrun h) k t.
Proof. exact get_refines. Qed.
Print Assumptions C17_get.

(** The same, with the read rule spelled out. *)
Theorem C17_get_unfolded : forall h k t,
  forallb req_ok h = true ->
  let ks := ls_at (lrun h) k in
  (forall l, ks_lock ks = Some l -> l_ts (ll_rec l) <= t ->
     handle_get current (apply_all current h) k t = GLocked k (ll_rec l)) /\
  ((forall l, ks_lock ks = Some l -> t < l_ts (ll_rec l)) ->
     handle_get current (apply_all current h) k t =
     match newest_committed (ks_recs ks) t with
     | Some r => match lr_kind r with OpPut => GValue (lr_val r) | _ => GNotFound end
     | None => GNotFound
     end).
Proof. exact get_spec. Qed.
Print Assumptions C17_get_unfolded.

(** [newest_committed] is a put/delete record with commit ts <= t and none is
    newer (rollback and lock-only records are never chosen). *)
Theorem C17_newest_committed_is_newest : forall rs t,
  match newest_committed rs t with
  | None => forall r, In r rs -> visible_at t r = false
  | Some x => In x rs /\ visible_at t x = true /\
              forall r, In r rs -> visible_at t r = true -> lr_ts r <= lr_ts x
  end.
Proof. exact newest_committed_spec. Qed.
Print Assumptions C17_newest_committed_is_newest.

(** Every response of the model other than a scan's is the protocol's response
    (this is what the correspondence oracle evaluates on observed responses). *)
Theorem C17_responses_refine : forall h,
  forallb req_ok h = true -> all_agree h (responses current h) (lresponses h).
Proof. exact refines_responses. Qed.
Print Assumptions C17_responses_refine.

(** The code before the repair of F17 ([legacy]) violated the property: a
    rolled-back transaction, or a lock-only one, above a committed value hid it. *)
Theorem C17_get_refuted_legacy_rollback :
  forallb req_ok wit_f17_rollback = true /\
  handle_get legacy (apply_all legacy wit_f17_rollback) (B1 97) 35 = GNotFound /\
  lget (lrun wit_f17_rollback) (B1 97) 35 = GValue (B1 1).
Proof. exact legacy_get_refuted_rollback. Qed.
Print Assumptions C17_get_refuted_legacy_rollback.

Theorem C17_get_refuted_legacy_lockonly :
  forallb req_ok wit_f17_lockonly = true /\
  handle_get legacy (apply_all legacy wit_f17_lockonly) (B1 98) 60 = GNotFound /\
  lget (lrun wit_f17_lockonly) (B1 98) 60 = GValue (B1 1) /\
  handle_scan legacy (apply_all legacy wit_f17_lockonly) nil true 10 60 = (cons (B1 98, nil) nil, None).
Proof. exact legacy_get_refuted_lockonly. Qed.
Print Assumptions C17_get_refuted_legacy_lockonly.

(** ** Scans *)

(** [handleScan] is the sequence of point reads ([lget]) over the keys from
    the start key on that already have a write record, in order, up to
    [limit] values, stopping at the first lock ([lscan_blind]). *)
Theorem C17_scan_eq_get_over_written_keys : forall h start incl limit version,
  forallb req_ok h = true ->
  handle_scan current (apply_all current h) start incl limit version =
  lscan_blind (lrun h) start incl limit version.
Proof. exact scan_refines_blind. Qed.
Print Assumptions C17_scan_eq_get_over_written_keys.

(** The full statement "scan = point gets over all keys" is refuted on the
    working tree: the lock of a first-ever prewrite blocks GET but not SCAN
    (known finding C17-F1; a repair needs a merged pass over the lock CF). *)
Theorem C17_scan_eq_get_refuted :
  forallb req_ok wit_scan = true /\
  handle_scan current (apply_all current wit_scan) nil true 10 15 = (nil, None) /\
  handle_get current (apply_all current wit_scan) (B1 98) 15 =
    GLocked (B1 98) {| l_primary := B1 98; l_ts := 10; l_ttl := 100; l_kind := OpPut; l_min_commit := 0 |} /\
  lscan (lrun wit_scan) nil true 10 15 =
    (nil, Some (KELocked (B1 98) {| l_primary := B1 98; l_ts := 10; l_ttl := 100; l_kind := OpPut; l_min_commit := 0 |})) /\
  scan_sees_all_locks (lrun wit_scan) nil true 15 = false.
Proof. exact scan_refuted. Qed.
Print Assumptions C17_scan_eq_get_refuted.

(** It holds whenever no key in the range is blocked by a lock while having
    no record yet (the excluded class, as a boolean on the logical state). *)
Theorem C17_scan_eq_get_partial : forall h start incl limit version,
  forallb req_ok h = true ->
  scan_sees_all_locks (lrun h) start incl version = true ->
  handle_scan current (apply_all current h) start incl limit version =
  lscan (lrun h) start incl limit version.
Proof. exact scan_eq_get_partial. Qed.
Print Assumptions C17_scan_eq_get_partial.

Theorem C17_scan_partial_nonvacuous :
  forallb req_ok (wit_put 97 1 10 20) = true /\ scan_sees_all_locks (lrun (wit_put 97 1 10 20)) nil true 25 = true /\
  lscan (lrun (wit_put 97 1 10 20)) nil true 10 25 = (cons (B1 97, B1 1) nil, None).
Proof. exact scan_partial_nonvacuous. Qed.
Print Assumptions C17_scan_partial_nonvacuous.

(** C08 — value-log separation and GC never change or lose a live value. *)
From Coq Require Import List NArith Bool.
From NoKV Require Import Base.Bytes Base.Num Model.EntryCodec Model.Lsm Model.Vlog Spec.MvccSpec Spec.VlogSpec Proofs.VlogProofs.

(** One value-log record: what ReadValue decodes is the value that was encoded, for every key,
    value, meta byte and expiry. *)
Theorem C08_record_roundtrip : forall e, entry_ok e ->
  decode_value_slice (enc_entry e) = VsOk (e_val e) (blen (e_key e)) (blen (e_val e)) (e_meta e) (e_exp e).
Proof. exact rt_value_slice. Qed.
Print Assumptions C08_record_roundtrip.

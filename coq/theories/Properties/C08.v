(** C08 — value-log separation and GC never change or lose a live value. *)
From Coq Require Import List NArith Bool.
From NoKV Require Import Base.Bytes Base.Num Base.Sched Model.EntryCodec Model.Lsm Model.Vlog Spec.MvccSpec Spec.VlogSpec
     Proofs.VlogProofs Proofs.VlogGcProofs.
Import ListNotations.
Local Open Scope N_scope.

(** One value-log record: what ReadValue decodes is the value that was encoded, for every key,
    value, meta byte and expiry. *)
Theorem C08_record_roundtrip : forall e, entry_ok e ->
  decode_value_slice (enc_entry e) = VsOk (e_val e) (blen (e_key e)) (blen (e_val e)) (e_meta e) (e_exp e).
Proof. exact rt_value_slice. Qed.
Print Assumptions C08_record_roundtrip.

(** Values of any size, for any bucket count, value-log file size (any number of file rotations,
    oversize records included) and threshold, read back byte for byte through GetVersionedEntry
    and through Get/GetCF/Txn.Get, after any history of write requests (single entries or
    transaction batches), memtable rotations and flushes.  [ops_okb] is the side condition of the
    LSM read theorem (C01/C02: positive versions, increasing ghost numbers) plus "no offset,
    length or file id reaches 2^32". *)
Theorem C08_roundtrip : forall c m ops now,
  c_nb c <= two32 -> ops_okb c (init_db c m) nil ops = true ->
  let d := vrun c (init_db c m) ops in
  stores now (fun k v => gobs (db_get d k v)) (fun k v => gobs (db_get_live now d k v)) (vwrites ops).
Proof. exact roundtrip. Qed.
Print Assumptions C08_roundtrip.

(** GC, call-atomic.  The full statement "rewrite never changes a read" is refuted on the
    faithful model: a transactional write whose expiry has passed, GC drops its record and removes
    the file, the LSM entry still points into it -> reads fail in the value log instead of
    reporting the tombstone / not-found (finding C08-F31). *)
Theorem C08_gc_preserves_reads_refuted :
  exists c ops now bk fid nseq k v,
    ops_okb c (init_db c 1) [] ops = true /\
    let d := vrun c (init_db c 1) ops in
    let d' := fst (rewrite c now d bk fid nseq) in
    gobs (db_get d' k v) <> gobs (db_get d k v) /\ gobs (db_get_live now d' k v) <> gobs (db_get_live now d k v).
Proof. exact gc_preserves_reads_refuted. Qed.
Print Assumptions C08_gc_preserves_reads_refuted.

(** What holds, for every state reached by an admissible history (write requests, memtable
    rotations, flushes) and any file: one GC pass changes no read through any point-read API when
    (a) an internal key determines what was written under it ([ikey_funb]: transactional keys,
    whose versions are unique; plain-API keys that were never overwritten) and (b) no
    deleted/expired write holds an out-of-line value (the class of the refutation, C08-F31).
    The other side conditions say that GC's ghost numbers are fresh and nothing reaches 2^32.
    The recency condition of the earlier version of this theorem is gone with the repair of
    LSM.Get (/repo 2f52ea0): GC may re-insert old versions, they no longer shadow newer ones. *)
Theorem C08_gc_preserves_reads_partial : forall c m ops now bk fid nseq,
  c_nb c <= two32 -> ops_okb c (init_db c m) [] ops = true ->
  let ws := vwrites ops in
  let d := vrun c (init_db c m) ops in
  ikey_funb ws = true ->
  forallb (fun w => (0 <? r_ver w) && (r_seq w <? nseq) && negb (is_big c w && dead now w)) ws = true ->
  vsmallb (d_vl (fst (rewrite c now d bk fid nseq))) = true ->
  forall t k v, let d' := fst (rewrite c now d bk fid nseq) in
    gobs (db_get d' k v) = gobs (db_get d k v) /\ gobs (db_get_live t d' k v) = gobs (db_get_live t d k v).
Proof. exact gc_preserves_unique_run. Qed.
Print Assumptions C08_gc_preserves_reads_partial.

(** The two halves in general form (any history, including overwritten plain-API keys):
    (1) the write-back changes no read when every moved entry carries what is visible at its
    internal key ([dups]) with fresh ghost numbers ([chain_ok]); the file stays in this pass.
    (2) the removal of a file from which nothing had to be moved changes no read, unless a
    deleted/expired entry still holds a value pointer. *)
Theorem C08_gc_preserves_reads_partial_writeback : forall c now d ws bk fid nseq wb,
  Inv c d ws -> gc_decide now d bk fid nseq = Some wb -> wb <> [] ->
  chain_ok ws wb -> Forall rec_ok wb -> dups ws wb -> vsmall (d_vl (db_write c d wb)) ->
  forall t k v, let d' := fst (rewrite c now d bk fid nseq) in
    gobs (db_get d' k v) = gobs (db_get d k v) /\ gobs (db_get_live t d' k v) = gobs (db_get_live t d k v).
Proof. exact gc_move_preserves. Qed.
Print Assumptions C08_gc_preserves_reads_partial_writeback.

Theorem C08_gc_preserves_reads_partial_remove : forall c now d ws bk fid nseq,
  Inv c d ws -> gc_decide now d bk fid nseq = Some [] ->
  forallb (fun w => negb (is_big c w && dead now w)) ws = true ->
  forall k v, db_get (fst (rewrite c now d bk fid nseq)) k v = db_get d k v.
Proof. exact gc_remove_preserves. Qed.
Print Assumptions C08_gc_preserves_reads_partial_remove.

(** [Inv] is what every history of admissible operations establishes (used by the two theorems above). *)
Theorem C08_inv_reachable : forall c ops d hist,
  Inv c d hist -> ops_okb c d hist ops = true -> Inv c (vrun c d ops) (hist ++ vwrites ops).
Proof. exact vrun_Inv. Qed.
Print Assumptions C08_inv_reachable.

(** GC against a concurrent writer (rewrite split at its yield point).  Refuted: a plain Set /
    Del of a key GC has decided to move is overwritten by GC's stale copy (finding C08-F12). *)
Theorem C08_gc_sched_refuted :
  exists c ops batch now bk fid nseq sched k,
    ops_okb c (init_db c 1) [] ops = true /\
    let g0 := {| g_db := vrun c (init_db c 1) ops; g_pc := GcStart; g_todo := [batch]; g_acked := vwrites ops |} in
    let g := Sched.run (gtstep c now bk fid nseq) g0 sched in
    g_todo g = [] /\ g_pc g = GcDone /\
    gobs (db_get (g_db g) k max_ver) <> spec_getv (g_acked g) k max_ver.
Proof. exact gc_sched_refuted. Qed.
Print Assumptions C08_gc_sched_refuted.

Theorem C08_gc_sched_delete_resurrected :
  exists c ops batch now bk fid nseq sched k,
    ops_okb c (init_db c 1) [] ops = true /\
    let g0 := {| g_db := vrun c (init_db c 1) ops; g_pc := GcStart; g_todo := [batch]; g_acked := vwrites ops |} in
    let g := Sched.run (gtstep c now bk fid nseq) g0 sched in
    spec_get now (g_acked g) k max_ver = ONone /\
    exists v, gobs (db_get_live now (g_db g) k max_ver) = OVal v 0.
Proof. exact gc_sched_del_refuted. Qed.
Print Assumptions C08_gc_sched_delete_resurrected.

(** What holds for every schedule: if the writer's request does not change what GC decides
    (e.g. transactional writes, whose versions are unique: [stable_ex]), every interleaving ends
    in the state of a serial execution with GC call-atomic. *)
Theorem C08_gc_sched_partial : forall c now bk fid nseq d0 batch acked0,
  gc_decide now (db_write c d0 batch) bk fid nseq = gc_decide now d0 bk fid nseq ->
  forall sched,
    serial c now bk fid nseq d0 batch
           (Sched.run (gtstep c now bk fid nseq)
                      {| g_db := d0; g_pc := GcStart; g_todo := [batch]; g_acked := acked0 |} sched).
Proof. exact serial_all. Qed.
Print Assumptions C08_gc_sched_partial.

(** The routed variant of the model used for the hot/cold-bucket profile of the correspondence
    (the bucket of each out-of-line entry is reported by the harness) is the proved model when the
    reported bucket is the static one. *)
Theorem C08_routed_model_static : forall c d batch now bk fid nseq,
  db_write_r c d (static_route c batch) = db_write c d batch /\
  rewrite_r c now d bk fid nseq [] = rewrite c now d bk fid nseq.
Proof. exact routed_model_static. Qed.
Print Assumptions C08_routed_model_static.

(** The boolean oracle of the correspondence decides equality of observations. *)
Theorem C08_oracle_decides : forall a b, obs_eqb a b = true <-> a = b.
Proof. exact obs_eqb_spec. Qed.
Print Assumptions C08_oracle_decides.

(** Abstract objects of the transaction properties (C03, C04, C05).

    - the *ideal MVCC store* under the transaction layer: a list of written
      (user key, version, value-or-tombstone) triples, newest write first;
      [latest_at s k v] is the entry with the greatest version <= v (on equal
      versions the most recent write);
    - *serial histories*: a transaction is (reads it made from the database
      with their results, writes); [replay] executes transactions one after
      the other on a plain map and checks every read;
    - the boolean trace oracle [trace_ok] used by the correspondence: it looks
      only at the observed calls and results (never at the model) and checks
      snapshot reads, the conflict rule and, through [replay], serializability
      of the observed committed transactions in commit order. *)
From Coq Require Import List NArith Bool.
From NoKV Require Import Base.Bytes.
Import ListNotations.
Local Open Scope N_scope.

(** * Ideal MVCC store *)
Record sentry := { se_key : bytes; se_ver : N; se_val : option bytes }. (* None = tombstone *)
Definition store := list sentry.                                        (* newest write first *)

Fixpoint latest_at (s : store) (k : bytes) (v : N) : option sentry :=
  match s with
  | [] => None
  | e :: s' =>
      let r := latest_at s' k v in
      if bytes_eqb (se_key e) k && (se_ver e <=? v) then
        match r with
        | Some e' => if se_ver e' <=? se_ver e then Some e else Some e'
        | None => Some e
        end
      else r
  end.

(** What a reader at version [v] sees: tombstone or nothing => not found. *)
Definition read_at (s : store) (k : bytes) (v : N) : option bytes :=
  match latest_at s k v with Some e => se_val e | None => None end.

Definition max_ver (s : store) : N := fold_right (fun e m => N.max (se_ver e) m) 0 s.

(** * Serial histories *)
Definition kvs := list (bytes * option bytes).

Fixpoint kv_get (m : kvs) (k : bytes) : option (option bytes) :=
  match m with
  | [] => None
  | (k', v) :: m' => if bytes_eqb k' k then Some v else kv_get m' k
  end.

(** plain map: absent or tombstone = not found *)
Definition sm_read (m : kvs) (k : bytes) : option bytes :=
  match kv_get m k with Some v => v | None => None end.

Definition obytes_eqb (a b : option bytes) : bool :=
  match a, b with
  | None, None => true
  | Some x, Some y => bytes_eqb x y
  | _, _ => false
  end.

Record srec := { sr_reads : kvs; sr_writes : kvs }.

Definition reads_ok (m : kvs) (rs : kvs) : bool :=
  forallb (fun kv => obytes_eqb (sm_read m (fst kv)) (snd kv)) rs.

Fixpoint replay (m : kvs) (h : list srec) : option kvs :=
  match h with
  | [] => Some m
  | r :: h' => if reads_ok m (sr_reads r) then replay (sr_writes r ++ m) h' else None
  end.

(** [h] (in serial order) is a serial execution from the empty database whose
    every read is reproduced and whose final contents are [final]. *)
Definition serial_execution (h : list srec) (final : bytes -> option bytes) : Prop :=
  exists m, replay [] h = Some m /\ forall k, sm_read m k = final k.

(** * Trace oracle (correspondence)

    Observed calls of a single-goroutine interleaving of logical transactions
    (slot ids).  Written from the property text: snapshot isolation of reads,
    own-write overlay, first-committer-wins on read keys, serial replay. *)
Inductive tcall :=
| TBegin (id : N) (update : bool)
| TGet (id : N) (k : bytes) (res : option (option bytes))   (* None = the call returned an error *)
| TWrite (id : N) (k : bytes) (v : option bytes) (ok : bool)
| TCommit (id : N) (ok : bool)
| TDiscard (id : N)
| TFinal (k : bytes) (res : option bytes).                  (* read by a fresh transaction at the end *)

Record otxn := { ot_id : N; ot_update : bool; ot_snap : kvs; ot_since : N; ot_own : kvs; ot_rkeys : list bytes }.

Record ostate := {
  os_map : kvs;                         (* committed contents, serial order *)
  os_ncommit : N;                       (* number of commits so far *)
  os_lastw : list (bytes * N);          (* key -> index of the last commit that wrote it *)
  os_txns : list otxn;                  (* live logical transactions *)
  os_hist : list srec;                  (* committed writers, newest first *)
  os_ok : bool }.

Definition os_init : ostate :=
  {| os_map := []; os_ncommit := 0; os_lastw := []; os_txns := []; os_hist := []; os_ok := true |}.

Fixpoint ot_find (l : list otxn) (id : N) : option otxn :=
  match l with
  | [] => None
  | t :: l' => if ot_id t =? id then Some t else ot_find l' id
  end.
Definition ot_del (l : list otxn) (id : N) : list otxn := filter (fun t => negb (ot_id t =? id)) l.
Definition ot_put (l : list otxn) (t : otxn) : list otxn := t :: ot_del l (ot_id t).

Fixpoint lastw_get (l : list (bytes * N)) (k : bytes) : N :=
  match l with
  | [] => 0
  | (k', n) :: l' => if bytes_eqb k' k then n else lastw_get l' k
  end.

Definition fail (s : ostate) : ostate :=
  {| os_map := os_map s; os_ncommit := os_ncommit s; os_lastw := os_lastw s; os_txns := os_txns s;
     os_hist := os_hist s; os_ok := false |}.
Definition with_txns (s : ostate) (l : list otxn) : ostate :=
  {| os_map := os_map s; os_ncommit := os_ncommit s; os_lastw := os_lastw s; os_txns := l;
     os_hist := os_hist s; os_ok := os_ok s |}.

Definition ostep (detect : bool) (s : ostate) (c : tcall) : ostate :=
  match c with
  | TBegin id u =>
      with_txns s (ot_put (os_txns s)
        {| ot_id := id; ot_update := u; ot_snap := os_map s; ot_since := os_ncommit s; ot_own := []; ot_rkeys := [] |})
  | TGet id k res =>
      match ot_find (os_txns s) id, res with
      | Some t, Some r =>
          match (if ot_update t then kv_get (ot_own t) k else None) with
          | Some v => if obytes_eqb v r then s else fail s
          | None =>
              let s' := with_txns s (ot_put (os_txns s)
                 {| ot_id := id; ot_update := ot_update t; ot_snap := ot_snap t; ot_since := ot_since t;
                    ot_own := ot_own t; ot_rkeys := k :: ot_rkeys t |}) in
              if obytes_eqb (sm_read (ot_snap t) k) r then s' else fail s'
          end
      | _, _ => s
      end
  | TWrite id k v ok =>
      match ot_find (os_txns s) id with
      | Some t =>
          if ok then
            if ot_update t then
              with_txns s (ot_put (os_txns s)
                {| ot_id := id; ot_update := true; ot_snap := ot_snap t; ot_since := ot_since t;
                   ot_own := (k, v) :: ot_own t; ot_rkeys := ot_rkeys t |})
            else fail s                      (* a read-only transaction accepted a write *)
          else s
      | None => if ok then fail s else s
      end
  | TCommit id ok =>
      match ot_find (os_txns s) id with
      | Some t =>
          let s1 := with_txns s (ot_del (os_txns s) id) in
          if ok then
            match ot_own t with
            | [] => s1
            | _ =>
              let stale := existsb (fun k => ot_since t <? lastw_get (os_lastw s) k) (ot_rkeys t) in
              let n := os_ncommit s + 1 in
              let s2 := {| os_map := ot_own t ++ os_map s; os_ncommit := n;
                           os_lastw := map (fun kv => (fst kv, n)) (ot_own t) ++ os_lastw s;
                           os_txns := os_txns s1;
                           os_hist := {| sr_reads := map (fun k => (k, sm_read (ot_snap t) k)) (ot_rkeys t);
                                         sr_writes := ot_own t |} :: os_hist s;
                           os_ok := os_ok s |} in
              if detect && stale then fail s2 else s2
            end
          else s1
      | None => s
      end
  | TDiscard id => with_txns s (ot_del (os_txns s) id)
  | TFinal k res => if obytes_eqb (sm_read (os_map s) k) res then s else fail s
  end.

Definition orun (detect : bool) (tr : list tcall) : ostate := fold_left (ostep detect) tr os_init.

(** With conflict detection the committed writers must moreover replay serially. *)
Definition trace_ok (detect : bool) (tr : list tcall) : bool :=
  let s := orun detect tr in
  os_ok s &&
  (negb detect ||
   match replay [] (rev (os_hist s)) with
   | Some m => forallb (fun kv => obytes_eqb (sm_read m (fst kv)) (sm_read (os_map s) (fst kv))) (os_map s)
   | None => false
   end).

(** * Version oracle of C04 (correspondence)

    Input: the successfully committed write sets, newest first, and for every
    key its observed versions [(version, value)], newest first.  Every commit
    must appear with all its keys at one version, commits in strictly
    increasing version order, and nothing else may be stored. *)
Definition dumps := list (bytes * list (N * option bytes)).

Fixpoint dump_get (d : dumps) (k : bytes) : list (N * option bytes) :=
  match d with
  | [] => []
  | (k', l) :: d' => if bytes_eqb k' k then l else dump_get d' k
  end.
Definition dump_set (d : dumps) (k : bytes) (l : list (N * option bytes)) : dumps :=
  (k, l) :: filter (fun e => negb (bytes_eqb (fst e) k)) d.

Fixpoint nodup_keys (ws : kvs) : kvs :=
  match ws with
  | [] => []
  | (k, v) :: ws' => (k, v) :: filter (fun e => negb (bytes_eqb (fst e) k)) (nodup_keys ws')
  end.

(** pops the newest version of every key written by one commit; returns the
    remaining dumps and the versions met. *)
Fixpoint pop_commit (ws : kvs) (d : dumps) : option (dumps * list N) :=
  match ws with
  | [] => Some (d, [])
  | (k, v) :: ws' =>
      match dump_get d k with
      | (ver, x) :: rest =>
          if obytes_eqb x v then
            match pop_commit ws' (dump_set d k rest) with
            | Some (d', vs) => Some (d', ver :: vs)
            | None => None
            end
          else None
      | [] => None
      end
  end.

Definition all_eq (l : list N) : option N :=
  match l with
  | [] => None
  | x :: l' => if forallb (N.eqb x) l' then Some x else None
  end.

(** [above]: the version of the next newer commit (None for the newest). *)
Fixpoint dumps_ok_from (hist : list kvs) (d : dumps) (above : option N) : bool :=
  match hist with
  | [] => forallb (fun e => match snd e with [] => true | _ => false end) d
  | ws :: hist' =>
      match pop_commit (nodup_keys ws) d with
      | Some (d', vs) =>
          match all_eq vs with
          | Some v =>
              (match above with Some a => v <? a | None => true end) && dumps_ok_from hist' d' (Some v)
          | None => false
          end
      | None => false
      end
  end.

Definition dumps_ok (hist : list kvs) (d : dumps) : bool := dumps_ok_from hist d None.

(** C13 — the abstract object is a log: the list of appended typed records.

    [complete_before c rs]: the longest prefix of [rs] whose encodings end at
    or before byte [c] of the segment that holds exactly [rs].
    The boolean oracle used by the correspondence works from the *observed*
    [EntryInfo]s that [AppendRecords] returned (segment, offset), not from the
    model's placement. *)
From Coq Require Import List NArith Bool.
From Coq Require Import Init.Byte.
From NoKV Require Import Base.Bytes Base.Num.
Import ListNotations.
Local Open Scope N_scope.

Definition rec := (byte * bytes)%type.

(** on-disk size of a record: 4 (length) + 1 (type) + payload + 4 (crc) *)
Definition rec_size (r : rec) : N := blen (snd r) + 9.

(** the framing can express the record: the length word [len(payload)+1] fits 32 bits *)
Definition rec_ok (r : rec) : Prop := blen (snd r) + 1 < two32.

Fixpoint complete_before (c : N) (rs : list rec) : list rec :=
  match rs with
  | [] => []
  | r :: rs' => if rec_size r <=? c then r :: complete_before (c - rec_size r) rs' else []
  end.

(** A placement: which records went to which segment, oldest segment first. *)
Definition layout := list (list rec).

(** what must be replayed when the last segment is cut at [c] *)
Definition surviving (lay : layout) (c : N) : list rec :=
  concat (removelast lay) ++ complete_before c (last lay []).

(** Oracle on observed placements: record [i] was reported at
    [(seg_i, off_i)]; it is complete iff it lies in an older segment or ends
    at or before the cut of segment [lastseg]. *)
Fixpoint survivors_b (lastseg cut : N) (rs : list rec) (infos : list (N * N)) : list rec :=
  match rs, infos with
  | r :: rs', (s, o) :: infos' =>
      if (s <? lastseg) || ((s =? lastseg) && (o + rec_size r <=? cut))
      then r :: survivors_b lastseg cut rs' infos'
      else []
  | _, _ => []
  end.

Fixpoint recs_eqb (a b : list rec) : bool :=
  match a, b with
  | [], [] => true
  | (t1, p1) :: a', (t2, p2) :: b' => byte_eqb t1 t2 && bytes_eqb p1 p2 && recs_eqb a' b'
  | _, _ => false
  end.

(** Specification side of C22 / C23.

    1. What is assumed of the etcd raft library (it is not modelled): stated
       as predicates on the global trace that drives [Model.CmdPipeline]; they
       are premises of the theorems.
    2. The properties themselves, against the simplest abstract objects: the
       list of delivered commands (C22 same sequence), the registered
       proposal (C22 response matches), the committed command list executed
       sequentially (C23 reads).
    3. The register-map state machine used by the correspondence harness as
       [Config.CommandApplier], and boolean oracles on *observed* traces,
       written after the properties and independent of the pipeline model. *)
From Coq Require Import List NArith Bool.
From NoKV Require Import Base.Bytes Spec.SerialSpec Spec.Linearizable Model.CmdPipeline.
Import ListNotations.
Local Open Scope N_scope.

Section Spec.
  Context {cmd resp sm : Type}.
  Variable applier : sm -> cmd -> sm * option resp.

  (** Sequential execution of a command list: the abstract replicated object. *)
  Definition exec_cmds (m : sm) (cs : list cmd) : sm := fold_left (fun m c => fst (applier m c)) cs m.

  (** The commands of a list of committed entries, in order: what every
      replica has to execute. *)
  Fixpoint cmds_of (es : list (entry cmd)) : list (N * N * cmd) :=
    match es with
    | [] => []
    | e :: es' =>
        match e_kind e, e_data e with
        | ENormal, PCmd _ id c => (e_index e, id, c) :: cmds_of es'
        | _, _ => cmds_of es'
        end
    end.

  (** Entries the pipeline can digest: no undecodable / legacy payload, and the
      applier accepts every command. (An applier error aborts the batch; what
      the peer does then is outside C22.) *)
  Definition digestible (e : entry cmd) : Prop :=
    match e_kind e, e_data e with
    | ENormal, PGarbage | ENormal, PLegacy => False
    | _, _ => True
    end.
  Definition applier_total : Prop := forall m c, snd (applier m c) <> None.

  (** ** C22, same sequence: a store incarnation that was handed the batches
      [bs] has executed exactly the commands of [concat bs], in that order,
      each once. *)
  Definition applied_cmds (s : store cmd resp sm N) : list (N * N * cmd) :=
    map (fun a => (ap_index a, ap_reqid a, ap_cmd a)) (rev (s_log s)).
  Definition run_batches (bs : list (list (entry cmd))) (s : store cmd resp sm N) : store cmd resp sm N :=
    fold_left (fun s es => fst (handle_committed applier es s)) bs s.

  (** *** Assumption on raft (ordered delivery + log matching): the batches
      handed to one incarnation are, concatenated, the part of the one
      committed sequence [committed] that starts at the storage's first
      index (position [first]) — a contiguous segment, nothing skipped,
      nothing repeated. *)
  Definition delivery_ok (committed : list (entry cmd)) (first : nat) (bs : list (list (entry cmd))) : Prop :=
    exists n, concat bs = firstn n (skipn first committed).

  (** ** C22, response matches *)
  Variable init_sm : sm.
  Variable nid : N -> pipe N -> N * pipe N.

  (** *** Assumptions on raft. [P]: the proposals registered during the trace
      (store, incarnation = number of restarts of that store so far, the term
      in which the store saw itself as leader). *)
  (** Election safety + durable terms: a term has one leader, and a store that
      restarts has to win a later term before it is leader again.  So two
      proposals accepted for the same region (raft group) under the same term come
      from the same incarnation of the same store.  Terms of different regions
      are unrelated. *)
  Definition election_safe (P : list (proposal cmd)) : Prop :=
    forall p1 p2, In p1 P -> In p2 P -> pr_region p1 = pr_region p2 -> pr_term p1 = pr_term p2 ->
                  pr_store p1 = pr_store p2 /\ pr_inc p1 = pr_inc p2.
  (** Validity: raft delivers only entries that some ProposeCommand created:
      the id and the command of a delivered command entry are those of a
      registered proposal. *)
  Definition entries_valid (tr : list (gevent cmd)) : Prop :=
    forall s es region id c e, In (GDeliver s es) tr -> In e es -> e_data e = PCmd region id c ->
      exists pr, In pr (g_props (grun applier init_sm nid tr)) /\
                 pr_region pr = region /\ pr_id pr = id /\ pr_cmd pr = c.
  (** Ranges: terms and the number of calls stay below 2^32 (the id packs a
      term and a counter into 64 bits). *)
  Definition calls_of (tr : list (gevent cmd)) : N :=
    N.of_nat (length (filter (fun e => match e with GPropose _ _ _ _ _ | GRead _ _ _ => true | _ => false end) tr)).
  Definition terms_ok (P : list (proposal cmd)) : Prop := forall p, In p P -> 0 < pr_term p < 2^32.
  Definition calls_small (tr : list (gevent cmd)) : Prop := calls_of tr < 2^32 - 1.

  (** *** The property: whoever is handed a result registered a proposal on
      that store, for the region and under the id of the entry that produced the result, and that
      entry carries the command of this very proposal. *)
  Definition response_matches (g : gstate cmd resp sm) : Prop :=
    forall s k, In k (completions g s) ->
      exists pr, In pr (g_props g) /\ pr_w pr = k_w k /\ pr_store pr = s /\
                 pr_region pr = ap_region (k_by k) /\ pr_id pr = ap_reqid (k_by k) /\ pr_cmd pr = ap_cmd (k_by k).

  (** ** C23, reads. [committed]: the one committed sequence (log matching).
      A read served at a store that has executed the first [n] entries
      returns what the applier answers in the state after these [n] entries. *)
  Definition read_after (committed : list (entry cmd)) (n : nat) (c : cmd) (r : option resp) : Prop :=
    r = snd (applier (exec_cmds init_sm (map snd (cmds_of (firstn n committed)))) c).
End Spec.

(** * The register map used by the harness as state machine *)
Inductive rop := RPut (k v : N) | RGet (k : N) | RFail.
Record rcmd := { c_uid : N; c_op : rop }.
Definition rresp := (N * option N)%type.       (* the uid of the command applied, and the value read / replaced *)
Definition rsm := list (N * N).
Fixpoint rget (m : rsm) (k : N) : option N :=
  match m with
  | [] => None
  | (k', v) :: m' => if k' =? k then Some v else rget m' k
  end.
Definition rapply (m : rsm) (c : rcmd) : rsm * option rresp :=
  match c_op c with
  | RPut k v => ((k, v) :: m, Some (c_uid c, rget m k))
  | RGet k => (m, Some (c_uid c, rget m k))
  | RFail => (m, None)
  end.

Definition rop_eqb (a b : rop) : bool :=
  match a, b with
  | RPut k v, RPut k' v' => (k =? k') && (v =? v')
  | RGet k, RGet k' => k =? k'
  | RFail, RFail => true
  | _, _ => false
  end.
Definition rcmd_eqb (a b : rcmd) : bool := (c_uid a =? c_uid b) && rop_eqb (c_op a) (c_op b).
Definition on_eqb (a b : option N) : bool :=
  match a, b with
  | None, None => true
  | Some x, Some y => x =? y
  | _, _ => false
  end.

(** * Oracles on observed traces (no pipeline model involved) *)
(** What the harness observed, in global real-time order. *)
(** [PoDropped]: raft refused the proposal / read-index request (e.g. during a leader transfer) and the call
    returned an error at once. *)
Inductive pobs := PoNotLeader | PoRegistered (id : N) | PoStarted | PoDropped | PoOther.
Inductive robs := RoOk (uid : N) (v : option N) | RoNotLeader | RoErr.
Inductive oev :=
| OStart (s : N)                                                (* store s restarted from its directory *)
| OPropose (s region w : N) (c : rcmd) (leader : bool) (term : N) (o : pobs)  (* ProposeCommand called; status seen just before *)
| ORead (s region w : N) (c : rcmd) (leader : bool) (term : N) (o : pobs)     (* ReadCommand called *)
| OApply (s region index term reqid : N) (c : rcmd) (r : option rresp) (* apply observer hook *)
| OServe (s region w ridx mark : N)                             (* read observer hook: read index, applyMark.DoneUntil of the region's peer *)
| OExec (s w : N) (r : option rresp)                            (* the applier ran for a ReadCommand *)
| ORet (w : N) (o : robs).                                      (* the client call returned *)

Definition applies (evs : list oev) : list (N * N * N * N * rcmd) :=
  flat_map (fun e => match e with OApply s g i _ id c _ => [(s, g, i, id, c)] | _ => [] end) evs.

(** C22 (a): all stores agree on what sits at an index of a region's log (observed log matching). *)
Definition agree (evs : list oev) : Prop :=
  forall s g i id c s' id' c', In (s, g, i, id, c) (applies evs) -> In (s', g, i, id', c') (applies evs) ->
                               id = id' /\ rcmd_eqb c c' = true.
Definition agree_b (evs : list oev) : bool :=
  forallb (fun x => forallb (fun y =>
     match x, y with
     | (_, g, i, id, c), (_, g', i', id', c') => negb ((g =? g') && (i =? i')) || ((id =? id') && rcmd_eqb c c')
     end) (applies evs)) (applies evs).

(** C22 (b): within one incarnation of a store the indices applied for a region
    increase strictly and skip no index at which any store applied a command
    of that region. *)
Definition skey (s g : N) : N := s * 2^32 + g.
Fixpoint segments (evs : list oev) (cur : list (N * (N * list N))) : list (N * list N) :=
  (* per (store, region): region and indices applied in the current incarnation, newest first *)
  match evs with
  | [] => map snd cur
  | OStart s :: evs' =>
      map snd (filter (fun x => fst x / 2^32 =? s) cur) ++ segments evs' (filter (fun x => negb (fst x / 2^32 =? s)) cur)
  | OApply s g i _ _ _ _ :: evs' =>
      match find (fun x => fst x =? skey s g) cur with
      | Some (_, (_, l)) => segments evs' ((skey s g, (g, i :: l)) :: filter (fun x => negb (fst x =? skey s g)) cur)
      | None => segments evs' ((skey s g, (g, [i])) :: cur)
      end
  | _ :: evs' => segments evs' cur
  end.
Fixpoint decreasing (l : list N) : bool :=
  match l with
  | a :: (b :: _) as l' => (b <? a) && decreasing l'
  | _ => true
  end.
Definition no_skip_b (all : list N) (seg : list N) : bool :=
  match seg with
  | [] => true
  | hi :: _ => let lo := last seg 0 in
               forallb (fun i => negb ((lo <? i) && (i <? hi)) || existsb (N.eqb i) seg) all
  end.
Definition in_order_b (evs : list oev) : bool :=
  forallb (fun gs =>
     let all := flat_map (fun x => match x with (_, g, i, _, _) => if g =? fst gs then [i] else [] end) (applies evs) in
     decreasing (snd gs) && no_skip_b all (snd gs)) (segments evs []).

(** C22 (c): a proposal answered with success got the answer its own command
    produced on the store it was sent to, and that command sits at exactly
    one index of the log; a proposal answered NotLeader was never applied. *)
Definition indices_of (evs : list oev) (uid : N) : list N :=
  nodup N.eq_dec (flat_map (fun x => match x with (_, g, i, _, c) => if c_uid c =? uid then [g * 2^40 + i] else [] end) (applies evs)).
Definition answer_seen (evs : list oev) (s uid : N) (v : option N) : bool :=
  existsb (fun e => match e with
                    | OApply s' _ _ _ _ c (Some (u, v')) => (s' =? s) && (c_uid c =? uid) && (u =? uid) && on_eqb v v'
                    | _ => false
                    end) evs.
Definition ret_of (evs : list oev) (w : N) : option robs :=
  match find (fun e => match e with ORet w' _ => w' =? w | _ => false end) evs with
  | Some (ORet _ o) => Some o
  | _ => None
  end.
Definition answers_b (evs : list oev) : bool :=
  forallb (fun e => match e with
                    | OPropose s _ w c _ _ _ =>
                        match ret_of evs w with
                        | Some (RoOk uid v) =>
                            (uid =? c_uid c) && (N.of_nat (length (indices_of evs (c_uid c))) =? 1) &&
                            answer_seen evs s (c_uid c) v
                        | Some RoNotLeader => N.of_nat (length (indices_of evs (c_uid c))) =? 0
                        | _ => true
                        end
                    | _ => true
                    end) evs.

Definition c22_ok (evs : list oev) : bool := agree_b evs && in_order_b evs && answers_b evs.

(** C23 (a): a store whose raft status is not leader answers NotLeader. *)
Definition not_leader_b (evs : list oev) : bool :=
  forallb (fun e => match e with
                    | OPropose _ _ w _ false _ _ | ORead _ _ w _ false _ _ =>
                        match ret_of evs w with Some RoNotLeader => true | _ => false end
                    | _ => true
                    end) evs.

(** C23 (b): the history of acknowledged calls is linearizable as a register
    map. Stamps are positions in the event list; a write whose call did not
    return success but that was applied somewhere is kept with an open end. *)
Definition kbytes (k : N) : bytes := [n2b k].
Definition vbytes (v : N) : bytes := [n2b (v / 65536); n2b (v / 256); n2b v].
Definition big : N := 1000000.
Fixpoint ret_pos (evs : list oev) (w : N) (i : N) : option (N * robs) :=
  match evs with
  | [] => None
  | ORet w' o :: evs' => if w' =? w then Some (i, o) else ret_pos evs' w (i + 1)
  | _ :: evs' => ret_pos evs' w (i + 1)
  end.
Fixpoint history_from (all evs : list oev) (i : N) : list lop :=
  match evs with
  | [] => []
  | e :: evs' =>
      let rest := history_from all evs' (i + 1) in
      match e with
      | OPropose _ _ w c true _ _ | ORead _ _ w c true _ _ =>
          match c_op c, ret_pos all w 0 with
          | RPut k v, Some (j, RoOk _ _) =>
              {| l_tid := w; l_call := i; l_ret := j; l_kind := LWrite (kbytes k) (Some (vbytes v)) true |} :: rest
          | RPut k v, _ =>
              match indices_of all (c_uid c) with
              | [] => rest
              | _ => {| l_tid := w; l_call := i; l_ret := big; l_kind := LWrite (kbytes k) (Some (vbytes v)) true |} :: rest
              end
          | RGet k, Some (j, RoOk _ v) =>
              {| l_tid := w; l_call := i; l_ret := j; l_kind := LRead (kbytes k) (option_map vbytes v) |} :: rest
          | _, _ => rest
          end
      | _ => rest
      end
  end.
Definition history (evs : list oev) : list lop := history_from evs evs 0.
Definition c23_ok (evs : list oev) : bool := not_leader_b evs && lin_check (history evs).

(** C31 — what the RESP parser must do, stated without reference to the parser.

    * encoders: the wire form of a RESP array of bulk strings (nil bulks
      included) and of an inline command;
    * the allocation bound: bytes requested from the allocator on behalf of
      declared lengths are at most [alloc_c1 * consumed + alloc_c0];
    * [obs_ok]: what an observed run of the real parser (outcome class,
      arguments, bytes consumed, bytes allocated as measured by
      runtime.MemStats.TotalAlloc) must satisfy, and its boolean form
      [obs_ok_b] used by the correspondence check. *)
From Coq Require Import List NArith ZArith Bool Lia.
From Coq Require Import Init.Byte.
From NoKV Require Import Base.Bytes Model.Resp.
Import ListNotations.
Local Open Scope N_scope.

(** * Decimal printing (strconv.Itoa / FormatInt) *)
Definition digit_byte (d : N) : byte := n2b (48 + d).

Fixpoint digits_rev (fuel : nat) (n : N) : bytes :=
  match fuel with
  | O => []
  | S f => if n <? 10 then [digit_byte n] else digit_byte (n mod 10) :: digits_rev f (n / 10)
  end.

Definition itoa_N (n : N) : bytes := rev (digits_rev (S (N.to_nat (N.log2 n))) n).

Definition itoa_Z (z : Z) : bytes :=
  if (z <? 0)%Z then MINUS :: itoa_N (Z.abs_N z) else itoa_N (Z.to_N z).

(** * Wire encodings *)
Definition crlf : bytes := [CR; LF].

Definition enc_bulk (a : option bytes) : bytes :=
  match a with
  | None => DOLLAR :: MINUS :: x31 :: crlf
  | Some d => DOLLAR :: itoa_N (len d) ++ crlf ++ d ++ crlf
  end.

Definition enc_array (args : list (option bytes)) : bytes :=
  STAR :: itoa_N (N.of_nat (List.length args)) ++ crlf ++ concat (map enc_bulk args).

Fixpoint join_sp (fs : list bytes) : bytes :=
  match fs with
  | [] => []
  | [f] => f
  | f :: fs' => f ++ SPACE :: join_sp fs'
  end.

Definition enc_inline (fs : list bytes) : bytes := join_sp fs ++ crlf.

(** A byte that can neither be nor start a white-space rune. *)
Definition plain_byte (b : byte) : bool :=
  let n := b2n b in
  negb (((9 <=? n) && (n <=? 13)) || (n =? 32) || (n =? 194) || (n =? 225) || (n =? 226) || (n =? 227)).

Definition plain_field (f : bytes) : bool :=
  match f with [] => false | _ => forallb plain_byte f end.

(** Protocol limits (those of Redis): 1M elements, 512MB per bulk string. *)
Definition max_multibulk : N := 1048576.
Definition max_bulk : N := 536870912.

Definition bulk_within (a : option bytes) : bool :=
  match a with None => true | Some d => len d <=? max_bulk end.
Definition array_within (args : list (option bytes)) : bool :=
  (N.of_nat (List.length args) <=? max_multibulk) && forallb bulk_within args.

Definition inline_ok (fs : list bytes) : bool :=
  match fs with
  | [] => false
  | f :: _ => forallb plain_field fs && negb (is_prefix [STAR] f)
  end.

(** * Allocation bound *)
Definition alloc_c1 : N := 24.
Definition alloc_c0 : N := 90112.   (* 24*1024 + 65536 *)
Definition alloc_bounded (consumed : N) (allocs : list N) : Prop :=
  sumN allocs <= alloc_c1 * consumed + alloc_c0.

(** * Observations of the real parser *)
Inductive oclass :=
| OOk (isnil : bool) (args : list (option bytes))
| OErr (e : perr)
| OErrOther           (* an error message the model does not know *)
| OPanic              (* recovered runtime panic *)
| OCrash.             (* the process died (out of memory, fatal error, timeout) *)

Record obs := { o_class : oclass; o_consumed : N; o_alloc : N }.

(** What the generator claims the input is. *)
Inductive frame :=
| FNone
| FArray (args : list (option bytes)) (rest : bytes)
| FInline (fs : list bytes) (rest : bytes).

(** The measured figure includes what the model does not list: line strings,
    [strings.Fields], error values, amortised [append] growth.  All of these
    are proportional to the bytes consumed; the constants are generous. *)
Definition meas_c1 : N := 128.
Definition meas_c0 : N := 131072.

Definition obytes_eqb (a b : option bytes) : bool :=
  match a, b with
  | None, None => true
  | Some x, Some y => bytes_eqb x y
  | _, _ => false
  end.

Fixpoint args_eqb (a b : list (option bytes)) : bool :=
  match a, b with
  | [], [] => true
  | x :: a', y :: b' => obytes_eqb x y && args_eqb a' b'
  | _, _ => false
  end.

Definition is_ok_with (o : obs) (args : list (option bytes)) (consumed : N) : bool :=
  match o_class o with
  | OOk _ a => args_eqb a args && (o_consumed o =? consumed)
  | _ => false
  end.

Definition frame_ok_b (input : bytes) (f : frame) (o : obs) : bool :=
  match f with
  | FNone => true
  | FArray args rest =>
      if array_within args && bytes_eqb input (enc_array args ++ rest)
      then is_ok_with o args (len input - len rest) else true
  | FInline fs rest =>
      if inline_ok fs && bytes_eqb input (enc_inline fs ++ rest)
      then is_ok_with o (map Some fs) (len input - len rest) else true
  end.

Definition no_crash_b (o : obs) : bool :=
  match o_class o with OPanic | OCrash => false | _ => true end.

Definition obs_ok_b (input : bytes) (f : frame) (o : obs) : bool :=
  no_crash_b o
  && (o_consumed o <=? len input)
  && (o_alloc o <=? meas_c1 * o_consumed o + meas_c0)
  && frame_ok_b input f o.

Definition frame_ok (input : bytes) (f : frame) (o : obs) : Prop :=
  match f with
  | FNone => True
  | FArray args rest =>
      array_within args = true -> input = enc_array args ++ rest ->
      exists isnil, o_class o = OOk isnil args /\ o_consumed o = len input - len rest
  | FInline fs rest =>
      inline_ok fs = true -> input = enc_inline fs ++ rest ->
      exists isnil, o_class o = OOk isnil (map Some fs) /\ o_consumed o = len input - len rest
  end.

Definition obs_ok (input : bytes) (f : frame) (o : obs) : Prop :=
  o_class o <> OPanic /\ o_class o <> OCrash
  /\ o_consumed o <= len input
  /\ o_alloc o <= meas_c1 * o_consumed o + meas_c0
  /\ frame_ok input f o.

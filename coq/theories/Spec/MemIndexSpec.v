(** What "both memtable engines behave as the same ordered map" means (C07).

    The abstract object: the inserted entries form a map from internal key to
    the last value written for it; an engine presents that map as the list of
    its bindings in internal-key order ([cmpk]: column family and user key
    ascending, version descending).  Lookups and seeks are defined on that
    list exactly as for a table (Spec/SstSpec.v). *)
From Coq Require Import List NArith Bool Sorted.
From Coq Require Import Init.Byte.
From NoKV Require Import Base.Bytes Base.Num Model.Keys Model.Sst Spec.SstSpec.
Import ListNotations.
Local Open Scope N_scope.

Definition has_key (k : bytes) (e : entry) : bool := bytes_eqb (e_key e) k.

(** the last entry written under internal key [k] *)
Definition last_write (ops : list entry) (k : bytes) : option entry := find (has_key k) (rev ops).

(** [l] is the ordered presentation of the map written by [ops] *)
Definition is_map_of (ops l : list entry) : Prop :=
  sorted l /\ forall k, find (has_key k) l = last_write ops k.

(** lookup of (base key, version): the binding with the same base key and the
    greatest version at or below the requested one (order-free definition) *)
Definition mi_search (l : list entry) (q : bytes) : option entry :=
  fold_left newer (filter (cand q) l) None.

(** the same lookup phrased by seek: first binding >= q, if it has q's base key *)
Definition mi_search_seek (l : list entry) (q : bytes) : option entry :=
  match spec_seek true l q with
  | Some e => if same_key q (e_key e) then Some e else None
  | None => None
  end.

(** * Boolean forms *)

Definition is_map_of_b (ops l : list entry) : bool :=
  sorted_b l
  && forallb (fun e => opt_eqb entry_eqb (find (has_key (e_key e)) l) (last_write ops (e_key e))) ops
  && forallb (fun e => opt_eqb entry_eqb (Some e) (last_write ops (e_key e))) l.

(** zero-padded bytewise comparison: the order in which the radix tree keeps its leaves *)
Definition pad (n : nat) (a : bytes) : bytes := a ++ repeat Byte.x00 (n - length a).
Definition pad_cmp (a b : bytes) : comparison :=
  let n := Nat.max (length a) (length b) in bytes_cmp (pad n a) (pad n b).

Definition cmp_eqb (a b : comparison) : bool :=
  match a, b with Eq, Eq | Lt, Lt | Gt, Gt => true | _, _ => false end.

(** the radix order agrees with utils.CompareKeys on every pair of [ks]
    (in particular no key is a zero-extended prefix of another) *)
Definition radix_safe (ks : list bytes) : bool :=
  forallb (fun a => forallb (fun b => cmp_eqb (pad_cmp a b) (cmpk a b)) ks) ks.

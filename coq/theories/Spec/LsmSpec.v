(** The read path scans every source in order — the active memtable, each
    sealed memtable (newest first), the L0 tables (newest first), then for each
    level its ingest buffer and main tables — and keeps the greatest version
    <= v; the first scanned source wins ties ([tier_best] over [scan_srcs]).
    The invariant [scan_inv] says when that returns the latest write: copies
    of one internal key appear most-recent-first in scan order.  No version
    order between sources is needed.

    The grouping of the sources into "tiers" ([tiers_of], [tget], [tier_inv])
    describes the read path before the repair of the first-hit rule (the first
    tier with an answer won); [tier_inv] is stronger than [scan_inv]. *)
From Coq Require Import List NArith Bool.
From NoKV Require Import Base.Bytes Model.Lsm Spec.MvccSpec Proofs.LsmOrder.
Import ListNotations.
Local Open Scope N_scope.

Definition upd (k : bytes) (v : N) (best : option rec) (src : list rec) : option rec :=
  match src_search k v src with
  | Some x => if (match best with Some b => r_ver b | None => 0 end) <? r_ver x then Some x else best
  | None => best
  end.
Definition tier_best (k : bytes) (v : N) (srcs : list (list rec)) : option rec := fold_left (upd k v) srcs None.
Definition tget (k : bytes) (v : N) (tiers : list (list (list rec))) : option rec :=
  first_some (map (tier_best k v) tiers).

Definition level_srcs (lv : level) : list (list rec) :=
  map t_recs (concat (map (@rev table) (lv_shards lv)) ++ lv_main lv).
Definition tiers_of (s : state) : list (list (list rec)) :=
  [[st_mem s]] ++ map (fun m => [snd m]) (rev (st_imms s)) ++ [map t_recs (rev (st_l0 s))]
  ++ map level_srcs (st_lvls s).

Definition all_recs (tiers : list (list (list rec))) : list rec := concat (concat tiers).

(** Every source of the state in scan order. *)
Definition scan_srcs (s : state) : list (list rec) := concat (tiers_of s).

(** [geq x y]: [x] is at least as recent as [y] (version, then acknowledgement order). *)
Definition geq (x y : rec) : Prop := r_ver y < r_ver x \/ (r_ver x = r_ver y /\ r_seq y <= r_seq x).

(** Within a tier, equal versions of a key appear most-recent-first in scan order. *)
Definition within_ok (srcs : list (list rec)) : Prop :=
  forall l1 l2, srcs = l1 ++ l2 -> forall x y, In x (concat l1) -> In y (concat l2) ->
    r_key x = r_key y -> r_ver x = r_ver y -> r_seq y <= r_seq x.
(** Across tiers, everything about a key in an earlier tier is at least as recent. *)
Definition cross_ok (tiers : list (list (list rec))) : Prop :=
  forall l1 l2, tiers = l1 ++ l2 -> forall x y, In x (all_recs l1) -> In y (all_recs l2) ->
    r_key x = r_key y -> geq x y.

Record tier_inv (tiers : list (list (list rec))) : Prop := {
  ti_sorted : Forall (Forall sorted) tiers;
  ti_pos : forall x, In x (all_recs tiers) -> 0 < r_ver x;
  ti_within : Forall within_ok tiers;
  ti_cross : cross_ok tiers }.

(** The invariant of the scan: sorted sources, positive versions, and equal
    internal keys most-recent-first in scan order. *)
Definition scan_inv (srcs : list (list rec)) : Prop :=
  Forall sorted srcs /\ (forall x, In x (concat srcs) -> 0 < r_ver x) /\ within_ok srcs.

(** [o] is the latest write to [k] at or below [v] among [ws]. *)
Definition is_latest (ws : list rec) (k : bytes) (v : N) (o : option rec) : Prop :=
  match o with
  | Some x => In x ws /\ is_cand k v x /\ forall y, In y ws -> is_cand k v y -> geq x y
  | None => forall y, In y ws -> ~ is_cand k v y
  end.

(** The ghost sequence number identifies the write. *)
Definition seq_functional (ws : list rec) : Prop :=
  forall x y, In x ws -> In y ws -> r_seq x = r_seq y -> x = y.

(** Structural side conditions under which the pruned search of a level's main
    tables equals scanning all of them: sorted, pairwise disjoint key ranges. *)
Fixpoint main_disjoint (ts : list table) : Prop :=
  match ts with
  | [] => True
  | t :: ts' => t_recs t <> [] /\ Forall (fun u => bytes_ltb (t_max t) (t_min u) = true) ts' /\ main_disjoint ts'
  end.

Record struct_inv (s : state) : Prop := {
  si_main : Forall (fun lv => main_disjoint (lv_main lv)) (st_lvls s) }.

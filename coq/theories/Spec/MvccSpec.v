(** The abstract multi-version store: the history of acknowledged writes.
    [latest_at ws k v] is the write to base key [k] with the greatest version
    <= [v]; among equal versions the most recently acknowledged one (greatest
    ghost sequence number) — "last writer wins". *)
From Coq Require Import List NArith Bool.
From NoKV Require Import Base.Bytes Model.Lsm.
Import ListNotations.
Local Open Scope N_scope.

(** [better a b]: [a] is preferred to [b]. *)
Definition better (a b : rec) : bool :=
  (r_ver b <? r_ver a) || ((r_ver a =? r_ver b) && (r_seq b <? r_seq a)).

Definition cand (k : bytes) (v : N) (r : rec) : bool := bytes_eqb (r_key r) k && (r_ver r <=? v).

Definition pick_better (best : option rec) (r : rec) : option rec :=
  match best with
  | None => Some r
  | Some b => if better r b then Some r else Some b
  end.

Definition latest_at (ws : list rec) (k : bytes) (v : N) : option rec :=
  fold_left pick_better (filter (cand k v) ws) None.

(** Everything stored anywhere in an LSM state. *)
Definition level_recs (lv : level) : list rec :=
  concat (map t_recs (concat (lv_shards lv))) ++ concat (map t_recs (lv_main lv)).
Definition contents (s : state) : list rec :=
  st_mem s ++ concat (map snd (st_imms s)) ++ concat (map t_recs (st_l0 s))
  ++ concat (map level_recs (st_lvls s)).

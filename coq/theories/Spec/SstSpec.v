(** What "a table serves exactly the entries it was built from" means (C35).

    The abstract object is the one Model/Lsm.v uses for a table: the list of
    entries, sorted by internal key (base key ascending, version descending =
    [cmpk] ascending).  Everything a table answers is defined on that list. *)
From Coq Require Import List NArith Bool Sorted.
From NoKV Require Import Base.Bytes Base.Num Model.Keys Model.Sst.
Import ListNotations.
Local Open Scope N_scope.

Definition key_lt (a b : entry) : Prop := cmpk (e_key a) (e_key b) = Lt.

(** strictly ascending internal keys *)
Definition sorted (es : list entry) : Prop := StronglySorted key_lt es.

(** internal keys carry an 8-byte version suffix after a non-empty base key,
    and fit the uint16 header fields *)
Definition key_ok (k : bytes) : Prop := 8 < blen k /\ blen k <= 65535.
Definition keys_ok (es : list entry) : Prop := Forall (fun e => key_ok (e_key e)) es.

(** full iteration *)
Definition spec_iter (asc : bool) (es : list entry) : list entry := if asc then es else rev es.

(** Seek then Next*: forward, every entry at or after the target; reverse,
    every entry at or before it, nearest first *)
Definition spec_from (asc : bool) (es : list entry) (k : bytes) : list entry :=
  if asc then filter (fun e => is_ge (cmpk (e_key e) k)) es
  else rev (filter (fun e => is_le (cmpk (e_key e) k)) es).

(** where Seek lands: first entry >= target / last entry <= target *)
Definition spec_seek (asc : bool) (es : list entry) (k : bytes) : option entry :=
  hd_error (spec_from asc es k).

(** Point lookup at (base key, version) with the caller's running maximum
    [maxvs]: among the entries with the target's base key and a version at or
    below the target's, the one with the greatest version, reported only if
    that version exceeds [maxvs]. Written without reference to any order of
    [es]. *)
Definition cand (k : bytes) (e : entry) : bool :=
  same_key k (e_key e) && (parse_ts (e_key e) <=? parse_ts k).

Definition newer (acc : option entry) (e : entry) : option entry :=
  match acc with
  | None => Some e
  | Some a => if parse_ts (e_key a) <? parse_ts (e_key e) then Some e else acc
  end.

Definition spec_search (es : list entry) (k : bytes) (maxvs : N) : option entry :=
  match fold_left newer (filter (cand k) es) None with
  | Some e => if maxvs <? parse_ts (e_key e) then Some e else None
  | None => None
  end.

(** the same lookup phrased as Model/Lsm.v phrases it (seek, then same base key) *)
Definition spec_search_seek (es : list entry) (k : bytes) (maxvs : N) : option entry :=
  match spec_seek true es k with
  | Some e => if same_key k (e_key e) && (maxvs <? parse_ts (e_key e)) then Some e else None
  | None => None
  end.

(** * Boolean forms used by the correspondence *)

Definition vs_eqb (a b : vstruct) : bool :=
  (vs_meta a =? vs_meta b) && (vs_exp a =? vs_exp b) && bytes_eqb (vs_val a) (vs_val b).
Definition entry_eqb (a b : entry) : bool := bytes_eqb (e_key a) (e_key b) && vs_eqb (e_vs a) (e_vs b).

Fixpoint list_eqb {A} (eqb : A -> A -> bool) (a b : list A) : bool :=
  match a, b with
  | [], [] => true
  | x :: a', y :: b' => eqb x y && list_eqb eqb a' b'
  | _, _ => false
  end.

Definition opt_eqb {A} (eqb : A -> A -> bool) (a b : option A) : bool :=
  match a, b with
  | None, None => true
  | Some x, Some y => eqb x y
  | _, _ => false
  end.

Definition is_lt (c : comparison) : bool := match c with Lt => true | _ => false end.

Fixpoint sorted_b (es : list entry) : bool :=
  match es with
  | [] => true
  | a :: tl => match tl with
               | [] => true
               | b :: _ => is_lt (cmpk (e_key a) (e_key b)) && sorted_b tl
               end
  end.

Definition key_ok_b (k : bytes) : bool := (8 <? blen k) && (blen k <=? 65535).
Definition keys_ok_b (es : list entry) : bool := forallb (fun e => key_ok_b (e_key e)) es.

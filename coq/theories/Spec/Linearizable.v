(** Linearizability of a map of registers (property C34).

    A complete history is a list of operations with the stamps of their call
    and return events (drawn from one global counter) and their results.  It
    is linearizable when the operations can be put in a sequence that (a)
    never places an operation before one that had already returned when it was
    called, and (b) is a legal sequential execution of the register map: a
    read returns the last successfully written value (a delete or nothing =>
    not found), a failed write has no effect.

    [lin_check] is the brute-force decision procedure (Wing & Gong) used by
    the correspondence; it is proved sound and complete in
    [Proofs.LinearizableProofs]. *)
From Coq Require Import List NArith Bool Permutation.
From NoKV Require Import Base.Bytes Spec.SerialSpec.
Import ListNotations.
Local Open Scope N_scope.

Inductive lkind :=
| LWrite (k : bytes) (v : option bytes) (ok : bool)   (* Set / Del; ok = returned nil *)
| LRead (k : bytes) (res : option bytes).

Record lop := { l_tid : N; l_call : N; l_ret : N; l_kind : lkind }.

Definition legal (st : kvs) (o : lop) : bool :=
  match l_kind o with
  | LWrite _ _ _ => true
  | LRead k res => obytes_eqb (sm_read st k) res
  end.

Definition apply_op (st : kvs) (o : lop) : kvs :=
  match l_kind o with
  | LWrite k v true => (k, v) :: st
  | _ => st
  end.

Fixpoint legal_seq (st : kvs) (l : list lop) : bool :=
  match l with
  | [] => true
  | o :: l' => legal st o && legal_seq (apply_op st o) l'
  end.

(** no operation is ordered before one that returned before it was called *)
Fixpoint rt_ok (l : list lop) : Prop :=
  match l with
  | [] => True
  | o :: l' => (forall r, In r l' -> ~ l_ret r < l_call o) /\ rt_ok l'
  end.

Definition linearizable_from (st : kvs) (h : list lop) : Prop :=
  exists lin, Permutation lin h /\ rt_ok lin /\ legal_seq st lin = true.

Definition linearizable (h : list lop) : Prop := linearizable_from [] h.

(** * Decision procedure *)
Fixpoint picks {A} (l : list A) : list (A * list A) :=
  match l with
  | [] => []
  | x :: l' => (x, l') :: map (fun p => (fst p, x :: snd p)) (picks l')
  end.

Definition minimal (o : lop) (rest : list lop) : bool :=
  forallb (fun r => negb (l_ret r <? l_call o)) rest.

Fixpoint search (fuel : nat) (st : kvs) (rem : list lop) : bool :=
  match rem with
  | [] => true
  | _ =>
      match fuel with
      | O => false
      | S f => existsb (fun p => minimal (fst p) (snd p) && legal st (fst p) &&
                                  search f (apply_op st (fst p)) (snd p)) (picks rem)
      end
  end.

(** The same search with lazy connectives: [vm_compute] is call-by-value, so
    [andb]/[orb]/[existsb] would evaluate every branch. *)
Fixpoint any_pick {A} (f : A -> bool) (l : list A) : bool :=
  match l with [] => false | x :: l' => if f x then true else any_pick f l' end.

Fixpoint search_fast (fuel : nat) (st : kvs) (rem : list lop) : bool :=
  match rem with
  | [] => true
  | _ =>
      match fuel with
      | O => false
      | S f => any_pick (fun p => if minimal (fst p) (snd p) then
                                    if legal st (fst p) then search_fast f (apply_op st (fst p)) (snd p)
                                    else false
                                  else false) (picks rem)
      end
  end.

Definition lin_check (h : list lop) : bool := search_fast (length h) [] h.

(** Specification for C28: atomicity of one distributed transaction
    [x] = (start, commit version, primary, keys) in a history that may contain
    anything else (other transactions, readers, resolvers, retries,
    duplicates), stated on the logical protocol state of [Spec/PercoSpec.v]
    (one logical state stands for all regions: the state is per key and a
    request only names keys of its own region).

    What the *participants* must respect is the protocol discipline
    [allowed]: who may send which request of transaction [x] in which
    situation.  It is what a Percolator client and the readers resolving its
    locks are supposed to do, it is executable, and the correspondence check
    evaluates it on the requests the real client and resolver send.

    [atomic x a]: every key of [x] carries [x]'s commit record, or none does. *)
From Coq Require Import List NArith Bool.
From NoKV Require Import Base.Bytes Model.Percolator Model.KvApply Spec.PercoSpec.
Import ListNotations.
Local Open Scope N_scope.

Record tx := { x_start : N; x_commit : N; x_primary : bytes; x_keys : list bytes }.

Definition is_commit_of (s c : N) (r : lrec) : bool :=
  (lr_start r =? s) && (lr_ts r =? c) && negb (op_eqb (lr_kind r) OpRollback).
Definition is_rollback_of (s : N) (r : lrec) : bool :=
  (lr_start r =? s) && op_eqb (lr_kind r) OpRollback.
Definition has_commit (ks : kstate) (s c : N) : bool := existsb (is_commit_of s c) (ks_recs ks).
Definition has_rollback (ks : kstate) (s : N) : bool := existsb (is_rollback_of s) (ks_recs ks).
Definition has_record (ks : kstate) (s : N) : bool := existsb (fun r => lr_start r =? s) (ks_recs ks).
Definition locked_by (ks : kstate) (s : N) : bool :=
  match ks_lock ks with Some l => l_ts (ll_rec l) =? s | None => false end.

Definition primary_committed (x : tx) (a : lstate) : bool :=
  has_commit (ls_at a (x_primary x)) (x_start x) (x_commit x).
Definition primary_rolled_back (x : tx) (a : lstate) : bool :=
  has_rollback (ls_at a (x_primary x)) (x_start x).
(** the keys of [x] currently locked by [x] *)
Definition locked_keys (x : tx) (a : lstate) : list bytes :=
  filter (fun k => locked_by (ls_at a k) (x_start x)) (x_keys x).

Definition mem_key (k : bytes) (ks : list bytes) : bool := existsb (bytes_eqb k) ks.
Definition subset_keys (ks ks' : list bytes) : bool := forallb (fun k => mem_key k ks') ks.

(** [allowed x a g r]: request [r] respects the discipline in logical state
    [a]; [g] is the list of keys of [x] that have been locked by [x] at some
    earlier moment (their prewrite had succeeded).

    - prewrites of [x] name [x]'s primary, touch only [x]'s keys and carry no MinCommitTs;
    - a Commit of [x] uses [x]'s commit version and keys, and is sent either
      after the primary is committed, or -- with the primary as its first key --
      after the prewrite of every key had succeeded;
    - locks of [x] are resolved to commit only after the primary is
      committed, to rollback only after the primary is rolled back;
    - a BatchRollback of [x] comes only after the primary is rolled back;
    - CheckTxnStatus for [x] asks [x]'s primary;
    - other transactions do not use [x]'s commit version (nor as a start
      version) and do not commit at [x]'s start version (unique timestamps). *)
Definition allowed (x : tx) (a : lstate) (g : list bytes) (r : request) : bool :=
  let s := x_start x in let c := x_commit x in
  match r with
  | RPrewrite ms primary s' _ mc =>
      if s' =? s then bytes_eqb primary (x_primary x) && subset_keys (map m_key ms) (x_keys x) && (mc =? 0)
      else negb (s' =? c)
  | RCommit keys s' cv =>
      if s' =? s then
        (cv =? c) && subset_keys keys (x_keys x) &&
        (primary_committed x a ||
         (subset_keys (x_keys x) g && match keys with k :: _ => bytes_eqb k (x_primary x) | [] => true end))
      else negb (cv =? c) && negb (cv =? s) && negb (s' =? c)
  | RResolve keys s' cv =>
      if s' =? s then
        subset_keys keys (x_keys x) &&
        (if cv =? 0 then primary_rolled_back x a else (cv =? c) && primary_committed x a)
      else negb (cv =? c) && (negb (cv =? s) || (cv =? 0)) && negb (s' =? c)
  | RRollback keys s' =>
      if s' =? s then primary_rolled_back x a else negb (s' =? c)
  | RCheck primary lts _ _ _ =>
      if lts =? s then bytes_eqb primary (x_primary x) else negb (lts =? c)
  | RGet _ _ | RScan _ _ _ _ => true
  end.

(** a disciplined run: the logical state and the ghost flag after [h], or [None] if some request was not allowed *)
Fixpoint drun_from (x : tx) (a : lstate) (g : list bytes) (h : list request) : option (lstate * list bytes) :=
  match h with
  | [] => Some (a, g)
  | r :: h' =>
      if allowed x a g r then
        let a' := fst (lstep a r) in drun_from x a' (g ++ locked_keys x a') h'
      else None
  end.
Definition drun (x : tx) (h : list request) : option (lstate * list bytes) := drun_from x lempty [] h.

Definition commit_visible (x : tx) (a : lstate) (k : bytes) : bool :=
  has_commit (ls_at a k) (x_start x) (x_commit x).
Definition no_commit (x : tx) (a : lstate) (k : bytes) : bool :=
  negb (existsb (fun r => (lr_start r =? x_start x) && negb (op_eqb (lr_kind r) OpRollback)) (ks_recs (ls_at a k))).

(** all-or-nothing *)
Definition atomic (x : tx) (a : lstate) : Prop :=
  (forall k, In k (x_keys x) -> commit_visible x a k = true) \/
  (forall k, In k (x_keys x) -> no_commit x a k = true).
Definition atomic_b (x : tx) (a : lstate) : bool :=
  forallb (commit_visible x a) (x_keys x) || forallb (no_commit x a) (x_keys x).

(** resolved: no key of [x] is still locked by [x] *)
Definition resolved (x : tx) (a : lstate) : bool :=
  forallb (fun k => negb (locked_by (ls_at a k) (x_start x))) (x_keys x).

Definition tx_ok (x : tx) : bool :=
  (x_start x <? x_commit x) && mem_key (x_primary x) (x_keys x) && keys_ok (x_keys x).

(** Specification of scans (property C06) against the abstract multi-version
    store of Spec/MvccSpec.v: the history [ws] of acknowledged writes, plus the
    pending writes [pw] of the scanning transaction.

    A scan of the default column family at read timestamp [readTs] lists, for
    every user key written so far, in ascending user-key order (descending when
    reversed):

      - the newest write at or below [readTs] (a pending write of the
        transaction itself counts as newest), provided it is neither a
        tombstone nor expired and (when SinceTs > 0) its version is above
        SinceTs;
      - with AllVersions: every version at or below [readTs] that is live,
        newest first (the whole listing is mirrored when reversed);

    restricted to the keys inside [LowerBound, UpperBound), with the prefix
    (equal to the key for NewKeyIterator), at or after (before, when reversed)
    the seek target.  Values are those of the winning write, i.e. what a point
    read of the key returns.  DB.NewIterator is the same scan at the maximal
    read timestamp without pending writes.

    The definitions are executable: [spec_scan] is at the same time the
    boolean oracle's reference ([scan_ok_b]). *)
From Coq Require Import List NArith Bool Sorting.Sorted.
From NoKV Require Import Base.Bytes Model.Keys Model.Lsm Spec.MvccSpec.
Import ListNotations.
Local Open Scope N_scope.

Record sitem := { s_key : bytes; s_ver : N; s_val : bytes }.

Record sopts := {
  so_rev : bool; so_all : bool;
  so_pik : bool; so_prefix : bytes; so_since : N; so_lower : bytes; so_upper : bytes;
  so_target : option bytes }.

Definition s_deleted (x : rec) : bool := negb (N.land (r_meta x) 1 =? 0).
Definition s_expired (now : N) (x : rec) : bool := negb (r_exp x =? 0) && (r_exp x <=? now).
Definition live (now : N) (x : rec) : bool := negb (s_deleted x || s_expired now x).

(** user key of a base key of the default column family *)
Definition default_ukey (bk : bytes) : option bytes :=
  match decode_key_cf bk with
  | (cf, u, true) => if cf =? cf_default then Some u else None
  | _ => None
  end.

(** sorted list of distinct byte strings *)
Fixpoint ins_key (k : bytes) (l : list bytes) : list bytes :=
  match l with
  | [] => [k]
  | x :: l' =>
      match bytes_cmp k x with
      | Lt => k :: l
      | Eq => l
      | Gt => x :: ins_key k l'
      end
  end.
Definition key_set (ks : list bytes) : list bytes := fold_right ins_key [] ks.

Fixpoint opt_list {A} (l : list (option A)) : list A :=
  match l with
  | [] => []
  | Some x :: l' => x :: opt_list l'
  | None :: l' => opt_list l'
  end.

Definition ukeys (ws pw : list rec) : list bytes :=
  key_set (opt_list (map (fun r => default_ukey (r_key r)) (ws ++ pw))).

Definition sbase (u : bytes) : bytes := enc_cf_key cf_default u.

(** What the transaction sees at (key, version v <= readTs): its own pending
    write when v = readTs, otherwise the latest acknowledged write. *)
Definition pending_of (pw : list rec) (bk : bytes) : option rec :=
  find (fun p => bytes_eqb (r_key p) bk) pw.

Definition view_at (ws pw : list rec) (readTs : N) (bk : bytes) (v : N) : option rec :=
  if v =? readTs then
    match pending_of pw bk with
    | Some p => Some p
    | None => latest_at ws bk v
    end
  else latest_at ws bk v.

(** The point read of the snapshot. *)
Definition view (ws pw : list rec) (readTs : N) (bk : bytes) : option rec := view_at ws pw readTs bk readTs.

Definition nonemptyb (b : bytes) : bool := match b with [] => false | _ => true end.

Definition key_ok (o : sopts) (u : bytes) : bool :=
  (negb (nonemptyb (so_lower o)) || bytes_leb (so_lower o) u)
  && (negb (nonemptyb (so_upper o)) || bytes_ltb u (so_upper o))
  && (negb (nonemptyb (so_prefix o)) || (if so_pik o then bytes_eqb u (so_prefix o) else is_prefix (so_prefix o) u))
  && match so_target o with
     | None => true
     | Some t => if so_rev o then bytes_leb u t else bytes_leb t u
     end.

Definition ver_ok (o : sopts) (v : N) : bool := negb (0 <? so_since o) || (so_since o <? v).

Definition to_item (u : bytes) (x : rec) : sitem := {| s_key := u; s_ver := r_ver x; s_val := r_val x |}.

(** distinct versions, descending *)
Fixpoint ins_ver (v : N) (l : list N) : list N :=
  match l with
  | [] => [v]
  | x :: l' => if x <? v then v :: l else if x =? v then l else x :: ins_ver v l'
  end.
Definition versions_of (ws pw : list rec) (readTs : N) (bk : bytes) : list N :=
  fold_right ins_ver []
    (map r_ver (filter (fun r => bytes_eqb (r_key r) bk && (r_ver r <=? readTs)) ws)
     ++ match pending_of pw bk with Some _ => [readTs] | None => [] end).

Definition key_items (now : N) (ws pw : list rec) (readTs : N) (o : sopts) (u : bytes) : list sitem :=
  let bk := sbase u in
  if so_all o then
    opt_list (map (fun v =>
                     match view_at ws pw readTs bk v with
                     | Some x => if live now x && ver_ok o (r_ver x) then Some (to_item u x) else None
                     | None => None
                     end) (versions_of ws pw readTs bk))
  else
    match view ws pw readTs bk with
    | Some x => if live now x && ver_ok o (r_ver x) then [to_item u x] else []
    | None => []
    end.

Definition spec_scan (now : N) (ws pw : list rec) (readTs : N) (o : sopts) : list sitem :=
  let l := flat_map (key_items now ws pw readTs o) (filter (key_ok o) (ukeys ws pw)) in
  if so_rev o then rev l else l.

(** The specification as a relation on an observed listing, and its oracle. *)
Definition is_scan (now : N) (ws pw : list rec) (readTs : N) (o : sopts) (l : list sitem) : Prop :=
  l = spec_scan now ws pw readTs o.

Definition sitem_eqb (a b : sitem) : bool :=
  bytes_eqb (s_key a) (s_key b) && (s_ver a =? s_ver b) && bytes_eqb (s_val a) (s_val b).
Fixpoint sitems_eqb (a b : list sitem) : bool :=
  match a, b with
  | [], [] => true
  | x :: a', y :: b' => sitem_eqb x y && sitems_eqb a' b'
  | _, _ => false
  end.
Definition scan_ok_b (now : N) (ws pw : list rec) (readTs : N) (o : sopts) (l : list sitem) : bool :=
  sitems_eqb l (spec_scan now ws pw readTs o).

(** Point reads of the snapshot: Txn.Get / DB.Get. *)
Definition spec_get (now : N) (ws pw : list rec) (readTs : N) (u : bytes) : option bytes :=
  match view ws pw readTs (sbase u) with
  | Some x => if live now x then Some (r_val x) else None
  | None => None
  end.

(** The same specification as a relation (scans without AllVersions): the
    listing is strictly monotone in the user key (ascending, descending when
    reversed) and contains exactly the visible items: the key passes the
    bounds / prefix / seek target, the snapshot's point view of the key exists,
    is live and (SinceTs) recent enough, and the item carries its version and
    value.  [Proofs/IterProofs.v: spec_scan_rel, scan_rel_unique] show that
    [spec_scan] is the one listing in this relation. *)
Definition item_visible (now : N) (ws pw : list rec) (readTs : N) (so : sopts) (i : sitem) : Prop :=
  key_ok so (s_key i) = true /\
  exists x, view ws pw readTs (sbase (s_key i)) = Some x /\ live now x = true /\ ver_ok so (r_ver x) = true
            /\ s_ver i = r_ver x /\ s_val i = r_val x.
Definition key_order (rv : bool) (a b : sitem) : Prop :=
  bytes_cmp (s_key a) (s_key b) = if rv then Gt else Lt.
Definition scan_rel (now : N) (ws pw : list rec) (readTs : N) (so : sopts) (l : list sitem) : Prop :=
  StronglySorted (key_order (so_rev so)) l /\ forall i, In i l <-> item_visible now ws pw readTs so i.

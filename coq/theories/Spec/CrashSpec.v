(** Specifications of the crash family against the simplest abstract object: the
    sequence of write batches the engine accepted, and a map from keys to values.

    - C10: the recovered reads are those of a prefix of the batches;
    - C09: every acknowledged batch is reflected (a key holds the value the acknowledged
      batches gave it, or a value a later batch wrote to it);
    - C11: reads after forced maintenance equal the reads right after recovery.

    Each comes with a boolean oracle written from the specification (not from the
    model); the correspondence evaluates it on the observed reads alone. *)
From Coq Require Import List NArith Bool.
From NoKV Require Import Model.Fs Model.Recovery.
Import ListNotations.
Local Open Scope N_scope.

(** a write: key, and the value id ([None] = delete) *)
Definition write := (N * option N)%type.
Definition batch := list write.

Definition obs_of_write (w : option N) : obsv := match w with Some v => OV v | None => OA end.

(** last write to [k] in a flat list of writes *)
Fixpoint last_write (k : N) (ws : list write) (acc : obsv) : obsv :=
  match ws with
  | [] => acc
  | (k', w) :: ws' => last_write k ws' (if k' =? k then obs_of_write w else acc)
  end.

(** contents after applying the batches in order *)
Definition spec_get (bs : list batch) (k : N) : obsv := last_write k (concat bs) OA.

Definition obsv_eqb (a b : obsv) : bool :=
  match a, b with
  | OA, OA | OU, OU | OG, OG | OD, OD => true
  | OV x, OV y => x =? y
  | _, _ => false
  end.

Definition batch_of (es : list entry) : batch :=
  map (fun e => (e_key e, if e_del e then None else Some (e_vid e))) es.

(** the client batches of a workload (maintenance and GC write-backs are not client writes) *)
Definition client_batches (w : list step) : list batch :=
  flat_map (fun s => match s with
                     | SB es _ _ => [batch_of es]
                     | SCB rs => map (fun q => batch_of (q_es q)) rs
                     | _ => []
                     end) w.

(** * C10 *)
Definition prefix_consistent (bs : list batch) (keys : list N) (reads : N -> obsv) : Prop :=
  exists j, (j <= length bs)%nat /\ forall k, In k keys -> reads k = spec_get (firstn j bs) k.

Definition prefix_at_b (bs : list batch) (keys : list N) (reads : N -> obsv) (j : nat) : bool :=
  forallb (fun k => obsv_eqb (reads k) (spec_get (firstn j bs) k)) keys.

Definition prefix_consistent_b (bs : list batch) (keys : list N) (reads : N -> obsv) : bool :=
  existsb (prefix_at_b bs keys reads) (seq 0 (S (length bs))).

(** * C09 *)
Definition later_write (bs : list batch) (acked : nat) (k : N) (o : obsv) : Prop :=
  exists i b w, (acked <= i)%nat /\ nth_error bs i = Some b /\ In (k, w) b /\ o = obs_of_write w.

Definition acked_durable (bs : list batch) (acked : nat) (keys : list N) (reads : N -> obsv) : Prop :=
  forall k, In k keys -> reads k = spec_get (firstn acked bs) k \/ later_write bs acked k (reads k).

Definition later_write_b (bs : list batch) (acked : nat) (k : N) (o : obsv) : bool :=
  existsb (fun b => existsb (fun kw => (fst kw =? k) && obsv_eqb o (obs_of_write (snd kw))) b) (skipn acked bs).

Definition acked_durable_b (bs : list batch) (acked : nat) (keys : list N) (reads : N -> obsv) : bool :=
  forallb (fun k => obsv_eqb (reads k) (spec_get (firstn acked bs) k) || later_write_b bs acked k (reads k)) keys.

(** * C11 *)
Definition stable (keys : list N) (r0 : N -> obsv) (stages : list (N -> obsv)) : Prop :=
  forall st, In st stages -> forall k, In k keys -> st k = r0 k.

Definition stable_b (keys : list N) (r0 : N -> obsv) (stages : list (N -> obsv)) : bool :=
  forallb (fun st => forallb (fun k => obsv_eqb (st k) (r0 k)) keys) stages.

(** * A second incarnation: the recovered store takes new acknowledged writes, is closed and
      reopened; every key then holds its last new write, or what it held after the first recovery *)
Definition second_ok (keys : list N) (r1 : N -> obsv) (bs2 : list batch) (r2 : N -> obsv) : Prop :=
  forall k, In k keys -> r2 k = last_write k (concat bs2) (r1 k).

Definition second_ok_b (keys : list N) (r1 : N -> obsv) (bs2 : list batch) (r2 : N -> obsv) : bool :=
  forallb (fun k => obsv_eqb (r2 k) (last_write k (concat bs2) (r1 k))) keys.

(** * C09 at the wal.Manager level: records appended and then Sync'ed are acknowledged; after a
      crash the replay is a prefix of the appended records that contains every acknowledged one *)
Definition wal_acked_durable (appended : list N) (acked : nat) (replayed : list N) : Prop :=
  (exists rest, appended = replayed ++ rest) /\ (acked <= length replayed)%nat.

Fixpoint prefix_b (a b : list N) : bool :=
  match a, b with
  | [], _ => true
  | x :: a', y :: b' => (x =? y) && prefix_b a' b'
  | _ :: _, [] => false
  end.

Definition wal_acked_durable_b (appended : list N) (acked : nat) (replayed : list N) : bool :=
  prefix_b replayed appended && Nat.leb acked (length replayed).

(** * Side conditions of the partial theorems *)

(** no WAL flush can fall strictly inside a request: only its first entry may rotate the
    memtable or overflow the bufio buffer (F13 excluded) *)
Definition entries_unsplit (es : list entry) : bool :=
  match es with
  | [] => true
  | _ :: rest => forallb (fun e => negb (e_mrot e) && negb (e_spill e)) rest
  end.

Definition no_split (w : list step) : bool :=
  forallb (fun s => match s with
                    | SB es _ _ => entries_unsplit es
                    | SCB rs => forallb (fun q => entries_unsplit (q_es q)) rs
                    | SGc _ _ es _ _ => entries_unsplit es
                    | _ => true
                    end) w.

(** a value pointer of the store names an existing value-log record holding that very value *)
Definition ptr_ok_rec (vl : list ((N * N) * list vrec)) (r : rec) : bool :=
  match r_ptr r with
  | None => true
  | Some p => match fget pair_eqb (p_b p, p_f p) vl with
              | Some recs => match nth_error recs (N.to_nat (p_slot p)) with
                             | Some vr => (v_key vr =? r_key r) && (v_ver vr =? r_ver r) && (v_vid vr =? r_vid r)
                             | None => false
                             end
              | None => false
              end
  end.

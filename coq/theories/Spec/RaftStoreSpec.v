(** C21: what a raft group may rely on after a process crash.

    The abstract object is the group's *persisted history*: the last non-empty
    hard state it handed to storage, the last snapshot, and the log as a list
    of (index, entry) obtained by folding the persisted appends (a later
    append replaces everything from its first index on; entries at or below
    the snapshot index are covered by the snapshot).  Compactions, other
    writers of the shared WAL and earlier crashes do not change it. *)
From Coq Require Import List NArith Bool.
From NoKV Require Import Model.RaftStore.
Import ListNotations.
Local Open Scope N_scope.

Record alog := {
  a_hs : hardstate;
  a_si : N; a_st : N;               (* last snapshot *)
  a_log : list (N * entry)          (* index-tagged entries after the snapshot, ascending *)
}.
Definition a_init : alog := {| a_hs := hs_empty; a_si := 0; a_st := 0; a_log := [] |}.

(** index of the last entry, or the snapshot index *)
Definition a_last (a : alog) : N := fold_left (fun _ p => fst p) (a_log a) (a_si a).

(** [None]: a history the raft library never produces (an append that leaves
    a gap after the last index; a snapshot that is not newer than the last
    one).  MemoryStorage panics / returns ErrSnapOutOfDate on those, after
    WALStorage has already written the record. *)
Definition a_step (a : alog) (o : op) : option alog :=
  match o with
  | OHs h =>
      if hs_is_empty h then Some a
      else Some {| a_hs := h; a_si := a_si a; a_st := a_st a; a_log := a_log a |}
  | OSnap si st =>
      if si =? 0 then Some a
      else if si <=? a_si a then None
      else Some {| a_hs := a_hs a; a_si := si; a_st := st; a_log := [] |}
  | OAppend first es =>
      match filter (fun p => a_si a <? fst p) (tag first es) with
      | [] => Some a
      | (f, e) :: new' =>
          if f <=? a_last a + 1
          then Some {| a_hs := a_hs a; a_si := a_si a; a_st := a_st a;
                       a_log := filter (fun p => fst p <? f) (a_log a) ++ (f, e) :: new' |}
          else None
      end
  | OCompact _ | OForeign _ | OCrash _ => Some a
  end.

Fixpoint spec_run (a : alog) (ops : list op) : option alog :=
  match ops with
  | [] => Some a
  | o :: ops' => match a_step a o with Some a' => spec_run a' ops' | None => None end
  end.

Definition spec_obs (a : alog) : obs :=
  {| o_hs := a_hs a; o_snapi := a_si a; o_snapt := a_st a;
     o_first := a_si a + 1; o_last := a_last a; o_ents := a_log a |}.

(** The property: whatever a reopened storage reports after a crash at the
    end of history [ops] is exactly the persisted history. *)
Definition recovers (ops : list op) (r : res obs) : Prop :=
  forall a, spec_run a_init ops = Some a -> r = Ok (spec_obs a).

(** term and vote never go backwards *)
Definition hs_le (a b : hardstate) : Prop :=
  hs_term a < hs_term b \/ (hs_term a = hs_term b /\ (hs_vote a = 0 \/ hs_vote a = hs_vote b)).

(** the hard states a raft node persists form a chain under [hs_le] *)
Fixpoint hs_chain (prev : hardstate) (ops : list op) : Prop :=
  match ops with
  | [] => True
  | OHs h :: ops' => if hs_is_empty h then hs_chain prev ops' else hs_le prev h /\ hs_chain h ops'
  | _ :: ops' => hs_chain prev ops'
  end.

(** ** boolean oracle *)
Definition hs_eqb (a b : hardstate) : bool :=
  (hs_term a =? hs_term b) && (hs_vote a =? hs_vote b) && (hs_commit a =? hs_commit b).
Definition ient_eqb (a b : N * entry) : bool :=
  (fst a =? fst b) && (fst (snd a) =? fst (snd b)) && (snd (snd a) =? snd (snd b)).
Fixpoint list_eqb {A} (eqb : A -> A -> bool) (a b : list A) : bool :=
  match a, b with
  | [], [] => true
  | x :: a', y :: b' => eqb x y && list_eqb eqb a' b'
  | _, _ => false
  end.
Definition obs_eqb (a b : obs) : bool :=
  hs_eqb (o_hs a) (o_hs b) && (o_snapi a =? o_snapi b) && (o_snapt a =? o_snapt b) &&
  (o_first a =? o_first b) && (o_last a =? o_last b) && list_eqb ient_eqb (o_ents a) (o_ents b).

Definition recovers_b (ops : list op) (r : res obs) : bool :=
  match spec_run a_init ops with
  | None => true
  | Some a => match r with Ok o => obs_eqb o (spec_obs a) | Err _ => false end
  end.

Definition hs_le_b (a b : hardstate) : bool :=
  (hs_term a <? hs_term b) ||
  ((hs_term a =? hs_term b) && ((hs_vote a =? 0) || (hs_vote a =? hs_vote b))).

(** Property C25 as a [Prop]: a command is accepted by a region only if it
    carries the region's current epoch and every key it names lies inside the
    region's range; scan results returned through a region contain no key
    outside the range. *)
From Coq Require Import List NArith Bool.
From NoKV Require Import Base.Bytes Model.CmdValidate.
Import ListNotations.
Local Open Scope N_scope.

(** The half-open range [start, end) over byte strings ordered bytewise; an
    empty [end] is +infinity, an empty [start] is the least byte string. *)
Definition in_range (m : meta) (k : bytes) : Prop :=
  bytes_leb (m_start m) k = true /\ (m_end m = [] \/ bytes_ltb k (m_end m) = true).

(** The keys a request names = the keys the applier ([raftstore/kv.Apply])
    will touch for it: it dispatches on [CmdType] and reads the payload of
    that type only. *)
Fixpoint somes {A} (l : list (option A)) : list A :=
  match l with
  | [] => []
  | Some x :: l' => x :: somes l'
  | None :: l' => somes l'
  end.

Definition named_keys (r : request) : list bytes :=
  let t := r_type r in
  match r_body r with
  | BNone => []
  | BGet k => if t =? 1 then [k] else []
  | BScan k => if t =? 2 then [k] else []
  | BPrewrite ms => if t =? 3 then somes ms else []
  | BCommit ks => if t =? 4 then ks else []
  | BRollback ks => if t =? 5 then ks else []
  | BResolve ks => if t =? 6 then ks else []
  | BCheck k => if t =? 7 then [k] else []
  end.

Definition supported (r : request) : Prop := 1 <= r_type r <= 7.

(** Empty keys name nothing: a scan with an empty start key starts at the
    beginning, and the storage engine rejects the empty key for every other
    command before touching data ([utils.ErrEmptyKey]). *)
Definition key_owned (m : meta) (k : bytes) : Prop := k <> [] -> in_range m k.

Definition request_owned (m : meta) (r : request) : Prop :=
  supported r /\ Forall (key_owned m) (named_keys r).

(** What acceptance must mean. *)
Definition owned (m : meta) (re : option epoch) (rs : list (option request)) : Prop :=
  re = Some (m_epoch m) /\ Forall (request_owned m) (somes rs).

(** ** Boolean oracle (written after the specification above). *)
Definition in_range_b (m : meta) (k : bytes) : bool :=
  bytes_leb (m_start m) k && (bytes_eqb (m_end m) [] || bytes_ltb k (m_end m)).

Definition key_owned_b (m : meta) (k : bytes) : bool := bytes_eqb k [] || in_range_b m k.

Definition request_owned_b (m : meta) (r : request) : bool :=
  (1 <=? r_type r) && (r_type r <=? 7) && forallb (key_owned_b m) (named_keys r).

Definition owned_b (m : meta) (re : option epoch) (rs : list (option request)) : bool :=
  match re with
  | Some e => (e_conf e =? e_conf (m_epoch m)) && (e_ver e =? e_ver (m_epoch m))
  | None => false
  end && forallb (request_owned_b m) (somes rs).

(** ** Scan results *)

(** The response list the applier produces for a request list: nothing for a
    nil request, otherwise one response whose kind follows the request's
    command type (so a scan response exactly where the request is a scan).
    What the responses contain is arbitrary here. *)
Definition resp_is_scan (o : response) : bool :=
  match o with RespScan _ => true | _ => false end.

Inductive shaped : list (option request) -> list response -> Prop :=
| shaped_nil : shaped [] []
| shaped_skip rs os : shaped rs os -> shaped (None :: rs) os
| shaped_cons r rs o os :
    resp_is_scan o = (r_type r =? 2) -> shaped rs os -> shaped (Some r :: rs) (o :: os).

Definition kv_keys (kvs : list kv) : list bytes := map fst (somes kvs).

Definition resp_keys (o : response) : list bytes :=
  match o with RespScan kvs => kv_keys kvs | _ => [] end.

(** Every key of every scan result. *)
Definition all_keys (os : list response) : list bytes := flat_map resp_keys os.

(** The entries that must survive: those whose key is in range (or empty:
    the engine never stores an empty key, the trimming leaves it alone). *)
Definition keep_b (m : meta) (e : bytes * N) : bool := key_owned_b m (fst e).

Definition resp_expected (m : meta) (o : response) : response :=
  match o with
  | RespScan kvs => RespScan (map Some (filter (keep_b m) (somes kvs)))
  | _ => o
  end.

(** Oracle for the trimming: the output has as many responses as the input,
    every response is the input response with exactly the out-of-range
    entries (and nil entries) of scan results removed, order kept. *)
Fixpoint kvs_eqb (a b : list kv) : bool :=
  match a, b with
  | [], [] => true
  | Some (k1, t1) :: a', Some (k2, t2) :: b' => bytes_eqb k1 k2 && (t1 =? t2) && kvs_eqb a' b'
  | None :: a', None :: b' => kvs_eqb a' b'
  | _, _ => false
  end.

Definition response_eqb (a b : response) : bool :=
  match a, b with
  | RespNil, RespNil | RespOther, RespOther => true
  | RespScan x, RespScan y => kvs_eqb x y
  | _, _ => false
  end.

Fixpoint responses_eqb (a b : list response) : bool :=
  match a, b with
  | [], [] => true
  | x :: a', y :: b' => response_eqb x y && responses_eqb a' b'
  | _, _ => false
  end.

(** [shaped] decided. *)
Fixpoint shaped_b (rs : list (option request)) (os : list response) : bool :=
  match rs, os with
  | [], [] => true
  | None :: rs', _ => shaped_b rs' os
  | Some r :: rs', o :: os' => Bool.eqb (resp_is_scan o) (r_type r =? 2) && shaped_b rs' os'
  | _, _ => false
  end.

(** The observed output [out] of trimming [os] (the applier's responses to
    [rs]) is right when it is [os] with every scan result filtered. *)
Definition trim_ok_b (m : meta) (os out : list response) : bool :=
  responses_eqb out (map (resp_expected m) os).

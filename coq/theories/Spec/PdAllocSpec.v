(** Specification for C27 on the abstract object "set of intervals handed out".
    An interval is (kind, first, count).  What must hold of an observed run:
    every response is a non-empty interval disjoint from every earlier
    response of its kind; at every point every response given so far is at or
    below the checkpoint of its kind (so a restart from the files as they are
    at that point resumes above it); after a restart every response lies above
    every response given before the crash. *)
From Coq Require Import List NArith Bool.
From NoKV Require Import Model.PdAlloc.
Import ListNotations.
Local Open Scope N_scope.

Definition iv := (kind * N * N)%type.
Definition iv_kind (r : iv) : kind := fst (fst r).
Definition iv_first (r : iv) : N := snd (fst r).
Definition iv_count (r : iv) : N := snd r.
Definition iv_end (r : iv) : N := iv_first r + iv_count r - 1.

Definition kind_eqb (a b : kind) : bool :=
  match a, b with KId, KId | KTs, KTs => true | _, _ => false end.

(** [r] does not intersect any interval of its kind in [rs] *)
Definition disjoint_from (r : iv) (rs : list iv) : Prop :=
  forall r', In r' rs -> iv_kind r' = iv_kind r -> iv_end r' < iv_first r \/ iv_end r < iv_first r'.
Definition disjoint_from_b (r : iv) (rs : list iv) : bool :=
  forallb (fun r' => negb (kind_eqb (iv_kind r') (iv_kind r)) ||
                     (iv_end r' <? iv_first r) || (iv_end r <? iv_first r')) rs.

(** every interval of [rs] is at or below the checkpoint of its kind *)
Definition covered (ck_id ck_ts : N) (rs : list iv) : Prop :=
  forall r, In r rs -> iv_end r <= match iv_kind r with KId => ck_id | KTs => ck_ts end.
Definition covered_b (ck_id ck_ts : N) (rs : list iv) : bool :=
  forallb (fun r => iv_end r <=? match iv_kind r with KId => ck_id | KTs => ck_ts end) rs.

(** [r] lies above every interval of its kind in [rs] *)
Definition above (r : iv) (rs : list iv) : Prop :=
  forall r', In r' rs -> iv_kind r' = iv_kind r -> iv_end r' < iv_first r.
Definition above_b (r : iv) (rs : list iv) : bool :=
  forallb (fun r' => negb (kind_eqb (iv_kind r') (iv_kind r)) || (iv_end r' <? iv_first r)) rs.

(** observed step: checkpoint content after the step, response returned by the step *)
Definition ostep := (N * N * option iv)%type.

Fixpoint trace_ok (seen : list iv) (tr : list ostep) : Prop :=
  match tr with
  | [] => True
  | (ci, ct, o) :: r =>
      let seen' := match o with Some x => x :: seen | None => seen end in
      match o with Some x => 1 <= iv_count x /\ disjoint_from x seen | None => True end /\
      covered ci ct seen' /\ trace_ok seen' r
  end.

Fixpoint trace_ok_b (seen : list iv) (tr : list ostep) : bool :=
  match tr with
  | [] => true
  | (ci, ct, o) :: r =>
      let seen' := match o with Some x => x :: seen | None => seen end in
      match o with Some x => (1 <=? iv_count x) && disjoint_from_b x seen | None => true end &&
      covered_b ci ct seen' && trace_ok_b seen' r
  end.

Fixpoint seen_after (seen : list iv) (tr : list ostep) : list iv :=
  match tr with
  | [] => seen
  | (_, _, Some x) :: r => seen_after (x :: seen) r
  | (_, _, None) :: r => seen_after seen r
  end.

(** responses after a restart, in order *)
Fixpoint restart_ok (seen : list iv) (rs : list iv) : Prop :=
  match rs with
  | [] => True
  | x :: r => 1 <= iv_count x /\ above x seen /\ restart_ok (x :: seen) r
  end.
Fixpoint restart_ok_b (seen : list iv) (rs : list iv) : bool :=
  match rs with
  | [] => true
  | x :: r => (1 <=? iv_count x) && above_b x seen && restart_ok_b (x :: seen) r
  end.

(** reservation log (newest first) strictly increasing inside (lo, hi] *)
Fixpoint chain (lo hi : N) (log : list (N * N)) : Prop :=
  match log with
  | [] => lo <= hi
  | (f, c) :: r => 1 <= c /\ 1 <= f /\ f + c - 1 <= hi /\ chain lo (f - 1) r
  end.

(** C29 — the reference with Redis' own expiry precision: the clock and every
    deadline are in milliseconds. A key is present strictly before its
    millisecond deadline and absent from it on. Everything but the expiry
    arithmetic of SET is Spec/RedisSpec.v ([sem] does not care about the unit
    of the clock; [decode] depends on the clock only through the SET options).

    [shift] moves every deadline computed from EX/PX/EXAT/PXAT by that many
    milliseconds; the reference itself is [shift = 0]. Non-zero shifts are used
    only by the class predicate of known finding C29-F2 (the store keeps whole
    seconds: a deadline moves by less than 1000 ms).

    Kept from RedisSpec.v on purpose: PXAT below 1000 is rejected (the store's
    "expiry 0 = none" encoding), overflow limits of EX/PX. *)
From Coq Require Import List NArith ZArith Bool.
From NoKV Require Import Base.Bytes Model.Resp Model.Redis Spec.RedisSpec.
Import ListNotations.
Local Open Scope N_scope.

Definition shifted (shift : Z) (t : N) : option N :=
  let z := (Z.of_N t + shift)%Z in if (z <=? 0)%Z then Some 1 else Some (Z.to_N z).

Definition expiry_of_ms (shift : Z) (opt : bytes) (num : Z) (now_ms : N) : option N :=
  if name_is opt n_EX then
    if (9223372036 <? num)%Z then None else shifted shift (now_ms + Z.to_N num * 1000)
  else if name_is opt n_PX then
    if (9223372036854 <? num)%Z then None else shifted shift (now_ms + Z.to_N num)
  else if name_is opt n_EXAT then shifted shift (Z.to_N num * 1000)
  else if (num <? 1000)%Z then None else shifted shift (Z.to_N num).

Fixpoint decode_set_opts_ms (shift : Z) (now_ms : N) (opts : list bytes) (c : cond) (exp : option N)
  : rerr + (cond * option N) :=
  match opts with
  | [] => inr (c, exp)
  | a :: rest =>
      let opt := upper a in
      if name_is opt n_NX then
        match c with CondXX => inl RSyntax | _ => decode_set_opts_ms shift now_ms rest CondNX exp end
      else if name_is opt n_XX then
        match c with CondNX => inl RSyntax | _ => decode_set_opts_ms shift now_ms rest CondXX exp end
      else if is_expiry_opt opt then
        match exp, rest with
        | Some _, _ => inl RSyntax
        | None, [] => inl RSyntax
        | None, numb :: rest' =>
            match atoi numb with
            | None => inl RNotInt
            | Some num =>
                if (num <=? 0)%Z then inl RInvalidExpire
                else match expiry_of_ms shift opt num now_ms with
                     | None => inl RInvalidExpire
                     | Some e => decode_set_opts_ms shift now_ms rest' c (Some e)
                     end
            end
        end
      else inl RSyntax
  end.

Definition decode_ms (shift : Z) (now_ms : N) (args : list bytes) : cmd :=
  match args with
  | a0 :: k :: v :: opts =>
      if name_is (upper a0) n_SET then
        match decode_set_opts_ms shift now_ms opts CondNone None with
        | inl e => CReject e
        | inr (c, exp) => CSet k v c exp
        end
      else decode 0 args
  | _ => decode 0 args
  end.

Fixpoint spec_run_ms (shift : Z) (m : smap) (cmds : list (N * list bytes)) : smap * list reply :=
  match cmds with
  | [] => (m, [])
  | (now_ms, args) :: cs =>
      let '(m', r, quit) := sem m now_ms (decode_ms shift now_ms args) in
      if quit then (m', [r])
      else let '(m'', rs) := spec_run_ms shift m' cs in (m'', r :: rs)
  end.

(** What the correspondence check compares ([cmds] carry millisecond clocks). *)
Definition conforms_ms_b (shift : Z) (cmds : list (N * list bytes)) (observed : list bytes) : bool :=
  replies_eqb (map encode_reply (snd (spec_run_ms shift empty_map cmds))) observed.
Definition conforms_ms (cmds : list (N * list bytes)) (observed : list bytes) : Prop :=
  map encode_reply (snd (spec_run_ms 0 empty_map cmds)) = observed.

(** Deadline shifts below one second, in both directions. *)
Definition granularity_shifts : list Z :=
  map (fun i => (Z.of_nat i * 50 - 950)%Z) (seq 0 39)
  ++ map (fun i => (Z.of_nat i * 2 - 30)%Z) (seq 0 31) ++ [-999; 999]%Z.

(** Class predicate of C29-F2 on observations: they differ from the reference,
    and agree with it once every deadline is moved by less than 1000 ms. *)
Definition within_granularity (cmds : list (N * list bytes)) (observed : list bytes) : bool :=
  negb (conforms_ms_b 0 cmds observed) && existsb (fun sh => conforms_ms_b sh cmds observed) granularity_shifts.

(** The model's clock: the second the millisecond clock lies in. *)
Definition to_seconds (cmds : list (N * list bytes)) : list (N * list bytes) :=
  map (fun c => (fst c / 1000, snd c)) cmds.

(** C29 — reference semantics of the commands the gateway supports, on the
    simplest abstract object: a map from keys to (value, optional expiry
    second), with the clock [now] (Unix seconds) as a parameter of every
    command.  Expired keys behave as absent; nothing else ever removes them
    (no background expiry is needed to state the replies).

    [decode] turns an argument vector into an abstract command (arity, SET
    option grammar, integer arguments); [sem] gives its reply and effect.

    Deliberate, documented choices of the reference (see bin/props.d/C29.json):
    integers use strconv syntax (optional sign, leading zeros allowed, int64
    range); a stored value that is empty or all white space counts as 0 for
    the INCR family (cmd/nokv-redis tests this); expiry has one-second
    granularity (PX n lasts at least until the next second, PXAT below 1000
    is rejected); command and option names are matched after ASCII
    upper-casing. *)
From Coq Require Import List NArith ZArith Bool.
From Coq Require Import Init.Byte.
From NoKV Require Import Base.Bytes Model.Resp Model.Redis.
Import ListNotations.
Local Open Scope N_scope.

Definition sval := (bytes * option N)%type.
Definition smap := bytes -> option sval.

Definition empty_map : smap := fun _ => None.
Definition upd (m : smap) (k : bytes) (v : option sval) : smap :=
  fun k' => if bytes_eqb k' k then v else m k'.

Definition live (now : N) (x : sval) : bool :=
  match snd x with None => true | Some t => now <? t end.

(** The value a client can see. *)
Definition sget (m : smap) (now : N) (k : bytes) : option sval :=
  match m k with
  | Some x => if live now x then Some x else None
  | None => None
  end.

Inductive cond := CondNone | CondNX | CondXX.

Inductive cmd :=
| CPing (m : option bytes)
| CEcho (m : bytes)
| CGet (k : bytes)
| CSet (k v : bytes) (c : cond) (exp : option N)
| CDel (ks : list bytes)
| CMGet (ks : list bytes)
| CMSet (kvs : list (bytes * bytes))
| CIncrBy (k : bytes) (d : Z)
| CExists (ks : list bytes)
| CQuit
| CReject (e : rerr).

(** * Semantics *)
Definition in_int64 (z : Z) : bool := ((min_int64 <=? z) && (z <=? max_int64))%Z.

(** Integer reading of a stored value for INCR/DECR. *)
Definition counter_value (v : bytes) : option Z :=
  match fields v with [] => Some 0%Z | _ => atoi v end.

Fixpoint s_del (m : smap) (now : N) (ks : list bytes) (n : Z) : smap * Z :=
  match ks with
  | [] => (m, n)
  | k :: ks' =>
      s_del (upd m k None) now ks' (match sget m now k with Some _ => (n + 1)%Z | None => n end)
  end.

Fixpoint s_mset (m : smap) (kvs : list (bytes * bytes)) : smap :=
  match kvs with
  | [] => m
  | (k, v) :: kvs' => s_mset (upd m k (Some (v, None))) kvs'
  end.

Fixpoint s_count (m : smap) (now : N) (ks : list bytes) : Z :=
  match ks with
  | [] => 0%Z
  | k :: ks' => ((match sget m now k with Some _ => 1 | None => 0 end) + s_count m now ks')%Z
  end.

Definition sem (m : smap) (now : N) (c : cmd) : smap * reply * bool :=
  match c with
  | CPing None => (m, RSimple n_PONG, false)
  | CPing (Some x) => (m, RBulk x, false)
  | CEcho x => (m, RBulk x, false)
  | CGet k => (m, match sget m now k with Some (v, _) => RBulk v | None => RNil end, false)
  | CSet k v c exp =>
      let present := match sget m now k with Some _ => true | None => false end in
      let allowed := match c with CondNone => true | CondNX => negb present | CondXX => present end in
      if allowed then (upd m k (Some (v, exp)), RSimple n_OK, false) else (m, RNil, false)
  | CDel ks => let '(m', n) := s_del m now ks 0%Z in (m', RInt n, false)
  | CMGet ks => (m, RArr (map (fun k => match sget m now k with Some (v, _) => Some v | None => None end) ks), false)
  | CMSet kvs => (s_mset m kvs, RSimple n_OK, false)
  | CIncrBy k d =>
      let old := sget m now k in
      match (match old with Some (v, _) => counter_value v | None => Some 0%Z end) with
      | None => (m, RErr RNotInt, false)
      | Some cur =>
          let r := (cur + d)%Z in
          if in_int64 r
          then (upd m k (Some (fmt_Z r, match old with Some (_, e) => e | None => None end)), RInt r, false)
          else (m, RErr ROverflow, false)
      end
  | CExists ks => (m, RInt (s_count m now ks), false)
  | CQuit => (m, RSimple n_OK, true)
  | CReject e => (m, RErr e, false)
  end.

(** * Decoding an argument vector *)
Definition some_pos (e : N) : option N := if e =? 0 then None else Some e.

(** Absolute expiry second of a SET option with a positive argument;
    [None] = invalid expire time. *)
Definition expiry_of (opt : bytes) (num : Z) (now : N) : option N :=
  if name_is opt n_EX then
    if (9223372036 <? num)%Z then None else Some (now + Z.to_N num)
  else if name_is opt n_PX then
    if (9223372036854 <? num)%Z then None
    else Some (N.max (now + Z.to_N (num / 1000)) (now + 1))
  else if name_is opt n_EXAT then some_pos (Z.to_N num)
  else some_pos (Z.to_N (num / 1000)).

Definition is_expiry_opt (opt : bytes) : bool :=
  name_is opt n_EX || name_is opt n_PX || name_is opt n_EXAT || name_is opt n_PXAT.

(** SET options: NX and XX exclude each other, at most one expiry option,
    each expiry option takes one positive integer. *)
Fixpoint decode_set_opts (now : N) (opts : list bytes) (c : cond) (exp : option N)
  : rerr + (cond * option N) :=
  match opts with
  | [] => inr (c, exp)
  | a :: rest =>
      let opt := upper a in
      if name_is opt n_NX then
        match c with CondXX => inl RSyntax | _ => decode_set_opts now rest CondNX exp end
      else if name_is opt n_XX then
        match c with CondNX => inl RSyntax | _ => decode_set_opts now rest CondXX exp end
      else if is_expiry_opt opt then
        match exp, rest with
        | Some _, _ => inl RSyntax
        | None, [] => inl RSyntax
        | None, numb :: rest' =>
            match atoi numb with
            | None => inl RNotInt
            | Some num =>
                if (num <=? 0)%Z then inl RInvalidExpire
                else match expiry_of opt num now with
                     | None => inl RInvalidExpire
                     | Some e => decode_set_opts now rest' c (Some e)
                     end
            end
        end
      else inl RSyntax
  end.

Definition decode (now : N) (args : list bytes) : cmd :=
  match args with
  | [] => CReject RSyntax
  | a0 :: rest =>
      let name := upper a0 in
      if name_is name n_PING then
        match rest with [] => CPing None | [m] => CPing (Some m) | _ => CReject (RArity n_PING) end
      else if name_is name n_ECHO then
        match rest with [m] => CEcho m | _ => CReject (RArity n_ECHO) end
      else if name_is name n_GET then
        match rest with [k] => CGet k | _ => CReject (RArity n_GET) end
      else if name_is name n_SET then
        match rest with
        | k :: v :: opts =>
            match decode_set_opts now opts CondNone None with
            | inl e => CReject e
            | inr (c, exp) => CSet k v c exp
            end
        | _ => CReject (RArity n_SET)
        end
      else if name_is name n_DEL then
        match rest with [] => CReject (RArity n_DEL) | _ => CDel rest end
      else if name_is name n_MGET then
        match rest with [] => CReject (RArity n_MGET) | _ => CMGet rest end
      else if name_is name n_MSET then
        match rest with
        | [] => CReject (RArity n_MSET)
        | _ => if Nat.even (List.length rest) then CMSet (pairs_of rest) else CReject (RArity n_MSET)
        end
      else if name_is name n_INCR then
        match rest with [k] => CIncrBy k 1%Z | _ => CReject (RArity n_INCR) end
      else if name_is name n_DECR then
        match rest with [k] => CIncrBy k (-1)%Z | _ => CReject (RArity n_DECR) end
      else if name_is name n_INCRBY then
        match rest with
        | [k; d] => match atoi d with Some z => CIncrBy k z | None => CReject RNotInt end
        | _ => CReject (RArity n_INCRBY)
        end
      else if name_is name n_DECRBY then
        match rest with
        | [k; d] => match atoi d with
                    | Some z => if (z =? min_int64)%Z then CReject ROverflow else CIncrBy k (- z)%Z
                    | None => CReject RNotInt
                    end
        | _ => CReject (RArity n_DECRBY)
        end
      else if name_is name n_EXISTS then
        match rest with [] => CReject (RArity n_EXISTS) | _ => CExists rest end
      else if name_is name n_QUIT then CQuit
      else CReject (RUnknown (lower name))
  end.

Definition spec_exec (m : smap) (now : N) (args : list bytes) : smap * reply * bool :=
  sem m now (decode now args).

Fixpoint spec_run (m : smap) (cmds : list (N * list bytes)) : smap * list reply :=
  match cmds with
  | [] => (m, [])
  | (now, args) :: cs =>
      let '(m', r, quit) := spec_exec m now args in
      if quit then (m', [r])
      else let '(m'', rs) := spec_run m' cs in (m'', r :: rs)
  end.

(** Keys a command addresses. NoKV cannot store the empty key (utils.ErrEmptyKey);
    the refinement theorem is stated for commands whose keys are non-empty. *)
Definition cmd_keys (c : cmd) : list bytes :=
  match c with
  | CGet k | CSet k _ _ _ | CIncrBy k _ => [k]
  | CDel ks | CMGet ks | CExists ks => ks
  | CMSet kvs => map fst kvs
  | _ => []
  end.

Definition keys_nonempty (cmds : list (N * list bytes)) : bool :=
  forallb (fun c => forallb (fun k => negb (is_empty k)) (cmd_keys (decode (fst c) (snd c)))) cmds.


(** What the correspondence check compares: the wire form of the reference's
    replies against the observed bytes. *)
Fixpoint replies_eqb (a b : list bytes) : bool :=
  match a, b with
  | [], [] => true
  | x :: a', y :: b' => bytes_eqb x y && replies_eqb a' b'
  | _, _ => false
  end.

Definition conforms (cmds : list (N * list bytes)) (observed : list bytes) : Prop :=
  map encode_reply (snd (spec_run empty_map cmds)) = observed.
Definition conforms_b (cmds : list (N * list bytes)) (observed : list bytes) : bool :=
  replies_eqb (map encode_reply (snd (spec_run empty_map cmds))) observed.

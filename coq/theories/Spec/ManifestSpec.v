(** C15 — two versions are equal when their canonical forms coincide: per level
    the files sorted by id (empty levels dropped: L0 is re-sorted on load and the
    snapshot writes files by id), everything else exactly.  The canonical form is a
    list of edits, which is also what the harness prints for Manager.Current(). *)
From Coq Require Import List NArith Bool.
From NoKV Require Import Base.Bytes Base.Num Model.ManifestCodec Model.Manifest.
Import ListNotations.
Local Open Scope N_scope.

Fixpoint insert_file (f : file_meta) (l : list file_meta) : list file_meta :=
  match l with
  | [] => [f]
  | g :: l' => if fm_id f <? fm_id g then f :: l else g :: insert_file f l'
  end.
Definition sort_files (l : list file_meta) : list file_meta := fold_right insert_file [] l.

Definition canon (v : version) : list edit :=
  concat (map (fun lf => map EAddFile (sort_files (snd lf))) (v_levels v)) ++
  [ELogPointer (v_logseg v) (v_logoff v)] ++
  map (fun x => EVlogUpdate (Some (snd x))) (v_vlogs v) ++
  map (fun x => EVlogHead (Some (snd x))) (v_heads v) ++
  map (fun x => ERaftPointer (Some (snd x))) (v_rafts v) ++
  map (fun x => ERegion (Some {| re_meta := snd x; re_delete := false |})) (v_regions v).

Definition version_eq (a b : version) : Prop := canon a = canon b.

(** C15 — when two versions count as equal: per level the same files as a set
    keyed by file id (compared as id-sorted lists: the snapshot writes files by id,
    L0 is re-sorted on load, a level without files is indistinguishable from an
    absent one), everything else exactly. *)
From Coq Require Import List NArith Bool.
From NoKV Require Import Base.Bytes Base.Num Model.ManifestCodec Model.Manifest.
Import ListNotations.
Local Open Scope N_scope.

Definition version_eq (a b : version) : Prop :=
  (forall lv, sort_files (level_files a lv) = sort_files (level_files b lv)) /\
  v_logseg a = v_logseg b /\ v_logoff a = v_logoff b /\ v_vlogs a = v_vlogs b /\
  v_heads a = v_heads b /\ v_rafts a = v_rafts b /\ v_regions a = v_regions b.

(** the abstract object of C15: the fold of the logged edits *)
Definition state_after (es : list edit) : version := apply_all empty_version es.

(** canonical printed form used by the correspondence (what writeSnapshot emits) *)
Definition canon (v : version) : list edit := snapshot_edits v.

(** C16 — what "fails safely" means for a decoder outcome observed on the
    implementation, and the allocation budget. *)
From Coq Require Import List NArith Bool.
From NoKV Require Import Base.Bytes Base.Num.
Import ListNotations.
Local Open Scope N_scope.

(** allocation budget of one decoder call on an input of [n] bytes: the
    largest per-element blow-up is a raft entry struct (<= 128 bytes per input
    byte of a declared count, the count being bounded by the input length);
    the constant covers the 1 MiB preallocation cap of kv.ReadBounded for key
    and value plus bookkeeping. *)
Definition alloc_budget (n : N) : N := 128 * n + 2 * 1048576 + 65536.

Definition alloc_ok (input_len alloc : N) : bool := alloc <=? alloc_budget input_len.
Definition alloc_ok_prop (input_len alloc : N) : Prop := alloc <= alloc_budget input_len.

Lemma alloc_ok_spec n a : alloc_ok n a = true <-> alloc_ok_prop n a.
Proof. unfold alloc_ok, alloc_ok_prop. apply N.leb_le. Qed.

(** Specification of key latches (C20), independent of stripes and hashing:
    two requests conflict when they share a non-empty key; at no time may two
    conflicting requests be inside their critical section.  The observable is
    a trace of [Enter t] / [Exit t] events (t = request number). *)
From Coq Require Import List NArith Bool Arith.
From NoKV Require Import Base.Bytes.
Import ListNotations.

Definition conflict (a b : list bytes) : Prop :=
  exists k, k <> [] /\ In k a /\ In k b.

Fixpoint mem_key (k : bytes) (l : list bytes) : bool :=
  match l with [] => false | x :: l' => bytes_eqb k x || mem_key k l' end.

Definition conflict_b (a b : list bytes) : bool :=
  existsb (fun k => match k with [] => false | _ => mem_key k b end) a.

Inductive ev := Enter (t : nat) | Exit (t : nat).

Definition keys_of (reqs : list (list bytes)) (t : nat) : list bytes := nth t reqs [].

Fixpoint remove_nat (t : nat) (l : list nat) : list nat :=
  match l with [] => [] | u :: l' => if Nat.eqb t u then remove_nat t l' else u :: remove_nat t l' end.

(** the trace never has two conflicting requests inside at once *)
Fixpoint exclusive (reqs : list (list bytes)) (inside : list nat) (evs : list ev) : Prop :=
  match evs with
  | [] => True
  | Enter t :: r =>
      (forall u, In u inside -> ~ conflict (keys_of reqs t) (keys_of reqs u)) /\
      exclusive reqs (t :: inside) r
  | Exit t :: r => exclusive reqs (remove_nat t inside) r
  end.

Fixpoint exclusive_b (reqs : list (list bytes)) (inside : list nat) (evs : list ev) : bool :=
  match evs with
  | [] => true
  | Enter t :: r =>
      forallb (fun u => negb (conflict_b (keys_of reqs t) (keys_of reqs u))) inside &&
      exclusive_b reqs (t :: inside) r
  | Exit t :: r => exclusive_b reqs (remove_nat t inside) r
  end.

(** every request entered and left (no acquisition hung) *)
Fixpoint count_ev (f : ev -> bool) (evs : list ev) : nat :=
  match evs with [] => 0 | e :: r => (if f e then 1 else 0) + count_ev f r end.

Definition all_completed_b (n : nat) (evs : list ev) : bool :=
  forallb (fun t =>
    Nat.eqb (count_ev (fun e => match e with Enter u => Nat.eqb u t | _ => false end) evs) 1 &&
    Nat.eqb (count_ev (fun e => match e with Exit u => Nat.eqb u t | _ => false end) evs) 1) (seq 0 n).

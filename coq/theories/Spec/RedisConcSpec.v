(** C30 — what concurrent clients must be able to rely on, stated on what
    they observe: the replies of their own commands and a final read.

    * counters: the final value equals the initial value plus the deltas of
      the INCR-family commands that replied with an integer;
    * SET NX on an absent key: at most one client is told OK.

    [serial_chain]: stronger, used as the model-side check of the
    correspondence — with conflict detection on, the successful INCRs can be
    ordered so that each returned value is its predecessor's plus its delta
    (deltas are non-zero, so the order is determined by the values). *)
From Coq Require Import List ZArith Bool Lia.
Import ListNotations.
Local Open Scope Z_scope.

(** One acknowledged INCRBY: (delta, value returned). *)
Definition ack := (Z * Z)%type.

Definition sum_deltas (l : list ack) : Z := fold_right (fun a s => fst a + s) 0 l.

Definition counter_ok (init final : Z) (acks : list ack) : Prop := final = init + sum_deltas acks.
Definition counter_ok_b (init final : Z) (acks : list ack) : bool := final =? init + sum_deltas acks.

Definition setnx_ok (oks : nat) : Prop := (oks <= 1)%nat.
Definition setnx_ok_b (oks : nat) : bool := Nat.leb oks 1.

Lemma counter_ok_b_spec init final acks : counter_ok_b init final acks = true <-> counter_ok init final acks.
Proof. unfold counter_ok_b, counter_ok. apply Z.eqb_eq. Qed.

Lemma setnx_ok_b_spec n : setnx_ok_b n = true <-> setnx_ok n.
Proof. unfold setnx_ok_b, setnx_ok. apply PeanoNat.Nat.leb_le. Qed.

(** Remove the first ack whose returned value minus delta is [cur]. *)
Fixpoint take_next (cur : Z) (l : list ack) : option (ack * list ack) :=
  match l with
  | [] => None
  | a :: l' =>
      if snd a - fst a =? cur then Some (a, l')
      else match take_next cur l' with
           | Some (b, r) => Some (b, a :: r)
           | None => None
           end
  end.

Fixpoint serial_chain (fuel : nat) (cur final : Z) (l : list ack) : bool :=
  match l with
  | [] => cur =? final
  | _ => match fuel with
         | O => false
         | S f => match take_next cur l with
                  | Some (a, r) => serial_chain f (snd a) final r
                  | None => false
                  end
         end
  end.

(** Specification for C33: at any moment at most one contender has the
    directory (its acquire returned the lock and it has not started to
    release it).  The observable is, after every scheduling step, the list of
    contenders that currently have the directory. *)
From Coq Require Import List Arith Bool.
Import ListNotations.

Definition at_most_one (hs : list nat) : Prop := length hs <= 1.
Definition at_most_one_b (hs : list nat) : bool := Nat.leb (length hs) 1.

Definition exclusive_trace (obs : list (list nat)) : Prop := Forall at_most_one obs.
Definition exclusive_trace_b (obs : list (list nat)) : bool := forallb at_most_one_b obs.

(** Database level: the file operations of one [Close], each with "is on the LOCK file" and
    "a second contender could take the directory right before it".  The directory must stay
    held until the database is done with every other file: no intrusion, and no operation on
    another file after the first operation on LOCK. *)
Definition dbop := (bool * bool)%type.      (* (on LOCK, intruded) *)

Fixpoint close_held (released : bool) (ops : list dbop) : Prop :=
  match ops with
  | [] => True
  | (lock, intr) :: r =>
      intr = false /\ (released = true -> lock = true) /\ close_held (released || lock) r
  end.

Fixpoint close_held_b (released : bool) (ops : list dbop) : bool :=
  match ops with
  | [] => true
  | (lock, intr) :: r => negb intr && (negb released || lock) && close_held_b (released || lock) r
  end.

(** Specification for C33: at any moment at most one contender has the
    directory (its acquire returned the lock and it has not started to
    release it).  The observable is, after every scheduling step, the list of
    contenders that currently have the directory. *)
From Coq Require Import List Arith Bool.
Import ListNotations.

Definition at_most_one (hs : list nat) : Prop := length hs <= 1.
Definition at_most_one_b (hs : list nat) : bool := Nat.leb (length hs) 1.

Definition exclusive_trace (obs : list (list nat)) : Prop := Forall at_most_one obs.
Definition exclusive_trace_b (obs : list (list nat)) : bool := forallb at_most_one_b obs.

(** C36: WAL segment cleanup never removes data still needed.

    A segment is *needed* if it holds an LSM write of a memtable that is not
    yet installed as a table (the active or a sealed memtable), or a raft entry
    some group has not truncated, or the latest hard state of a group.  After a
    crash the DB must return every acknowledged write and every group must get
    back its hard state and its untruncated entries. *)
From Coq Require Import List NArith Bool.
From NoKV Require Import Model.RaftStore Spec.RaftStoreSpec Model.WalGc.
Import ListNotations.
Local Open Scope N_scope.

Definition seg_has_lsm (s : st) (id : N) : Prop :=
  exists rs k v q, seg_recs (s_segs s) id = Some rs /\ In (WLsm k v q) rs.
(** [pre] is the state an operation ran in (its segment files), [post] the
    state it left (a flush installs its table first and removes afterwards, so
    memtable membership is read in [post]). *)
Definition lsm_needed (pre post : st) (id : N) : Prop :=
  (id = s_active post \/ In id (s_imms post)) /\ seg_has_lsm pre id.
Definition raft_needed (s : st) (id : N) : Prop :=
  exists g, In g (s_groups s) /\
    ((exists i, In (i, id) (g_spans g)) \/ (g_hs_seg g = id /\ id <> 0)).
Definition needed (pre post : st) (id : N) : Prop := lsm_needed pre post id \/ raft_needed post id.

(** every segment an operation removes is not needed *)
Definition safe_step (s : st) (o : wop) : Prop :=
  forall id, In id (snd (step s o)) -> ~ needed s (fst (step s o)) id.
(** the same for the cleanup a reopening DB performs *)
Definition safe_recovery (s : st) : Prop :=
  forall id, In id (recovery_removed s) -> ~ needed s s id.

(** ** boolean oracle *)
Definition seg_has_lsm_b (s : st) (id : N) : bool :=
  match seg_recs (s_segs s) id with
  | Some rs => match lsm_of rs with [] => false | _ => true end
  | None => false
  end.
Definition lsm_needed_b (pre post : st) (id : N) : bool :=
  ((id =? s_active post) || existsb (N.eqb id) (s_imms post)) && seg_has_lsm_b pre id.
Definition raft_needed_b (s : st) (id : N) : bool :=
  existsb (fun g => existsb (fun p => snd p =? id) (g_spans g) ||
                    ((g_hs_seg g =? id) && negb (id =? 0))) (s_groups s).
Definition needed_b (pre post : st) (id : N) : bool := lsm_needed_b pre post id || raft_needed_b post id.

(** ** what a crash must give back, as a function of the history alone *)
Fixpoint expect_get (ops : list wop) (k : N) (acc : option N) : option N :=
  match ops with
  | [] => acc
  | WPut k' v :: ops' => expect_get ops' k (if k' =? k then Some v else acc)
  | _ :: ops' => expect_get ops' k acc
  end.

(** the group's persisted history (Spec/RaftStoreSpec.v) and its truncation point *)
Definition raft_view (g : N) (o : wop) : option op :=
  match o with
  | WAppend g' first es => if g' =? g then Some (OAppend first es) else None
  | WSetHs g' h => if g' =? g then Some (OHs h) else None
  | _ => None
  end.
Fixpoint expect_raft (g : N) (ops : list wop) (a : alog) (trunc : N) : option (alog * N) :=
  match ops with
  | [] => Some (a, trunc)
  | o :: ops' =>
      match o with
      | WCompact g' idx =>
          if (g' =? g) && (trunc <? idx) && (idx <=? a_last a) then expect_raft g ops' a idx
          else expect_raft g ops' a trunc
      | _ =>
          match raft_view g o with
          | None => expect_raft g ops' a trunc
          | Some ro => match a_step a ro with
                       | Some a' => expect_raft g ops' a' trunc
                       | None => None
                       end
          end
      end
  end.

Definition raft_recovered_ok (g : N) (ops : list wop) (r : res obs) : Prop :=
  forall a trunc, expect_raft g ops a_init 0 = Some (a, trunc) ->
    exists o, r = Ok o /\ o_hs o = a_hs a /\ o_last o = a_last a /\
              forall ie, In ie (a_log a) -> trunc < fst ie -> In ie (o_ents o).

Definition raft_recovered_ok_b (g : N) (ops : list wop) (r : res obs) : bool :=
  match expect_raft g ops a_init 0 with
  | None => true
  | Some (a, trunc) =>
      match r with
      | Err _ => false
      | Ok o => hs_eqb (o_hs o) (a_hs a) && (o_last o =? a_last a) &&
                forallb (fun ie => negb (trunc <? fst ie) || existsb (ient_eqb ie) (o_ents o)) (a_log a)
      end
  end.

(** ** hypotheses of the partial theorems *)
(** memtable ids handed out by NewMemtable grow *)
Fixpoint fresh_rotations (cur : N) (ops : list wop) : Prop :=
  match ops with
  | [] => True
  | WRotate n :: ops' => cur < n /\ fresh_rotations n ops'
  | _ :: ops' => fresh_rotations cur ops'
  end.

Definition is_raft_op (o : wop) : bool :=
  match o with WAppend _ _ _ | WSetHs _ _ | WCompact _ _ | WReopen _ => true | _ => false end.
Definition no_raft (ops : list wop) : bool := forallb (fun o => negb (is_raft_op o)) ops.


(** Specification for C17 / C18 / C19: the Percolator protocol on its
    *logical* state, with no storage layer.

    Per user key the logical state is the lock a transaction holds on it (with
    the value it intends to write) and the key's *timeline*: the records
    (commit ts, kind, start ts, value) of the transactions that finished on
    this key -- committed puts / deletes / lock-only commits, and rollback
    markers at the start ts of aborted transactions.  There are no column
    families, versions-as-keys, tombstones or iterators here.

    [newest_committed] is the read rule of the property text: the newest put
    or delete with commit ts <= t, skipping rollback and lock-only records.
    [lstep] is the protocol: what each request does to the logical state and
    what it answers.  [lrun h] is the logical state after the request history
    [h]; the theorems of C17-C19 are stated against it, and the correspondence
    check uses [lresponses] as its oracle (observed responses of the real code
    against the answers of the protocol). *)
From Coq Require Import List NArith Bool.
From NoKV Require Import Base.Bytes Model.Percolator Model.KvApply.
Import ListNotations.
Local Open Scope N_scope.

Record llock := { ll_rec : lockrec; ll_val : bytes }.
Record lrec := { lr_ts : N; lr_kind : op; lr_start : N; lr_val : bytes }.
Record kstate := { ks_lock : option llock; ks_recs : list lrec }.
Definition ks_empty : kstate := {| ks_lock := None; ks_recs := [] |}.

(** the state: every key's [kstate], plus the (ascending) set of keys ever touched *)
Record lstate := { ls_keys : list bytes; ls_at : bytes -> kstate }.
Definition lempty : lstate := {| ls_keys := []; ls_at := fun _ => ks_empty |}.

Fixpoint key_insert (ks : list bytes) (k : bytes) : list bytes :=
  match ks with
  | [] => [k]
  | k' :: ks' =>
      match bytes_cmp k k' with
      | Lt => k :: ks
      | Eq => ks
      | Gt => k' :: key_insert ks' k
      end
  end.

Definition lupd (a : lstate) (k : bytes) (x : kstate) : lstate :=
  {| ls_keys := key_insert (ls_keys a) k;
     ls_at := fun k' => if bytes_eqb k' k then x else ls_at a k' |}.

(** * The read rule (C17) *)

Definition committed_data (r : lrec) : bool :=
  match lr_kind r with OpPut | OpDelete => true | _ => false end.
Definition visible_at (t : N) (r : lrec) : bool := committed_data r && (lr_ts r <=? t).

(** the visible record with the greatest commit ts *)
Fixpoint newest_of (p : lrec -> bool) (rs : list lrec) (best : option lrec) : option lrec :=
  match rs with
  | [] => best
  | r :: rs' =>
      newest_of p rs'
        (if p r && match best with None => true | Some b => lr_ts b <? lr_ts r end then Some r else best)
  end.
Definition newest_committed (rs : list lrec) (t : N) : option lrec := newest_of (visible_at t) rs None.

Definition read_value (rs : list lrec) (t : N) : option bytes :=
  match newest_committed rs t with
  | Some r => match lr_kind r with OpPut => Some (lr_val r) | _ => None end
  | None => None
  end.

(** a read at [t]: blocked by a lock with start ts <= t, otherwise the newest committed value *)
Definition lget (a : lstate) (k : bytes) (t : N) : get_result :=
  let ks := ls_at a k in
  match ks_lock ks with
  | Some l =>
      if l_ts (ll_rec l) <=? t then GLocked k (ll_rec l)
      else match read_value (ks_recs ks) t with Some v => GValue v | None => GNotFound end
  | None => match read_value (ks_recs ks) t with Some v => GValue v | None => GNotFound end
  end.

(** a scan is the point reads of the keys from [start_key] on, in order, up to
    [limit] values, stopping at the first lock error *)
Fixpoint lscan_keys (a : lstate) (ks : list bytes) (t : N) (room : nat) : list (bytes * bytes) * option key_error :=
  match room with
  | O => ([], None)
  | S room' =>
      match ks with
      | [] => ([], None)
      | k :: ks' =>
          match lget a k t with
          | GLocked k' l => ([], Some (KELocked k' l))
          | GValue v => let '(kvs, e) := lscan_keys a ks' t room' in ((k, v) :: kvs, e)
          | GNotFound => lscan_keys a ks' t room
          end
      end
  end.

Definition in_range (start_key : bytes) (include_start : bool) (k : bytes) : bool :=
  match bytes_cmp k start_key with Lt => false | Eq => include_start || is_nil start_key | Gt => true end.

Definition lscan (a : lstate) (start_key : bytes) (include_start : bool) (limit version : N)
  : list (bytes * bytes) * option key_error :=
  lscan_keys a (filter (in_range start_key include_start) (ls_keys a))
             (scan_read_ts version) (N.to_nat (scan_limit limit)).

(** The scan over the keys that already have a record.  This is what the code
    implements: [handleScan] meets a key only through its write records, so
    the lock of a first-ever prewrite is invisible to it (known finding
    C17-F1).  [scan_sees_all_locks] says that no such lock is in the way, and
    then both scans coincide. *)
Definition has_records (a : lstate) (k : bytes) : bool :=
  negb (match ks_recs (ls_at a k) with [] => true | _ => false end).
Definition lscan_blind (a : lstate) (start_key : bytes) (include_start : bool) (limit version : N)
  : list (bytes * bytes) * option key_error :=
  lscan_keys a (filter (fun k => in_range start_key include_start k && has_records a k) (ls_keys a))
             (scan_read_ts version) (N.to_nat (scan_limit limit)).
Definition blocked_at (a : lstate) (k : bytes) (t : N) : bool :=
  match ks_lock (ls_at a k) with Some l => l_ts (ll_rec l) <=? t | None => false end.
Definition scan_sees_all_locks (a : lstate) (start_key : bytes) (include_start : bool) (version : N) : bool :=
  forallb (fun k => negb (in_range start_key include_start k) || has_records a k ||
                    negb (blocked_at a k (scan_read_ts version))) (ls_keys a).

(** * The protocol *)

Definition find_start (rs : list lrec) (start : N) : option lrec :=
  find (fun r => lr_start r =? start) rs.

(** newest record of any kind (write-conflict check) *)
Definition newest_any (rs : list lrec) : option lrec := newest_of (fun _ => true) rs None.

(** timeline insertion: newest first; a record at an existing commit ts replaces it *)
Fixpoint add_rec (rs : list lrec) (r : lrec) : list lrec :=
  match rs with
  | [] => [r]
  | r' :: rs' =>
      if lr_ts r' <? lr_ts r then r :: rs
      else if lr_ts r' =? lr_ts r then r :: rs'
      else r' :: add_rec rs' r
  end.

Definition own_lock (ks : kstate) (start : N) : option llock :=
  match ks_lock ks with
  | Some l => if l_ts (ll_rec l) =? start then Some l else None
  | None => None
  end.
Definition foreign_lock (ks : kstate) (start : N) : option llock :=
  match ks_lock ks with
  | Some l => if l_ts (ll_rec l) =? start then None else Some l
  | None => None
  end.

Definition l_prewrite_key (ks : kstate) (primary : bytes) (start ttl mc : N) (m : mutation)
  : kstate * option key_error :=
  match foreign_lock ks start with
  | Some l => (ks, Some (KELocked (m_key m) (ll_rec l)))
  | None =>
      match (match newest_any (ks_recs ks) with
             | Some r => if start <=? lr_ts r then Some r else None
             | None => None
             end) with
      | Some r => (ks, Some (KEConflict (m_key m) primary (lr_ts r) (lr_start r) start))
      | None =>
          match m_op m with
          | OpRollback => (ks, Some (KEAbort AbUnsupportedOp))
          | o => ({| ks_lock := Some {| ll_rec := {| l_primary := primary; l_ts := start; l_ttl := ttl;
                                                     l_kind := o; l_min_commit := mc |};
                                        ll_val := match o with OpPut => m_val m | _ => [] end |};
                     ks_recs := ks_recs ks |}, None)
          end
      end
  end.

(** commit of the key whose lock [l] the transaction holds *)
Definition l_commit_key (ks : kstate) (k : bytes) (l : llock) (cv : N) : kstate * option key_error :=
  if cv <? l_min_commit (ll_rec l) then (ks, Some (KECommitTsExpired k cv (l_min_commit (ll_rec l))))
  else
    match find_start (ks_recs ks) (l_ts (ll_rec l)) with
    | Some r =>
        if op_eqb (lr_kind r) OpRollback then (ks, Some (KEAbort AbRolledBack))
        else ({| ks_lock := None; ks_recs := ks_recs ks |}, None)
    | None =>
        ({| ks_lock := None;
            ks_recs := add_rec (ks_recs ks) {| lr_ts := cv; lr_kind := l_kind (ll_rec l);
                                               lr_start := l_ts (ll_rec l); lr_val := ll_val l |} |}, None)
    end.

(** rollback of transaction [start] on one key: a no-op once the transaction
    has a record here; otherwise its own lock (only) is removed and a rollback
    marker is left at [start] *)
Definition l_rollback_key (ks : kstate) (start : N) : kstate :=
  match find_start (ks_recs ks) start with
  | Some _ => ks
  | None =>
      {| ks_lock := match own_lock ks start with Some _ => None | None => ks_lock ks end;
         ks_recs := add_rec (ks_recs ks) {| lr_ts := start; lr_kind := OpRollback; lr_start := start; lr_val := [] |} |}
  end.

Fixpoint l_prewrite (a : lstate) (primary : bytes) (start ttl mc : N) (ms : list mutation)
  : lstate * list key_error :=
  match ms with
  | [] => (a, [])
  | m :: ms' =>
      let '(a1, e) :=
        if is_nil (m_key m) then (a, Some (KEAbort AbEmptyKey)) else
        match l_prewrite_key (ls_at a (m_key m)) primary start ttl mc m with
        | (ks, None) => (lupd a (m_key m) ks, None)
        | (_, Some e) => (a, Some e)
        end in
      let '(a2, es) := l_prewrite a1 primary start ttl mc ms' in
      (a2, match e with Some x => x :: es | None => es end)
  end.

Fixpoint l_commit (a : lstate) (keys : list bytes) (start cv : N) : lstate * option key_error :=
  match keys with
  | [] => (a, None)
  | k :: keys' =>
      if is_nil k then (a, Some (KEAbort AbEmptyKey)) else
      let ks := ls_at a k in
      match ks_lock ks with
      | None =>
          match find_start (ks_recs ks) start with
          | Some r => if op_eqb (lr_kind r) OpRollback then (a, Some (KEAbort AbRolledBack))
                      else l_commit a keys' start cv
          | None => (a, Some (KEAbort AbLockNotFound))
          end
      | Some l =>
          if l_ts (ll_rec l) =? start then
            match l_commit_key ks k l cv with
            | (ks1, None) => l_commit (lupd a k ks1) keys' start cv
            | (_, Some e) => (a, Some e)
            end
          else (a, Some (KELocked k (ll_rec l)))
      end
  end.

Fixpoint l_batch_rollback (a : lstate) (keys : list bytes) (start : N) : lstate * option key_error :=
  match keys with
  | [] => (a, None)
  | k :: keys' =>
      if is_nil k then (a, Some (KEAbort AbEmptyKey))
      else l_batch_rollback (lupd a k (l_rollback_key (ls_at a k) start)) keys' start
  end.

Fixpoint l_resolve (a : lstate) (keys : list bytes) (start cv : N) (n : N) : lstate * N * option key_error :=
  match keys with
  | [] => (a, n, None)
  | k :: keys' =>
      if is_nil k then l_resolve a keys' start cv n else
      let ks := ls_at a k in
      match own_lock ks start with
      | Some l =>
          if cv =? 0 then l_resolve (lupd a k (l_rollback_key ks start)) keys' start cv (n + 1)
          else match l_commit_key ks k l cv with
               | (ks1, None) => l_resolve (lupd a k ks1) keys' start cv (n + 1)
               | (_, Some e) => (a, n, Some e)
               end
      | None => l_resolve a keys' start cv n
      end
  end.

(** a lock has expired for a caller at [current_ts] when it has a TTL and
    [current_ts >= ts + ttl] in uint64 arithmetic *)
Definition lock_expired (l : lockrec) (current_ts : N) : bool :=
  negb (l_ttl l =? 0) && (wrap64 (l_ts l + l_ttl l) <=? current_ts).

Definition l_check (a : lstate) (primary : bytes) (lock_ts current_ts caller_start : N) (rb : bool)
  : lstate * check_result :=
  let ks := ls_at a primary in
  match ks_lock ks with
  | Some l =>
      if negb (l_ts (ll_rec l) =? lock_ts) then (a, cr_err (KELocked primary (ll_rec l)))
      else
      match (match find_start (ks_recs ks) lock_ts with
             | Some r => if op_eqb (lr_kind r) OpRollback then None else Some r
             | None => None
             end) with
      | Some r =>   (* the transaction is committed here and only its lock is left: remove it, report the commit *)
          (lupd a primary {| ks_lock := None; ks_recs := ks_recs ks |}, cr_ok ActNone 0 (lr_ts r))
      | None =>
      if lock_expired (ll_rec l) current_ts then
        (lupd a primary (l_rollback_key ks lock_ts), cr_ok ActTTLExpireRollback 0 0)
      else if (0 <? caller_start) && (l_min_commit (ll_rec l) <? wrap64 (caller_start + 1)) then
        let lr := ll_rec l in
        (lupd a primary
              {| ks_lock := Some {| ll_rec := {| l_primary := l_primary lr; l_ts := l_ts lr; l_ttl := l_ttl lr;
                                                 l_kind := l_kind lr; l_min_commit := wrap64 (caller_start + 1) |};
                                    ll_val := ll_val l |};
                 ks_recs := ks_recs ks |},
         cr_ok ActMinCommitPushed (l_ttl lr) 0)
      else (a, cr_ok ActNone (l_ttl (ll_rec l)) 0)
      end
  | None =>
      match find_start (ks_recs ks) lock_ts with
      | Some r =>
          if op_eqb (lr_kind r) OpRollback then (a, cr_ok ActLockNotExistRollback 0 0)
          else (a, cr_ok ActNone 0 (lr_ts r))
      | None =>
          if rb then (lupd a primary (l_rollback_key ks lock_ts), cr_ok ActLockNotExistRollback 0 0)
          else (a, cr_ok ActNone 0 0)
      end
  end.

Definition lstep (a : lstate) (r : request) : lstate * response :=
  match r with
  | RPrewrite ms primary start ttl mc => let '(a1, es) := l_prewrite a primary start ttl mc ms in (a1, PPrewrite es)
  | RCommit keys start cv => let '(a1, e) := l_commit a keys start cv in (a1, PCommit e)
  | RRollback keys start => let '(a1, e) := l_batch_rollback a keys start in (a1, PRollback e)
  | RResolve keys start cv => let '(a1, n, e) := l_resolve a keys start cv 0 in (a1, PResolve n e)
  | RCheck primary lts cur caller rb => let '(a1, cr) := l_check a primary lts cur caller rb in (a1, PCheck cr)
  | RGet k v => (a, PGet (lget a k v))
  | RScan sk inc lim v => let '(kvs, e) := lscan a sk inc lim v in (a, PScan kvs e)
  end.

Fixpoint lrun_from (a : lstate) (h : list request) : lstate :=
  match h with
  | [] => a
  | r :: h' => lrun_from (fst (lstep a r)) h'
  end.
Definition lrun (h : list request) : lstate := lrun_from lempty h.

Fixpoint lresponses_from (a : lstate) (h : list request) : list response :=
  match h with
  | [] => []
  | r :: h' => let '(a1, p) := lstep a r in p :: lresponses_from a1 h'
  end.
Definition lresponses (h : list request) : list response := lresponses_from lempty h.

(** * Hypotheses on histories *)

(** requests the theorems talk about: keys are non-empty, put values are
    non-empty (an empty value is indistinguishable from "absent" at the store
    interface), and a commit version is above its start version *)
Definition mutation_ok (m : mutation) : bool :=
  negb (is_nil (m_key m)) && match m_op m with OpPut => negb (is_nil (m_val m)) | _ => true end.
Definition keys_ok (ks : list bytes) : bool := forallb (fun k => negb (is_nil k)) ks.
Definition req_ok (r : request) : bool :=
  match r with
  | RPrewrite ms primary _ _ _ => forallb mutation_ok ms
  | RCommit keys start cv => keys_ok keys && (start <? cv)
  | RRollback keys _ => keys_ok keys
  | RResolve keys start cv => keys_ok keys && ((cv =? 0) || (start <? cv))
  | RCheck primary _ _ _ _ => negb (is_nil primary)
  | RGet k _ => negb (is_nil k)
  | RScan _ _ _ _ => true
  end.

(** timestamps: start timestamps name transactions; [uniq_ts h] says that no
    commit version of the history is also used as a start version, and that a
    commit version belongs to one transaction *)
Definition starts_of (r : request) : list N :=
  match r with
  | RPrewrite _ _ s _ _ | RCommit _ s _ | RRollback _ s | RResolve _ s _ | RCheck _ s _ _ _ => [s]
  | _ => []
  end.
Definition commits_of (r : request) : list (N * N) :=   (* (commit version, start version) *)
  match r with
  | RCommit _ s c => [(c, s)]
  | RResolve _ s c => if c =? 0 then [] else [(c, s)]
  | _ => []
  end.
Definition uniq_ts (h : list request) : Prop :=
  (forall c s s', In (c, s) (flat_map commits_of h) -> In s' (flat_map starts_of h) -> c <> s') /\
  (forall c s s', In (c, s) (flat_map commits_of h) -> In (c, s') (flat_map commits_of h) -> s = s').

(** Specification for C32 on observed runs.  An observation is, after every
    scheduling step, the mark [doneUntil] together with the indices that are
    outstanding: begun in order (the Begin took its first effect while every
    index begun before was smaller) and not yet finished.  The mark must never
    decrease and must stay below every outstanding index; a wait for [i] may
    only return when the mark is at least [i]. *)
From Coq Require Import List NArith Bool.
Import ListNotations.
Local Open Scope N_scope.

Definition obs := (N * list N)%type.      (* (doneUntil, outstanding indices) *)

Definition obs_safe (o : obs) : Prop := Forall (fun i => fst o < i) (snd o).
Definition obs_safe_b (o : obs) : bool := forallb (fun i => fst o <? i) (snd o).

Definition trace_safe (tr : list obs) : Prop := Forall obs_safe tr.
Definition trace_safe_b (tr : list obs) : bool := forallb obs_safe_b tr.

Fixpoint monotone_from (d : N) (tr : list obs) : Prop :=
  match tr with [] => True | o :: r => d <= fst o /\ monotone_from (fst o) r end.
Fixpoint monotone_from_b (d : N) (tr : list obs) : bool :=
  match tr with [] => true | o :: r => (d <=? fst o) && monotone_from_b (fst o) r end.

(** Property C24 as [Prop]s. *)
From Coq Require Import List NArith Bool.
From NoKV Require Import Base.Bytes Model.Pd Spec.PdSpec Model.Regions.
Import ListNotations.
Local Open Scope N_scope.

(** A key is covered by a catalog when some region's range contains it
    ([contains], [wf_range], [disjoint] are those of Spec/PdSpec.v). *)
Definition covered (c : rcatalog) (k : bytes) : Prop := exists m, In m c /\ contains (r_reg m) k.

(** One entry per id, non-empty ranges, pairwise disjoint key sets. *)
Definition partition (c : rcatalog) : Prop :=
  NoDup (map rid c) /\
  Forall (fun m => wf_range (r_reg m)) c /\
  (forall a b, In a c -> In b c -> rid a <> rid b -> disjoint (r_reg a) (r_reg b)).

Definition same_cover (c c' : rcatalog) : Prop := forall k, covered c' k <-> covered c k.

(** Lifecycle order: New < Running < Removing < Tombstone. *)
Definition known_state (st : N) : Prop := st <= 3.
Definition forward (cur next : N) : Prop :=
  cur = next \/ (known_state cur /\ known_state next /\ cur < next /\ (cur = 0 -> next = 1)).

(** Same map. *)
Definition same_rmap (c1 c2 : rcatalog) : Prop := forall id, rfind id c1 = rfind id c2.

(** A split command as its proposers build it: the child takes over the
    parent's end, under an id that is not in use. *)
Definition split_wf (c : rcatalog) (parent : N) (child : rmeta) : Prop :=
  rfind (rid child) c = None /\
  match rfind parent c with Some p => g_end (r_reg child) = g_end (r_reg p) | None => True end.

(** ** Boolean oracles (written after the definitions above) *)
Definition rmeta_eqb (a b : rmeta) : bool := region_eqb (r_reg a) (r_reg b) && (r_state a =? r_state b).

Fixpoint listing_eqb (a b : list rmeta) : bool :=
  match a, b with
  | [], [] => true
  | x :: a', y :: b' => rmeta_eqb x y && listing_eqb a' b'
  | _, _ => false
  end.

Fixpoint nodup_ids (l : list N) : bool :=
  match l with
  | [] => true
  | x :: l' => negb (existsb (N.eqb x) l') && nodup_ids l'
  end.

Definition partition_b (c : rcatalog) : bool :=
  nodup_ids (map rid c)
  && forallb (fun m => wf_range_b (r_reg m)) c
  && forallb (fun a => forallb (fun b => (rid a =? rid b) || negb (intersect_b (r_reg a) (r_reg b))) c) c.

Definition covered_b (c : rcatalog) (k : bytes) : bool := existsb (fun m => contains_b (r_reg m) k) c.

(** Coverage is piecewise constant between consecutive range bounds and
    ranges are closed on the left, so two catalogs cover the same keys iff
    they agree on the empty key and on every bound of either. *)
Definition probes (c c' : rcatalog) : list bytes :=
  [] :: flat_map (fun m => [g_start (r_reg m); g_end (r_reg m)]) (c ++ c').

Definition same_cover_b (c c' : rcatalog) : bool :=
  forallb (fun k => Bool.eqb (covered_b c k) (covered_b c' k)) (probes c c').

Definition forward_b (cur next : N) : bool :=
  (cur =? next) || ((cur <=? 3) && (next <=? 3) && (cur <? next) && (negb (cur =? 0) || (next =? 1))).

(** Epochs of regions present before and after and changed must have grown. *)
Definition epochs_grow_b (c c' : rcatalog) : bool :=
  forallb (fun m' => match rfind (rid m') c with
                     | Some m => region_eqb (r_reg m) (r_reg m') || (g_ver (r_reg m) <? g_ver (r_reg m'))
                     | None => true
                     end) c'.

(** C14 — single-bit corruption. [flip_bit i m] flips bit [i mod 8] of byte
    [i / 8] of [m].  "Never served as valid data": whatever a reader delivers
    after the corruption is what was originally written (a prefix of the
    original record list / the original entry), or an error. *)
From Coq Require Import List NArith Bool.
From Coq Require Import Init.Byte.
From NoKV Require Import Base.Bytes Base.Num.
Import ListNotations.
Local Open Scope N_scope.

Definition flip_byte (x : byte) (k : N) : byte := n2b (N.lxor (b2n x) (2 ^ k)).

Fixpoint flip_bit_nat (i : nat) (k : N) (m : bytes) : bytes :=
  match m, i with
  | [], _ => []
  | x :: m', O => flip_byte x k :: m'
  | x :: m', S i' => x :: flip_bit_nat i' k m'
  end.
Definition flip_bit (i : N) (m : bytes) : bytes := flip_bit_nat (N.to_nat (i / 8)) (i mod 8) m.

(** two strings of equal length that differ in exactly one byte position *)
Definition one_byte_diff (a b : bytes) : Prop :=
  exists pre x y suf, a = pre ++ x :: suf /\ b = pre ++ y :: suf /\ x <> y.

Fixpoint is_prefix_of {A} (eqb : A -> A -> bool) (p l : list A) : bool :=
  match p, l with
  | [], _ => true
  | x :: p', y :: l' => eqb x y && is_prefix_of eqb p' l'
  | _ :: _, [] => false
  end.

(** Boolean checker of the read-path invariants: [tier_inv_b s = true] iff
    [src_inv s] (sorted sources, disjoint main tables, positive versions) and
    [scan_inv (scan_srcs s)] (copies of one internal key most-recent-first in
    scan order) — the premises of [get_is_flat] / [get_latest].  Pairwise
    (quadratic) checks; meant for [vm_compute] on replayed states.
    ([tiers_b] still decides the stronger tiered invariant [tier_inv].) *)
From Coq Require Import List NArith Bool Lia Sorting.Sorted.
From NoKV Require Import Base.Bytes Model.Lsm Spec.MvccSpec Proofs.LsmOrder Spec.LsmSpec
     Proofs.LsmRead Proofs.LsmGet Proofs.LsmMain Proofs.LsmInv Proofs.LsmWitness.
Import ListNotations.
Local Open Scope N_scope.

Definition is_lt (c : comparison) : bool := match c with Lt => true | _ => false end.

Fixpoint sortedb (l : list rec) : bool :=
  match l with
  | [] => true
  | x :: l' => forallb (fun y => is_lt (rcmp x y)) l' && sortedb l'
  end.

Definition geq_b (x y : rec) : bool :=
  (r_ver y <? r_ver x) || ((r_ver x =? r_ver y) && (r_seq y <=? r_seq x)).

Definition src_before_b (A B : list rec) : bool :=
  forallb (fun x => forallb (fun y =>
    negb (bytes_eqb (r_key x) (r_key y) && (r_ver x =? r_ver y)) || (r_seq y <=? r_seq x)) B) A.

Definition recs_geq_b (A B : list rec) : bool :=
  forallb (fun x => forallb (fun y => negb (bytes_eqb (r_key x) (r_key y)) || geq_b x y) B) A.

Fixpoint within_b (t : list (list rec)) : bool :=
  match t with
  | [] => true
  | a :: T => src_before_b a (concat T) && within_b T
  end.

Definition tier_ok_b (t : list (list rec)) : bool :=
  forallb sortedb t && forallb (fun x => 0 <? r_ver x) (concat t) && within_b t.

Fixpoint tiers_b (tiers : list (list (list rec))) : bool :=
  match tiers with
  | [] => true
  | t :: R => tier_ok_b t && recs_geq_b (concat t) (all_recs R) && tiers_b R
  end.

Fixpoint main_disjoint_b (ts : list table) : bool :=
  match ts with
  | [] => true
  | t :: ts' =>
      match t_recs t with [] => false | _ => true end
      && forallb (fun u => bytes_ltb (t_max t) (t_min u)) ts' && main_disjoint_b ts'
  end.

Definition tbl_sortedb (t : table) : bool := sortedb (t_recs t).

Definition level_b (lv : level) : bool :=
  forallb (forallb tbl_sortedb) (lv_shards lv) && forallb tbl_sortedb (lv_main lv)
  && main_disjoint_b (lv_main lv).

Definition src_b (s : state) : bool :=
  sortedb (st_mem s) && forallb (fun m => sortedb (snd m)) (st_imms s)
  && forallb tbl_sortedb (st_l0 s) && forallb level_b (st_lvls s).

Definition tier_inv_b (s : state) : bool := src_b s && tier_ok_b (scan_srcs s).

(** * Soundness *)
Lemma sortedb_sound l : sortedb l = true -> sorted l.
Proof.
  induction l as [|x l IH]; cbn [sortedb]; intro H; [constructor|].
  apply andb_true_iff in H as [H1 H2]. constructor; [now apply IH|].
  rewrite forallb_forall in H1. apply Forall_forall. intros y Hy. specialize (H1 y Hy).
  unfold rlt. destruct (rcmp x y); [discriminate | reflexivity | discriminate].
Qed.

Lemma geq_b_sound x y : geq_b x y = true -> geq x y.
Proof.
  unfold geq_b, geq. rewrite orb_true_iff, andb_true_iff, N.ltb_lt, N.eqb_eq, N.leb_le. tauto.
Qed.

Lemma src_before_b_sound A B : src_before_b A B = true -> src_before A B.
Proof.
  unfold src_before_b. rewrite forallb_forall. intros H x y Hx Hy Hk Hv.
  specialize (H x Hx). rewrite forallb_forall in H. specialize (H y Hy).
  apply orb_true_iff in H as [H|H]; [|now apply N.leb_le].
  apply negb_true_iff, andb_false_iff in H as [H|H].
  - apply bytes_eqb_neq in H. contradiction.
  - apply N.eqb_neq in H. contradiction.
Qed.

Lemma recs_geq_b_sound A B : recs_geq_b A B = true -> recs_geq A B.
Proof.
  unfold recs_geq_b. rewrite forallb_forall. intros H x y Hx Hy Hk.
  specialize (H x Hx). rewrite forallb_forall in H. specialize (H y Hy).
  apply orb_true_iff in H as [H|H]; [|now apply geq_b_sound].
  apply negb_true_iff, bytes_eqb_neq in H. contradiction.
Qed.

Lemma within_b_sound t : within_b t = true -> within_ok t.
Proof.
  induction t as [|a T IH]; cbn [within_b]; intro H; [apply within_ok_nil|].
  apply andb_true_iff in H as [H1 H2]. apply within_ok_cons. split; [now apply src_before_b_sound | now apply IH].
Qed.

Lemma tier_ok_b_sound t : tier_ok_b t = true -> tier_ok t.
Proof.
  unfold tier_ok_b, tier_ok. rewrite !andb_true_iff, !forallb_forall. intros [[H1 H2] H3].
  split; [|split; [|now apply within_b_sound]].
  - apply Forall_forall. intros a Ha. now apply sortedb_sound, H1.
  - intros x Hx. now apply N.ltb_lt, H2.
Qed.

Lemma tiers_b_sound tiers : tiers_b tiers = true -> tier_inv tiers.
Proof.
  induction tiers as [|t R IH]; cbn [tiers_b]; intro H; [apply tier_inv_nil|].
  apply andb_true_iff in H as [H H3]. apply andb_true_iff in H as [H1 H2].
  apply tier_inv_cons. split; [now apply tier_ok_b_sound|]. split; [now apply recs_geq_b_sound | now apply IH].
Qed.

Lemma main_disjoint_b_sound ts : main_disjoint_b ts = true -> main_disjoint ts.
Proof.
  induction ts as [|t ts IH]; cbn [main_disjoint_b main_disjoint]; intro H; [exact I|].
  apply andb_true_iff in H as [H H3]. apply andb_true_iff in H as [H1 H2].
  split; [destruct (t_recs t); [discriminate | discriminate]|].
  split; [|now apply IH]. apply Forall_forall. now apply forallb_forall.
Qed.

Lemma forallb_Forall {A} (f : A -> bool) (P : A -> Prop) l :
  (forall x, f x = true -> P x) -> forallb f l = true -> Forall P l.
Proof. intros H Hf. rewrite forallb_forall in Hf. apply Forall_forall. auto. Qed.

Lemma tbl_sortedb_sound t : tbl_sortedb t = true -> sorted (t_recs t).
Proof. apply sortedb_sound. Qed.

Lemma level_b_sound lv :
  level_b lv = true ->
  Forall (Forall (fun t => sorted (t_recs t))) (lv_shards lv) /\
  Forall (fun t => sorted (t_recs t)) (lv_main lv) /\ main_disjoint (lv_main lv).
Proof.
  unfold level_b. rewrite !andb_true_iff. intros [[H1 H2] H3]. split; [|split].
  - eapply forallb_Forall; [|exact H1]. intros sh. apply forallb_Forall. exact tbl_sortedb_sound.
  - eapply forallb_Forall; [|exact H2]. exact tbl_sortedb_sound.
  - now apply main_disjoint_b_sound.
Qed.

Theorem tier_inv_b_sound s : tier_inv_b s = true -> src_inv s /\ scan_inv (scan_srcs s).
Proof.
  unfold tier_inv_b, src_b. rewrite !andb_true_iff. intros [[[[H1 H2] H3] H4] H5].
  pose proof (tier_ok_b_sound _ H5) as Ht. split; [|exact Ht]. constructor.
  - now apply sortedb_sound.
  - eapply forallb_Forall; [|exact H2]. intros m. apply sortedb_sound.
  - eapply forallb_Forall; [|exact H3]. exact tbl_sortedb_sound.
  - eapply forallb_Forall; [|exact H4]. exact level_b_sound.
  - exact (proj1 (proj2 Ht)).
Qed.

(** With the history: the checker plus [content_ok] give the read theorem. *)
Corollary tier_inv_b_reads s ws k v :
  tier_inv_b s = true ->
  (forall x, In x (all_recs (tiers_of s)) -> In x ws) ->
  (forall w, In w ws -> exists x, In x (all_recs (tiers_of s)) /\ r_key x = r_key w /\ r_ver x = r_ver w /\ geq x w) ->
  seq_functional ws ->
  is_latest ws k v (get s k v).
Proof.
  intros Hb H1 H2 Hf. apply tier_inv_b_sound in Hb as [Hs Ht].
  rewrite (get_is_flat s k v Hs). eapply is_latest_transfer; [split; [exact H1 | exact H2]|].
  change (all_recs (tiers_of s)) with (concat (scan_srcs s)). now apply scan_latest.
Qed.

(** * Completeness: the checker decides the invariants *)
Lemma sortedb_complete l : sorted l -> sortedb l = true.
Proof.
  induction 1 as [|x l Hs IH Hf]; [reflexivity|]. cbn [sortedb]. rewrite IH, andb_true_r.
  apply forallb_forall. intros y Hy. rewrite Forall_forall in Hf. specialize (Hf y Hy).
  unfold rlt in Hf. now rewrite Hf.
Qed.

Lemma geq_b_complete x y : geq x y -> geq_b x y = true.
Proof.
  unfold geq_b, geq. rewrite orb_true_iff, andb_true_iff, N.ltb_lt, N.eqb_eq, N.leb_le. tauto.
Qed.

Lemma src_before_b_complete A B : src_before A B -> src_before_b A B = true.
Proof.
  intro H. unfold src_before_b. apply forallb_forall. intros x Hx. apply forallb_forall. intros y Hy.
  destruct (bytes_eqb (r_key x) (r_key y)) eqn:Ek; [|reflexivity].
  destruct (r_ver x =? r_ver y) eqn:Ev; [|reflexivity]. cbn [andb negb orb].
  apply N.leb_le. apply (H x y Hx Hy); [now apply bytes_eqb_eq | now apply N.eqb_eq].
Qed.

Lemma recs_geq_b_complete A B : recs_geq A B -> recs_geq_b A B = true.
Proof.
  intro H. unfold recs_geq_b. apply forallb_forall. intros x Hx. apply forallb_forall. intros y Hy.
  destruct (bytes_eqb (r_key x) (r_key y)) eqn:Ek; [|reflexivity]. cbn [negb orb].
  apply geq_b_complete. apply (H x y Hx Hy). now apply bytes_eqb_eq.
Qed.

Lemma within_b_complete t : within_ok t -> within_b t = true.
Proof.
  induction t as [|a T IH]; intro H; [reflexivity|]. apply within_ok_cons in H as [H1 H2].
  cbn [within_b]. now rewrite (src_before_b_complete _ _ H1), (IH H2).
Qed.

Lemma tier_ok_b_complete t : tier_ok t -> tier_ok_b t = true.
Proof.
  intros (H1 & H2 & H3). unfold tier_ok_b. rewrite (within_b_complete _ H3), andb_true_r.
  apply andb_true_iff. split; apply forallb_forall.
  - intros a Ha. rewrite Forall_forall in H1. now apply sortedb_complete, H1.
  - intros x Hx. now apply N.ltb_lt, H2.
Qed.

Lemma tiers_b_complete tiers : tier_inv tiers -> tiers_b tiers = true.
Proof.
  induction tiers as [|t R IH]; intro H; [reflexivity|]. apply tier_inv_cons in H as (H1 & H2 & H3).
  cbn [tiers_b]. now rewrite (tier_ok_b_complete _ H1), (recs_geq_b_complete _ _ H2), (IH H3).
Qed.

Lemma main_disjoint_b_complete ts : main_disjoint ts -> main_disjoint_b ts = true.
Proof.
  induction ts as [|t ts IH]; cbn [main_disjoint main_disjoint_b]; [reflexivity|]. intros (H1 & H2 & H3).
  rewrite (IH H3), andb_true_r. apply andb_true_iff. split; [destruct (t_recs t); [congruence | reflexivity]|].
  apply forallb_forall. now apply Forall_forall.
Qed.

Lemma Forall_forallb {A} (f : A -> bool) (P : A -> Prop) l :
  (forall x, P x -> f x = true) -> Forall P l -> forallb f l = true.
Proof. intros H Hf. rewrite Forall_forall in Hf. apply forallb_forall. auto. Qed.

Lemma level_b_complete lv :
  Forall (Forall (fun t => sorted (t_recs t))) (lv_shards lv) /\
  Forall (fun t => sorted (t_recs t)) (lv_main lv) /\ main_disjoint (lv_main lv) ->
  level_b lv = true.
Proof.
  intros (H1 & H2 & H3). unfold level_b. rewrite (main_disjoint_b_complete _ H3), andb_true_r.
  apply andb_true_iff. split.
  - eapply Forall_forallb; [|exact H1]. intros sh. apply Forall_forallb. intros t. apply sortedb_complete.
  - eapply Forall_forallb; [|exact H2]. intros t. apply sortedb_complete.
Qed.

Theorem tier_inv_b_complete s : src_inv s -> scan_inv (scan_srcs s) -> tier_inv_b s = true.
Proof.
  intros [H1 H2 H3 H4 _] Ht. unfold tier_inv_b, src_b. rewrite (tier_ok_b_complete _ Ht), (sortedb_complete _ H1).
  rewrite !andb_true_r. cbn [andb]. apply andb_true_iff. split; [apply andb_true_iff; split|].
  - eapply Forall_forallb; [|exact H2]. intros m. apply sortedb_complete.
  - eapply Forall_forallb; [|exact H3]. intros t. apply sortedb_complete.
  - eapply Forall_forallb; [|exact H4]. exact level_b_complete.
Qed.

Theorem tier_inv_b_decides s : tier_inv_b s = true <-> src_inv s /\ scan_inv (scan_srcs s).
Proof. split; [apply tier_inv_b_sound | intros [H1 H2]; now apply tier_inv_b_complete]. Qed.

(** The checker accepts the states of recency-ordered histories and of
    out-of-order version writes, and rejects the ingest-ordering witness of
    Proofs/LsmWitness.v. *)
Example tier_inv_b_l0_tie : tier_inv_b (run (init 1) l0_tie) = true.
Proof. vm_compute. reflexivity. Qed.
Example tier_inv_b_ingest_tie : tier_inv_b (run (init 1) ingest_tie) = false.
Proof. vm_compute. reflexivity. Qed.
Example tier_inv_b_out_of_order : tier_inv_b (run (init 1) out_of_order) = true.
Proof. vm_compute. reflexivity. Qed.

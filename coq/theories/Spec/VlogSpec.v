(** Specification for C08: the store of FULL values.

    The abstract object is the history [ws] of acknowledged user writes, each
    carrying its complete value ([Spec/MvccSpec.v]: [latest_at ws k v] is the
    last-acknowledged write among those of the greatest version <= v).  Value
    pointers, value-log files, buckets, rotation and garbage collection do not
    exist at this level: whatever they do, a read must return what [latest_at]
    returns, byte for byte. *)
From Coq Require Import List NArith Bool.
From NoKV Require Import Base.Bytes Base.Num Model.Lsm Spec.MvccSpec.
Import ListNotations.
Local Open Scope N_scope.

(** What a point read shows: nothing, an error, or value bytes + meta byte. *)
Inductive obs := ONone | OErr | OVal (v : bytes) (meta : N).

(** BitValuePointer (bit 1) is an internal flag, never part of what was written. *)
Definition user_meta (m : N) : N := N.ldiff m 2.

Definition spec_dead (now : N) (r : rec) : bool :=
  N.testbit (r_meta r) 0 || (negb (r_exp r =? 0) && (r_exp r <=? now)).

(** GetVersionedEntry: the newest write at or below the version, tombstones included. *)
Definition spec_getv (ws : list rec) (k : bytes) (v : N) : obs :=
  match latest_at ws k v with
  | Some r => OVal (r_val r) (user_meta (r_meta r))
  | None => ONone
  end.

(** Get / GetCF (v = max sentinel) and Txn.Get (v = read timestamp): deleted and expired entries are absent. *)
Definition spec_get (now : N) (ws : list rec) (k : bytes) (v : N) : obs :=
  match latest_at ws k v with
  | Some r => if spec_dead now r then ONone else OVal (r_val r) (user_meta (r_meta r))
  | None => ONone
  end.

(** An implementation state, seen through its two point-read functions,
    stores the history [ws]. *)
Definition stores (now : N) (getv getl : bytes -> N -> obs) (ws : list rec) : Prop :=
  forall k v, getv k v = spec_getv ws k v /\ getl k v = spec_get now ws k v.

(** A maintenance step (garbage collection, flush, ...) is invisible. *)
Definition invisible (getv getv' : bytes -> N -> obs) : Prop := forall k v, getv' k v = getv k v.

(** Iterators: every item carries the bytes of a write of exactly that internal key. *)
Definition item_written (ws : list rec) (it : bytes * N * bytes) : Prop :=
  let '(k, ver, val) := it in exists w, In w ws /\ r_key w = k /\ r_ver w = ver /\ r_val w = val.

(** * Boolean oracle (written from the definitions above, used by the correspondence) *)
Definition obs_eqb (a b : obs) : bool :=
  match a, b with
  | ONone, ONone | OErr, OErr => true
  | OVal x m, OVal y n => bytes_eqb x y && (m =? n)
  | _, _ => false
  end.

Definition item_written_b (ws : list rec) (it : bytes * N * bytes) : bool :=
  let '(k, ver, val) := it in
  existsb (fun w => bytes_eqb (r_key w) k && (r_ver w =? ver) && bytes_eqb (r_val w) val) ws.

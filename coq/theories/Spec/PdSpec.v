(** Property C26 as [Prop]s over sets of keys. *)
From Coq Require Import List NArith Bool.
From NoKV Require Import Base.Bytes Model.Pd.
Import ListNotations.
Local Open Scope N_scope.

(** The key set of a region: [start, end), empty [end] = +infinity. *)
Definition contains (r : region) (k : bytes) : Prop :=
  bytes_leb (g_start r) k = true /\ (g_end r = [] \/ bytes_ltb k (g_end r) = true).

Definition intersect (a b : region) : Prop := exists k, contains a k /\ contains b k.
Definition disjoint (a b : region) : Prop := forall k, ~ (contains a k /\ contains b k).

(** A range that contains at least one key. *)
Definition wf_range (r : region) : Prop := g_end r = [] \/ bytes_ltb (g_start r) (g_end r) = true.

(** An incoming epoch is stale when it is below the current one in the
    lexicographic order on (version, conf version). *)
Definition stale (inc cur : region) : Prop :=
  g_ver inc < g_ver cur \/ (g_ver inc = g_ver cur /\ g_conf inc < g_conf cur).

(** What PD must accept: a real id, a non-empty range, not stale with respect
    to what is known under the same id, disjoint from every other known region. *)
Definition acceptable (c : catalog) (m : region) : Prop :=
  g_id m <> 0 /\ wf_range m /\
  (forall cur, find (g_id m) c = Some cur -> ~ stale m cur) /\
  (forall r, In r c -> g_id r <> g_id m -> disjoint m r).

(** Catalog invariant: one entry per id, real ids, non-empty ranges, pairwise
    disjoint key sets. *)
Definition catalog_ok (c : catalog) : Prop :=
  NoDup (map g_id c) /\
  Forall (fun r => g_id r <> 0 /\ wf_range r) c /\
  (forall a b, In a c -> In b c -> g_id a <> g_id b -> disjoint a b).

(** Same map (as a function from ids). *)
Definition same_catalog (c1 c2 : catalog) : Prop := forall id, find id c1 = find id c2.

(** ** Boolean oracles (written after the definitions above). *)
Definition contains_b (r : region) (k : bytes) : bool :=
  bytes_leb (g_start r) k && (bytes_eqb (g_end r) [] || bytes_ltb k (g_end r)).

Definition wf_range_b (r : region) : bool :=
  bytes_eqb (g_end r) [] || bytes_ltb (g_start r) (g_end r).

(** Two non-empty ranges intersect iff the larger start is below both ends. *)
Definition intersect_b (a b : region) : bool :=
  let s := if bytes_ltb (g_start a) (g_start b) then g_start b else g_start a in
  contains_b a s && contains_b b s.

Definition stale_b (inc cur : region) : bool :=
  (g_ver inc <? g_ver cur) || ((g_ver inc =? g_ver cur) && (g_conf inc <? g_conf cur)).

Definition acceptable_b (c : catalog) (m : region) : bool :=
  negb (g_id m =? 0) && wf_range_b m
  && match find (g_id m) c with Some cur => negb (stale_b m cur) | None => true end
  && forallb (fun r => (g_id r =? g_id m) || negb (intersect_b m r)) c.

(** The regions of [c] containing [k]. *)
Definition owners (c : catalog) (k : bytes) : list region := filter (fun r => contains_b r k) c.

Definition region_eqb (a b : region) : bool :=
  (g_id a =? g_id b) && bytes_eqb (g_start a) (g_start b) && bytes_eqb (g_end a) (g_end b)
  && (g_ver a =? g_ver b) && (g_conf a =? g_conf b).

(** A lookup result is right when it is the unique owner, or nothing when
    there is no owner. *)
Definition route_ok_b (c : catalog) (k : bytes) (res : option region) : bool :=
  match owners c k, res with
  | [], None => true
  | [r], Some r' => region_eqb r r'
  | _, _ => false
  end.

(** What "well-formed topology" means (property C38), as a [Prop]. *)
From Coq Require Import List NArith Bool.
From NoKV Require Import Base.Bytes Model.Config.
Import ListNotations.
Local Open Scope N_scope.

(** A template is acceptable when it is absent (empty after trimming white
    space) or contains the placeholder. *)
Definition tmpl_ok (t : bytes) : Prop :=
  blank t = true \/ exists a b, t = a ++ id_placeholder ++ b.

Definition peer_ok (stores : list N) (p : peer) : Prop :=
  p_store p <> 0 /\ p_id p <> 0 /\ In (p_store p) stores.

Definition region_ok (stores : list N) (r : region) : Prop :=
  r_id r <> 0 /\ (r_leader r = 0 \/ In (r_leader r) stores) /\ Forall (peer_ok stores) (r_peers r).

Definition well_formed (f : file) : Prop :=
  tmpl_ok (f_tmpl f) /\ tmpl_ok (f_dtmpl f) /\
  Forall (fun s => s <> 0) (f_stores f) /\ NoDup (f_stores f) /\
  Forall (region_ok (f_stores f)) (f_regions f).

(** Boolean form of [well_formed], written after the specification (not after
    [validate]); used as the oracle of the correspondence check. *)
Fixpoint nodup_b (l : list N) : bool :=
  match l with
  | [] => true
  | x :: l' => negb (existsb (N.eqb x) l') && nodup_b l'
  end.

Definition peer_ok_b (stores : list N) (p : peer) : bool :=
  negb (p_store p =? 0) && negb (p_id p =? 0) && existsb (N.eqb (p_store p)) stores.

Definition region_ok_b (stores : list N) (r : region) : bool :=
  negb (r_id r =? 0) && ((r_leader r =? 0) || existsb (N.eqb (r_leader r)) stores)
  && forallb (peer_ok_b stores) (r_peers r).

Definition tmpl_ok_b (t : bytes) : bool := blank t || contains t id_placeholder.

Definition well_formed_b (f : file) : bool :=
  tmpl_ok_b (f_tmpl f) && tmpl_ok_b (f_dtmpl f)
  && forallb (fun s => negb (s =? 0)) (f_stores f) && nodup_b (f_stores f)
  && forallb (region_ok_b (f_stores f)) (f_regions f).

(** kv/entry_codec.go (EntryHeader, EncodeEntryTo, DecodeEntryFrom,
    DecodeValueSlice) and kv/value.go (ValueStruct, ValuePtr), after the repair
    fixes/codec-decoders-panic-alloc.md.

      varint klen | varint vlen | varint meta | varint expiresAt | key | value | be32 crc32c(all before) *)
From Coq Require Import List NArith Bool.
From Coq Require Import Init.Byte.
From NoKV Require Import Base.Bytes Base.Num Base.Varint Base.Crc32c.
Import ListNotations.
Local Open Scope N_scope.

Record entry := { e_key : bytes; e_val : bytes; e_meta : N; e_exp : N }.

Definition enc_header (klen vlen meta exp : N) : bytes :=
  put_uvarint klen ++ put_uvarint vlen ++ put_uvarint meta ++ put_uvarint exp.

(** EncodeEntryTo: lengths are converted with uint32(len(..)) *)
Definition enc_entry_body (e : entry) : bytes :=
  enc_header (u32 (blen (e_key e))) (u32 (blen (e_val e))) (e_meta e) (e_exp e) ++ e_key e ++ e_val e.
Definition enc_entry (e : entry) : bytes :=
  enc_entry_body e ++ be32 (crc32c (enc_entry_body e)).

Inductive ed_res :=
| EdEof                      (* io.EOF: nothing to read *)
| EdPartial                  (* kv.ErrPartialEntry *)
| EdBadCrc                   (* kv.ErrBadChecksum *)
| EdOther                    (* varint overflow / meta overflow *)
| EdOk (e : entry) (reclen : N) (rest : bytes).

(** header via ReadUvarint: [inl] = error outcome, [inr] = fields and remaining stream *)
Definition hdr := (N * N * N * N)%type.

Definition rd_var (first : bool) (bs : bytes) : ed_res + (N * bytes) :=
  match read_uvarint bs with
  | RvOk v n => inr (v, drop n bs)
  | RvEof => inl (if first then EdEof else EdPartial)
  | RvUnexpectedEof => inl EdPartial
  | RvOverflow => inl EdOther
  end.

Definition decode_header_from (bs : bytes) : ed_res + (hdr * bytes) :=
  match rd_var true bs with
  | inl e => inl e
  | inr (klen, b1) =>
    match rd_var false b1 with
    | inl e => inl e
    | inr (vlen, b2) =>
      match rd_var false b2 with
      | inl e => inl e
      | inr (meta, b3) =>
        if 255 <? meta then inl EdOther else
        match rd_var false b3 with
        | inl e => inl e
        | inr (exp, b4) => inr ((u32 klen, u32 vlen, meta, exp), b4)
        end
      end
    end
  end.

Definition decode_entry_from (bs : bytes) : ed_res :=
  match decode_header_from bs with
  | inl e => e
  | inr ((klen, vlen, meta, exp), b4) =>
      let hlen := blen bs - blen b4 in
      if blen b4 <? klen then EdPartial else
      let key := take klen b4 in
      let b5 := drop klen b4 in
      if blen b5 <? vlen then EdPartial else
      let val := take vlen b5 in
      let b6 := drop vlen b5 in
      match rd_be32 b6 with
      | None => EdPartial
      | Some crc =>
          if crc =? crc32c (take (hlen + klen + vlen) bs) then
            EdOk {| e_key := key; e_val := val; e_meta := meta; e_exp := exp |}
                 (u32 (hlen + klen + vlen + 4)) (drop 4 b6)
          else EdBadCrc
      end
  end.

(** up-front allocation on the word of the header (kv.ReadBounded: at most maxPrealloc each) *)
Definition max_prealloc : N := 1048576.
Definition decode_entry_prealloc (bs : bytes) : N :=
  match decode_header_from bs with
  | inl _ => 0
  | inr ((klen, vlen, _, _), _) => N.min klen max_prealloc + N.min vlen max_prealloc
  end.

(** EntryHeader.Decode (slice form) *)
Inductive vs_res :=
| VsShort                    (* io.ErrUnexpectedEOF *)
| VsMeta                     (* meta overflow *)
| VsBadCrc
| VsOk (value : bytes) (klen vlen meta exp : N).

Definition sl_var (bs : bytes) (idx : N) : option (N * N) :=
  if blen bs <=? idx then None else
  match uvarint (drop idx bs) with
  | UvOk v n => Some (v, idx + n)
  | _ => None
  end.

Definition decode_header (bs : bytes) : vs_res + (hdr * N) :=
  match sl_var bs 0 with
  | None => inl VsShort
  | Some (klen, i1) =>
    match sl_var bs i1 with
    | None => inl VsShort
    | Some (vlen, i2) =>
      match sl_var bs i2 with
      | None => inl VsShort
      | Some (meta, i3) =>
        if 255 <? meta then inl VsMeta else
        match sl_var bs i3 with
        | None => inl VsShort
        | Some (exp, i4) => inr ((u32 klen, u32 vlen, meta, exp), i4)
        end
      end
    end
  end.

(** DecodeValueSlice *)
Definition decode_value_slice (bs : bytes) : vs_res :=
  match decode_header bs with
  | inl e => e
  | inr ((klen, vlen, meta, exp), idx) =>
      let payload_end := idx + klen + vlen in
      if blen bs <? payload_end + 4 then VsShort else
      match rd_be32 (drop payload_end bs) with
      | None => VsShort
      | Some crc =>
          if crc =? crc32c (take payload_end bs)
          then VsOk (take vlen (drop (idx + klen) bs)) klen vlen meta exp
          else VsBadCrc
      end
  end.

(** ValueStruct.EncodeValue / DecodeValue *)
Record vstruct := { v_meta : N; v_exp : N; v_value : bytes }.
Definition enc_value (v : vstruct) : bytes := n2b (v_meta v) :: put_uvarint (v_exp v) ++ v_value v.
(** ValueStruct.EncodedSize: uint32(len(Value) + 1 + sizeVarint(ExpiresAt)) *)
Definition encoded_size (v : vstruct) : N := u32 (blen (v_value v) + 1 + size_varint_go 9 (v_exp v)).

Definition decode_value (bs : bytes) : vstruct :=
  match bs with
  | [] => {| v_meta := 0; v_exp := 0; v_value := [] |}
  | m :: r =>
      match uvarint r with
      | UvOk e n => {| v_meta := b2n m; v_exp := e; v_value := drop n r |}
      | _ => {| v_meta := b2n m; v_exp := 0; v_value := [] |}
      end
  end.

(** ValuePtr.Encode / Decode *)
Record vptr := { p_len : N; p_off : N; p_fid : N; p_bucket : N }.
Definition enc_vptr (p : vptr) : bytes := be32 (p_len p) ++ be32 (p_off p) ++ be32 (p_fid p) ++ be32 (p_bucket p).
Definition decode_vptr (bs : bytes) : vptr :=
  match rd_be32 bs, rd_be32 (drop 4 bs), rd_be32 (drop 8 bs), rd_be32 (drop 12 bs) with
  | Some a, Some b, Some c, Some d => {| p_len := a; p_off := b; p_fid := c; p_bucket := d |}
  | _, _, _, _ => {| p_len := 0; p_off := 0; p_fid := 0; p_bucket := 0 |}
  end.

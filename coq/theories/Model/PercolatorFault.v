(** The percolator functions of [Model/Percolator.v] when a DB write can be
    *refused* (C18, C19 under storage faults).

    In the code every protocol step is a sequence of separate DB writes
    ([DB.SetVersionedEntry] / [DeleteVersionedEntry]; nothing groups the
    writes of one request into one batch), and each of them can fail before
    writing anything -- for instance with [ErrHotKeyWriteThrottle] from
    [DB.maybeThrottleWrite], which is enabled by default.  The step then
    returns a retryable key error and leaves a *prefix* of its writes behind.

    The fault is modelled the way the correspondence harness provokes it in
    the real DB: the hot-key write limit.  [f_touch] counts the accepted
    writes per (column family, user key); with [limit > 0] a write to a key
    whose count has reached [limit], or reaches it with this write, is refused.  With
    [limit = 0] nothing is refused and the functions coincide with
    [Model/Percolator.v] ([Proofs/PercoFaultProofs.v]).  Working-tree code
    ([current]) only.  Definitions only. *)
From Coq Require Import List NArith Bool.
From NoKV Require Import Base.Bytes Model.Percolator Model.KvApply.
Import ListNotations.
Local Open Scope N_scope.

Inductive cfid := CfDefault | CfLock | CfWrite.
Definition cfid_eqb (a b : cfid) : bool :=
  match a, b with CfDefault, CfDefault | CfLock, CfLock | CfWrite, CfWrite => true | _, _ => false end.

Record fstore := { f_s : store; f_touch : list (cfid * bytes * N) }.
Definition fempty : fstore := {| f_s := empty_store; f_touch := [] |}.

Fixpoint tcount (t : list (cfid * bytes * N)) (cf : cfid) (k : bytes) : N :=
  match t with
  | [] => 0
  | (cf', k', n) :: t' => if cfid_eqb cf cf' && bytes_eqb k k' then n else tcount t' cf k
  end.
Fixpoint tbump (t : list (cfid * bytes * N)) (cf : cfid) (k : bytes) : list (cfid * bytes * N) :=
  match t with
  | [] => [(cf, k, 1)]
  | (cf', k', n) :: t' =>
      if cfid_eqb cf cf' && bytes_eqb k k' then (cf', k', n + 1) :: t' else (cf', k', n) :: tbump t' cf k
  end.

(** one DB write ([DB.maybeThrottleWrite] + [HotRing.TouchAndClamp]).  Without a limit the write is
    counted and accepted.  With [limit > 0]: refused if the count has reached the limit; otherwise
    the write is counted, and refused as well if the count reaches the limit with it.  A refused
    write changes nothing in the store; [dbw] returns the touch counters in both cases. *)
Definition dbw_touch (limit : N) (t : list (cfid * bytes * N)) (cf : cfid) (k : bytes)
  : list (cfid * bytes * N) * bool :=       (* counters afterwards, accepted? *)
  if limit =? 0 then (tbump t cf k, true)
  else if limit <=? tcount t cf k then (t, false)
  else (tbump t cf k, tcount t cf k + 1 <? limit).

Definition dbw (limit : N) (fs : fstore) (cf : cfid) (k : bytes) (upd : store -> store) : option fstore :=
  match dbw_touch limit (f_touch fs) cf k with
  | (t, true) => Some {| f_s := upd (f_s fs); f_touch := t |}
  | (_, false) => None
  end.
(** the counters after a refused write (the refusing touch may have been counted) *)
Definition refused (limit : N) (fs : fstore) (cf : cfid) (k : bytes) : fstore :=
  {| f_s := f_s fs; f_touch := fst (dbw_touch limit (f_touch fs) cf k) |}.

Definition retry : option key_error := Some KERetryable.

(** [prewriteMutation] *)
Definition prewrite_mutation_f (limit : N) (fs : fstore) (primary : bytes) (start ttl min_commit : N) (m : mutation)
  : fstore * option key_error :=
  let s := f_s fs in let k := m_key m in
  if is_nil k then (fs, Some (KEAbort AbEmptyKey)) else
  match (match get_lock s k with Some l => if l_ts l =? start then None else Some l | None => None end) with
  | Some l => (fs, Some (KELocked k l))
  | None =>
      match (match most_recent_write s k with
             | Some (w, ct) => if start <=? ct then Some (w, ct) else None
             | None => None
             end) with
      | Some (w, ct) => (fs, Some (KEConflict k primary ct (w_start w) start))
      | None =>
          match m_op m with
          | OpRollback => (fs, Some (KEAbort AbUnsupportedOp))
          | o =>
              match dbw limit fs CfDefault k (fun s => del_default s k start) with
              | None => (refused limit fs CfDefault k, retry)
              | Some fs1 =>
                  match (match o with
                         | OpPut => dbw limit fs1 CfDefault k (fun s => put_default s k start (m_val m))
                         | _ => Some fs1
                         end) with
                  | None => (refused limit fs1 CfDefault k, retry)
                  | Some fs2 =>
                      match dbw limit fs2 CfLock k
                                (fun s => put_lock s k {| l_primary := primary; l_ts := start; l_ttl := ttl;
                                                          l_kind := o; l_min_commit := min_commit |}) with
                      | None => (refused limit fs2 CfLock k, retry)
                      | Some fs3 => (fs3, None)
                      end
                  end
              end
          end
      end
  end.

Fixpoint prewrite_f (limit : N) (fs : fstore) (primary : bytes) (start ttl min_commit : N) (ms : list mutation)
  : fstore * list key_error :=
  match ms with
  | [] => (fs, [])
  | m :: ms' =>
      let '(fs1, e) := prewrite_mutation_f limit fs primary start ttl min_commit m in
      let '(fs2, es) := prewrite_f limit fs1 primary start ttl min_commit ms' in
      (fs2, match e with Some x => x :: es | None => es end)
  end.

(** [commitKey]: the commit record, then the lock removal *)
Definition commit_key_f (limit : N) (fs : fstore) (k : bytes) (l : lockrec) (cv : N) : fstore * option key_error :=
  if cv <? l_min_commit l then (fs, Some (KECommitTsExpired k cv (l_min_commit l)))
  else
    match get_write_by_start_ts (f_s fs) k (l_ts l) with
    | Some (w, ct) =>
        if op_eqb (w_kind w) OpRollback then (fs, Some (KEAbort AbRolledBack))
        else match dbw limit fs CfLock k (fun s => del_lock s k) with   (* finish the interrupted commit *)
             | None => (refused limit fs CfLock k, retry)
             | Some fs1 => (fs1, None)
             end
    | None =>
        match dbw limit fs CfWrite k (fun s => put_write s k cv {| w_kind := l_kind l; w_start := l_ts l |}) with
        | None => (refused limit fs CfWrite k, retry)
        | Some fs1 =>
            match dbw limit fs1 CfLock k (fun s => del_lock s k) with
            | None => (refused limit fs1 CfLock k, retry)   (* record written, lock left behind *)
            | Some fs2 => (fs2, None)
            end
        end
    end.

(** [rollbackKey]: own lock removal, value removal, rollback marker *)
Definition rollback_key_f (limit : N) (fs : fstore) (k : bytes) (start : N) : fstore * option key_error :=
  match get_write_by_start_ts (f_s fs) k start with
  | Some _ => (fs, None)
  | None =>
      match (match get_lock (f_s fs) k with
             | Some l => if l_ts l =? start then dbw limit fs CfLock k (fun s => del_lock s k) else Some fs
             | None => Some fs
             end) with
      | None => (refused limit fs CfLock k, retry)
      | Some fs1 =>
          match dbw limit fs1 CfDefault k (fun s => del_default s k start) with
          | None => (refused limit fs1 CfDefault k, retry)
          | Some fs2 =>
              match dbw limit fs2 CfWrite k (fun s => put_write s k start {| w_kind := OpRollback; w_start := start |}) with
              | None => (refused limit fs2 CfWrite k, retry)
              | Some fs3 => (fs3, None)
              end
          end
      end
  end.

Fixpoint commit_f (limit : N) (fs : fstore) (keys : list bytes) (start cv : N) : fstore * option key_error :=
  match keys with
  | [] => (fs, None)
  | k :: keys' =>
      if is_nil k then (fs, Some (KEAbort AbEmptyKey)) else
      match get_lock (f_s fs) k with
      | None =>
          match get_write_by_start_ts (f_s fs) k start with
          | Some (w, _) =>
              if op_eqb (w_kind w) OpRollback then (fs, Some (KEAbort AbRolledBack))
              else commit_f limit fs keys' start cv
          | None => (fs, Some (KEAbort AbLockNotFound))
          end
      | Some l =>
          if l_ts l =? start then
            match commit_key_f limit fs k l cv with
            | (fs1, None) => commit_f limit fs1 keys' start cv
            | r => r
            end
          else (fs, Some (KELocked k l))
      end
  end.

Fixpoint batch_rollback_f (limit : N) (fs : fstore) (keys : list bytes) (start : N) : fstore * option key_error :=
  match keys with
  | [] => (fs, None)
  | k :: keys' =>
      if is_nil k then (fs, Some (KEAbort AbEmptyKey)) else
      match rollback_key_f limit fs k start with
      | (fs1, None) => batch_rollback_f limit fs1 keys' start
      | r => r
      end
  end.

Fixpoint resolve_lock_f (limit : N) (fs : fstore) (keys : list bytes) (start cv : N) (resolved : N)
  : fstore * N * option key_error :=
  match keys with
  | [] => (fs, resolved, None)
  | k :: keys' =>
      if is_nil k then resolve_lock_f limit fs keys' start cv resolved else
      match get_lock (f_s fs) k with
      | Some l =>
          if l_ts l =? start then
            match (if cv =? 0 then rollback_key_f limit fs k start else commit_key_f limit fs k l cv) with
            | (fs1, None) => resolve_lock_f limit fs1 keys' start cv (resolved + 1)
            | (fs1, Some e) => (fs1, resolved, Some e)
            end
          else resolve_lock_f limit fs keys' start cv resolved
      | None => resolve_lock_f limit fs keys' start cv resolved
      end
  end.

Definition check_txn_status_f (limit : N) (fs : fstore) (primary : bytes) (lock_ts current_ts caller_start : N)
           (rollback_if_not_exist : bool) : fstore * check_result :=
  match get_lock (f_s fs) primary with
  | Some l =>
      if negb (l_ts l =? lock_ts) then (fs, cr_err (KELocked primary l))
      else
      match (match get_write_by_start_ts (f_s fs) primary lock_ts with
             | Some (w, ct) => if op_eqb (w_kind w) OpRollback then None else Some ct
             | None => None
             end) with
      | Some ct =>      (* committed, only the lock is left: remove it and report the commit *)
          match dbw limit fs CfLock primary (fun s => del_lock s primary) with
          | None => (refused limit fs CfLock primary, cr_err KERetryable)
          | Some fs1 => (fs1, cr_ok ActNone 0 ct)
          end
      | None =>
      if is_lock_expired l current_ts then
        match rollback_key_f limit fs primary lock_ts with
        | (fs1, None) => (fs1, cr_ok ActTTLExpireRollback 0 0)
        | (fs1, Some e) => (fs1, cr_err e)
        end
      else if (0 <? caller_start) && (l_min_commit l <? wrap64 (caller_start + 1)) then
        let l' := {| l_primary := l_primary l; l_ts := l_ts l; l_ttl := l_ttl l; l_kind := l_kind l;
                     l_min_commit := wrap64 (caller_start + 1) |} in
        match dbw limit fs CfLock primary (fun s => put_lock s primary l') with
        | None => (refused limit fs CfLock primary, cr_err KERetryable)
        | Some fs1 => (fs1, cr_ok ActMinCommitPushed (l_ttl l) 0)
        end
      else (fs, cr_ok ActNone (l_ttl l) 0)
      end
  | None =>
      match get_write_by_start_ts (f_s fs) primary lock_ts with
      | Some (w, ct) =>
          if op_eqb (w_kind w) OpRollback then (fs, cr_ok ActLockNotExistRollback 0 0)
          else (fs, cr_ok ActNone 0 ct)
      | None =>
          if rollback_if_not_exist then
            match rollback_key_f limit fs primary lock_ts with
            | (fs1, None) => (fs1, cr_ok ActLockNotExistRollback 0 0)
            | (fs1, Some e) => (fs1, cr_err e)
            end
          else (fs, cr_ok ActNone 0 0)
      end
  end.

(** one request of [Apply] with the hot-key write limit in force *)
Definition apply_req_f (limit : N) (fs : fstore) (r : request) : fstore * response :=
  match r with
  | RPrewrite ms primary start ttl mc =>
      let '(fs1, es) := prewrite_f limit fs primary start ttl mc ms in (fs1, PPrewrite es)
  | RCommit keys start cv =>
      let '(fs1, e) := commit_f limit fs keys start cv in (fs1, PCommit e)
  | RRollback keys start =>
      let '(fs1, e) := batch_rollback_f limit fs keys start in (fs1, PRollback e)
  | RResolve keys start cv =>
      let '(fs1, n, e) := resolve_lock_f limit fs keys start cv 0 in (fs1, PResolve n e)
  | RCheck primary lts cur caller rb =>
      let '(fs1, cr) := check_txn_status_f limit fs primary lts cur caller rb in (fs1, PCheck cr)
  | RGet k v => (fs, PGet (handle_get current (f_s fs) k v))
  | RScan sk inc lim v => let '(kvs, e) := handle_scan current (f_s fs) sk inc lim v in (fs, PScan kvs e)
  end.

(** Model of utils/watermarker.go (WaterMark.Begin / Done / WaitForMark with
    setLastIndex, addIndex, ensureWindow, rebuildWindowLocked, tryAdvance,
    notifyWaiters) as a transition system on Base/Sched.v.

    Shared state: [doneUntil], [lastIndex] (atomics), the window pointer
    (windows are immutable in base/size; their slots are atomic counters; a
    thread may keep using a window that is no longer current), [mu], the
    waiters map.  One atomic step = the region between two [verifhook.Yield]
    points, i.e. exactly one shared access (under [mu], the map access and the
    unlock that follows it are one step).  A [Lock] on a held mutex and a
    [select] on an open channel are disabled steps.

    [fixed = true] is the code as it is now: [Begin] increments the slot first
    and publishes [lastIndex] afterwards (fixes/C32-watermark-begin.md);
    [fixed = false] is the order before the repair ([setLastIndex], then
    [addIndex]).

    Ghost state: [gh_tracked], the pairs (index, thread) such that the thread's
    [Begin index] took its first effect (first write to shared state) while
    [lastIndex] was still below the index ("in order": the index is larger than
    everything begun before) and the thread's matching [Done] has not yet
    decremented the slot; [gh_untimely], the other counted Begins;
    [gh_stray], set when a [Done] decrements without a counted Begin of the
    same thread and index (a misuse of the API); [g_waitret], the indices of
    the [WaitForMark] calls that have returned.  No proofs in this file. *)
From Coq Require Import List NArith ZArith Bool.
From NoKV Require Import Base.Sched Model.SchedLib.
Import ListNotations.
Local Open Scope N_scope.

(** [Begin]/[Done]/[Wait] are API calls (the harness has a yield point before each call).
    [BeginMany [a; b; c]] is the op list [BeginF a; BeginC b; BeginL c]: first part (entered like a
    call, counts [a]), continuation parts (entered directly from the previous part's tryAdvance,
    no yield point in between), last part (counts [c], then setLastIndex c); a singleton is
    [Begin].  [DoneMany [a; b]] is [Done a; DoneC b].  Zero indices are not modelled inside a
    batch (addIndex returns before its first yield point; the harness does not generate them). *)
Inductive op := Begin (i : N) | Done (i : N) | Wait (i : N)
              | BeginF (i : N) | BeginC (i : N) | BeginL (i : N) | DoneC (i : N).
Inductive okind := KBegin | KDone | KWait.

Inductive who := ForAdd | ForAdv (next : N).

Inductive pc :=
| PStart                                   (* before the next operation *)
| SLLoad | SLCas (cur : N)
| EWLoad (w : who) | EWLock (w : who) | EWReload (w : who) | EWUnlock (w : who) (win : nat)
| RBDone (w : who) (old : nat)
| RBCopy (w : who) (old : nat) (newBase : N) (k : nat) (acc : list Z)
| RBStore (w : who) (newBase : N) (slots : list Z)
| EWFinal (w : who)
| ADAdd (win : nat)
| TADone | TALast (du : N) | TAWin (du : N) | TASlot (du : N) (win : nat) | TACas (du : N)
| NTLock (until : N) | NTClose (until : N)
| WFast | WLock | WCheck | WSelect
| PFin.

Record thread := { th_ops : list op; th_pc : pc }.

Record ghost := { gh_tracked : list (N * nat); gh_untimely : list (N * nat); gh_stray : bool }.

Record gstate := {
  g_done : N;                         (* doneUntil *)
  g_last : N;                         (* lastIndex *)
  g_wins : list (N * list Z);         (* every window ever stored: (base, slots) *)
  g_cur : nat;                        (* index of the current window *)
  g_mu : option nat;                  (* holder of w.mu *)
  g_waiters : list (N * nat);         (* (index, waiting thread): open channels *)
  g_threads : list thread;
  g_ghost : ghost;
  g_waitret : list N                  (* ghost *)
}.

Definition init (size : nat) (progs : list (list op)) : gstate :=
  {| g_done := 0; g_last := 0; g_wins := [(1, repeat 0%Z size)]; g_cur := 0%nat; g_mu := None;
     g_waiters := []; g_threads := map (fun p => {| th_ops := p; th_pc := match p with [] => PFin | _ => PStart end |}) progs;
     g_ghost := {| gh_tracked := []; gh_untimely := []; gh_stray := false |}; g_waitret := [] |}.

Definition g_tracked (g : gstate) : list (N * nat) := gh_tracked (g_ghost g).

Definition win_at (g : gstate) (w : nat) : N * list Z := nth w (g_wins g) (1, []).

Definition in_range (index : N) (w : N * list Z) : bool :=
  (fst w <=? index) && (index <? fst w + N.of_nat (length (snd w))).

Fixpoint add_nth (n : nat) (d : Z) (l : list Z) : list Z :=
  match n, l with
  | _, [] => []
  | O, x :: l' => (x + d)%Z :: l'
  | S n', x :: l' => x :: add_nth n' d l'
  end.

Fixpoint grow (fuel : nat) (size needed : N) : N :=
  match fuel with
  | O => size
  | S f => if size <? needed then grow f (2 * size) needed else size
  end.

Fixpoint remove_one (i : N) (l : list N) : list N :=
  match l with [] => [] | x :: l' => if i =? x then l' else x :: remove_one i l' end.

Fixpoint remove_pair (i : N) (t : nat) (l : list (N * nat)) : list (N * nat) :=
  match l with
  | [] => []
  | (j, u) :: l' => if (i =? j) && Nat.eqb t u then l' else (j, u) :: remove_pair i t l'
  end.

Fixpoint has_waiter (i : N) (t : nat) (l : list (N * nat)) : bool :=
  match l with [] => false | (j, u) :: l' => ((i =? j) && Nat.eqb t u) || has_waiter i t l' end.

Section Variant.
  Variable fixed : bool.

  Definition upd (g : gstate) (done last : N) (wins : list (N * list Z)) (cur : nat) (mu : option nat)
             (waiters : list (N * nat)) (gh : ghost) (waitret : list N) (t : nat) (th : thread) : gstate :=
    {| g_done := done; g_last := last; g_wins := wins; g_cur := cur; g_mu := mu; g_waiters := waiters;
       g_threads := set_nth t th (g_threads g); g_ghost := gh; g_waitret := waitret |}.

  (** thread [t] moves to [p], nothing else changes *)
  Definition goto (g : gstate) (t : nat) (ops : list op) (p : pc) : gstate :=
    upd g (g_done g) (g_last g) (g_wins g) (g_cur g) (g_mu g) (g_waiters g) (g_ghost g) (g_waitret g)
        t {| th_ops := ops; th_pc := p |}.

  (** the operation at the head of [ops] is finished *)
  Definition op_kind (o : op) : okind :=
    match o with
    | Begin _ | BeginF _ | BeginC _ | BeginL _ => KBegin
    | Done _ | DoneC _ => KDone
    | Wait _ => KWait
    end.
  Definition op_index (o : op) : N :=
    match o with Begin i | Done i | Wait i | BeginF i | BeginC i | BeginL i | DoneC i => i end.
  Definition op_delta (o : op) : Z := match op_kind o with KBegin => 1%Z | KDone => (-1)%Z | KWait => 0%Z end.
  (** publishes lastIndex after counting *)
  Definition is_begin (o : op) : bool := match o with Begin _ | BeginL _ => true | _ => false end.
  (** continuation of a batch: entered without a yield point of its own *)
  Definition no_start (o : op) : bool := match o with BeginC _ | BeginL _ | DoneC _ => true | _ => false end.

  Definition next_op_pc (ops : list op) : list op * pc :=
    match ops with
    | [] => ([], PFin)
    | _ :: [] => ([], PFin)
    | _ :: ((n :: _) as r) => if no_start n then (r, EWLoad ForAdd) else (r, PStart)
    end.

  (** pc after addIndex returned / after setLastIndex returned, for operation [o] *)
  Definition after_add (ops : list op) (o : op) : list op * pc :=
    if is_begin o && fixed then (ops, SLLoad) else next_op_pc ops.
  Definition add_start (ops : list op) (o : op) : list op * pc :=
    if op_index o =? 0 then after_add ops o else (ops, EWLoad ForAdd).
  Definition after_sl (ops : list op) (o : op) : list op * pc :=
    if fixed then next_op_pc ops else add_start ops o.
  Definition ew_return (w : who) (win : nat) : pc :=
    match w with ForAdd => ADAdd win | ForAdv _ => TADone end.
  Definition target (w : who) (o : op) : N := match w with ForAdd => op_index o | ForAdv n => n end.

  Definition to (g : gstate) (t : nat) (x : list op * pc) : gstate := goto g t (fst x) (snd x).

  Definition thread_step (g : gstate) (t : nat) (ops : list op) (o : op) (p : pc) : option gstate :=
    let i := op_index o in
    let same := fun p' => Some (goto g t ops p') in
    match p with
    | PStart =>
        Some (to g t match o with
                     | Begin _ => if fixed then add_start ops o else (ops, SLLoad)
                     | Wait _ => (ops, WFast)
                     | _ => add_start ops o
                     end)
    | SLLoad => if i <=? g_last g then Some (to g t (after_sl ops o)) else same (SLCas (g_last g))
    | SLCas cur =>
        if g_last g =? cur then
          let x := after_sl ops o in
          Some (upd g (g_done g) i (g_wins g) (g_cur g) (g_mu g) (g_waiters g)
                    (if fixed then g_ghost g
                     else {| gh_tracked := (i, t) :: gh_tracked (g_ghost g);
                             gh_untimely := gh_untimely (g_ghost g); gh_stray := gh_stray (g_ghost g) |})
                    (g_waitret g)
                    t {| th_ops := fst x; th_pc := snd x |})
        else same SLLoad
    | EWLoad w =>
        if in_range (target w o) (win_at g (g_cur g)) then same (ew_return w (g_cur g)) else same (EWLock w)
    | EWLock w =>
        match g_mu g with
        | Some _ => None
        | None => Some (upd g (g_done g) (g_last g) (g_wins g) (g_cur g) (Some t) (g_waiters g)
                            (g_ghost g) (g_waitret g) t {| th_ops := ops; th_pc := EWReload w |})
        end
    | EWReload w =>
        if in_range (target w o) (win_at g (g_cur g)) then same (EWUnlock w (g_cur g)) else same (RBDone w (g_cur g))
    | EWUnlock w win =>
        Some (upd g (g_done g) (g_last g) (g_wins g) (g_cur g) None (g_waiters g)
                  (g_ghost g) (g_waitret g) t {| th_ops := ops; th_pc := ew_return w win |})
    | RBDone w old =>
        let newBase := g_done g + 1 in
        let index := if target w o <? newBase then newBase else target w o in
        let osz := length (snd (win_at g old)) in
        let size := grow 64 (N.of_nat osz) (index - newBase + 1) in
        let acc := repeat 0%Z (N.to_nat size) in
        same (match osz with O => RBStore w newBase acc | _ => RBCopy w old newBase 0 acc end)
    | RBCopy w old newBase k acc =>
        let ow := win_at g old in
        let count := nth k (snd ow) 0%Z in
        let idx := fst ow + N.of_nat k in
        let acc' := if (count =? 0)%Z || (idx <? newBase) || (N.of_nat (length acc) <=? idx - newBase)
                    then acc else add_nth (N.to_nat (idx - newBase)) count acc in
        same (if Nat.ltb (S k) (length (snd ow)) then RBCopy w old newBase (S k) acc' else RBStore w newBase acc')
    | RBStore w newBase slots =>
        Some (upd g (g_done g) (g_last g) (g_wins g ++ [(newBase, slots)]) (length (g_wins g)) (g_mu g)
                  (g_waiters g) (g_ghost g) (g_waitret g) t {| th_ops := ops; th_pc := EWFinal w |})
    | EWFinal w =>
        Some (upd g (g_done g) (g_last g) (g_wins g) (g_cur g) None (g_waiters g)
                  (g_ghost g) (g_waitret g) t {| th_ops := ops; th_pc := ew_return w (g_cur g) |})
    | ADAdd win =>
        let w := win_at g win in
        let wins := if in_range i w
                    then set_nth win (fst w, add_nth (N.to_nat (i - fst w)) (op_delta o) (snd w)) (g_wins g)
                    else g_wins g in
        let gh := g_ghost g in
        let tracked :=
          match op_kind o with
          | KBegin =>
              if fixed then
                if g_last g <? i
                then {| gh_tracked := (i, t) :: gh_tracked gh; gh_untimely := gh_untimely gh; gh_stray := gh_stray gh |}
                else {| gh_tracked := gh_tracked gh; gh_untimely := (i, t) :: gh_untimely gh; gh_stray := gh_stray gh |}
              else gh
          | KDone =>
              if has_waiter i t (gh_tracked gh)
              then {| gh_tracked := remove_pair i t (gh_tracked gh); gh_untimely := gh_untimely gh; gh_stray := gh_stray gh |}
              else if has_waiter i t (gh_untimely gh)
              then {| gh_tracked := gh_tracked gh; gh_untimely := remove_pair i t (gh_untimely gh); gh_stray := gh_stray gh |}
              else {| gh_tracked := gh_tracked gh; gh_untimely := gh_untimely gh; gh_stray := true |}
          | KWait => gh
          end in
        Some (upd g (g_done g) (g_last g) wins (g_cur g) (g_mu g) (g_waiters g) tracked (g_waitret g)
                  t {| th_ops := ops; th_pc := TADone |})
    | TADone => same (TALast (g_done g))
    | TALast du => if g_last g <=? du then Some (to g t (after_add ops o)) else same (TAWin du)
    | TAWin du =>
        if in_range (du + 1) (win_at g (g_cur g)) then same (TASlot du (g_cur g)) else same (EWLoad (ForAdv (du + 1)))
    | TASlot du win =>
        let w := win_at g win in
        if (0 <? nth (N.to_nat (du + 1 - fst w)) (snd w) 0%Z)%Z then Some (to g t (after_add ops o))
        else same (TACas du)
    | TACas du =>
        if g_done g =? du then
          Some (upd g (du + 1) (g_last g) (g_wins g) (g_cur g) (g_mu g) (g_waiters g) (g_ghost g) (g_waitret g)
                    t {| th_ops := ops; th_pc := NTLock (du + 1) |})
        else same TADone
    | NTLock u =>
        match g_mu g with
        | Some _ => None
        | None => Some (upd g (g_done g) (g_last g) (g_wins g) (g_cur g) (Some t) (g_waiters g)
                            (g_ghost g) (g_waitret g) t {| th_ops := ops; th_pc := NTClose u |})
        end
    | NTClose u =>
        Some (upd g (g_done g) (g_last g) (g_wins g) (g_cur g) None
                  (filter (fun x => negb (fst x <=? u)) (g_waiters g))
                  (g_ghost g) (g_waitret g) t {| th_ops := ops; th_pc := TADone |})
    | WFast =>
        if i <=? g_done g then
          let x := next_op_pc ops in
          Some (upd g (g_done g) (g_last g) (g_wins g) (g_cur g) (g_mu g) (g_waiters g) (g_ghost g)
                    (i :: g_waitret g) t {| th_ops := fst x; th_pc := snd x |})
        else same WLock
    | WLock =>
        match g_mu g with
        | Some _ => None
        | None => Some (upd g (g_done g) (g_last g) (g_wins g) (g_cur g) (Some t) (g_waiters g)
                            (g_ghost g) (g_waitret g) t {| th_ops := ops; th_pc := WCheck |})
        end
    | WCheck =>
        if i <=? g_done g then
          let x := next_op_pc ops in
          Some (upd g (g_done g) (g_last g) (g_wins g) (g_cur g) None (g_waiters g) (g_ghost g)
                    (i :: g_waitret g) t {| th_ops := fst x; th_pc := snd x |})
        else
          Some (upd g (g_done g) (g_last g) (g_wins g) (g_cur g) None ((i, t) :: g_waiters g) (g_ghost g)
                    (g_waitret g) t {| th_ops := ops; th_pc := WSelect |})
    | WSelect =>
        if has_waiter i t (g_waiters g) then None
        else
          let x := next_op_pc ops in
          Some (upd g (g_done g) (g_last g) (g_wins g) (g_cur g) (g_mu g) (g_waiters g) (g_ghost g)
                    (i :: g_waitret g) t {| th_ops := fst x; th_pc := snd x |})
    | PFin => None
    end.

  Definition tstep (g : gstate) (t : nat) : option gstate :=
    match nth_error (g_threads g) t with
    | None => None
    | Some th =>
        match th_ops th with
        | [] => None
        | o :: _ => thread_step g t (th_ops th) o (th_pc th)
        end
    end.
End Variant.

(** the property on a state: every tracked index is above the mark *)
Definition safe_b (g : gstate) : bool := forallb (fun x => g_done g <? fst x) (g_tracked g).
Definition waits_ok_b (g : gstate) : bool := forallb (fun i => i <=? g_done g) (g_waitret g).

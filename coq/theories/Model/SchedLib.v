(** Small list utilities shared by the schedule models (Latch, DirLock, PdAlloc, Watermark). *)
From Coq Require Import List.
Import ListNotations.

Fixpoint set_nth {A} (n : nat) (x : A) (l : list A) : list A :=
  match n, l with
  | _, [] => []
  | O, _ :: l' => x :: l'
  | S n', y :: l' => y :: set_nth n' x l'
  end.

(** Model of the store-side region catalog:
    raftstore/store/region_manager.go ([updateRegion], [updateRegionState],
    [removeRegion], [validRegionStateTransition], [loadSnapshot]),
    raftstore/store/admin_service.go ([handleSplitCommand], [SplitRegion],
    [handleMergeCommand]) and the manifest region map they log to
    (manifest/manager.go: put / delete keyed by region id).
    No proofs here. *)
From Coq Require Import List NArith Bool.
From NoKV Require Import Base.Bytes Model.Pd.
Import ListNotations.
Local Open Scope N_scope.

(** [manifest.RegionMeta]: id, range, epoch (the [region] record of Model/Pd.v)
    plus the lifecycle state (0 New, 1 Running, 2 Removing, 3 Tombstone; the Go
    type is uint8). Peers are carried along unchanged and not modelled. *)
Record rmeta := { r_reg : region; r_state : N }.

Definition rid (m : rmeta) : N := g_id (r_reg m).
Definition set_state (m : rmeta) (st : N) : rmeta := {| r_reg := r_reg m; r_state := st |}.
Definition set_start (m : rmeta) (k : bytes) : rmeta :=
  let r := r_reg m in
  {| r_reg := {| g_id := g_id r; g_start := k; g_end := g_end r; g_ver := g_ver r; g_conf := g_conf r |};
     r_state := r_state m |}.
Definition set_end (m : rmeta) (k : bytes) : rmeta :=
  let r := r_reg m in
  {| r_reg := {| g_id := g_id r; g_start := g_start r; g_end := k; g_ver := g_ver r; g_conf := g_conf r |};
     r_state := r_state m |}.
(** [Epoch.Version++] on a uint64 *)
Definition bump (m : rmeta) : rmeta :=
  let r := r_reg m in
  {| r_reg := {| g_id := g_id r; g_start := g_start r; g_end := g_end r;
                 g_ver := (g_ver r + 1) mod 2^64; g_conf := g_conf r |};
     r_state := r_state m |}.

Definition rcatalog := list rmeta.

Fixpoint rfind (id : N) (c : rcatalog) : option rmeta :=
  match c with
  | [] => None
  | m :: c' => if rid m =? id then Some m else rfind id c'
  end.
Definition rremove (id : N) (c : rcatalog) : rcatalog := filter (fun m => negb (rid m =? id)) c.
Definition rput (m : rmeta) (c : rcatalog) : rcatalog := m :: rremove (rid m) c.

(** [validRegionStateTransition] *)
Definition valid_transition (cur next : N) : bool :=
  if cur =? next then true
  else if cur =? 0 then next =? 1
  else if cur =? 1 then (next =? 2) || (next =? 3)
  else if cur =? 2 then next =? 3
  else false.

(** In-memory catalog ([regionManager.metaByID]) and the manifest's region map. *)
Record store := { smem : rcatalog; sdisk : rcatalog }.
Definition store_init : store := {| smem := []; sdisk := [] |}.

(** [updateRegion]: [None] = error, nothing changed. *)
Definition update_region (s : store) (m : rmeta) : option store :=
  if rid m =? 0 then None
  else
    let m' := if r_state m =? 0 then set_state m 1 else m in
    let cur := match rfind (rid m') (smem s) with Some e => r_state e | None => 0 end in
    if valid_transition cur (r_state m')
    then Some {| smem := rput m' (smem s); sdisk := rput m' (sdisk s) |}
    else None.

(** [updateRegionState] *)
Definition update_region_state (s : store) (id st : N) : option store :=
  if id =? 0 then None
  else match rfind id (smem s) with
       | None => None
       | Some m => update_region s (set_state m st)
       end.

(** [removeRegion]: tombstone (logged), then delete (logged). *)
Definition remove_region (s : store) (id : N) : option store :=
  if id =? 0 then None
  else match rfind id (smem s) with
       | None => None
       | Some m =>
           match (if r_state m =? 3 then Some s else update_region s (set_state m 3)) with
           | None => None
           | Some s1 => Some {| smem := rremove id (smem s1); sdisk := rremove id (sdisk s1) |}
           end
       end.

(** [handleSplitCommand] + [SplitRegion] + the [UpdateRegion] of the child done
    by [StartPeer] (peer construction itself is assumed to succeed: the
    harness always supplies a peer on this store with a fresh peer id).
    Result: the store afterwards and whether the command succeeded; on a
    failure after the parent was shrunk the parent is put back. *)
Definition split (s : store) (parent : N) (key : bytes) (child : rmeta) : store * bool :=
  let child1 := set_state child 1 in
  let child2 := if bytes_eqb (g_start (r_reg child1)) [] then set_start child1 key else child1 in
  if parent =? 0 then (s, false)
  else if rid child2 =? 0 then (s, false)
  else if bytes_eqb (g_start (r_reg child2)) [] then (s, false)
  else match rfind parent (smem s) with
       | None => (s, false)
       | Some p =>
           let sk := g_start (r_reg child2) in
           if negb (bytes_eqb (g_end (r_reg p)) []) && negb (bytes_ltb sk (g_end (r_reg p))) then (s, false)
           else if bytes_leb sk (g_start (r_reg p)) then (s, false)
           else match update_region s (bump (set_end p sk)) with
                | None => (s, false)
                | Some s1 =>
                    match update_region s1 child2 with
                    | Some s2 => (s2, true)
                    | None => match update_region s1 p with
                              | Some s3 => (s3, false)
                              | None => (s1, false)
                              end
                    end
                end
       end.

(** The same command when the child names no peer on this store: the peer
    builder ([buildChildPeerConfig]) rejects the child AFTER the parent was
    shrunk, and [SplitRegion] puts the parent back ([UpdateRegion(originalParent)],
    error ignored). The command fails; no child is recorded. *)
Definition split_unhosted (s : store) (parent : N) (key : bytes) (child : rmeta) : store * bool :=
  let child1 := set_state child 1 in
  let child2 := if bytes_eqb (g_start (r_reg child1)) [] then set_start child1 key else child1 in
  if parent =? 0 then (s, false)
  else if rid child2 =? 0 then (s, false)
  else if bytes_eqb (g_start (r_reg child2)) [] then (s, false)
  else match rfind parent (smem s) with
       | None => (s, false)
       | Some p =>
           let sk := g_start (r_reg child2) in
           if negb (bytes_eqb (g_end (r_reg p)) []) && negb (bytes_ltb sk (g_end (r_reg p))) then (s, false)
           else if bytes_leb sk (g_start (r_reg p)) then (s, false)
           else match update_region s (bump (set_end p sk)) with
                | None => (s, false)
                | Some s1 => match update_region s1 p with
                             | Some s3 => (s3, false)
                             | None => (s1, false)
                             end
                end
       end.

(** [handleMergeCommand] after the repair (fixes/C24-merge-adjacency.md).
    [StopPeer] of the source's peer only moves the source to Removing (error
    ignored) before [RemoveRegion] tombstones and deletes it, so the resulting
    catalog does not depend on whether a peer was running. *)
Definition merged_meta (t src : rmeta) : option rmeta :=
  if negb (bytes_eqb (g_end (r_reg t)) []) && bytes_eqb (g_end (r_reg t)) (g_start (r_reg src))
  then Some (set_end (bump t) (g_end (r_reg src)))
  else if negb (bytes_eqb (g_end (r_reg src)) []) && bytes_eqb (g_end (r_reg src)) (g_start (r_reg t))
  then Some (set_start (bump t) (g_start (r_reg src)))
  else None.

Definition merge_with (mm : rmeta -> rmeta -> option rmeta) (s : store) (target source : N) : store * bool :=
  if target =? 0 then (s, false)
  else match rfind target (smem s) with
  | None => (s, false)
  | Some t =>
      if source =? 0 then (s, false)
      else match rfind source (smem s) with
      | None => (s, false)
      | Some src =>
          match mm t src with
          | None => (s, false)
          | Some upd =>
              match update_region s upd with
              | None => (s, false)
              | Some s1 =>
                  match remove_region s1 source with
                  | Some s2 => (s2, true)
                  | None => (s1, false)
                  end
              end
          end
      end
  end.

Definition merge : store -> N -> N -> store * bool :=
  merge_with (fun t src => if rid src =? rid t then None else merged_meta t src).

(** The function before the repair: only the end is ever extended. *)
Definition merged_meta_old (t src : rmeta) : option rmeta :=
  let u := bump t in
  if bytes_eqb (g_end (r_reg src)) [] || bytes_ltb (g_end (r_reg u)) (g_end (r_reg src))
  then Some (set_end u (g_end (r_reg src))) else Some u.

Definition merge_old : store -> N -> N -> store * bool := merge_with merged_meta_old.

(** Operations the harness drives. *)
Inductive op :=
| OpUpdate (m : rmeta)                       (* Store.UpdateRegion *)
| OpSetState (id st : N)                     (* Store.UpdateRegionState *)
| OpRemove (id : N)                          (* Store.RemoveRegion *)
| OpSplit (parent : N) (key : bytes) (child : rmeta)
| OpSplitUnhosted (parent : N) (key : bytes) (child : rmeta)   (* child without a peer on this store *)
| OpMerge (target source : N).

Definition of_opt (s : store) (o : option store) : store * bool :=
  match o with Some s' => (s', true) | None => (s, false) end.

Definition apply (s : store) (o : op) : store * bool :=
  match o with
  | OpUpdate m => of_opt s (update_region s m)
  | OpSetState id st => of_opt s (update_region_state s id st)
  | OpRemove id => of_opt s (remove_region s id)
  | OpSplit p k c => split s p k c
  | OpSplitUnhosted p k c => split_unhosted s p k c
  | OpMerge t src => merge s t src
  end.

Definition run (s : store) (ops : list op) : store := fold_left (fun s o => fst (apply s o)) ops s.

(** Restart: [NewStoreWithConfig] loads [manifest.RegionSnapshot()]. *)
Definition reload (s : store) : store := {| smem := sdisk s; sdisk := sdisk s |}.

Definition rby_id (a b : rmeta) : bool := rid a <? rid b.
Fixpoint rinsert (e : rmeta) (l : list rmeta) : list rmeta :=
  match l with
  | [] => [e]
  | x :: l' => if rby_id e x then e :: x :: l' else x :: rinsert e l'
  end.
(** Listing sorted by id (the harness sorts [Store.RegionMetas()]). *)
Definition listing (c : rcatalog) : list rmeta := fold_right rinsert [] c.

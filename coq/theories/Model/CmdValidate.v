(** Model of raftstore/store/command_service.go:
    [validateRegionEpoch], [validateRequestKeys], [keyInRange],
    [trimScanResponse], and their composition in [validateCommand].
    No proofs here. *)
From Coq Require Import List NArith Bool.
From NoKV Require Import Base.Bytes.
Import ListNotations.
Local Open Scope N_scope.

Record epoch := { e_conf : N; e_ver : N }.

(** The part of [manifest.RegionMeta] the validation reads. Empty start / end
    = unbounded. *)
Record meta := { m_start : bytes; m_end : bytes; m_epoch : epoch }.

(** The oneof payload of a [pb.Request]. [CmdType] and the payload are
    independent fields in the protobuf message: the code switches on
    [CmdType] and reads the payload accessor of that type, which yields the
    zero value (no key) when the payload is of another kind.  A nil mutation
    inside a prewrite is [None]. *)
Inductive body :=
| BNone
| BGet (key : bytes)
| BScan (start : bytes)
| BPrewrite (muts : list (option bytes))
| BCommit (keys : list bytes)
| BRollback (keys : list bytes)
| BResolve (keys : list bytes)
| BCheck (primary : bytes).

(** [r_type]: the numeric [pb.CmdType] (1 GET, 2 SCAN, 3 PREWRITE, 4 COMMIT,
    5 BATCH_ROLLBACK, 6 RESOLVE_LOCK, 7 CHECK_TXN_STATUS; anything else is
    unsupported). *)
Record request := { r_type : N; r_body : body }.

(** [keyInRange] *)
Definition key_in_range (m : meta) (k : bytes) : bool :=
  match k with
  | [] => true
  | _ =>
      if negb (bytes_eqb (m_start m) []) && bytes_ltb k (m_start m) then false
      else if negb (bytes_eqb (m_end m) []) && negb (bytes_ltb k (m_end m)) then false
      else true
  end.

(** [len(key) > 0 && !keyInRange(meta, key)] *)
Definition key_bad (m : meta) (k : bytes) : bool :=
  negb (bytes_eqb k []) && negb (key_in_range m k).

(** [validateRegionEpoch]: [true] = no error. A nil request epoch is [None]. *)
Definition epoch_eqb (a b : epoch) : bool := (e_conf a =? e_conf b) && (e_ver a =? e_ver b).

Definition validate_epoch (re : option epoch) (m : meta) : bool :=
  match re with
  | None => false
  | Some e => negb (negb (e_conf e =? e_conf (m_epoch m)) || negb (e_ver e =? e_ver (m_epoch m)))
  end.

Fixpoint keys_ok (m : meta) (ks : list bytes) : bool :=
  match ks with
  | [] => true
  | k :: ks' => if key_bad m k then false else keys_ok m ks'
  end.

Fixpoint muts_ok (m : meta) (ms : list (option bytes)) : bool :=
  match ms with
  | [] => true
  | None :: ms' => muts_ok m ms'
  | Some k :: ms' => if key_bad m k then false else muts_ok m ms'
  end.

(** One iteration of the loop of [validateRequestKeys] for a non-nil request:
    [true] = continue, [false] = return epochNotMatchError. *)
Definition request_ok (m : meta) (r : request) : bool :=
  let t := r_type r in
  if t =? 1 then match r_body r with BGet k => negb (key_bad m k) | _ => true end
  else if t =? 2 then match r_body r with BScan k => negb (key_bad m k) | _ => true end
  else if t =? 3 then match r_body r with BPrewrite ms => muts_ok m ms | _ => true end
  else if t =? 4 then match r_body r with BCommit ks => keys_ok m ks | _ => true end
  else if t =? 5 then match r_body r with BRollback ks => keys_ok m ks | _ => true end
  else if t =? 6 then match r_body r with BResolve ks => keys_ok m ks | _ => true end
  else if t =? 7 then match r_body r with BCheck k => negb (key_bad m k) | _ => true end
  else false.

(** [validateRequestKeys]: nil entries of [Requests] ([None]) are skipped. *)
Fixpoint validate_keys (m : meta) (rs : list (option request)) : bool :=
  match rs with
  | [] => true
  | None :: rs' => validate_keys m rs'
  | Some r :: rs' => if request_ok m r then validate_keys m rs' else false
  end.

(** The two checks in the order of [validateCommand]. Both failures produce
    the same [EpochNotMatch] region error carrying the region's meta. *)
Inductive decision := Accept | RegionError.

Definition validate (m : meta) (re : option epoch) (rs : list (option request)) : decision :=
  if validate_epoch re m then
    if validate_keys m rs then Accept else RegionError
  else RegionError.

(** * [trimScanResponse] *)

(** A [*pb.KV] of a scan response: nil, or a key with an identity tag (the
    harness stores a serial number in [Version] so that kept entries can be
    told apart even when keys repeat). *)
Definition kv := option (bytes * N).

(** A [*pb.Response]: nil, a response whose [GetScan()] is nil (any other
    kind), or a scan response with its [Kvs]. *)
Inductive response := RespNil | RespOther | RespScan (kvs : list kv).

Fixpoint trim_kvs (m : meta) (kvs : list kv) : list kv :=
  match kvs with
  | [] => []
  | None :: kvs' => trim_kvs m kvs'
  | Some (k, t) :: kvs' =>
      if key_in_range m k then Some (k, t) :: trim_kvs m kvs' else trim_kvs m kvs'
  end.

Definition trim_response (m : meta) (o : response) : response :=
  match o with
  | RespScan kvs => RespScan (trim_kvs m kvs)
  | _ => o
  end.

Definition is_scan (r : option request) : bool :=
  match r with
  | Some r => r_type r =? 2
  | None => false
  end.

(** [trimScanResponse] after the repair (fixes/C25-trim-nil-request.md): a nil
    request has no response (as in [kv.Apply], which emits nothing for it), so
    the response index advances only on non-nil requests.  Once the responses
    are exhausted nothing further changes. *)
Fixpoint trim (m : meta) (rs : list (option request)) (os : list response) : list response :=
  match rs with
  | [] => os
  | None :: rs' => trim m rs' os
  | Some r :: rs' =>
      match os with
      | [] => []
      | o :: os' => (if r_type r =? 2 then trim_response m o else o) :: trim m rs' os'
      end
  end.

(** [trimScanResponse] as it was before the repair: request [i] is paired
    with response [i] even when earlier requests are nil.  Kept for the
    refutation witness and the regression corpus. *)
Fixpoint trim_positional (m : meta) (rs : list (option request)) (os : list response) : list response :=
  match rs with
  | [] => os
  | r :: rs' =>
      match os with
      | [] => []
      | o :: os' => (if is_scan r then trim_response m o else o) :: trim_positional m rs' os'
      end
  end.

(** WAL segment cleanup: lsm/levels.go flush + canRemoveWalSegment,
    lsm/memtable.go recovery cleanup, wal/watchdog.go + metrics/wal.go
    AnalyzeWALBacklog, raftstore/engine/wal_storage.go pointer maintenance.
    No proofs here.

    One wal.Manager is shared by the LSM (one segment per memtable: the
    segment id is the memtable's id and later the table's file id) and by raft
    groups (WALStorage).  A segment is the list of its typed records.  LSM
    writes carry a sequence number (the version order of the DB).  Raft
    payloads and MemoryStorage are those of Model/RaftStore.v.  The WAL's own
    size-based rotation is not modelled (memtables rotate long before 64 MiB).
    ApplySnapshot is not part of this model (no snapshot records). *)
From Coq Require Import List NArith Bool.
From NoKV Require Import Model.RaftStore.
Import ListNotations.
Local Open Scope N_scope.

Inductive wrec :=
| WLsm (k v q : N)                               (* key, value, sequence number *)
| WEnts (g first : N) (es : list entry)
| WHs (g : N) (h : hardstate).
Definition wrec_is_raft (r : wrec) : bool := match r with WLsm _ _ _ => false | _ => true end.

Definition segment := (N * list wrec)%type.

(** manifest.RaftLogPointer, the three fields the removers read *)
Record gptr := { gp_seg : N; gp_segidx : N; gp_trunc : N }.
Definition gptr_none : gptr := {| gp_seg := 0; gp_segidx := 0; gp_trunc := 0 |}.

Record group := {
  g_id : N;
  g_mem : mem;                 (* ws.mem *)
  g_spans : list (N * N);      (* ws.entrySpans, per entry: (index, segment) *)
  g_hs_seg : N;                (* segment of the latest hard-state record, 0 = none *)
  g_ptr : gptr
}.

Record st := {
  s_segs : list segment;       (* existing *.wal files, ascending id *)
  s_active : N;                (* active memtable = active segment *)
  s_imms : list N;             (* sealed memtables, oldest first *)
  s_mems : list (N * list (N * N * N)); (* in-memory contents of the active and sealed memtables *)
  s_flushed : list (N * N * N);(* (k, v, q) contained in installed tables *)
  s_logptr : N;                (* manifest log pointer segment *)
  s_groups : list group;
  s_seq : N
}.

(** ** segment files *)
Fixpoint seg_recs (segs : list segment) (id : N) : option (list wrec) :=
  match segs with
  | [] => None
  | (i, rs) :: segs' => if i =? id then Some rs else seg_recs segs' id
  end.
Definition seg_exists (segs : list segment) (id : N) : bool :=
  match seg_recs segs id with Some _ => true | None => false end.
Fixpoint seg_add (segs : list segment) (id : N) (r : wrec) : list segment :=
  match segs with
  | [] => []
  | (i, rs) :: segs' => if i =? id then (i, rs ++ [r]) :: segs' else (i, rs) :: seg_add segs' id r
  end.
Definition seg_remove (segs : list segment) (id : N) : list segment :=
  filter (fun s => negb (fst s =? id)) segs.
Definition seg_ids (segs : list segment) : list N := map fst segs.

Definition lsm_of (rs : list wrec) : list (N * N * N) :=
  flat_map (fun r => match r with WLsm k v q => [(k, v, q)] | _ => [] end) rs.
Definition has_raft (rs : list wrec) : bool := existsb wrec_is_raft rs.

(** in-memory memtables *)
Fixpoint mem_get (ms : list (N * list (N * N * N))) (id : N) : list (N * N * N) :=
  match ms with
  | [] => []
  | (i, kvs) :: ms' => if i =? id then kvs else mem_get ms' id
  end.
Fixpoint mem_add (ms : list (N * list (N * N * N))) (id : N) (e : N * N * N) : list (N * list (N * N * N)) :=
  match ms with
  | [] => [(id, [e])]
  | (i, kvs) :: ms' => if i =? id then (i, kvs ++ [e]) :: ms' else (i, kvs) :: mem_add ms' id e
  end.

(** ** the removers *)
(** canRemoveWalSegment *)
Definition can_remove (gs : list group) (id : N) : bool :=
  forallb (fun g =>
    let p := g_ptr g in
    if gp_seg p =? 0 then true
    else negb ((0 <? gp_segidx p) && (gp_segidx p <=? id)) && negb (gp_seg p <=? id)) gs.

(** levelManager.flush of the oldest sealed memtable; returns the removed ids *)
Definition flush (s : st) : st * list N :=
  match s_imms s with
  | [] => (s, [])
  | id :: rest =>
      let kvs := mem_get (s_mems s) id in
      match kvs with
      | [] =>
          (* empty memtable: RemoveSegment without asking anybody *)
          ({| s_segs := seg_remove (s_segs s) id; s_active := s_active s; s_imms := rest; s_mems := s_mems s;
              s_flushed := s_flushed s; s_logptr := s_logptr s; s_groups := s_groups s; s_seq := s_seq s |},
           if seg_exists (s_segs s) id then [id] else [])
      | _ =>
          let rm := can_remove (s_groups s) id in
          ({| s_segs := if rm then seg_remove (s_segs s) id else s_segs s;
              s_active := s_active s; s_imms := rest; s_mems := s_mems s;
              s_flushed := s_flushed s ++ kvs; s_logptr := id; s_groups := s_groups s; s_seq := s_seq s |},
           if rm && seg_exists (s_segs s) id then [id] else [])
      end
  end.

(** AnalyzeWALBacklog: RetainSegment *)
Definition retain_of (gs : list group) : option N :=
  fold_left (fun acc g =>
    let p := g_ptr g in
    if gp_seg p =? 0 then acc else
    let m := if (0 <? gp_segidx p) && (gp_segidx p <? gp_seg p) then gp_segidx p else gp_seg p in
    match acc with None => Some m | Some a => Some (N.min a m) end) gs None.

Definition watchdog_max_batch : nat := 4.
(** RemovableSegments (ascending), cut to MaxBatch *)
Definition removable (s : st) : list N :=
  match retain_of (s_groups s) with
  | None => []
  | Some retain =>
      firstn watchdog_max_batch
        (map fst (filter (fun sg => has_raft (snd sg) && (fst sg <? retain)) (s_segs s)))
  end.

Definition watchdog (s : st) : st * list N :=
  let ids := removable s in
  ({| s_segs := fold_left seg_remove ids (s_segs s); s_active := s_active s; s_imms := s_imms s; s_mems := s_mems s;
      s_flushed := s_flushed s; s_logptr := s_logptr s; s_groups := s_groups s; s_seq := s_seq s |}, ids).

(** lsm.recovery: segments at or below the log pointer that the raft pointers allow *)
Definition recovery_removed (s : st) : list N :=
  if s_logptr s =? 0 then []
  else filter (fun id => (id <=? s_logptr s) && can_remove (s_groups s) id) (seg_ids (s_segs s)).
Definition recovery_cleanup (s : st) : list segment :=
  fold_left seg_remove (recovery_removed s) (s_segs s).

(** ** raft groups *)
Definition span_lookup (sp : list (N * N)) (idx : N) : option N :=
  match find (fun p => fst p =? idx) sp with Some p => Some (snd p) | None => None end.
Fixpoint span_tag (i : N) (n : nat) (seg : N) : list (N * N) :=
  match n with O => [] | S n' => (i, seg) :: span_tag (i + 1) n' seg end.
(** recordEntrySpan *)
Definition span_record (sp : list (N * N)) (first : N) (n : nat) (seg : N) : list (N * N) :=
  if first =? 0 then sp else filter (fun p => fst p <? first) sp ++ span_tag first n seg.
(** pruneEntrySpans *)
Definition span_prune (sp : list (N * N)) (idx : N) : list (N * N) := filter (fun p => idx <? fst p) sp.

Definition group_new (g : N) : group :=
  {| g_id := g; g_mem := mem_init; g_spans := []; g_hs_seg := 0; g_ptr := gptr_none |}.
Fixpoint group_get (gs : list group) (g : N) : group :=
  match gs with
  | [] => group_new g
  | x :: gs' => if g_id x =? g then x else group_get gs' g
  end.
Fixpoint group_put (gs : list group) (x : group) : list group :=
  match gs with
  | [] => [x]
  | y :: gs' => if g_id y =? g_id x then x :: gs' else y :: group_put gs' x
  end.

Definition set_segs_groups (s : st) (segs : list segment) (gs : list group) : st :=
  {| s_segs := segs; s_active := s_active s; s_imms := s_imms s; s_mems := s_mems s; s_flushed := s_flushed s;
     s_logptr := s_logptr s; s_groups := gs; s_seq := s_seq s |}.

(** WALStorage.Append (entries non-empty) *)
Definition raft_append (s : st) (g first : N) (es : list entry) : st :=
  match es with
  | [] => s
  | _ =>
      let x := group_get (s_groups s) g in
      let segs := seg_add (s_segs s) (s_active s) (WEnts g first es) in
      match mem_append (g_mem x) first es with
      | Err _ => set_segs_groups s segs (s_groups s)
      | Ok m =>
          let x' := {| g_id := g; g_mem := m;
                       g_spans := span_record (g_spans x) first (length es) (s_active s);
                       g_hs_seg := g_hs_seg x;
                       g_ptr := {| gp_seg := s_active s; gp_segidx := gp_segidx (g_ptr x);
                                   gp_trunc := gp_trunc (g_ptr x) |} |} in
          set_segs_groups s segs (group_put (s_groups s) x')
      end
  end.

(** WALStorage.SetHardState (non-empty state) *)
Definition raft_set_hs (s : st) (g : N) (h : hardstate) : st :=
  let x := group_get (s_groups s) g in
  if hs_is_empty h then
    set_segs_groups s (s_segs s)
      (group_put (s_groups s) {| g_id := g; g_mem := mem_set_hs (g_mem x) h; g_spans := g_spans x;
                                 g_hs_seg := g_hs_seg x; g_ptr := g_ptr x |})
  else
    let segs := seg_add (s_segs s) (s_active s) (WHs g h) in
    let x' := {| g_id := g; g_mem := mem_set_hs (g_mem x) h; g_spans := g_spans x;
                 g_hs_seg := s_active s;
                 g_ptr := {| gp_seg := s_active s; gp_segidx := gp_segidx (g_ptr x);
                             gp_trunc := gp_trunc (g_ptr x) |} |} in
    set_segs_groups s segs (group_put (s_groups s) x').

(** MaybeCompact(idx+1, 1) = compactTo idx *)
Definition raft_compact (s : st) (g idx : N) : st :=
  let x := group_get (s_groups s) g in
  let p := g_ptr x in
  if (idx =? 0) || (idx <=? gp_trunc p) then s else
  match mem_term (g_mem x) idx with
  | Err ECompacted | Ok _ =>
      let m := match mem_compact (g_mem x) idx with Ok m => m | Err _ => g_mem x end in
      let segment := match span_lookup (g_spans x) idx with
                     | Some sg => sg
                     | None => if 0 <? gp_segidx p then gp_segidx p else gp_seg p
                     end in
      if gp_seg p =? 0 then s   (* updatePointer: no record yet, pointer stays *)
      else
        let x' := {| g_id := g; g_mem := m; g_spans := span_prune (g_spans x) idx;
                     g_hs_seg := g_hs_seg x;
                     g_ptr := {| gp_seg := gp_seg p; gp_segidx := segment; gp_trunc := idx |} |} in
        set_segs_groups s (s_segs s) (group_put (s_groups s) x')
  | Err _ => s
  end.

(** OpenWALStorage replay for group [g] over the remaining segments *)
Definition greplay1 (g : N) (m : mem) (r : wrec) : res mem :=
  match r with
  | WLsm _ _ _ => Ok m
  | WEnts g' first es =>
      if negb (g' =? g) then Ok m else
      match es with [] => Ok m | _ => mem_append m first es end
  | WHs g' h => if negb (g' =? g) then Ok m else Ok (mem_set_hs m h)
  end.
Fixpoint greplay (g : N) (m : mem) (rs : list wrec) : res mem :=
  match rs with
  | [] => Ok m
  | r :: rs' => match greplay1 g m r with Ok m' => greplay g m' rs' | Err e => Err e end
  end.


(** ** reopening a group's WALStorage on the live wal.Manager (OpenWALStorage) *)
Definition rec_of_group (g : N) (r : wrec) : bool :=
  match r with WEnts g' _ _ | WHs g' _ => g' =? g | WLsm _ _ _ => false end.
(** segment of the last record of the group that replay meets (replayPtr.Segment) *)
Definition last_group_seg (g : N) (segs : list segment) : N :=
  fold_left (fun acc sg => if existsb (rec_of_group g) (snd sg) then fst sg else acc) segs 0.
Definition last_hs_seg (g : N) (segs : list segment) : N :=
  fold_left (fun acc sg =>
    if existsb (fun r => match r with WHs g' _ => g' =? g | _ => false end) (snd sg) then fst sg else acc) segs 0.
(** entrySpans as replay rebuilds them *)
Definition respan (g : N) (segs : list segment) : list (N * N) :=
  fold_left (fun sp sg =>
    fold_left (fun sp r =>
      match r with
      | WEnts g' first es => if g' =? g then span_record sp first (length es) (fst sg) else sp
      | _ => sp
      end) (snd sg) sp) segs [].

(** OpenWALStorage: the manifest pointer is validated (its segment must
    exist), the log is replayed, and the pointer is replaced by the one rebuilt
    from replay ONLY if replay is really ahead of it (isPointerAhead).  A
    rebuilt pointer carries no truncation data (no snapshot records here).
    Every record is synced before the pointer is logged, so within one segment
    the replayed position equals the stored one: "ahead" = a later segment.
    On failure no storage object is produced; the caller keeps the old one. *)
Definition raft_reopen (s : st) (g : N) : st * bool :=
  let x := group_get (s_groups s) g in
  let p := g_ptr x in
  if negb (gp_seg p =? 0) && negb (seg_exists (s_segs s) (gp_seg p)) then (s, false) else
  match greplay g mem_init (flat_map snd (s_segs s)) with
  | Err _ => (s, false)
  | Ok m =>
      let ls := last_group_seg g (s_segs s) in
      let p' := if gp_seg p <? ls then {| gp_seg := ls; gp_segidx := 0; gp_trunc := 0 |} else p in
      let x' := {| g_id := g; g_mem := m;
                   g_spans := span_prune (respan g (s_segs s)) (gp_trunc p');
                   g_hs_seg := last_hs_seg g (s_segs s); g_ptr := p' |} in
      (set_segs_groups s (s_segs s) (group_put (s_groups s) x'), true)
  end.

(** ** histories *)
Inductive wop :=
| WPut (k v : N)
| WRotate (newid : N)             (* NewMemtable: the id is reported by the implementation *)
| WFlush
| WAppend (g first : N) (es : list entry)
| WSetHs (g : N) (h : hardstate)
| WCompact (g idx : N)
| WWatchdog
| WReopen (g : N).               (* the group's WALStorage is closed and opened again *)

(** a fresh DB as the implementation reports it: the segment files and the active one *)
Definition init (ids : list N) (active : N) : st :=
  {| s_segs := map (fun i => (i, [])) ids; s_active := active; s_imms := []; s_mems := []; s_flushed := [];
     s_logptr := 0; s_groups := []; s_seq := 1 |}.

(** insert a new empty segment keeping the ids ascending *)
Fixpoint seg_insert (segs : list segment) (id : N) : list segment :=
  match segs with
  | [] => [(id, [])]
  | (i, rs) :: segs' =>
      if id <? i then (id, []) :: (i, rs) :: segs'
      else if i =? id then (i, []) :: segs'     (* O_TRUNC *)
      else (i, rs) :: seg_insert segs' id
  end.

Definition step (s : st) (o : wop) : st * list N :=
  match o with
  | WPut k v =>
      ({| s_segs := seg_add (s_segs s) (s_active s) (WLsm k v (s_seq s)); s_active := s_active s;
          s_imms := s_imms s; s_mems := mem_add (s_mems s) (s_active s) (k, v, s_seq s);
          s_flushed := s_flushed s; s_logptr := s_logptr s;
          s_groups := s_groups s; s_seq := s_seq s + 1 |}, [])
  | WRotate newid =>
      ({| s_segs := seg_insert (s_segs s) newid; s_active := newid; s_imms := s_imms s ++ [s_active s]; s_mems := s_mems s;
          s_flushed := s_flushed s; s_logptr := s_logptr s; s_groups := s_groups s; s_seq := s_seq s |}, [])
  | WFlush => flush s
  | WAppend g first es => (raft_append s g first es, [])
  | WSetHs g h => (raft_set_hs s g h, [])
  | WCompact g idx => (raft_compact s g idx, [])
  | WWatchdog => watchdog s
  | WReopen g => (fst (raft_reopen s g), [])
  end.

Fixpoint run (s : st) (ops : list wop) : st :=
  match ops with
  | [] => s
  | o :: ops' => run (fst (step s o)) ops'
  end.

(** ** crash and reopen (DB.Open, then OpenWALStorage per group) *)
(** DB contents.  Plain Set writes all carry the same (sentinel) version, so
    the search order decides: the memtables rebuilt from the replayed segments
    (newest segment first, within one the last write), then the tables (newest
    first).  That is the *last* occurrence of the key in "installed tables, then
    the surviving segments in id order" - also when a surviving segment is an
    old one that was flushed long ago. *)
Definition newest (kvs : list (N * N * N)) (k : N) : option (N * N) :=
  fold_left (fun acc e =>
    let '(k', v, q) := e in
    if k' =? k then Some (v, q) else acc) kvs None.

Definition recovered_kvs (s : st) : list (N * N * N) :=
  s_flushed s ++ flat_map (fun sg => lsm_of (snd sg)) (recovery_cleanup s).
Definition recovered_get (s : st) (k : N) : option N :=
  match newest (recovered_kvs s) k with Some (v, _) => Some v | None => None end.

Definition recovered_raft (s : st) (g : N) : res obs :=
  let segs := recovery_cleanup s in
  let p := g_ptr (group_get (s_groups s) g) in
  if negb (gp_seg p =? 0) && negb (seg_exists segs (gp_seg p)) then Err EPtrNotFound
  else match greplay g mem_init (flat_map snd segs) with
       | Ok m => Ok (observe m)
       | Err e => Err e
       end.

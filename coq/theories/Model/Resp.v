(** Model of the RESP request parser of the Redis gateway
    (cmd/nokv-redis/server.go: parseRESP / readBulk / readLine / expectCRLF).
    No proofs here.

    The reader is a [bufio.Reader] over the bytes the client sent; the model
    takes the whole remaining stream as a byte list (end of list = io.EOF) and
    returns the unread remainder, so "consumed" is [length input - length rest]
    in every outcome, errors included.

    The parser is parameterised by [limits]: [repaired_limits] is the code as
    it is now (declared lengths capped, preallocation bounded),
    [unrepaired_limits] is the code before the repair of F27 (no caps: the
    declared length goes straight into [make]).

    Besides the result the model returns the list of byte sizes the Go code
    passes to [make] with a size that derives from the input
    ([make([][]byte, 0, n)] = 24 bytes per element on 64-bit,
    [make([]byte, l)], [make([][]byte, len(fields))]).  Growth of [out] by
    [append] beyond its preallocated capacity is done by the Go runtime
    (amortised, proportional to the elements actually parsed) and is not in
    the list. *)
From Coq Require Import List NArith ZArith Bool.
From Coq Require Import Init.Byte.
From NoKV Require Import Base.Bytes.
Import ListNotations.
Local Open Scope N_scope.

Definition CR : byte := x0d.
Definition LF : byte := x0a.
Definition STAR : byte := x2a.     (* '*' *)
Definition DOLLAR : byte := x24.   (* '$' *)
Definition MINUS : byte := x2d.
Definition PLUS : byte := x2b.
Definition SPACE : byte := x20.

Definition len (s : bytes) : N := N.of_nat (List.length s).

(** * strconv.Atoi / strconv.ParseInt(s, 10, 64) on a 64-bit platform:
    optional sign, at least one decimal digit, nothing else, value in int64. *)
Definition digit_val (b : byte) : option N :=
  let n := b2n b in if (48 <=? n) && (n <=? 57) then Some (n - 48) else None.

Fixpoint parse_digits (acc : N) (s : bytes) : option N :=
  match s with
  | [] => Some acc
  | b :: s' => match digit_val b with
               | Some d => parse_digits (acc * 10 + d) s'
               | None => None
               end
  end.

Definition int64_bound : N := 9223372036854775808. (* 2^63 *)

Definition atoi_signed (neg : bool) (ds : bytes) : option Z :=
  match ds with
  | [] => None
  | _ => match parse_digits 0 ds with
         | None => None
         | Some n =>
             if neg then (if n <=? int64_bound then Some (- Z.of_N n)%Z else None)
             else (if n <? int64_bound then Some (Z.of_N n) else None)
         end
  end.

Definition atoi (s : bytes) : option Z :=
  match s with
  | [] => None
  | b :: s' =>
      if byte_eqb b MINUS then atoi_signed true s'
      else if byte_eqb b PLUS then atoi_signed false s'
      else atoi_signed false s
  end.

(** * readLine: [ReadString('\n')], then the line must end in "\r\n". *)
Fixpoint split_lf (s : bytes) : option (bytes * bytes) :=
  match s with
  | [] => None
  | b :: s' =>
      if byte_eqb b LF then Some ([], s')
      else match split_lf s' with
           | Some (l, r) => Some (b :: l, r)
           | None => None
           end
  end.

(** [List.rev] is quadratic; the model uses the linear form ([rev_alt]: the same function). *)
Definition frev (l : bytes) : bytes := rev_append l [].

Inductive line_res :=
| LOk (line rest : bytes)
| LBad (rest : bytes)     (* "invalid line terminator" *)
| LEof.                   (* no LF before the end of the stream: io.EOF, everything consumed *)

Definition read_line (s : bytes) : line_res :=
  match split_lf s with
  | None => LEof
  | Some (pre, rest) =>
      match frev pre with
      | c :: p => if byte_eqb c CR then LOk (frev p) rest else LBad rest
      | [] => LBad rest
      end
  end.

(** * strings.Fields: split around runs of Unicode white space.
    [ws_len s] = byte length of the white-space rune at the head of [s], 0 if
    none (ASCII \t \n \v \f \r space, U+0085, U+00A0, U+1680, U+2000..U+200A,
    U+2028, U+2029, U+202F, U+205F, U+3000 in UTF-8).  Lead bytes of these
    runes are never continuation bytes, so a bytewise scan agrees with Go's
    rune-wise scan also on invalid UTF-8. *)
Definition ws_len (s : bytes) : nat :=
  match s with
  | [] => 0%nat
  | a :: t =>
      let a := b2n a in
      if ((9 <=? a) && (a <=? 13)) || (a =? 32) then 1%nat
      else if a <? 194 then 0%nat
      else match t with
           | [] => 0%nat
           | b :: t2 =>
               let b := b2n b in
               if a =? 194 then (if (b =? 133) || (b =? 160) then 2%nat else 0%nat)
               else match t2 with
                    | [] => 0%nat
                    | c :: _ =>
                        let c := b2n c in
                        if a =? 225 then (if (b =? 154) && (c =? 128) then 3%nat else 0%nat)
                        else if a =? 226 then
                          (if b =? 128 then
                             (if ((128 <=? c) && (c <=? 138)) || (c =? 168) || (c =? 169) || (c =? 175)
                              then 3%nat else 0%nat)
                           else if (b =? 129) && (c =? 159) then 3%nat else 0%nat)
                        else if a =? 227 then (if (b =? 128) && (c =? 128) then 3%nat else 0%nat)
                        else 0%nat
                    end
           end
  end.

Definition flush (cur : bytes) : list bytes :=
  match cur with [] => [] | _ => [frev cur] end.

(** [skip]: bytes of the current white-space rune still to be dropped;
    [cur]: the field being collected, reversed. *)
Fixpoint fields_aux (skip : nat) (cur : bytes) (s : bytes) : list bytes :=
  match s with
  | [] => flush cur
  | b :: s' =>
      match skip with
      | S k => fields_aux k cur s'
      | O => match ws_len s with
             | O => fields_aux 0 (b :: cur) s'
             | S k => flush cur ++ fields_aux k [] s'
             end
      end
  end.

Definition fields (s : bytes) : list bytes := fields_aux 0 [] s.

(** * The parser *)
Record limits := {
  lim_multibulk : option N;   (* maxMultibulkLen *)
  lim_bulk : option N;        (* maxBulkLen *)
  pre_multibulk : option N;   (* multibulkPrealloc *)
  pre_bulk : option N }.      (* bulkPrealloc *)

Definition repaired_limits : limits :=
  {| lim_multibulk := Some 1048576; lim_bulk := Some 536870912;
     pre_multibulk := Some 1024; pre_bulk := Some 65536 |}.
Definition unrepaired_limits : limits :=
  {| lim_multibulk := None; lim_bulk := None; pre_multibulk := None; pre_bulk := None |}.

Definition over (lim : option N) (n : Z) : bool :=
  match lim with Some m => (Z.of_N m <? n)%Z | None => false end.
Definition capped (pre : option N) (n : N) : N :=
  match pre with Some p => N.min n p | None => n end.

(** runtime.maxAlloc on linux/amd64: [make] panics ("len/cap out of range")
    above it instead of trying to allocate. *)
Definition max_alloc : N := 281474976710656. (* 2^48 *)

Inductive perr :=
| EEOF | EUnexpectedEOF | EInvalidMultibulk | EExpectedBulk | EInvalidBulk
| EBadTerminator | EExpectedCR | EExpectedLF.

(** readBulk: buffer of [c] bytes just allocated, [avail] bytes left in the
    stream; doubles (capped by [l]) after each complete fill. *)
Inductive bstat := BFull | BShort | BFuel.

Fixpoint bulk_allocs (fuel : nat) (l c avail : N) : list N * bstat :=
  if avail <? c then ([c], BShort)
  else if l <=? c then ([c], BFull)
  else match fuel with
       | O => ([c], BFuel)
       | S f => let '(a, st) := bulk_allocs f l (N.min l (2 * c)) avail in (c :: a, st)
       end.

Definition bulk_fuel : nat := 40.

Inductive eres :=
| EDone (rest : bytes)
| EFail (e : perr) (rest : bytes)
| EPanic (rest : bytes)
| EFuel.

Definition expect_crlf (s : bytes) : option perr * bytes :=
  match s with
  | [] => (Some EEOF, [])
  | b1 :: s1 =>
      if negb (byte_eqb b1 CR) then (Some EExpectedCR, s1)
      else match s1 with
           | [] => (Some EEOF, [])
           | b2 :: s2 => if negb (byte_eqb b2 LF) then (Some EExpectedLF, s2) else (None, s2)
           end
  end.

(** The [for range n] loop. Returns (make sizes, parsed elements, outcome). *)
Fixpoint parse_elems (fuel : nat) (L : limits) (n : N) (s : bytes)
  : list N * list (option bytes) * eres :=
  if n =? 0 then ([], [], EDone s) else
  match fuel with
  | O => ([], [], EFuel)
  | S f =>
      match s with
      | [] => ([], [], EFail EEOF [])
      | b :: s1 =>
          if negb (byte_eqb b DOLLAR) then ([], [], EFail EExpectedBulk s1) else
          match read_line s1 with
          | LEof => ([], [], EFail EEOF [])
          | LBad r => ([], [], EFail EBadTerminator r)
          | LOk line r =>
              match atoi line with
              | None => ([], [], EFail EInvalidBulk r)
              | Some lz =>
                  if over (lim_bulk L) lz then ([], [], EFail EInvalidBulk r)
                  else if (lz <? 0)%Z then
                    let '(al, args, res) := parse_elems f L (n - 1) r in (al, None :: args, res)
                  else
                    let l := Z.to_N lz in
                    let c0 := capped (pre_bulk L) l in
                    if max_alloc <? c0 then ([], [], EPanic r) else
                    let '(ba, st) := bulk_allocs bulk_fuel l c0 (len r) in
                    match st with
                    | BFuel => (ba, [], EFuel)
                    | BShort => (ba, [], EFail (if len r =? 0 then EEOF else EUnexpectedEOF) [])
                    | BFull =>
                        let data := firstn (N.to_nat l) r in
                        let r2 := skipn (N.to_nat l) r in
                        match expect_crlf r2 with
                        | (Some e, r3) => (ba, [], EFail e r3)
                        | (None, r3) =>
                            let '(al, args, res) := parse_elems f L (n - 1) r3 in
                            (ba ++ al, Some data :: args, res)
                        end
                    end
              end
          end
      end
  end.

Inductive presult :=
| POk (isnil : bool) (args : list (option bytes)) (rest : bytes)
| PErr (e : perr) (rest : bytes)
| PPanic (rest : bytes)
| POutOfFuel.

Definition parse (L : limits) (s : bytes) : list N * presult :=
  match s with
  | [] => ([], PErr EEOF [])
  | b :: s1 =>
      if byte_eqb b STAR then
        match read_line s1 with
        | LEof => ([], PErr EEOF [])
        | LBad r => ([], PErr EBadTerminator r)
        | LOk line r =>
            match atoi line with
            | None => ([], PErr EInvalidMultibulk r)
            | Some nz =>
                if over (lim_multibulk L) nz then ([], PErr EInvalidMultibulk r)
                else if (nz <? 0)%Z then ([], POk true [] r)
                else
                  let n := Z.to_N nz in
                  let cap := capped (pre_multibulk L) n in
                  if max_alloc <? 24 * cap then ([], PPanic r) else
                  let '(al, args, res) := parse_elems (S (List.length r)) L n r in
                  (24 * cap :: al,
                   match res with
                   | EDone rest => POk false args rest
                   | EFail e rest => PErr e rest
                   | EPanic rest => PPanic rest
                   | EFuel => POutOfFuel
                   end)
            end
        end
      else
        match read_line s with
        | LEof => ([], PErr EEOF [])
        | LBad r => ([], PErr EBadTerminator r)
        | LOk line r =>
            match line with
            | [] => ([], POk true [] r)
            | _ => let fs := fields line in
                   ([24 * N.of_nat (List.length fs)], POk false (map Some fs) r)
            end
        end
  end.

Definition sumN (l : list N) : N := fold_right N.add 0 l.

(** Model of the connection loop of the Redis gateway
    (cmd/nokv-redis/server.go handleConn): parse a request, skip it if it has
    no arguments, execute it, write the reply; stop silently at io.EOF, stop
    with an error reply at any other parse error, stop after QUIT.

    The client sends [input] and closes its sending side; the model returns
    the replies in order. Flushing ([flushCommandBatch], [flushBufferedBytes],
    [reader.Buffered()]) only decides when bytes leave the process, not which
    bytes: every reply written before the loop ends is flushed before the
    connection is closed (on EOF since the repair described in
    /verif/fixes/C31-handleconn-flush-on-eof.md).  No proofs here. *)
From Coq Require Import List NArith ZArith Bool.
From Coq Require Import Init.Byte.
From NoKV Require Import Base.Bytes Model.Resp Model.Redis.
Import ListNotations.
Local Open Scope N_scope.

Inductive item :=
| IReply (r : reply)        (* the reply of an executed command *)
| IParseErr (e : perr)      (* respondError(err.Error()), then the connection is closed *)
| IPanic                    (* parseRESP or execute panics: the process dies *)
| IFuel.

Definition arg_bytes (a : option bytes) : bytes := match a with Some b => b | None => [] end.

Fixpoint conn_loop (fuel : nat) (L : limits) (F : fixes) (st : store) (now : N) (input : bytes) : list item :=
  match fuel with
  | O => [IFuel]
  | S f =>
      match snd (parse L input) with
      | POk _ args rest =>
          match args with
          | [] => conn_loop f L F st now rest               (* len(args) == 0: continue *)
          | _ =>
              let '(st', r, quit) := execute F st now (map arg_bytes args) in
              IReply r :: (if quit then [] else conn_loop f L F st' now rest)
          end
      | PErr EEOF _ => []
      | PErr e _ => [IParseErr e]
      | PPanic _ => [IPanic]
      | POutOfFuel => [IFuel]
      end
  end.

Definition conn_run (st : store) (now : N) (input : bytes) : list item :=
  conn_loop (S (List.length input)) repaired_limits current st now input.

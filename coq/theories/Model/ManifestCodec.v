(** manifest/codec.go: writeEdit / readEdit / decodeEdit, after the repair
    fixes/codec-decoders-panic-alloc.md.

      le32 length | "NoKV" | type | type-specific fields (uvarints, length-prefixed bytes, flag bytes)

    [FileMeta.Level] (a Go int) is modelled by its uint64 bit pattern. *)
From Coq Require Import List NArith Bool.
From Coq Require Import Init.Byte.
From NoKV Require Import Base.Bytes Base.Num Base.Varint Model.PercoCodec.
Import ListNotations.
Local Open Scope N_scope.

Record file_meta := {
  fm_level : N; fm_id : N; fm_size : N; fm_smallest : bytes; fm_largest : bytes;
  fm_created : N; fm_vsize : N; fm_ingest : bool }.

Record vlog_meta := { vl_bucket : N; vl_fid : N; vl_offset : N; vl_valid : bool }.

Record raft_ptr := {
  rp_group : N; rp_segment : N; rp_offset : N; rp_applied_idx : N; rp_applied_term : N;
  rp_committed : N; rp_snap_idx : N; rp_snap_term : N; rp_trunc_idx : N; rp_trunc_term : N;
  rp_seg_idx : N; rp_trunc_off : N }.

Record region_meta := {
  rg_id : N; rg_start : bytes; rg_end : bytes; rg_ver : N; rg_confver : N;
  rg_state : N; rg_peers : list (N * N) }.

Record region_edit := { re_meta : region_meta; re_delete : bool }.

Inductive edit :=
| EAddFile (f : file_meta)
| EDeleteFile (f : file_meta)
| ELogPointer (seg off : N)
| EVlogHead (v : option vlog_meta)
| EVlogDelete (v : option vlog_meta)
| EVlogUpdate (v : option vlog_meta)
| ERaftPointer (r : option raft_ptr)
| ERegion (r : option region_edit)
| EUnknown (ty : N).

Definition magic : bytes := [x4e; x6f; x4b; x56].   (* "NoKV" *)

Definition flag (b : bool) : byte := if b then x01 else x00.
Definition put_bytes (b : bytes) : bytes := put_uvarint (blen b) ++ b.

Definition enc_file (f : file_meta) : bytes :=
  put_uvarint (fm_level f) ++ put_uvarint (fm_id f) ++ put_uvarint (fm_size f) ++
  put_bytes (fm_smallest f) ++ put_bytes (fm_largest f) ++
  put_uvarint (fm_created f) ++ put_uvarint (fm_vsize f) ++ [flag (fm_ingest f)].

Definition enc_peers (ps : list (N * N)) : bytes :=
  concat (map (fun p => put_uvarint (fst p) ++ put_uvarint (snd p)) ps).

Definition edit_type (e : edit) : N :=
  match e with
  | EAddFile _ => 0 | EDeleteFile _ => 1 | ELogPointer _ _ => 2 | EVlogHead _ => 3
  | EVlogDelete _ => 4 | EVlogUpdate _ => 5 | ERaftPointer _ => 6 | ERegion _ => 7
  | EUnknown t => t
  end.

Definition enc_edit_body (e : edit) : bytes :=
  match e with
  | EAddFile f | EDeleteFile f => enc_file f
  | ELogPointer seg off => put_uvarint seg ++ put_uvarint off
  | EVlogHead (Some v) => put_uvarint (vl_bucket v) ++ put_uvarint (vl_fid v) ++ put_uvarint (vl_offset v)
  | EVlogDelete (Some v) => put_uvarint (vl_bucket v) ++ put_uvarint (vl_fid v)
  | EVlogUpdate (Some v) =>
      put_uvarint (vl_bucket v) ++ put_uvarint (vl_fid v) ++ put_uvarint (vl_offset v) ++ [flag (vl_valid v)]
  | ERaftPointer (Some r) =>
      put_uvarint (rp_group r) ++ put_uvarint (rp_segment r) ++ put_uvarint (rp_offset r) ++
      put_uvarint (rp_applied_idx r) ++ put_uvarint (rp_applied_term r) ++ put_uvarint (rp_committed r) ++
      put_uvarint (rp_snap_idx r) ++ put_uvarint (rp_snap_term r) ++ put_uvarint (rp_trunc_idx r) ++
      put_uvarint (rp_trunc_term r) ++ put_uvarint (rp_seg_idx r) ++ put_uvarint (rp_trunc_off r)
  | ERegion (Some r) =>
      let m := re_meta r in
      put_uvarint (rg_id m) ++
      (if re_delete r then [x01]
       else x00 :: put_bytes (rg_start m) ++ put_bytes (rg_end m) ++ put_uvarint (rg_ver m) ++
            put_uvarint (rg_confver m) ++ n2b (rg_state m) ::
            put_uvarint (N.of_nat (length (rg_peers m))) ++ enc_peers (rg_peers m))
  | _ => []
  end.

(** payload of writeEdit (without the length prefix) *)
Definition enc_edit_payload (e : edit) : bytes := magic ++ n2b (edit_type e) :: enc_edit_body e.
(** writeEdit: [length := uint32(len(buf))] *)
Definition enc_edit (e : edit) : bytes :=
  le32 (blen (enc_edit_payload e)) ++ enc_edit_payload e.

(** uvarintAt / readBytesAt of the repaired code: value and the new position *)
Definition uv_at (data : bytes) (pos : N) : N * N :=
  if blen data <? pos then (0, pos) else
  match uvarint (drop pos data) with
  | UvOk v n => (v, pos + n)
  | UvShort => (0, pos)
  | UvOver _ => (0, blen data + 1)
  end.

Definition bytes_at (data : bytes) (pos : N) : bytes * N :=
  if blen data <? pos then ([], pos) else
  let d := drop pos data in
  match uvarint d with
  | UvOk len n => if blen d - n <? len then ([], pos + blen d) else (take len (drop n d), pos + n + len)
  | _ => ([], pos + blen d)
  end.

(** data[pos] (callers check pos < len first) *)
Definition byte_at (data : bytes) (pos : N) : option byte :=
  match drop pos data with b :: _ => Some b | [] => None end.

(** optional flag byte: [if pos < len { v = data[pos] == 1; pos++ }] *)
Definition opt_flag (data : bytes) (pos : N) : dres (bool * N) :=
  if pos <? blen data then
    match byte_at data pos with
    | Some b => DVal (byte_eqb b x01, pos + 1)
    | None => DPanic
    end
  else DVal (false, pos).

Definition dec_file (data : bytes) : dres file_meta :=
  let len := blen data in
  let '(level, p) := uv_at data 5 in
  let '(fid, p) := uv_at data p in
  let '(size, p) := uv_at data p in
  let '(smallest, p) := bytes_at data p in
  let '(largest, p) := bytes_at data p in
  let '(created, p) := uv_at data p in
  let '(vsize, p) := if p <? len then uv_at data p else (0, p) in
  match opt_flag data p with
  | DPanic => DPanic | DErr => DErr
  | DVal (ingest, p) =>
      if len <? p then DErr else
      DVal {| fm_level := level; fm_id := fid; fm_size := size; fm_smallest := smallest;
              fm_largest := largest; fm_created := created; fm_vsize := vsize; fm_ingest := ingest |}
  end.

Fixpoint dec_peers (n : nat) (data : bytes) (p : N) : option (list (N * N)) :=
  match n with
  | O => Some []
  | S n' =>
      let '(s, p) := uv_at data p in
      let '(i, p) := uv_at data p in
      if blen data <? p then None else
      match dec_peers n' data p with
      | Some l => Some ((s, i) :: l)
      | None => None
      end
  end.

(** optional trailing uvarint of the raft pointer: [if pos < len { v, n = ..; pos += n; if pos > len -> error }] *)
Definition opt_uv (data : bytes) (p : N) : option (N * N) :=
  if p <? blen data then
    let '(v, p') := uv_at data p in
    if blen data <? p' then None else Some (v, p')
  else Some (0, p).

Definition dec_raft (data : bytes) : dres (option raft_ptr) :=
  let len := blen data in
  if negb (5 <? len) then DVal None else
  let '(g, p) := uv_at data 5 in
  let '(seg, p) := uv_at data p in
  let '(off, p) := uv_at data p in
  let '(ai, p) := uv_at data p in
  let '(at_, p) := uv_at data p in
  let '(cm, p) := uv_at data p in
  let '(si, p) := uv_at data p in
  let '(st, p) := uv_at data p in
  if len <? p then DErr else
  match opt_uv data p with
  | None => DErr
  | Some (ti, p) =>
    match opt_uv data p with
    | None => DErr
    | Some (tterm, p) =>
      match opt_uv data p with
      | None => DErr
      | Some (sx, p) =>
        match opt_uv data p with
        | None => DErr
        | Some (toff, p) =>
            DVal (Some {| rp_group := g; rp_segment := u32 seg; rp_offset := off; rp_applied_idx := ai;
                          rp_applied_term := at_; rp_committed := cm; rp_snap_idx := si; rp_snap_term := st;
                          rp_trunc_idx := ti; rp_trunc_term := tterm; rp_seg_idx := sx; rp_trunc_off := toff |})
        end
      end
    end
  end.

Definition empty_region (id : N) : region_meta :=
  {| rg_id := id; rg_start := []; rg_end := []; rg_ver := 0; rg_confver := 0; rg_state := 0; rg_peers := [] |}.

Definition dec_region (data : bytes) : dres (option region_edit) :=
  let len := blen data in
  if negb (5 <? len) then DVal None else
  let '(id, p) := uv_at data 5 in
  if len <? p then DErr else
  match opt_flag data p with
  | DPanic => DPanic | DErr => DErr
  | DVal (del, p) =>
    if del then DVal (Some {| re_meta := empty_region id; re_delete := true |}) else
    let '(start, p) := bytes_at data p in
    let '(end_, p) := bytes_at data p in
    let '(ver, p) := uv_at data p in
    let '(cv, p) := uv_at data p in
    if len <? p then DErr else
    match (if p <? len then
             match byte_at data p with Some b => DVal (b2n b, p + 1) | None => DPanic end
           else DVal (0, p)) with
    | DPanic => DPanic | DErr => DErr
    | DVal (state, p) =>
      let '(cnt, p) := if p <? len then uv_at data p else (0, p) in
      if len <? p then DErr else
      if (len - p) / 2 <? cnt then DErr else
      match dec_peers (N.to_nat cnt) data p with
      | None => DErr
      | Some peers =>
          DVal (Some {| re_meta := {| rg_id := id; rg_start := start; rg_end := end_; rg_ver := ver;
                                      rg_confver := cv; rg_state := state; rg_peers := peers |};
                        re_delete := false |})
      end
    end
  end.

Definition dec_vlog (data : bytes) (kind : N) : dres (option vlog_meta) :=
  let len := blen data in
  if 5 <? len then
    let '(b, p) := uv_at data 5 in
    let '(f, p) := uv_at data p in
    if kind =? 4 then
      if len <? p then DErr
      else DVal (Some {| vl_bucket := u32 b; vl_fid := u32 f; vl_offset := 0; vl_valid := false |})
    else
      let '(o, p) := uv_at data p in
      if len <? p then DErr else
      if kind =? 3 then DVal (Some {| vl_bucket := u32 b; vl_fid := u32 f; vl_offset := o; vl_valid := true |})
      else
        match opt_flag data p with
        | DPanic => DPanic | DErr => DErr
        | DVal (valid, _) => DVal (Some {| vl_bucket := u32 b; vl_fid := u32 f; vl_offset := o; vl_valid := valid |})
        end
  else DVal None.

Definition dmap {A B} (f : A -> B) (r : dres A) : dres B :=
  match r with DVal a => DVal (f a) | DErr => DErr | DPanic => DPanic end.

(** decodeEdit *)
Definition decode_edit (data : bytes) : dres edit :=
  if blen data <? 5 then DErr else
  if negb (bytes_eqb (take 4 data) magic) then DErr else
  match byte_at data 4 with
  | None => DPanic
  | Some tb =>
      let ty := b2n tb in
      if ty =? 0 then dmap EAddFile (dec_file data)
      else if ty =? 1 then dmap EDeleteFile (dec_file data)
      else if ty =? 2 then
        let '(seg, p) := uv_at data 5 in
        let '(off, p) := uv_at data p in
        if blen data <? p then DErr else DVal (ELogPointer (u32 seg) off)
      else if ty =? 3 then dmap EVlogHead (dec_vlog data 3)
      else if ty =? 4 then dmap EVlogDelete (dec_vlog data 4)
      else if ty =? 5 then dmap EVlogUpdate (dec_vlog data 5)
      else if ty =? 6 then dmap ERaftPointer (dec_raft data)
      else if ty =? 7 then dmap ERegion (dec_region data)
      else DVal (EUnknown ty)
  end.

(** capacity requested by make([]PeerMeta, 0, peersCount): only after the bound check *)
Definition decode_edit_alloc (data : bytes) : N :=
  match decode_edit data with
  | DVal (ERegion (Some r)) => N.of_nat (length (rg_peers (re_meta r)))
  | _ => 0
  end.

(** readEdit on the remaining bytes of the manifest file *)
Inductive re_res :=
| ReEof                    (* io.EOF: clean end (also: length word present, no payload byte) *)
| ReErr                    (* io.ErrUnexpectedEOF or a decodeEdit error *)
| RePanic
| ReOk (e : edit) (rest : bytes).

Definition read_edit (bs : bytes) : re_res :=
  match rd_le32 bs with
  | None => match bs with [] => ReEof | _ => ReErr end
  | Some len =>
      let r := drop 4 bs in
      if blen r <? len then (match r with [] => ReEof | _ => ReErr end) else
      match decode_edit (take len r) with
      | DVal e => ReOk e (drop len r)
      | DErr => ReErr
      | DPanic => RePanic
      end
  end.

(** readPayload: bytes preallocated on the word of the length prefix *)
Definition read_edit_prealloc (bs : bytes) : N :=
  match rd_le32 bs with
  | None => 0
  | Some len => N.min len 65536
  end.

(** The durability protocol of the embedded engine, at record granularity.

    Anchors: db_write.go (commitWorker, applyRequests), vlog.go (valueLog.write,
    updateHead, shouldPersistHead, reconcileManifest, open/replayLog),
    vlog/manager.go + vlog/io.go (reserve, rotateLocked, AppendEntries),
    lsm/lsm.go (SetBatch, rotateLocked), lsm/memtable.go (setBatch, recovery,
    openMemTable), wal/manager.go (AppendRecords, switchSegmentLocked, Sync,
    RemoveSegment), lsm/levels.go (flush, build), lsm/executor.go (moveToIngest),
    vlog_gc.go (rewrite), db.go (Open, runRecoveryChecks).

    The write path is compiled into a list of micro-operations [mop], each of
    which performs at most one file effect [eff] (one completed system call or
    one completed MAP_SHARED store) in exactly the order of the code.  A process
    crash keeps the [disk] part of the state and loses the runtime part and the
    WAL's userland buffer.  [recover] is what [Open] makes of a disk.

    What the engine decides from byte sizes (memtable full, value-log file full,
    bufio buffer full, Go map iteration order) is an annotation of the workload,
    reported by the harness; every theorem quantifies over all annotations.

    Byte-level facts used implicitly: a torn WAL tail is dropped by replay and
    truncated by VerifyDir (C13_torn_tail, C13_reopen_appends); a manifest
    append is one write (C15_crash_prefix); a torn value-log record fails its
    checksum and is truncated by vlog.VerifyDir (C14).  Hence a file holds a
    list of complete records. *)
From Coq Require Import List NArith Bool.
From NoKV Require Import Model.Fs.
Import ListNotations.
Local Open Scope N_scope.

(** * Records *)

Record ptr := { p_b : N; p_f : N; p_slot : N }.

(** An LSM/WAL record: [r_ver] is the version rank (0 for every plain Set/Del,
    the commit rank for transactions), [r_seq] the arrival rank (ghost). *)
Record rec := { r_key : N; r_ver : N; r_seq : N; r_del : bool; r_vid : N; r_ptr : option ptr }.

(** A value-log record (internal key = key + version, value id). *)
Record vrec := { v_key : N; v_ver : N; v_vid : N }.

(** * The manifest, abstractly (ids and validity only; the byte level is C15) *)

Inductive medit :=
| AF (fid lvl : N) | DF (fid lvl : N) | LP (seg : N)
| VH (b f : N) | VD (b f : N) | VU (b f : N) (valid : bool) | EO (ty : N).

Record mver := { m_ssts : list N; m_logseg : N; m_vlogs : list ((N * N) * bool) }.

Definition mver0 : mver := {| m_ssts := []; m_logseg := 0; m_vlogs := [] |}.

Fixpoint remove_first (x : N) (l : list N) : list N :=
  match l with
  | [] => []
  | y :: l' => if x =? y then l' else y :: remove_first x l'
  end.

Definition mapply (v : mver) (e : medit) : mver :=
  match e with
  | AF fid _ => {| m_ssts := m_ssts v ++ [fid]; m_logseg := m_logseg v; m_vlogs := m_vlogs v |}
  | DF fid _ => {| m_ssts := remove_first fid (m_ssts v); m_logseg := m_logseg v; m_vlogs := m_vlogs v |}
  | LP s => {| m_ssts := m_ssts v; m_logseg := s; m_vlogs := m_vlogs v |}
  | VH b f => {| m_ssts := m_ssts v; m_logseg := m_logseg v; m_vlogs := fput pair_eqb (b, f) true (m_vlogs v) |}
  | VD b f => {| m_ssts := m_ssts v; m_logseg := m_logseg v; m_vlogs := fput pair_eqb (b, f) false (m_vlogs v) |}
  | VU b f x => {| m_ssts := m_ssts v; m_logseg := m_logseg v; m_vlogs := fput pair_eqb (b, f) x (m_vlogs v) |}
  | EO _ => v
  end.

Definition mapply_all (es : list medit) : mver := fold_left mapply es mver0.

(** * File effects (what the recording file system and the crash hooks see) *)

Inductive eff :=
| VC (b f : N)            (* value-log file created (header written) *)
| VA (b f k vid : N)      (* one value-log record stored through the mapping *)
| VR (b f : N)            (* value-log file removed *)
| WC (seg : N)            (* WAL segment created *)
| WF (seg k : N)          (* k more complete records written to the segment file *)
| WR (seg : N)            (* WAL segment removed *)
| MF (es : list medit)    (* one write() of a batch of manifest edits *)
| SC (fid : N)            (* SST file created (sized, zero-filled) *)
| SF (fid : N)            (* SST contents stored through the mapping *)
| SR (fid : N).           (* SST removed *)

(** * Machine state *)

Record disk := {
  d_wal : list (N * list rec);            (* WAL segment files *)
  d_man : list medit;                     (* the manifest the CURRENT file names *)
  d_sst : list (N * option (list rec));   (* None: created, not yet filled *)
  d_vlog : list ((N * N) * list vrec)     (* value-log files *)
}.

Record rt := {
  t_act : N;                       (* active WAL segment = active memtable id *)
  t_buf : list rec;                (* the WAL writer's userland buffer *)
  t_mem : list rec;                (* active memtable, arrival order *)
  t_imm : list (N * list rec);     (* sealed memtables, oldest first *)
  t_fl : N;                        (* progress of the flush of the oldest sealed memtable: 0 none, 1 file created, 2 filled, 3 in the manifest *)
  t_maxfid : N;                    (* levelManager.maxFID *)
  t_vact : list (N * N);           (* bucket -> active value-log file *)
  t_logged : list (N * N);         (* bucket -> file id of lastLoggedHeads *)
  t_ptrs : list ((N * N) * ptr);   (* pointers of the request being written: (key, vid) -> ptr *)
  t_seq : N;
  t_acked : N;
  t_log : list rec;                (* ghost: every record handed to the WAL writer so far *)
  t_done : list (N * list rec);    (* ghost: the flushed memtables whose table is in the manifest, oldest first *)
  t_ackpos : N                     (* ghost: length of [t_log] at the last acknowledgement *)
}.

Definition mstate := (disk * rt)%type.

Definition set_wal (d : disk) w := {| d_wal := w; d_man := d_man d; d_sst := d_sst d; d_vlog := d_vlog d |}.
Definition set_man (d : disk) m := {| d_wal := d_wal d; d_man := m; d_sst := d_sst d; d_vlog := d_vlog d |}.
Definition set_sst (d : disk) s := {| d_wal := d_wal d; d_man := d_man d; d_sst := s; d_vlog := d_vlog d |}.
Definition set_vlog (d : disk) v := {| d_wal := d_wal d; d_man := d_man d; d_sst := d_sst d; d_vlog := v |}.

Definition with_buf (t : rt) b := {| t_act := t_act t; t_buf := b; t_mem := t_mem t; t_imm := t_imm t; t_fl := t_fl t;
  t_maxfid := t_maxfid t; t_vact := t_vact t; t_logged := t_logged t; t_ptrs := t_ptrs t; t_seq := t_seq t;
  t_acked := t_acked t; t_log := t_log t; t_done := t_done t; t_ackpos := t_ackpos t |}.
Definition with_imm (t : rt) i fl := {| t_act := t_act t; t_buf := t_buf t; t_mem := t_mem t; t_imm := i; t_fl := fl;
  t_maxfid := t_maxfid t; t_vact := t_vact t; t_logged := t_logged t; t_ptrs := t_ptrs t; t_seq := t_seq t;
  t_acked := t_acked t; t_log := t_log t; t_done := t_done t; t_ackpos := t_ackpos t |}.
Definition with_vact (t : rt) v := {| t_act := t_act t; t_buf := t_buf t; t_mem := t_mem t; t_imm := t_imm t; t_fl := t_fl t;
  t_maxfid := t_maxfid t; t_vact := v; t_logged := t_logged t; t_ptrs := t_ptrs t; t_seq := t_seq t;
  t_acked := t_acked t; t_log := t_log t; t_done := t_done t; t_ackpos := t_ackpos t |}.
Definition with_logged (t : rt) l := {| t_act := t_act t; t_buf := t_buf t; t_mem := t_mem t; t_imm := t_imm t; t_fl := t_fl t;
  t_maxfid := t_maxfid t; t_vact := t_vact t; t_logged := l; t_ptrs := t_ptrs t; t_seq := t_seq t;
  t_acked := t_acked t; t_log := t_log t; t_done := t_done t; t_ackpos := t_ackpos t |}.
Definition with_ptrs (t : rt) p := {| t_act := t_act t; t_buf := t_buf t; t_mem := t_mem t; t_imm := t_imm t; t_fl := t_fl t;
  t_maxfid := t_maxfid t; t_vact := t_vact t; t_logged := t_logged t; t_ptrs := p; t_seq := t_seq t;
  t_acked := t_acked t; t_log := t_log t; t_done := t_done t; t_ackpos := t_ackpos t |}.

(** * Workload and annotations *)

Record entry := {
  e_key : N; e_vid : N; e_del : bool;
  e_loc : N;        (* 0: value inline; b+1: value in bucket b of the value log *)
  e_mrot : bool;    (* SetBatch rotates the memtable (and WAL segment) before this entry *)
  e_spill : bool;   (* the bufio buffer overflows while this entry's record is appended *)
  e_vrot : bool;    (* the value-log file of the bucket rotates before this entry's record *)
  e_ver : N }.

(** one request of a commit batch that holds several (concurrent clients, WriteBatchWait) *)
Record req := { q_es : list entry; q_border : list N; q_hord : list N }.

Inductive step :=
| SB (es : list entry) (border hord : list N)   (* one request: a transaction or a plain Set/Del *)
| SCB (rs : list req)                           (* one commit batch of several requests *)
| SRot                                          (* forced memtable rotation *)
| SFl                                           (* flush of the oldest sealed memtable *)
| SMv (fids : list N) (lvl : N)                 (* L0 -> ingest buffer move *)
| SGc (b f : N) (es : list entry) (border hord : list N)    (* value-log rewrite of file f *)
| SCl.                                          (* the tail of a clean Close: wal.Close flushes the userland buffer
                                                   (the flushes of the sealed memtables it waits for are SFl steps) *)

Inductive mop :=
| MVRot (b : N) | MVApp (b : N) (e : entry)
| MHead (b : N)
| MFlushBuf | MNewSeg
| MBuf (e : entry) | MSpill
| MSync | MAck | MSyncAck
| MSstCreate | MSstFill | MFlushMan | MFlushWalRm
| MMove (fids : list N) (lvl : N)
| MVlogDel (b f : N)
| MVlogRm (b f : N).

Definition mem_b (x : N) (l : list N) : bool := existsb (N.eqb x) l.

(** valueLog.write: per bucket (map order = [border]) the entries of that bucket *)
Definition vlog_phase (es : list entry) (border : list N) : list mop :=
  flat_map (fun b =>
    flat_map (fun e => if e_loc e =? b + 1
                       then (if e_vrot e then [MVRot b] else []) ++ [MVApp b e] else []) es) border.

(** lsm.SetBatch + memTable.setBatch + wal.AppendRecords *)
Definition apply_phase (es : list entry) : list mop :=
  flat_map (fun e => (if e_mrot e then [MFlushBuf; MNewSeg] else []) ++ [MBuf e] ++
                     (if e_spill e then [MSpill] else [])) es.

(** updateHead visits the touched buckets in map order: [hord] first (reported), then the rest *)
Definition head_order (border hord : list N) : list N :=
  hord ++ filter (fun b => negb (mem_b b hord)) border.

(** one request through commitWorker (as repaired: head before WAL, fixes/C10-vlog-head-before-wal.md) *)
Definition request_mops (sync : bool) (es : list entry) (border hord : list N) : list mop :=
  vlog_phase es border ++ map MHead (head_order border hord) ++ apply_phase es ++
  (if sync then [MSync] else []).

(** With SyncWrites the acknowledgement follows wal.Sync with no file effect in between:
    the two are one micro-operation. *)
Definition client_request_mops (sync : bool) (es : list entry) (border hord : list N) : list mop :=
  vlog_phase es border ++ map MHead (head_order border hord) ++ apply_phase es ++
  (if sync then [MSyncAck] else [MAck]).

Definition compile_step (sync : bool) (s : step) : list mop :=
  match s with
  | SB es border hord => client_request_mops sync es border hord
  | SCB rs =>
      (* commitWorker: valueLog.write of all requests, then per request updateHead + writeToLSM,
         then one wal.Sync, then every request is acknowledged *)
      flat_map (fun q => vlog_phase (q_es q) (q_border q)) rs ++
      flat_map (fun q => map MHead (head_order (q_border q) (q_hord q)) ++ apply_phase (q_es q)) rs ++
      map (fun _ => if sync then MSyncAck else MAck) rs
  | SRot => [MFlushBuf; MNewSeg]
  | SFl => [MSstCreate; MSstFill; MFlushMan; MFlushWalRm]
  | SMv fids lvl => [MMove fids lvl]
  | SGc b f es border hord =>
      request_mops sync es border hord ++
      (* nothing written back: rewrite syncs the WAL (repair 9388215: every record superseding an
         entry of the file is durable before the file goes), logs the deletion and unlinks the file *)
      (match es with [] => [MSync; MVlogDel b f; MVlogRm b f] | _ => [] end)
  | SCl => [MFlushBuf]
  end.

Definition compile (sync : bool) (w : list step) : list mop := flat_map (compile_step sync) w.

(** * Execution of one micro-operation *)

Definition vact_of (t : rt) (b : N) : N := match fget N.eqb b (t_vact t) with Some f => f | None => 0 end.

Fixpoint take_ptr (k : N * N) (l : list ((N * N) * ptr)) : option ptr * list ((N * N) * ptr) :=
  match l with
  | [] => (None, [])
  | (k', p) :: l' => if pair_eqb k k' then (Some p, l')
                     else let '(r, l'') := take_ptr k l' in (r, (k', p) :: l'')
  end.

Definition flush_k (k : nat) (d : disk) (t : rt) : mstate * option eff :=
  match k with
  | O => ((d, t), None)
  | _ => ((set_wal d (fappend N.eqb (t_act t) (firstn k (t_buf t)) (d_wal d)), with_buf t (skipn k (t_buf t))),
          Some (WF (t_act t) (N.of_nat k)))
  end.

(** moveToIngest: a table that is not in the manifest is not touched *)
Definition move_edits (v : mver) (fids : list N) (lvl : N) : list medit :=
  flat_map (fun f => if mem_b f (m_ssts v) then [DF f 0; AF f lvl] else []) fids.

Definition exec (st : mstate) (m : mop) : mstate * option eff :=
  let '(d, t) := st in
  match m with
  | MVRot b =>
      let f := vact_of t b + 1 in
      ((set_vlog d (fput pair_eqb (b, f) [] (d_vlog d)), with_vact t (fput N.eqb b f (t_vact t))), Some (VC b f))
  | MVApp b e =>
      let f := vact_of t b in
      let slot := match fget pair_eqb (b, f) (d_vlog d) with Some rs => N.of_nat (length rs) | None => 0 end in
      ((set_vlog d (fappend pair_eqb (b, f) [{| v_key := e_key e; v_ver := e_ver e; v_vid := e_vid e |}] (d_vlog d)),
        with_ptrs t (t_ptrs t ++ [((e_key e, e_vid e), {| p_b := b; p_f := f; p_slot := slot |})])),
       Some (VA b f (e_key e) (e_vid e)))
  | MHead b =>
      let f := vact_of t b in
      if match fget N.eqb b (t_logged t) with Some g => g =? f | None => false end
      then ((d, t), None)
      else ((set_man d (d_man d ++ [VH b f]), with_logged t (fput N.eqb b f (t_logged t))), Some (MF [VH b f]))
  | MFlushBuf | MSync => flush_k (length (t_buf t)) d t
  | MSpill => flush_k (pred (length (t_buf t))) d t
  | MNewSeg =>
      match t_buf t with
      | [] =>
          let s := t_maxfid t + 1 in
          ((set_wal d (fput N.eqb s [] (d_wal d)),
            {| t_act := s; t_buf := []; t_mem := []; t_imm := t_imm t ++ [(t_act t, t_mem t)]; t_fl := t_fl t;
               t_maxfid := s; t_vact := t_vact t; t_logged := t_logged t; t_ptrs := t_ptrs t; t_seq := t_seq t;
               t_acked := t_acked t; t_log := t_log t; t_done := t_done t; t_ackpos := t_ackpos t |}),
           Some (WC s))
      | _ => ((d, t), None)     (* switchSegmentLocked flushes first: never reached with a non-empty buffer *)
      end
  | MBuf e =>
      let '(p, ptrs') := if e_loc e =? 0 then (None, t_ptrs t) else take_ptr (e_key e, e_vid e) (t_ptrs t) in
      let r := {| r_key := e_key e; r_ver := e_ver e; r_seq := t_seq t; r_del := e_del e; r_vid := e_vid e; r_ptr := p |} in
      ((d, {| t_act := t_act t; t_buf := t_buf t ++ [r]; t_mem := t_mem t ++ [r]; t_imm := t_imm t; t_fl := t_fl t;
              t_maxfid := t_maxfid t; t_vact := t_vact t; t_logged := t_logged t; t_ptrs := ptrs'; t_seq := t_seq t + 1;
              t_acked := t_acked t; t_log := t_log t ++ [r]; t_done := t_done t; t_ackpos := t_ackpos t |}),
       None)
  | MSyncAck =>
      let '((d', t'), oe) := flush_k (length (t_buf t)) d t in
      ((d', {| t_act := t_act t'; t_buf := t_buf t'; t_mem := t_mem t'; t_imm := t_imm t'; t_fl := t_fl t';
               t_maxfid := t_maxfid t'; t_vact := t_vact t'; t_logged := t_logged t'; t_ptrs := []; t_seq := t_seq t';
               t_acked := t_acked t' + 1; t_log := t_log t'; t_done := t_done t'; t_ackpos := N.of_nat (length (t_log t')) |}), oe)
  | MAck =>
      ((d, {| t_act := t_act t; t_buf := t_buf t; t_mem := t_mem t; t_imm := t_imm t; t_fl := t_fl t;
              t_maxfid := t_maxfid t; t_vact := t_vact t; t_logged := t_logged t; t_ptrs := []; t_seq := t_seq t;
              t_acked := t_acked t + 1; t_log := t_log t; t_done := t_done t; t_ackpos := N.of_nat (length (t_log t)) |}), None)
  | MSstCreate =>
      match t_imm t, t_fl t with
      | (s, _ :: _) :: _, 0 => ((set_sst d (fput N.eqb s None (d_sst d)), with_imm t (t_imm t) 1), Some (SC s))
      | _, _ => ((d, t), None)
      end
  | MSstFill =>
      match t_imm t, t_fl t with
      | (s, (_ :: _) as rs) :: _, 1 => ((set_sst d (fput N.eqb s (Some rs) (d_sst d)), with_imm t (t_imm t) 2), Some (SF s))
      | _, _ => ((d, t), None)
      end
  | MFlushMan =>
      match t_imm t, t_fl t with
      | (s, (_ :: _) as rs) :: _, 2 =>
          ((set_man d (d_man d ++ [AF s 0; LP s]),
            {| t_act := t_act t; t_buf := t_buf t; t_mem := t_mem t; t_imm := t_imm t; t_fl := 3;
               t_maxfid := t_maxfid t; t_vact := t_vact t; t_logged := t_logged t; t_ptrs := t_ptrs t; t_seq := t_seq t;
               t_acked := t_acked t; t_log := t_log t; t_done := t_done t ++ [(s, rs)]; t_ackpos := t_ackpos t |}),
           Some (MF [AF s 0; LP s]))
      | _, _ => ((d, t), None)
      end
  | MFlushWalRm =>
      match t_imm t, t_fl t with
      | (s, []) :: imm', 0 | (s, _ :: _) :: imm', 3 =>
          ((set_wal d (fdel N.eqb s (d_wal d)), with_imm t imm' 0), Some (WR s))
      | _, _ => ((d, t), None)
      end
  | MMove fids lvl =>
      let es := move_edits (mapply_all (d_man d)) fids lvl in
      ((set_man d (d_man d ++ es), t), Some (MF es))
  | MVlogDel b f => ((set_man d (d_man d ++ [VD b f]), t), Some (MF [VD b f]))
  | MVlogRm b f => ((set_vlog d (fdel pair_eqb (b, f) (d_vlog d)), t), Some (VR b f))
  end.

(** the start state: a freshly initialised directory (active segment [seg], one empty
    value-log file per bucket, empty manifest) *)
Definition range_N (n : nat) : list N := map N.of_nat (seq 0 n).

Definition init (seg : N) (buckets : nat) : mstate :=
  ({| d_wal := [(seg, [])]; d_man := []; d_sst := [];
      d_vlog := map (fun b => ((b, 0), [])) (range_N buckets) |},
   {| t_act := seg; t_buf := []; t_mem := []; t_imm := []; t_fl := 0; t_maxfid := seg;
      t_vact := map (fun b => (b, 0)) (range_N buckets); t_logged := []; t_ptrs := []; t_seq := 0; t_acked := 0; t_log := []; t_done := []; t_ackpos := 0 |}).

Definition exec_all (ms : list mop) (st : mstate) : mstate := fold_left (fun s m => fst (exec s m)) ms st.

(** state after the first [p] micro-operations *)
Definition state_at (p : nat) (ms : list mop) (st : mstate) : mstate := exec_all (firstn p ms) st.

(** the effects a run produces, in order *)
Fixpoint effs_of (ms : list mop) (st : mstate) : list eff :=
  match ms with
  | [] => []
  | m :: ms' => let '(st', oe) := exec st m in
                match oe with Some e => e :: effs_of ms' st' | None => effs_of ms' st' end
  end.

(** run until [n] file effects have completed (what the harness indexes crash points by) *)
Fixpoint run_until (ms : list mop) (n : nat) (st : mstate) : mstate :=
  match n, ms with
  | O, _ => st
  | _, [] => st
  | S n', m :: ms' => let '(st', oe) := exec st m in
                      run_until ms' (match oe with Some _ => n' | None => n end) st'
  end.

(** a process crash: the disk stays, everything else is gone *)
Definition crash (st : mstate) : disk := fst st.

(** * Recovery (db.go:Open) *)

(** File ids (WAL segments, tables) are allocated in increasing order, so a directory
    listing sorted by id is the creation order the model keeps its files in; "newest first"
    is the reversed creation order. *)

Fixpoint insert_desc {A : Type} (x : N * A) (l : list (N * A)) : list (N * A) :=
  match l with
  | [] => [x]
  | y :: l' => if fst y <? fst x then x :: l else y :: insert_desc x l'
  end.
Definition sort_desc {A : Type} (l : list (N * A)) : list (N * A) := fold_right insert_desc [] l.

(** levelManager.build: tables the manifest names and whose file is there (a missing one is
    dropped with a DeleteFile edit); oldest first *)
Definition sst_chunks (d : disk) (v : mver) : list (list rec) :=
  flat_map (fun x => match snd x with
                     | Some rs => if mem_b (fst x) (m_ssts v) then [rs] else []
                     | None => []
                     end) (d_sst d).

(** lsm.recovery: segments at or below the log pointer are removed, the others replayed
    (oldest first); empty ones are skipped *)
Definition wal_chunks (d : disk) (v : mver) : list (list rec) :=
  flat_map (fun sr => if m_logseg v <? fst sr then match snd sr with [] => [] | rs => [rs] end else []) (d_wal d).

Definition max_valid (b : N) (vl : list ((N * N) * bool)) : option N :=
  fold_left (fun acc x => let '((b', f), ok) := x in
                          if (b' =? b) && ok then match acc with Some m => Some (N.max m f) | None => Some f end else acc) vl None.

(** valueLog.reconcileManifest *)
Definition reconcile (vl : list ((N * N) * bool)) (files : list ((N * N) * list vrec)) : list ((N * N) * list vrec) :=
  match vl with
  | [] => files
  | _ => filter (fun x => let '((b, f), _) := x in
                          match fget pair_eqb (b, f) vl with
                          | Some ok => ok
                          | None => match max_valid b vl with Some mx => f <=? mx | None => true end
                          end) files
  end.

Definition max_fid (b : N) (files : list ((N * N) * list vrec)) : N :=
  fold_left (fun acc x => if fst (fst x) =? b then N.max acc (snd (fst x)) else acc) files 0.

(** valueLog.open: a sealed file without a single record is deleted *)
Definition drop_empty_sealed (files : list ((N * N) * list vrec)) : list ((N * N) * list vrec) :=
  filter (fun x => negb ((snd (fst x) <? max_fid (fst (fst x)) files) && match snd x with [] => true | _ => false end)) files.

Record rstore := {
  s_src : list (list rec);               (* lookup order: active memtable, sealed memtables newest first, tables newest first *)
  s_vlog : list ((N * N) * list vrec);
  s_seq : N }.

Definition max_seq (srcs : list (list rec)) : N :=
  fold_left (fun acc s => fold_left (fun a r => N.max a (r_seq r + 1)) s acc) srcs 0.

Definition recover (d : disk) : rstore :=
  let v := mapply_all (d_man d) in
  let mems := rev (wal_chunks d v) in
  let srcs := (match mems with [] => [[]] | _ => mems end) ++ rev (sst_chunks d v) in
  {| s_src := srcs; s_vlog := drop_empty_sealed (reconcile (m_vlogs v) (d_vlog d)); s_seq := max_seq srcs |}.

(** * Reads on a recovered store (LSM.Get, then the value pointer is resolved) *)

Definition rk_ltb (a b : rec) : bool := (r_ver a <? r_ver b) || ((r_ver a =? r_ver b) && (r_seq a <? r_seq b)).

Fixpoint best (k ver : N) (rs : list rec) (acc : option rec) : option rec :=
  match rs with
  | [] => acc
  | r :: rs' =>
      if (r_key r =? k) && (r_ver r <=? ver)
      then best k ver rs' (match acc with Some a => if rk_ltb a r then Some r else Some a | None => Some r end)
      else best k ver rs' acc
  end.

(** LSM.Get as repaired by 2f52ea0: over every source in lookup order keep the hit with the
    greatest version <= the requested one; a later source replaces the current hit only with a
    strictly greater version (the first source wins ties; an exact match cannot be improved). *)
Fixpoint lookup_acc (k ver : N) (srcs : list (list rec)) (acc : option rec) : option rec :=
  match srcs with
  | [] => acc
  | s :: t =>
      lookup_acc k ver t
        (match best k ver s None with
         | Some r => match acc with
                     | Some a => if r_ver a <? r_ver r then Some r else acc
                     | None => Some r
                     end
         | None => acc
         end)
  end.

Definition lookup_src (k ver : N) (srcs : list (list rec)) : option rec := lookup_acc k ver srcs None.

Inductive obsv := OA | OV (vid : N) | OU | OG | OD.

Definition resolve (vl : list ((N * N) * list vrec)) (r : rec) : obsv :=
  if r_del r then OA else
  match r_ptr r with
  | None => OV (r_vid r)
  | Some p => match fget pair_eqb (p_b p, p_f p) vl with
              | Some recs => match nth_error recs (N.to_nat (p_slot p)) with Some vr => OV (v_vid vr) | None => OU end
              | None => OU
              end
  end.

Definition maxver : N := 18446744073709551616.

Definition get (s : rstore) (k : N) : obsv :=
  match lookup_src k maxver (s_src s) with None => OA | Some r => resolve (s_vlog s) r end.

(** * Maintenance on a recovered store *)

Definition add_head (r : rec) (srcs : list (list rec)) : list (list rec) :=
  match srcs with [] => [[r]] | s :: t => (s ++ [r]) :: t end.

(** vlog_gc.go:rewrite (as repaired: only the record the LSM tree points at is live,
    fixes/C11-gc-live-pointer-equality.md).  Liveness of every record of the file is decided
    against the store as it is before any write-back; the live ones are written back through the write path
    (active value-log file of the bucket, newest memtable); the file is deleted only when
    nothing was written back (with a non-empty write-back the function returns
    ErrEmptyKey from its final check and leaves the file in place). *)
Definition gc_live (s : rstore) (b f : N) (i : N) (vr : vrec) : bool :=
  match lookup_src (v_key vr) (v_ver vr) (s_src s) with
  | Some r => negb (r_del r) &&
              match r_ptr r with
              | Some p => (p_b p =? b) && (p_f p =? f) && (p_slot p =? i)
              | None => false
              end
  | None => false
  end.

Fixpoint gc_scan (s : rstore) (b f : N) (i : N) (recs : list vrec) : list vrec :=
  match recs with
  | [] => []
  | vr :: recs' => (if gc_live s b f i vr then [vr] else []) ++ gc_scan s b f (i + 1) recs'
  end.

Definition reput (b : N) (s : rstore) (vr : vrec) : rstore :=
  let a := max_fid b (s_vlog s) in
  let slot := match fget pair_eqb (b, a) (s_vlog s) with Some rs => N.of_nat (length rs) | None => 0 end in
  let r := {| r_key := v_key vr; r_ver := v_ver vr; r_seq := s_seq s; r_del := false; r_vid := v_vid vr;
              r_ptr := Some {| p_b := b; p_f := a; p_slot := slot |} |} in
  {| s_src := add_head r (s_src s); s_vlog := fappend pair_eqb (b, a) [vr] (s_vlog s); s_seq := s_seq s + 1 |}.

Definition gc_file (s : rstore) (b f : N) : rstore :=
  match fget pair_eqb (b, f) (s_vlog s) with
  | None => s
  | Some recs =>
      match gc_scan s b f 0 recs with
      | [] => {| s_src := s_src s; s_vlog := fdel pair_eqb (b, f) (s_vlog s); s_seq := s_seq s |}
      | live => fold_left (reput b) live s
      end
  end.

Inductive maint :=
| MtFlushAll     (* rotate, flush every sealed memtable: same sources in the same order, plus a new empty active memtable *)
| MtMove         (* all L0 tables into the ingest buffer: same order *)
| MtSeal (b : N) (* new client writes of other keys until the value-log file of bucket b rotates *)
| MtGc (b f : N).

Definition maint_step (s : rstore) (m : maint) : rstore :=
  match m with
  | MtFlushAll => {| s_src := [] :: s_src s; s_vlog := s_vlog s; s_seq := s_seq s |}
  | MtMove => s
  | MtSeal b => {| s_src := s_src s; s_vlog := fput pair_eqb (b, max_fid b (s_vlog s) + 1) [] (s_vlog s); s_seq := s_seq s |}
  | MtGc b f => gc_file s b f
  end.

Definition maint_all (ms : list maint) (s : rstore) : rstore := fold_left maint_step ms s.

(** the sealed files of every bucket, as the harness visits them: newest first *)
Definition sealed_files (nb : nat) (s : rstore) : list maint :=
  flat_map (fun b => map (fun x => MtGc b (fst x))
                         (sort_desc (map (fun x => (snd (fst x), tt))
                            (filter (fun x => (fst (fst x) =? b) && (snd (fst x) <? max_fid b (s_vlog s))) (s_vlog s)))))
           (range_N nb).

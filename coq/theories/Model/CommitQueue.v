(** Transition system of NoKV's non-transactional write path and Close
    (db.go Set/Del/Get/setEntry/Close/closeInternal, db_write.go sendToWriteCh /
    enqueueCommitRequest / nextCommitBatch / commitWorker / applyRequests /
    finishCommitRequests / commitQueue.close / acquireItem, db_hot.go
    maybeThrottleWrite, lsm throttle callback) on [Base.Sched].

    Threads: 0 = the commit worker, 1 = the L0 throttle (environment), 2 = the
    goroutine calling Close, >= 3 = clients running a list of Set/Del/Get.
    One [tstep] = the region between two yield points of the instrumented code
    (verifhook.Yield in sendToWriteCh, enqueueCommitRequest, acquireItem, pop,
    close).  Definitions only.

    Coarser than the code: enqueueCommitRequest (inflight++, closed check,
    acquireSpace, closed re-check, ring.Push, queueLen++, releaseItem) is one
    step; commitQueue.close (CAS, ring.Close, close(closeCh)) is one step.  The
    memtable lookup of a read and the memtable insert of one request are atomic
    (assumed of the lock-free index, DESIGN section 9); vlog.write/WAL errors
    are not exhibited.  Whether the hot-key throttle or the size check rejects
    a write is an input of the operation ([hot], [big]). *)
From Coq Require Import List NArith Bool.
From NoKV Require Import Base.Bytes Spec.SerialSpec Spec.Linearizable.
Import ListNotations.
Local Open Scope N_scope.

Inductive cop := CSet (k : bytes) (v : option bytes) (hot big : bool) | CGet (k : bytes).
Inductive werr := WHot | WTooBig | WBlocked.
Inductive cres := ROk | RFail (e : werr) | RVal (v : option bytes).

Inductive cpc :=
| PIdle
| PStart (o : cop) (call : N)            (* called; maybeThrottleWrite / lookup next *)
| PSend (o : cop) (call : N)             (* in sendToWriteCh *)
| PWait (o : cop) (call : N)             (* enqueued; req.Wait() *)
| PLin (o : cop) (call : N) (r : cres).  (* result decided; return next *)

Record client := { c_prog : list cop; c_pc : cpc }.
Inductive stage := Queued | Batched | Applied.
Record req := { r_tid : N; r_k : bytes; r_v : option bytes; r_call : N }.

(** ghost: operations that passed their linearization point, newest first *)
Record lrec := { lr_tid : N; lr_call : N; lr_lin : N; lr_ret : option N; lr_kind : lkind }.

Inductive closepc :=
| ClNot | ClClosed      (* commitQueue.close done *)
| ClWaited              (* commitWG.Wait returned *)
| ClDone.               (* lsm.Close (throttle released) ... isClosed = 1; Close returns *)

Record gstate := {
  g_clock : N; g_mem : kvs; g_pipe : list (req * stage); g_clients : N -> client;
  g_blocked : bool; g_close : closepc; g_wdone : bool; g_lin : list lrec;
  g_cap : nat; g_bmax : nat }.

Definition is_stage (s : stage) (p : req * stage) : bool :=
  match snd p, s with
  | Queued, Queued | Batched, Batched | Applied, Applied => true
  | _, _ => false
  end.

Definition closed_b (c : closepc) : bool := match c with ClNot => false | _ => true end.

Definition set_client (f : N -> client) (t : N) (c : client) : N -> client :=
  fun j => if j =? t then c else f j.

Definition tick (g : gstate) (mem : kvs) (pipe : list (req * stage)) (cl : N -> client) (lin : list lrec) : gstate :=
  {| g_clock := g_clock g + 1; g_mem := mem; g_pipe := pipe; g_clients := cl; g_blocked := g_blocked g;
     g_close := g_close g; g_wdone := g_wdone g; g_lin := lin; g_cap := g_cap g; g_bmax := g_bmax g |}.

Definition set_pc (g : gstate) (t : N) (prog : list cop) (pc : cpc) : N -> client :=
  set_client (g_clients g) t {| c_prog := prog; c_pc := pc |}.

Definition set_ret (t now : N) (l : list lrec) : list lrec :=
  map (fun e => if (lr_tid e =? t) && match lr_ret e with None => true | Some _ => false end
                then {| lr_tid := lr_tid e; lr_call := lr_call e; lr_lin := lr_lin e; lr_ret := Some now;
                        lr_kind := lr_kind e |}
                else e) l.

Definition lin_entry (t call now : N) (k : lkind) : lrec :=
  {| lr_tid := t; lr_call := call; lr_lin := now; lr_ret := None; lr_kind := k |}.

(** a failing write: decided now, no effect *)
Definition fail_write (g : gstate) (t : N) (prog : list cop) (o : cop) (call : N) (k : bytes) (v : option bytes)
                      (e : werr) : gstate :=
  tick g (g_mem g) (g_pipe g) (set_pc g t prog (PLin o call (RFail e)))
       (lin_entry t call (g_clock g) (LWrite k v false) :: g_lin g).

Definition client_step (g : gstate) (t : N) : option gstate :=
  let c := g_clients g t in
  match c_pc c with
  | PIdle =>
      match c_prog c with
      | [] => None
      | o :: rest => Some (tick g (g_mem g) (g_pipe g) (set_pc g t rest (PStart o (g_clock g))) (g_lin g))
      end
  | PStart (CGet k) call =>
      let v := sm_read (g_mem g) k in
      Some (tick g (g_mem g) (g_pipe g) (set_pc g t (c_prog c) (PLin (CGet k) call (RVal v)))
                 (lin_entry t call (g_clock g) (LRead k v) :: g_lin g))
  | PStart (CSet k v hot big) call =>
      if hot then Some (fail_write g t (c_prog c) (CSet k v hot big) call k v WHot)
      else Some (tick g (g_mem g) (g_pipe g) (set_pc g t (c_prog c) (PSend (CSet k v hot big) call)) (g_lin g))
  | PSend (CSet k v hot big) call =>
      let o := CSet k v hot big in
      if g_blocked g then
        if closed_b (g_close g) then Some (fail_write g t (c_prog c) o call k v WBlocked)
        else None                                             (* sleeps and re-checks *)
      else if big then Some (fail_write g t (c_prog c) o call k v WTooBig)
      else if closed_b (g_close g) then Some (fail_write g t (c_prog c) o call k v WBlocked)
      else if Nat.leb (g_cap g) (length (filter (is_stage Queued) (g_pipe g))) then None   (* acquireSpace *)
      else Some (tick g (g_mem g)
                      (g_pipe g ++ [({| r_tid := t; r_k := k; r_v := v; r_call := call |}, Queued)])
                      (set_pc g t (c_prog c) (PWait o call)) (g_lin g))
  | PSend (CGet _) _ => None
  | PWait _ _ => None
  | PLin o call r =>
      Some (tick g (g_mem g) (g_pipe g) (set_pc g t (c_prog c) PIdle) (set_ret t (g_clock g) (g_lin g)))
  end.

(** mark the first [n] queued requests as batched *)
Fixpoint pop_batch (n : nat) (p : list (req * stage)) : list (req * stage) :=
  match n, p with
  | O, _ => p
  | _, [] => []
  | S n', (r, Queued) :: p' => (r, Batched) :: pop_batch n' p'
  | _, x :: p' => x :: pop_batch n p'
  end.

(** the first request in stage [s]: (before, request, after) *)
Fixpoint split_stage (s : stage) (p : list (req * stage)) : option (list (req * stage) * req * list (req * stage)) :=
  match p with
  | [] => None
  | x :: p' =>
      if is_stage s x then Some ([], fst x, p')
      else match split_stage s p' with
           | Some (a, r, b) => Some (x :: a, r, b)
           | None => None
           end
  end.

Definition worker_step (g : gstate) : option gstate :=
  if g_wdone g then None else
  match split_stage Batched (g_pipe g) with
  | Some (a, r, b) =>                                     (* applyRequests: one request *)
      Some (tick g ((r_k r, r_v r) :: g_mem g) (a ++ (r, Applied) :: b) (g_clients g)
                 (lin_entry (r_tid r) (r_call r) (g_clock g) (LWrite (r_k r) (r_v r) true) :: g_lin g))
  | None =>
      match split_stage Applied (g_pipe g) with
      | Some (a, r, b) =>                                 (* finishCommitRequests: wg.Done of one request *)
          let c := g_clients g (r_tid r) in
          let cl := match c_pc c with
                    | PWait o call => set_pc g (r_tid r) (c_prog c) (PLin o call ROk)
                    | _ => g_clients g
                    end in
          Some (tick g (g_mem g) (a ++ b) cl (g_lin g))
      | None =>
          if existsb (is_stage Queued) (g_pipe g) then     (* nextCommitBatch *)
            Some (tick g (g_mem g) (pop_batch (g_bmax g) (g_pipe g)) (g_clients g) (g_lin g))
          else if closed_b (g_close g) then                (* acquireItem returns false: worker exits *)
            Some {| g_clock := g_clock g + 1; g_mem := g_mem g; g_pipe := g_pipe g; g_clients := g_clients g;
                    g_blocked := g_blocked g; g_close := g_close g; g_wdone := true; g_lin := g_lin g;
                    g_cap := g_cap g; g_bmax := g_bmax g |}
          else None
      end
  end.

Definition set_flags (g : gstate) (blocked : bool) (cl : closepc) : gstate :=
  {| g_clock := g_clock g + 1; g_mem := g_mem g; g_pipe := g_pipe g; g_clients := g_clients g;
     g_blocked := blocked; g_close := cl; g_wdone := g_wdone g; g_lin := g_lin g;
     g_cap := g_cap g; g_bmax := g_bmax g |}.

Definition env_step (g : gstate) : option gstate :=
  match g_close g with
  | ClDone => None                                         (* compactors stopped *)
  | _ => Some (set_flags g (negb (g_blocked g)) (g_close g))
  end.

Definition closer_step (g : gstate) : option gstate :=
  match g_close g with
  | ClNot => Some (set_flags g (g_blocked g) ClClosed)
  | ClClosed => if g_wdone g then Some (set_flags g (g_blocked g) ClWaited) else None
  | ClWaited => Some (set_flags g false ClDone)
  | ClDone => None
  end.

Definition tstep (g : gstate) (t : N) : option gstate :=
  if t =? 0 then worker_step g
  else if t =? 1 then env_step g
  else if t =? 2 then closer_step g
  else client_step g t.

Definition g_init (cap bmax : nat) (progs : N -> list cop) : gstate :=
  {| g_clock := 1; g_mem := []; g_pipe := []; g_clients := fun t => {| c_prog := progs t; c_pc := PIdle |};
     g_blocked := false; g_close := ClNot; g_wdone := false; g_lin := []; g_cap := cap; g_bmax := bmax |}.

(** the history: every linearized operation with its call and return stamps *)
Definition to_lop (e : lrec) : lop :=
  {| l_tid := lr_tid e; l_call := lr_call e; l_ret := match lr_ret e with Some r => r | None => 0 end;
     l_kind := lr_kind e |}.
Definition history (g : gstate) : list lop := map to_lop (g_lin g).

(** no client is inside a call *)
Definition quiescent (g : gstate) : Prop := forall t, c_pc (g_clients g t) = PIdle.

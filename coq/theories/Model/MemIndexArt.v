(** Structural model of utils/art.go (the optional ART memtable index):
    [Leaf key value | Inner prefix children], children an ascending list of
    (byte, node) — the four node widths (4/16/48/256) are abstracted to this
    list.  keyByte zero padding, tryInsert (insertAtLeaf/splitLeaf,
    insertAtPrefixMismatch/splitPrefix, insertAtMissingChild), lowerBoundNode,
    upperBoundNode, minLeafNode/maxLeafNode, iterator (descendToMin/Max,
    advance/retreat = in-order traversal, Seek = lowerBound/upperBound +
    buildStackToLeaf).  Sequential semantics; CAS retry loops and arena
    exhaustion are not modelled.  Definitions only. *)
From Coq Require Import List PeanoNat NArith Bool.
From Coq Require Import Init.Byte.
From NoKV Require Import Base.Bytes Base.Num Model.Keys Model.Sst.
Import ListNotations.
Local Open Scope N_scope.

Inductive node :=
| Leaf (e : entry)
| Inner (prefix : bytes) (children : list (byte * node)).

(** keyByte: bytes past the end read as 0 *)
Definition key_byte (k : bytes) (d : nat) : byte := nth d k x00.

(** matchPrefix: (number of matching bytes, comparison of the key against the prefix at the mismatch) *)
Fixpoint match_prefix (p : bytes) (key : bytes) (d : nat) (i : nat) : nat * comparison :=
  match p with
  | [] => (i, Eq)
  | pb :: p' =>
      match N.compare (b2n (key_byte key (d + i))) (b2n pb) with
      | Eq => match_prefix p' key d (S i)
      | c => (i, c)
      end
  end.

(** longestCommonPrefix(a, b, depth) *)
Fixpoint lcp_loop (a b : bytes) (d : nat) (n : nat) (i : nat) : nat :=
  match n with
  | O => i
  | S n' => if byte_eqb (key_byte a (d + i)) (key_byte b (d + i)) then lcp_loop a b d n' (S i) else i
  end.
Definition longest_common_prefix (a b : bytes) (d : nat) : nat :=
  let m := Nat.min (length a) (length b) in
  if (m <? d)%nat then 0%nat else lcp_loop a b d (m - d)%nat 0%nat.

(** newTwoChildNode *)
Definition two_child (p : bytes) (ak : byte) (a : node) (bk : byte) (b : node) : node :=
  if b2n ak <=? b2n bk then Inner p [(ak, a); (bk, b)] else Inner p [(bk, b); (ak, a)].

(** splitLeaf *)
Definition split_leaf (ex : entry) (inc : entry) (d : nat) : node :=
  let common := longest_common_prefix (e_key ex) (e_key inc) d in
  two_child (firstn common (skipn d (e_key inc)))
            (key_byte (e_key ex) (d + common)) (Leaf ex)
            (key_byte (e_key inc) (d + common)) (Leaf inc).

(** payloadInsert on the sorted key array: before the first key >= k *)
Fixpoint insert_child (k : byte) (c : node) (cs : list (byte * node)) : list (byte * node) :=
  match cs with
  | [] => [(k, c)]
  | (x, ch) :: cs' => if b2n k <=? b2n x then (k, c) :: cs else (x, ch) :: insert_child k c cs'
  end.

(** tryInsert (with replaceChild rebuilding the path) *)
Fixpoint ins (n : node) (e : entry) (depth : nat) : node :=
  match n with
  | Leaf ex => if bytes_eqb (e_key ex) (e_key e) then Leaf e else split_leaf ex e depth
  | Inner p cs =>
      let '(m, c) := match_prefix p (e_key e) depth 0%nat in
      match c with
      | Eq =>
          let d := (depth + length p)%nat in
          let b := key_byte (e_key e) d in
          match (fix go (cs : list (byte * node)) : option (list (byte * node)) :=
                   match cs with
                   | [] => None
                   | (x, ch) :: cs' =>
                       if byte_eqb x b then Some ((x, ins ch e (S d)) :: cs')
                       else if b2n b <? b2n x then None
                       else match go cs' with Some r => Some ((x, ch) :: r) | None => None end
                   end) cs with
          | Some cs' => Inner p cs'
          | None => Inner p (insert_child b (Leaf e) cs)
          end
      | _ =>
          (* splitPrefix *)
          two_child (firstn m p) (nth m p x00) (Inner (skipn (S m) p) cs)
                    (key_byte (e_key e) (depth + m)) (Leaf e)
      end
  end.

Definition art := option node.
Definition art_add (e : entry) (t : art) : art :=
  match t with None => Some (Leaf e) | Some n => Some (ins n e 0%nat) end.
Definition art_of (ops : list entry) : art := fold_left (fun t e => art_add e t) ops None.

Fixpoint min_leaf (n : node) : option entry :=
  match n with
  | Leaf e => Some e
  | Inner _ cs => match cs with (_, c) :: _ => min_leaf c | [] => None end
  end.

Fixpoint max_leaf (n : node) : option entry :=
  match n with
  | Leaf e => Some e
  | Inner _ cs =>
      (fix last (cs : list (byte * node)) : option entry :=
         match cs with
         | [] => None
         | (_, c) :: cs' => match cs' with [] => max_leaf c | _ => last cs' end
         end) cs
  end.

(** lowerBoundNode *)
Fixpoint lower_bound (n : node) (key : bytes) (depth : nat) : option entry :=
  match n with
  | Leaf e => if is_ge (cmpk (e_key e) key) then Some e else None
  | Inner p cs =>
      let '(m, c) := match_prefix p key depth 0%nat in
      match c with
      | Lt => min_leaf n
      | Gt => None
      | Eq =>
          let d := (depth + m)%nat in
          let b := key_byte key d in
          (fix go (cs : list (byte * node)) : option entry :=
             match cs with
             | [] => None
             | (x, ch) :: cs' =>
                 if byte_eqb x b then
                   match lower_bound ch key (S d) with
                   | Some r => Some r
                   | None => match cs' with (_, g) :: _ => min_leaf g | [] => None end
                   end
                 else if b2n b <? b2n x then min_leaf ch
                 else go cs'
             end) cs
      end
  end.

Fixpoint has_eq (cs : list (byte * node)) (b : byte) : bool :=
  match cs with
  | [] => false
  | (x, _) :: cs' => byte_eqb x b || has_eq cs' b
  end.

(** upperBoundNode; findChildLE scans the children from the last one: the
    exact child is the last one with byte = b (its "lt" is the child before
    it), otherwise "lt" is the last child with byte < b.  [go] computes the
    same answer walking the list forwards. *)
Fixpoint upper_bound (n : node) (key : bytes) (depth : nat) : option entry :=
  match n with
  | Leaf e => if is_le (cmpk (e_key e) key) then Some e else None
  | Inner p cs =>
      let '(m, c) := match_prefix p key depth 0%nat in
      match c with
      | Lt => None
      | Gt => max_leaf n
      | Eq =>
          let d := (depth + m)%nat in
          let b := key_byte key d in
          (fix go (cs : list (byte * node)) (lt : option node) : option entry :=
             let from_lt := match lt with Some g => max_leaf g | None => None end in
             match cs with
             | [] => from_lt
             | (x, ch) :: cs' =>
                 if byte_eqb x b then
                   if has_eq cs' b then go cs' (Some ch)
                   else match upper_bound ch key (S d) with
                        | Some r => Some r
                        | None => from_lt
                        end
                 else if b2n x <? b2n b then go cs' (Some ch)
                 else from_lt
             end) cs None
      end
  end.

(** in-order traversal *)
Fixpoint leaves (n : node) : list entry :=
  match n with
  | Leaf e => [e]
  | Inner _ cs =>
      (fix go (cs : list (byte * node)) : list entry :=
         match cs with
         | [] => []
         | (_, c) :: cs' => leaves c ++ go cs'
         end) cs
  end.

Definition leaves_of (cs : list (byte * node)) : list entry := flat_map (fun xc => leaves (snd xc)) cs.

(** buildStackToLeaf(leaf) for an ascending iterator, followed by Next until
    invalid: navigate from the root by the leaf's key (childForKey: the first
    child with that byte), stand on the leaf reached, then continue in order.
    [None] = the navigation fails (curr = nil, the iterator is invalid). *)
Fixpoint nav_fwd (n : node) (key : bytes) (depth : nat) : option (list entry) :=
  match n with
  | Leaf e => Some [e]
  | Inner p cs =>
      let '(m, c) := match_prefix p key depth 0%nat in
      match c with
      | Eq =>
          let d := (depth + length p)%nat in
          let b := key_byte key d in
          (fix go (cs : list (byte * node)) : option (list entry) :=
             match cs with
             | [] => None
             | (x, ch) :: cs' =>
                 if byte_eqb x b then
                   match nav_fwd ch key (S d) with
                   | Some l => Some (l ++ leaves_of cs')
                   | None => None
                   end
                 else go cs'
             end) cs
      | _ => None
      end
  end.

(** the same for a descending iterator (childForKeyDesc: also the first child
    with that byte), continuing with the earlier leaves in reverse order *)
Fixpoint nav_rev (n : node) (key : bytes) (depth : nat) : option (list entry) :=
  match n with
  | Leaf e => Some [e]
  | Inner p cs =>
      let '(m, c) := match_prefix p key depth 0%nat in
      match c with
      | Eq =>
          let d := (depth + length p)%nat in
          let b := key_byte key d in
          (fix go (cs : list (byte * node)) (before : list entry) : option (list entry) :=
             match cs with
             | [] => None
             | (x, ch) :: cs' =>
                 if byte_eqb x b then
                   match nav_rev ch key (S d) with
                   | Some l => Some (l ++ before)
                   | None => None
                   end
                 else go cs' (rev (leaves ch) ++ before)
             end) cs []
      | _ => None
      end
  end.

(** ART.Search: lowerBound, then kv.SameKey *)
Definition art_search (t : art) (q : bytes) : option entry :=
  match t with
  | None => None
  | Some n =>
      match lower_bound n q 0%nat with
      | Some e => if same_key q (e_key e) then Some e else None
      | None => None
      end
  end.

(** iterator: Seek(q) then Next until invalid *)
Definition art_seek (asc : bool) (t : art) (q : bytes) : list entry :=
  match t with
  | None => []
  | Some n =>
      if asc then
        match lower_bound n q 0%nat with
        | Some e => match nav_fwd n (e_key e) 0%nat with Some l => l | None => [] end
        | None => []
        end
      else
        match upper_bound n q 0%nat with
        | Some e => match nav_rev n (e_key e) 0%nat with Some l => l | None => [] end
        | None => []
        end
  end.

(** iterator: Rewind then Next until invalid (descendToMin / advance; descendToMax / retreat) *)
Definition art_iter (asc : bool) (t : art) : list entry :=
  match t with
  | None => []
  | Some n => if asc then leaves n else rev (leaves n)
  end.

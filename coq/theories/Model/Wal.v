(** wal/manager.go at byte level: AppendRecords / ensureCapacity / rotate,
    Replay / replayFile, VerifyDir / verifySegment, Open / openLatestSegment.

    A directory is the list of its [%05d.wal] files in ascending id order
    (ids below 100000, so that [sort.Strings] is the numeric order).  The
    file contents are the bytes after [Sync]/[Close] (userland buffering is
    not part of this model; C09 models it). *)
From Coq Require Import List NArith Bool.
From Coq Require Import Init.Byte.
From NoKV Require Import Base.Bytes Base.Num Model.WalCodec.
Import ListNotations.
Local Open Scope N_scope.

Definition seg := (N * bytes)%type.

Record wal := {
  w_closed : list seg;      (* older segments, ascending id *)
  w_id : N;                 (* activeID *)
  w_act : bytes;            (* contents of the active segment; activeSize = blen *)
  w_segsize : N             (* effective segment size *)
}.

Definition min_segment_size : N := 65536.
Definition default_segment_size : N := 67108864.

(** Open: segSize 0 -> default; below the minimum -> minimum. *)
Definition eff_segsize (cfg : N) : N :=
  let s := if cfg =? 0 then default_segment_size else cfg in
  if s <? min_segment_size then min_segment_size else s.

Definition files (w : wal) : list seg := w_closed w ++ [(w_id w, w_act w)].

(** openLatestSegment: no file -> segment 1 (created empty); otherwise resume
    the highest id at its end. *)
Fixpoint split_last (fs : list seg) : option (list seg * seg) :=
  match fs with
  | [] => None
  | [x] => Some ([], x)
  | x :: fs' => match split_last fs' with
                | Some (i, l) => Some (x :: i, l)
                | None => None
                end
  end.

Definition open_wal (cfg : N) (fs : list seg) : wal :=
  match split_last fs with
  | None => {| w_closed := []; w_id := 1; w_act := []; w_segsize := eff_segsize cfg |}
  | Some (i, (id, bs)) => {| w_closed := i; w_id := id; w_act := bs; w_segsize := eff_segsize cfg |}
  end.

(** rotateLocked *)
Definition rotate (w : wal) : wal :=
  {| w_closed := files w; w_id := w_id w + 1; w_act := []; w_segsize := w_segsize w |}.

(** ensureCapacity *)
Definition ensure_capacity (w : wal) (need : N) : wal :=
  if blen (w_act w) + need <=? w_segsize w then w else rotate w.

(** one iteration of AppendRecords: the new state and EntryInfo (segment, offset) *)
Definition append1 (w : wal) (ty : byte) (p : bytes) : wal * (N * N) :=
  let w' := ensure_capacity w (blen p + 9) in
  ({| w_closed := w_closed w'; w_id := w_id w'; w_act := w_act w' ++ enc_record ty p;
      w_segsize := w_segsize w' |},
   (w_id w', blen (w_act w'))).

Fixpoint append_all (w : wal) (rs : list (byte * bytes)) : wal * list (N * N) :=
  match rs with
  | [] => (w, [])
  | (ty, p) :: rs' =>
      let (w1, i) := append1 w ty p in
      let (w2, is) := append_all w1 rs' in
      (w2, i :: is)
  end.

(** The EntryInfo positions depend on the payload lengths only: [place] is
    ensureCapacity + the offset bookkeeping of AppendRecords on lengths
    (Proofs/WalProofs.v: place_spec).  Used by the correspondence for records too
    large to carry as literals. *)
Fixpoint place (segsize id size : N) (lens : list N) : list (N * N) * (N * N) :=
  match lens with
  | [] => ([], (id, size))
  | l :: lens' =>
      let need := l + 9 in
      let '(id', size') := if size + need <=? segsize then (id, size) else (id + 1, 0) in
      let '(is, fin) := place segsize id' (size' + need) lens' in
      ((id', size') :: is, fin)
  end.

(** Replay *)
Record rinfo := { i_seg : N; i_off : N; i_ty : byte; i_payload : bytes }.
Inductive rerr := RErrCrc | RErrEmpty | RErrFuel.

Fixpoint replay_file (fuel : nat) (id off : N) (bs : bytes) : list rinfo * option rerr :=
  match fuel with
  | O => ([], Some RErrFuel)
  | S f =>
      match decode_record bs with
      | DEof | DPartial => ([], None)
      | DEmpty => ([], Some RErrEmpty)
      | DBadCrc => ([], Some RErrCrc)
      | DOk ty p len rest =>
          let (l, e) := replay_file f id (off + len + 8) rest in
          ({| i_seg := id; i_off := off; i_ty := ty; i_payload := p |} :: l, e)
      end
  end.

Definition replay_seg (s : seg) : list rinfo * option rerr :=
  replay_file (S (length (snd s))) (fst s) 0 (snd s).

Fixpoint replay (fs : list seg) : list rinfo * option rerr :=
  match fs with
  | [] => ([], None)
  | s :: fs' =>
      match replay_seg s with
      | (l, Some e) => (l, Some e)
      | (l, None) => let (l', e) := replay fs' in (l ++ l', e)
      end
  end.

(** verifySegment: offset of the first byte that is not part of a complete
    record, and what the scan ended with. *)
Inductive vend := VClean | VTorn | VErr (e : rerr).

Fixpoint verify_scan (fuel : nat) (off : N) (bs : bytes) : N * vend :=
  match fuel with
  | O => (off, VErr RErrFuel)
  | S f =>
      match decode_record bs with
      | DEof => (off, VClean)
      | DPartial => (off, VTorn)
      | DEmpty => (off, VErr RErrEmpty)
      | DBadCrc => (off, VErr RErrCrc)
      | DOk _ _ len rest => verify_scan f (off + len + 8) rest
      end
  end.

Definition verify_segment (bs : bytes) : bytes * option rerr :=
  match verify_scan (S (length bs)) 0 bs with
  | (_, VClean) => (bs, None)
  | (off, VTorn) => (take off bs, None)
  | (_, VErr e) => (bs, Some e)
  end.

(** VerifyDir: segments in order; stops at the first error. *)
Fixpoint verify_dir (fs : list seg) : list seg * option rerr :=
  match fs with
  | [] => ([], None)
  | (id, bs) :: fs' =>
      match verify_segment bs with
      | (bs', Some e) => ((id, bs') :: fs', Some e)
      | (bs', None) => let (fs'', e) := verify_dir fs' in ((id, bs') :: fs'', e)
      end
  end.

(** a torn final segment: the last file keeps its first [c] bytes *)
Definition cut_last (c : N) (fs : list seg) : list seg :=
  match split_last fs with
  | None => []
  | Some (i, (id, bs)) => i ++ [(id, take c bs)]
  end.

(** Model of [raftstore/kv/apply.go]: [Apply] dispatch, [handleGet],
    [handleScan], [collectVisibleValue], [advanceToNextUserKey], over
    [Model/Percolator.v].  Definitions only.

    The DB iterator used by [handleScan] walks every column family in internal
    key order (default, lock, write); [handleScan] skips every entry whose CF
    is not the write CF, and the write CF is the last one, so the scan is
    modelled over the write CF's groups ([vm_groups]: user keys ascending,
    each with its live versions newest first).  [advanceToNextUserKey] moves
    to the next group; [collectVisibleValue] consumes the current group. *)
From Coq Require Import List NArith Bool.
From NoKV Require Import Base.Bytes Model.Percolator.
Import ListNotations.
Local Open Scope N_scope.

Inductive request :=
| RPrewrite (muts : list mutation) (primary : bytes) (start ttl min_commit : N)
| RCommit (keys : list bytes) (start commit_version : N)
| RRollback (keys : list bytes) (start : N)
| RResolve (keys : list bytes) (start commit_version : N)
| RCheck (primary : bytes) (lock_ts current_ts caller_start : N) (rollback_if_not_exist : bool)
| RGet (key : bytes) (version : N)
| RScan (start_key : bytes) (include_start : bool) (limit : N) (version : N).

Inductive get_result := GValue (v : bytes) | GNotFound | GLocked (key : bytes) (l : lockrec).

Inductive response :=
| PPrewrite (errs : list key_error)
| PCommit (e : option key_error)
| PRollback (e : option key_error)
| PResolve (n : N) (e : option key_error)
| PCheck (r : check_result)
| PGet (r : get_result)
| PScan (kvs : list (bytes * bytes)) (e : option key_error).

(** [handleGet] *)
Definition handle_get (c : cfg) (s : store) (k : bytes) (version : N) : get_result :=
  match (match get_lock s k with
         | Some l => if l_ts l <=? version then Some l else None
         | None => None
         end) with
  | Some l => GLocked k l
  | None =>
      match get_value c s k version with
      | Some v => GValue v
      | None => GNotFound
      end
  end.

(** [collectVisibleValue] on the live versions of one user key (newest
    first).  Result: [Some v] = found.  Before the repair of F17 a rollback
    record ended the search like a delete, a lock-only record was treated like
    a put, and the default-CF entry was not checked for a tombstone. *)
Fixpoint collect_visible (c : cfg) (s : store) (k : bytes) (vs : list (N * writerec)) (read_ts : N)
  : option bytes :=
  match vs with
  | [] => None
  | (ver, w) :: vs' =>
      if read_ts <? ver then collect_visible c s k vs' read_ts
      else
        let as_put :=
          match get_versioned (s_default s) k (w_start w) with
          | None => collect_visible c s k vs' read_ts       (* ErrKeyNotFound: iter.Next(); continue *)
          | Some (_, None) => if fix_read c then None else Some []
          | Some (_, Some v) => if fix_read c && is_nil v then None else Some v
          end in
        match w_kind w with
        | OpDelete => None
        | OpRollback => if fix_read c then collect_visible c s k vs' read_ts else None
        | OpLock => if fix_read c then collect_visible c s k vs' read_ts else as_put
        | OpPut => as_put
        end
  end.

Definition scan_limit (limit : N) : N := if limit =? 0 then 1 else limit.
Definition scan_read_ts (version : N) : N := if version =? 0 then max_u64 else version.

(** the main loop of [handleScan] over the groups; [started] as in the code *)
Fixpoint scan_loop (c : cfg) (s : store) (gs : list (bytes * list (N * writerec)))
         (start_key : bytes) (include_start : bool) (started : bool) (read_ts : N)
         (room : nat) : list (bytes * bytes) * option key_error :=
  match room with
  | O => ([], None)
  | S room' =>
      match gs with
      | [] => ([], None)
      | (k, vs) :: gs' =>
          match vs with
          | [] => scan_loop c s gs' start_key include_start started read_ts room   (* nothing visible to the iterator *)
          | _ :: _ =>
              if negb started &&
                 match bytes_cmp k start_key with Lt => true | Eq => negb include_start | Gt => false end
              then scan_loop c s gs' start_key include_start false read_ts room
              else
                match (match get_lock s k with
                       | Some l => if l_ts l <=? read_ts then Some l else None
                       | None => None
                       end) with
                | Some l => ([], Some (KELocked k l))
                | None =>
                    match collect_visible c s k vs read_ts with
                    | Some v =>
                        let '(kvs, e) := scan_loop c s gs' start_key include_start true read_ts room' in
                        ((k, v) :: kvs, e)
                    | None => scan_loop c s gs' start_key include_start true read_ts room
                    end
                end
          end
      end
  end.

Definition handle_scan (c : cfg) (s : store) (start_key : bytes) (include_start : bool) (limit version : N)
  : list (bytes * bytes) * option key_error :=
  scan_loop c s (vm_groups (s_write s)) start_key include_start (is_nil start_key)
            (scan_read_ts version) (N.to_nat (scan_limit limit)).

(** one request of [Apply] *)
Definition apply_req (c : cfg) (s : store) (r : request) : store * response :=
  match r with
  | RPrewrite ms primary start ttl mc =>
      let '(s1, es) := prewrite s primary start ttl mc ms in (s1, PPrewrite es)
  | RCommit keys start cv =>
      let '(s1, e) := commit c s keys start cv in (s1, PCommit e)
  | RRollback keys start =>
      let '(s1, e) := batch_rollback c s keys start in (s1, PRollback e)
  | RResolve keys start cv =>
      let '(s1, n, e) := resolve_lock c s keys start cv 0 in (s1, PResolve n e)
  | RCheck primary lts cur caller rb =>
      let '(s1, cr) := check_txn_status c s primary lts cur caller rb in (s1, PCheck cr)
  | RGet k v => (s, PGet (handle_get c s k v))
  | RScan sk inc lim v => let '(kvs, e) := handle_scan c s sk inc lim v in (s, PScan kvs e)
  end.

Fixpoint apply_all_from (c : cfg) (s : store) (h : list request) : store :=
  match h with
  | [] => s
  | r :: h' => apply_all_from c (fst (apply_req c s r)) h'
  end.
Definition apply_all (c : cfg) (h : list request) : store := apply_all_from c empty_store h.

Fixpoint responses_from (c : cfg) (s : store) (h : list request) : list response :=
  match h with
  | [] => []
  | r :: h' => let '(s1, p) := apply_req c s r in p :: responses_from c s1 h'
  end.
Definition responses (c : cfg) (h : list request) : list response := responses_from c empty_store h.

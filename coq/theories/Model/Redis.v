(** Model of the Redis gateway's command layer
    (cmd/nokv-redis/server.go: execute / execSet / exec*, reply writers;
     cmd/nokv-redis/backend_embedded.go: Get / Set / Del / MGet / MSet /
     Exists / IncrBy / strconvParseIntSafe).  No proofs here.

    One client, commands executed one after the other.  The embedded backend
    runs every command inside one NoKV transaction; for a single client a
    transaction is modelled as working on a copy of the store (reads see the
    transaction's own writes, as [Txn.Get] serves pending writes first) that
    replaces the store on commit and is dropped when the closure returns an
    error.  The store keeps what the LSM keeps: tombstones and entries whose
    expiry has passed stay until overwritten.

    [now] (Unix seconds) is a parameter of every command: the code calls
    time.Now() in execSet (EX/PX) and in kv.IsDeletedOrExpired.

    [fixes] selects the code before ([original]) or after ([current]) the
    repairs made for C29 (see /verif/fixes/C29-*.md). *)
From Coq Require Import List NArith ZArith Bool.
From Coq Require Import Init.Byte.
From Coq Require Import String.
Local Close Scope string_scope.
From NoKV Require Import Base.Bytes Model.Resp.
Import ListNotations.
Local Open Scope N_scope.

Record fixes := {
  fix_ping : bool;        (* PING with an empty argument / too many arguments *)
  fix_decrby : bool;      (* DECRBY k -2^63 *)
  fix_expire : bool;      (* EX / PX overflow of time.Duration *)
  fix_empty_value : bool  (* GET / MGET of a key holding "" *) }.
Definition current : fixes :=
  {| fix_ping := true; fix_decrby := true; fix_expire := true; fix_empty_value := true |}.
Definition original : fixes :=
  {| fix_ping := false; fix_decrby := false; fix_expire := false; fix_empty_value := false |}.

(** * Replies *)
Inductive rerr :=
| RArity (name : bytes)     (* wrong number of arguments for 'NAME' *)
| RSyntax | RNotInt | ROverflow | RInvalidExpire
| RUnknown (lname : bytes)  (* unknown command 'name' *)
| REmptyKey.                (* utils.ErrEmptyKey surfaced by handleConn *)

Inductive reply :=
| RSimple (s : bytes)                 (* +s *)
| RErr (e : rerr)                     (* -ERR ... *)
| RInt (z : Z)                        (* :z *)
| RBulk (b : bytes)                   (* $len b *)
| RNil                                (* $-1 *)
| RArr (l : list (option bytes)).     (* *n followed by bulks / nils *)

(** * The store *)
Record entry := { e_val : bytes; e_exp : N (* 0 = no expiry *); e_del : bool }.
Definition store := list (bytes * entry).      (* newest binding first *)

Fixpoint find (st : store) (k : bytes) : option entry :=
  match st with
  | [] => None
  | (k', e) :: st' => if bytes_eqb k k' then Some e else find st' k
  end.

Definition put (st : store) (k : bytes) (e : entry) : store := (k, e) :: st.

(** kv.IsDeletedOrExpired *)
Definition expired (exp now : N) : bool := negb (exp =? 0) && (exp <=? now).
Definition dead (e : entry) (now : N) : bool := e_del e || expired (e_exp e) now.

(** Txn.Get / DB.Get followed by the backend's IsDeletedOrExpired test. *)
Definition tget (st : store) (now : N) (k : bytes) : option entry :=
  match find st k with
  | Some e => if dead e now then None else Some e
  | None => None
  end.

Definition is_empty (b : bytes) : bool := match b with [] => true | _ => false end.

(** * int64 arithmetic as Go does it *)
Definition two63 : Z := 9223372036854775808%Z.
Definition two64 : Z := 18446744073709551616%Z.
Definition min_int64 : Z := (- two63)%Z.
Definition max_int64 : Z := (two63 - 1)%Z.
Definition wrap64 (z : Z) : Z := (((z + two63) mod two64) - two63)%Z.

(** strconv.FormatInt(v, 10) *)
Definition digit_b (d : N) : byte := n2b (48 + d).
Fixpoint dec_rev (fuel : nat) (n : N) : bytes :=
  match fuel with
  | O => []
  | S f => if n <? 10 then [digit_b n] else digit_b (n mod 10) :: dec_rev f (n / 10)
  end.
Definition fmt_N (n : N) : bytes := rev (dec_rev (S (N.to_nat (N.log2 n))) n).
Definition fmt_Z (z : Z) : bytes :=
  if (z <? 0)%Z then MINUS :: fmt_N (Z.abs_N z) else fmt_N (Z.to_N z).

(** strconvParseIntSafe: all-white-space (or empty) reads as 0. *)
Definition parse_int_safe (v : bytes) : option Z :=
  match fields v with
  | [] => Some 0%Z
  | _ => atoi v
  end.

(** * Backend operations: [None] = the closure returned utils.ErrEmptyKey and
    the transaction was dropped. *)

Definition b_get (st : store) (now : N) (k : bytes) : option (option bytes) :=
  if is_empty k then None
  else match tget st now k with
       | Some e => Some (Some (e_val e))
       | None => Some None
       end.

Inductive set_res := SetOk (st : store) | SetCond | SetEmptyKey.

Definition b_set (st : store) (now : N) (k v : bytes) (nx xx : bool) (exp : N) : set_res :=
  if is_empty k then SetEmptyKey
  else
    let e := {| e_val := v; e_exp := exp; e_del := false |} in
    if nx || xx then
      let exists_ := match tget st now k with Some _ => true | None => false end in
      if nx && exists_ then SetCond
      else if xx && negb exists_ then SetCond
      else SetOk (put st k e)
    else SetOk (put st k e).

Definition tombstone : entry := {| e_val := []; e_exp := 0; e_del := true |}.

Fixpoint b_del (st : store) (now : N) (keys : list bytes) (removed : Z) : option (store * Z) :=
  match keys with
  | [] => Some (st, removed)
  | k :: ks =>
      if is_empty k then None
      else
        let live := match tget st now k with Some _ => true | None => false end in
        b_del (put st k tombstone) now ks (if live then (removed + 1)%Z else removed)
  end.

Fixpoint b_mget (st : store) (now : N) (keys : list bytes) : option (list (option bytes)) :=
  match keys with
  | [] => Some []
  | k :: ks =>
      if is_empty k then None
      else match b_mget st now ks with
           | None => None
           | Some l => Some (match tget st now k with Some e => Some (e_val e) | None => None end :: l)
           end
  end.

Fixpoint b_mset (st : store) (pairs : list (bytes * bytes)) : option store :=
  match pairs with
  | [] => Some st
  | (k, v) :: ps =>
      if is_empty k then None
      else b_mset (put st k {| e_val := v; e_exp := 0; e_del := false |}) ps
  end.

Fixpoint b_exists (st : store) (now : N) (keys : list bytes) (count : Z) : option Z :=
  match keys with
  | [] => Some count
  | k :: ks =>
      if is_empty k then None
      else b_exists st now ks (match tget st now k with Some _ => (count + 1)%Z | None => count end)
  end.

Inductive incr_res := IncrOk (st : store) (v : Z) | IncrNotInt | IncrOverflow | IncrEmptyKey.

Definition b_incrby (st : store) (now : N) (k : bytes) (delta : Z) : incr_res :=
  if is_empty k then IncrEmptyKey
  else
    let found := tget st now k in
    let cur :=
      match found with
      | Some e => if is_empty (e_val e) then Some 0%Z else parse_int_safe (e_val e)
      | None => Some 0%Z
      end in
    match cur with
    | None => IncrNotInt
    | Some current =>
        if ((0 <? delta) && (max_int64 - delta <? current))%Z then IncrOverflow
        else if ((delta <? 0) && (current <? min_int64 - delta))%Z then IncrOverflow
        else
          let result := (current + delta)%Z in
          let exp := match found with Some e => e_exp e | None => 0 end in
          IncrOk (put st k {| e_val := fmt_Z result; e_exp := exp; e_del := false |}) result
    end.

(** * execute *)
Definition upper_byte (b : byte) : byte :=
  let n := b2n b in if (97 <=? n) && (n <=? 122) then n2b (n - 32) else b.
Definition lower_byte (b : byte) : byte :=
  let n := b2n b in if (65 <=? n) && (n <=? 90) then n2b (n + 32) else b.
Definition upper (s : bytes) : bytes := map upper_byte s.
Definition lower (s : bytes) : bytes := map lower_byte s.

Definition name_is (s : bytes) (lit : list byte) : bool := bytes_eqb s lit.

Definition n_PING : bytes := [x50; x49; x4e; x47].
Definition n_ECHO : bytes := [x45; x43; x48; x4f].
Definition n_GET : bytes := [x47; x45; x54].
Definition n_SET : bytes := [x53; x45; x54].
Definition n_DEL : bytes := [x44; x45; x4c].
Definition n_MGET : bytes := [x4d; x47; x45; x54].
Definition n_MSET : bytes := [x4d; x53; x45; x54].
Definition n_INCR : bytes := [x49; x4e; x43; x52].
Definition n_DECR : bytes := [x44; x45; x43; x52].
Definition n_INCRBY : bytes := [x49; x4e; x43; x52; x42; x59].
Definition n_DECRBY : bytes := [x44; x45; x43; x52; x42; x59].
Definition n_EXISTS : bytes := [x45; x58; x49; x53; x54; x53].
Definition n_QUIT : bytes := [x51; x55; x49; x54].
Definition n_NX : bytes := [x4e; x58].
Definition n_XX : bytes := [x58; x58].
Definition n_EX : bytes := [x45; x58].
Definition n_PX : bytes := [x50; x58].
Definition n_EXAT : bytes := [x45; x58; x41; x54].
Definition n_PXAT : bytes := [x50; x58; x41; x54].
Definition n_PONG : bytes := [x50; x4f; x4e; x47].
Definition n_OK : bytes := [x4f; x4b].

(** Expiry computation of execSet for a positive [num]. [None] = "invalid expire time in set". *)
Definition ns_per_s : Z := 1000000000%Z.
Definition to_u64 (z : Z) : N := Z.to_N (z mod two64).

Definition expire_at (F : fixes) (opt : bytes) (num : Z) (now : N) : option N :=
  let clamp (e : N) := if e <=? now then now + 1 else e in
  let nonzero (e : N) := if e =? 0 then None else Some e in
  if name_is opt n_EX then
    if fix_expire F && (max_int64 / ns_per_s <? num)%Z then None
    else let d := wrap64 (num * ns_per_s) in
         nonzero (clamp (to_u64 (Z.of_N now + d / ns_per_s)))
  else if name_is opt n_PX then
    if fix_expire F && (max_int64 / 1000000 <? num)%Z then None
    else let d := wrap64 (num * 1000000) in
         nonzero (clamp (to_u64 (Z.of_N now + d / ns_per_s)))
  else if name_is opt n_EXAT then nonzero (to_u64 num)
  else nonzero (to_u64 (num / 1000)).

(** The option loop of execSet over the arguments after key and value. *)
Record set_opts := { so_nx : bool; so_xx : bool; so_exp : N; so_has : bool }.

Fixpoint set_options (F : fixes) (now : N) (opts : list bytes) (o : set_opts) : rerr + set_opts :=
  match opts with
  | [] => inr o
  | a :: rest =>
      let opt := upper a in
      if name_is opt n_NX then
        if so_xx o then inl RSyntax
        else set_options F now rest {| so_nx := true; so_xx := so_xx o; so_exp := so_exp o; so_has := so_has o |}
      else if name_is opt n_XX then
        if so_nx o then inl RSyntax
        else set_options F now rest {| so_nx := so_nx o; so_xx := true; so_exp := so_exp o; so_has := so_has o |}
      else if name_is opt n_EX || name_is opt n_PX || name_is opt n_EXAT || name_is opt n_PXAT then
        if so_has o then inl RSyntax
        else match rest with
             | [] => inl RSyntax
             | numb :: rest' =>
                 match atoi numb with
                 | None => inl RNotInt
                 | Some num =>
                     if (num <=? 0)%Z then inl RInvalidExpire
                     else match expire_at F opt num now with
                          | None => inl RInvalidExpire
                          | Some e => set_options F now rest'
                                        {| so_nx := so_nx o; so_xx := so_xx o; so_exp := e; so_has := true |}
                          end
                 end
             end
      else inl RSyntax
  end.

Fixpoint pairs_of (l : list bytes) : list (bytes * bytes) :=
  match l with
  | k :: v :: l' => (k, v) :: pairs_of l'
  | _ => []
  end.

Definition bulk_reply (F : fixes) (v : bytes) : reply :=
  if fix_empty_value F then RBulk v else (if is_empty v then RNil else RBulk v).
Definition arr_elem (F : fixes) (v : option bytes) : option bytes :=
  match v with
  | Some b => if fix_empty_value F then Some b else (if is_empty b then None else Some b)
  | None => None
  end.

Definition do_incr (st : store) (now : N) (k : bytes) (delta : Z) : store * reply :=
  match b_incrby st now k delta with
  | IncrOk st' v => (st', RInt v)
  | IncrNotInt => (st, RErr RNotInt)
  | IncrOverflow => (st, RErr ROverflow)
  | IncrEmptyKey => (st, RErr REmptyKey)
  end.

(** execute: (store, reply, quit). [args] is non-empty (handleConn skips empty commands). *)
Definition execute (F : fixes) (st : store) (now : N) (args : list bytes) : store * reply * bool :=
  match args with
  | [] => (st, RErr RSyntax, false)    (* not reached: handleConn continues on len(args)==0 *)
  | a0 :: rest =>
      let cmd := upper a0 in
      let nargs := List.length args in
      if name_is cmd n_PING then
        if fix_ping F then
          match rest with
          | [] => (st, RSimple n_PONG, false)
          | [m] => (st, RBulk m, false)
          | _ => (st, RErr (RArity n_PING), false)
          end
        else
          match rest with
          | m :: _ => if is_empty m then (st, RSimple n_PONG, false) else (st, RBulk m, false)
          | [] => (st, RSimple n_PONG, false)
          end
      else if name_is cmd n_ECHO then
        match rest with
        | [m] => (st, RBulk m, false)
        | _ => (st, RErr (RArity n_ECHO), false)
        end
      else if name_is cmd n_GET then
        match rest with
        | [k] => match b_get st now k with
                 | None => (st, RErr REmptyKey, false)
                 | Some None => (st, RNil, false)
                 | Some (Some v) => (st, bulk_reply F v, false)
                 end
        | _ => (st, RErr (RArity n_GET), false)
        end
      else if name_is cmd n_SET then
        match rest with
        | k :: v :: opts =>
            match set_options F now opts {| so_nx := false; so_xx := false; so_exp := 0; so_has := false |} with
            | inl e => (st, RErr e, false)
            | inr o =>
                match b_set st now k v (so_nx o) (so_xx o) (so_exp o) with
                | SetOk st' => (st', RSimple n_OK, false)
                | SetCond => (st, RNil, false)
                | SetEmptyKey => (st, RErr REmptyKey, false)
                end
            end
        | _ => (st, RErr (RArity n_SET), false)
        end
      else if name_is cmd n_DEL then
        match rest with
        | [] => (st, RErr (RArity n_DEL), false)
        | _ => match b_del st now rest 0%Z with
               | None => (st, RErr REmptyKey, false)
               | Some (st', n) => (st', RInt n, false)
               end
        end
      else if name_is cmd n_MGET then
        match rest with
        | [] => (st, RErr (RArity n_MGET), false)
        | _ => match b_mget st now rest with
               | None => (st, RErr REmptyKey, false)
               | Some l => (st, RArr (map (arr_elem F) l), false)
               end
        end
      else if name_is cmd n_MSET then
        if (nargs <? 3)%nat || negb (Nat.even (List.length rest)) then (st, RErr (RArity n_MSET), false)
        else match b_mset st (pairs_of rest) with
             | None => (st, RErr REmptyKey, false)
             | Some st' => (st', RSimple n_OK, false)
             end
      else if name_is cmd n_INCR then
        match rest with
        | [k] => let '(st', r) := do_incr st now k 1%Z in (st', r, false)
        | _ => (st, RErr (RArity n_INCR), false)
        end
      else if name_is cmd n_DECR then
        match rest with
        | [k] => let '(st', r) := do_incr st now k (-1)%Z in (st', r, false)
        | _ => (st, RErr (RArity n_DECR), false)
        end
      else if name_is cmd n_INCRBY then
        match rest with
        | [k; d] => match atoi d with
                    | None => (st, RErr RNotInt, false)
                    | Some delta => let '(st', r) := do_incr st now k delta in (st', r, false)
                    end
        | _ => (st, RErr (RArity n_INCRBY), false)
        end
      else if name_is cmd n_DECRBY then
        match rest with
        | [k; d] => match atoi d with
                    | None => (st, RErr RNotInt, false)
                    | Some delta =>
                        if fix_decrby F && (delta =? min_int64)%Z then (st, RErr ROverflow, false)
                        else let '(st', r) := do_incr st now k (wrap64 (- delta)) in (st', r, false)
                    end
        | _ => (st, RErr (RArity n_DECRBY), false)
        end
      else if name_is cmd n_EXISTS then
        match rest with
        | [] => (st, RErr (RArity n_EXISTS), false)
        | _ => match b_exists st now rest 0%Z with
               | None => (st, RErr REmptyKey, false)
               | Some n => (st, RInt n, false)
               end
        end
      else if name_is cmd n_QUIT then (st, RSimple n_OK, true)
      else (st, RErr (RUnknown (lower cmd)), false)
  end.

(** A connection: commands until QUIT; replies in order. *)
Fixpoint run (F : fixes) (st : store) (cmds : list (N * list bytes)) : store * list reply :=
  match cmds with
  | [] => (st, [])
  | (now, args) :: cs =>
      let '(st', r, quit) := execute F st now args in
      if quit then (st', [r])
      else let '(st'', rs) := run F st' cs in (st'', r :: rs)
  end.

(** * Reply writers (writeSimpleString / writeError / writeInteger / writeBulk / writeNil / writeArray) *)
Definition crlf : bytes := [CR; LF].
Definition s_ (s : String.string) : bytes := of_string s.

Definition err_text (e : rerr) : bytes :=
  match e with
  | RArity n => s_ "ERR wrong number of arguments for '"%string ++ n ++ s_ "'"%string
  | RSyntax => s_ "ERR syntax error"%string
  | RNotInt => s_ "ERR value is not an integer or out of range"%string
  | ROverflow => s_ "ERR increment or decrement would overflow"%string
  | RInvalidExpire => s_ "ERR invalid expire time in set"%string
  | RUnknown n => s_ "ERR unknown command '"%string ++ n ++ s_ "'"%string
  | REmptyKey => s_ "ERR Key cannot be empty"%string
  end.

Definition enc_bulk (o : option bytes) : bytes :=
  match o with
  | None => s_ "$-1"%string ++ crlf
  | Some b => DOLLAR :: fmt_N (len b) ++ crlf ++ b ++ crlf
  end.

Definition encode_reply (r : reply) : bytes :=
  match r with
  | RSimple s => PLUS :: s ++ crlf
  | RErr e => MINUS :: err_text e ++ crlf
  | RInt z => x3a :: fmt_Z z ++ crlf
  | RBulk b => enc_bulk (Some b)
  | RNil => enc_bulk None
  | RArr l => STAR :: fmt_N (N.of_nat (List.length l)) ++ crlf ++ List.concat (map enc_bulk l)
  end.

(** Model of utils/dirlock.go (AcquireDirLock / DirLock.Release) as a
    transition system on Base/Sched.v.  Any number of contenders; each one
    acquires once and, if it got the lock, holds it and releases it.

    File system: the LOCK path names an inode or nothing; [open(O_CREATE)]
    creates a fresh inode when the path is empty.  [flock(LOCK_EX|LOCK_NB)]
    is exclusive per inode between open file descriptions (every contender
    has its own descriptor, also inside one process); closing a descriptor
    drops its lock; [unlink] empties the path but the inode lives on while a
    descriptor is open.

    One atomic step = the region between two [verifhook.Yield] points:
    open | flock | (repaired code) compare path with descriptor | close before
    retry | hold | unlock | close | remove.

    [fixed = false] is the step order of the code before the repair
    (fixes/C33-dirlock.md): flock-unlock, close, remove; no re-check after
    flock.  [fixed = true] is the code as it is now: after a successful flock
    the contender checks that the path still names the inode it locked
    (otherwise it closes and starts over); Release removes the path first,
    then unlocks and closes.  No proofs in this file. *)
From Coq Require Import List NArith Bool.
From NoKV Require Import Base.Sched Model.SchedLib.
Import ListNotations.
Local Open Scope N_scope.

Inductive result := ResReleased | ResBusy | ResFailed.   (* ResFailed: Release reported an error (unlink failed) *)

Inductive pc :=
| POpen                  (* parked before OpenFileHandle *)
| PFlock (i : N)         (* descriptor on inode i, before flock *)
| PCheck (i : N)         (* repaired code: lock held, before Stat(path) *)
| PRetry (i : N)         (* repaired code: path changed, before Close; then open again *)
| PHold (i : N)          (* AcquireDirLock returned the lock; the database is open *)
| PRemove (i : N)        (* in Release, before Remove(path) *)
| PUnlock (i : N)        (* in Release, before flock(LOCK_UN) *)
| PClose (i : N)         (* in Release, before Close *)
| PDone (r : result).

Record gstate := {
  g_path : option N;            (* inode named by dir/LOCK *)
  g_next : N;                   (* next fresh inode number *)
  g_locks : list (N * nat);     (* (inode, contender holding its flock) *)
  g_pcs : list pc
}.

Definition init (n : nat) : gstate :=
  {| g_path := None; g_next := 1; g_locks := []; g_pcs := repeat POpen n |}.

Fixpoint holder (i : N) (l : list (N * nat)) : option nat :=
  match l with
  | [] => None
  | (j, t) :: l' => if i =? j then Some t else holder i l'
  end.

(** drop the lock contender [t] has on inode [i], if any *)
Fixpoint drop (i : N) (t : nat) (l : list (N * nat)) : list (N * nat) :=
  match l with
  | [] => []
  | (j, u) :: l' => if (i =? j) && Nat.eqb t u then l' else (j, u) :: drop i t l'
  end.

Section Variant.
  Variable fixed : bool.
  (** contenders whose unlink of LOCK fails (I/O error): the path keeps naming the inode, Release goes on
      (unlock, close), reports the error and clears its handle, so a second Release does nothing *)
  Variable faulty : nat -> bool.

  Definition with_pc (g : gstate) (t : nat) (p : pc) : gstate :=
    {| g_path := g_path g; g_next := g_next g; g_locks := g_locks g; g_pcs := set_nth t p (g_pcs g) |}.

  Definition tstep (g : gstate) (t : nat) : option gstate :=
    match nth_error (g_pcs g) t with
    | None => None
    | Some p =>
        match p with
        | POpen =>
            match g_path g with
            | Some i => Some (with_pc g t (PFlock i))
            | None =>
                let i := g_next g in
                Some {| g_path := Some i; g_next := i + 1; g_locks := g_locks g;
                        g_pcs := set_nth t (PFlock i) (g_pcs g) |}
            end
        | PFlock i =>
            match holder i (g_locks g) with
            | Some _ => Some (with_pc g t (PDone ResBusy))     (* EWOULDBLOCK; deferred Close *)
            | None =>
                Some {| g_path := g_path g; g_next := g_next g; g_locks := (i, t) :: g_locks g;
                        g_pcs := set_nth t (if fixed then PCheck i else PHold i) (g_pcs g) |}
            end
        | PCheck i =>
            match g_path g with
            | Some j => if i =? j then Some (with_pc g t (PHold i)) else Some (with_pc g t (PRetry i))
            | None => Some (with_pc g t (PRetry i))
            end
        | PRetry i =>
            Some {| g_path := g_path g; g_next := g_next g; g_locks := drop i t (g_locks g);
                    g_pcs := set_nth t POpen (g_pcs g) |}
        | PHold i => Some (with_pc g t (if fixed then PRemove i else PUnlock i))
        | PRemove i =>
            Some {| g_path := if faulty t then g_path g else None; g_next := g_next g; g_locks := g_locks g;
                    g_pcs := set_nth t (if fixed then PUnlock i
                                        else PDone (if faulty t then ResFailed else ResReleased)) (g_pcs g) |}
        | PUnlock i =>
            Some {| g_path := g_path g; g_next := g_next g; g_locks := drop i t (g_locks g);
                    g_pcs := set_nth t (PClose i) (g_pcs g) |}
        | PClose i =>
            Some {| g_path := g_path g; g_next := g_next g; g_locks := drop i t (g_locks g);
                    g_pcs := set_nth t (if fixed then PDone (if faulty t then ResFailed else ResReleased)
                                        else PRemove i) (g_pcs g) |}
        | PDone _ => None
        end
    end.
End Variant.

Definition holding (p : pc) : bool := match p with PHold _ => true | _ => false end.

(** the contenders whose database is open *)
Fixpoint holders_from (k : nat) (l : list pc) : list nat :=
  match l with
  | [] => []
  | p :: l' => if holding p then k :: holders_from (S k) l' else holders_from (S k) l'
  end.
Definition holders (g : gstate) : list nat := holders_from 0 (g_pcs g).

(** percolator/codec.go: EncodeLock/DecodeLock, EncodeWrite/DecodeWrite
    (after the repair fixes/codec-decoders-panic-alloc.md). *)
From Coq Require Import List NArith Bool.
From Coq Require Import Init.Byte.
From NoKV Require Import Base.Bytes Base.Num Base.Varint.
Import ListNotations.
Local Open Scope N_scope.

Record lock := { l_primary : bytes; l_ts : N; l_ttl : N; l_kind : N; l_min_commit : N }.

Definition enc_lock (l : lock) : bytes :=
  x01 :: put_uvarint (blen (l_primary l)) ++ l_primary l ++ put_uvarint (l_ts l) ++
  put_uvarint (l_ttl l) ++ n2b (l_kind l) :: put_uvarint (l_min_commit l).

(** a decoder outcome: value, error, or a run-time panic (index/slice out of range) *)
Inductive dres (A : Type) := DVal (a : A) | DErr | DPanic.
Arguments DVal {A} a. Arguments DErr {A}. Arguments DPanic {A}.

(** the closure readUvarint of DecodeLock: data[pos:] panics if pos > len *)
Definition at_var (data : bytes) (pos : N) : dres (N * N) :=
  if blen data <? pos then DPanic else
  match uvarint (drop pos data) with
  | UvOk v n => DVal (v, pos + n)
  | _ => DErr
  end.

Definition decode_lock (data : bytes) : dres lock :=
  match data with
  | [] => DErr
  | v :: _ =>
    if negb (byte_eqb v x01) then DErr else
    match at_var data 1 with
    | DPanic => DPanic | DErr => DErr
    | DVal (plen, pos) =>
      if blen data - pos <? plen then DErr else
      let primary := take plen (drop pos data) in
      let pos := pos + plen in
      match at_var data pos with
      | DPanic => DPanic | DErr => DErr
      | DVal (ts, pos) =>
        match at_var data pos with
        | DPanic => DPanic | DErr => DErr
        | DVal (ttl, pos) =>
          if blen data <=? pos then DErr else
          match drop pos data with
          | [] => DPanic
          | k :: _ =>
            let pos := pos + 1 in
            if pos <? blen data then
              match at_var data pos with
              | DPanic => DPanic | DErr => DErr
              | DVal (mc, _) =>
                  DVal {| l_primary := primary; l_ts := ts; l_ttl := ttl; l_kind := b2n k; l_min_commit := mc |}
              end
            else DVal {| l_primary := primary; l_ts := ts; l_ttl := ttl; l_kind := b2n k; l_min_commit := 0 |}
          end
        end
      end
    end
  end.

Record write := { w_kind : N; w_start : N; w_short : bytes }.

Definition enc_write (w : write) : bytes :=
  x01 :: n2b (w_kind w) :: put_uvarint (w_start w) ++
  (if 0 <? blen (w_short w) then x01 :: put_uvarint (blen (w_short w)) ++ w_short w else [x00]).

Definition decode_write (data : bytes) : dres write :=
  match data with
  | v :: k :: _ :: _ =>
    if negb (byte_eqb v x01) then DErr else
    match at_var data 2 with
    | DPanic => DPanic | DErr => DErr
    | DVal (ts, pos) =>
      if blen data <=? pos then DVal {| w_kind := b2n k; w_start := ts; w_short := [] |} else
      match drop pos data with
      | [] => DPanic
      | f :: _ =>
        if byte_eqb f x01 then
          match at_var data (pos + 1) with
          | DPanic => DPanic | DErr => DErr
          | DVal (sz, pos) =>
            if blen data - pos <? sz then DErr
            else DVal {| w_kind := b2n k; w_start := ts; w_short := take sz (drop pos data) |}
          end
        else DVal {| w_kind := b2n k; w_start := ts; w_short := [] |}
      end
    end
  | _ => DErr
  end.

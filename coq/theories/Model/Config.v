(** Model of [config.File.Validate] (config/config.go). No proofs here. *)
From Coq Require Import List NArith Bool.
From Coq Require Import String.
From NoKV Require Import Base.Bytes.
Import ListNotations.
Local Open Scope N_scope.

Record peer := { p_store : N; p_id : N }.
Record region := { r_id : N; r_leader : N; r_peers : list peer }.
Record file := {
  f_tmpl : bytes;        (* StoreWorkDirTemplate *)
  f_dtmpl : bytes;       (* StoreDockerWorkDirTemplate *)
  f_stores : list N;     (* StoreID of each store, in order *)
  f_regions : list region }.

Inductive err :=
| ErrTmpl | ErrDockerTmpl | ErrStoreZero | ErrStoreDup
| ErrRegionZero | ErrLeaderMissing | ErrPeerZero | ErrPeerUnknown.

(** Go's [strings.TrimSpace] removes leading and trailing Unicode white space.
    [ws_len s] is the byte length of the white-space rune at the head of [s]
    (0 if none): ASCII \t \n \v \f \r space, U+0085, U+00A0, U+1680,
    U+2000..U+200A, U+2028, U+2029, U+202F, U+205F, U+3000 in UTF-8. *)
Definition ws_len (s : bytes) : nat :=
  match map b2n s with
  | 9 :: _ | 10 :: _ | 11 :: _ | 12 :: _ | 13 :: _ | 32 :: _ => 1%nat
  | 194 :: 133 :: _ | 194 :: 160 :: _ => 2%nat
  | 225 :: 154 :: 128 :: _ => 3%nat
  | 226 :: 128 :: c :: _ =>
      if ((128 <=? c) && (c <=? 138)) || (c =? 168) || (c =? 169) || (c =? 175) then 3%nat else 0%nat
  | 226 :: 129 :: 159 :: _ => 3%nat
  | 227 :: 128 :: 128 :: _ => 3%nat
  | _ => 0%nat
  end.

Fixpoint all_ws_fuel (fuel : nat) (s : bytes) : bool :=
  match s with
  | [] => true
  | _ =>
      match fuel with
      | O => false
      | S fuel' =>
          match ws_len s with
          | O => false
          | n => all_ws_fuel fuel' (skipn n s)
          end
      end
  end.

(** [strings.TrimSpace(t) == ""] *)
Definition blank (t : bytes) : bool := all_ws_fuel (List.length t) t.

Definition id_placeholder : bytes := of_string "{id}"%string.

(** [v := TrimSpace(t); v != "" && !Contains(v, "{id}")].  "{id}" contains no
    white space, so it occurs in the trimmed string iff it occurs in [t]. *)
Definition tmpl_bad (t : bytes) : bool := negb (blank t) && negb (contains t id_placeholder).

Definition mem (x : N) (l : list N) : bool := existsb (N.eqb x) l.

Fixpoint check_stores (seen : list N) (l : list N) : option err :=
  match l with
  | [] => None
  | s :: l' =>
      if s =? 0 then Some ErrStoreZero
      else if mem s seen then Some ErrStoreDup
      else check_stores (s :: seen) l'
  end.

Fixpoint check_peers (stores : list N) (ps : list peer) : option err :=
  match ps with
  | [] => None
  | p :: ps' =>
      if (p_store p =? 0) || (p_id p =? 0) then Some ErrPeerZero
      else if negb (mem (p_store p) stores) then Some ErrPeerUnknown
      else check_peers stores ps'
  end.

Definition check_region (stores : list N) (r : region) : option err :=
  if r_id r =? 0 then Some ErrRegionZero
  else if negb (r_leader r =? 0) && negb (mem (r_leader r) stores) then Some ErrLeaderMissing
  else check_peers stores (r_peers r).

Fixpoint check_regions (stores : list N) (rs : list region) : option err :=
  match rs with
  | [] => None
  | r :: rs' =>
      match check_region stores r with
      | Some e => Some e
      | None => check_regions stores rs'
      end
  end.

Definition validate (f : file) : option err :=
  if tmpl_bad (f_tmpl f) then Some ErrTmpl
  else if tmpl_bad (f_dtmpl f) then Some ErrDockerTmpl
  else match check_stores [] (f_stores f) with
       | Some e => Some e
       | None => check_regions (f_stores f) (f_regions f)
       end.

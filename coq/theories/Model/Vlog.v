(** Model of the value log and of the DB layer that separates large values
    (vlog.go write/read/removeValueLogFile, vlog/manager.go reserve/rotateLocked/
    Remove, vlog/io.go AppendEntries/ReadValue/Iterate, db_write.go writeToLSM,
    db.go loadBorrowedEntry/GetCF/GetVersionedEntry, txn.go Get,
    vlog_gc.go rewrite).  Definitions only.

    A value-log file is the list of its records (offset, length, entry); the
    entry is kept as an LSM record [rec] carrying the FULL value, the meta byte
    the writer passed and the ghost sequence number.  The LSM ([Model/Lsm.v])
    stores for such an entry the 16-byte pointer with [BitValuePointer] set. *)
From Coq Require Import List NArith Bool.
From NoKV Require Import Base.Bytes Base.Num Base.Varint Base.Crc32c Model.EntryCodec Model.Lsm.
Import ListNotations.
Local Open Scope N_scope.

Record cfg := { c_thr : N;      (* Options.ValueThreshold *)
                c_max : N;      (* Options.ValueLogFileSize *)
                c_nb : N }.     (* Options.ValueLogBucketCount (hot buckets disabled) *)

Definition max_ver : N := 18446744073709551615.
Definition bit_delete : N := 1.
Definition bit_vptr : N := 2.
Definition vl_header : N := 20.            (* kv.ValueLogHeaderSize *)

(** kv.InternalKey: base key ++ big-endian (MaxUint64 - version) *)
Definition ikey (k : bytes) (ver : N) : bytes := k ++ be64 (max_ver - ver).

(** The record as the value log encodes it (kv.EncodeEntry). *)
Definition entry_of (r : rec) : entry :=
  {| e_key := ikey (r_key r) (r_ver r); e_val := r_val r; e_meta := r_meta r; e_exp := r_exp r |}.
Definition rec_len (r : rec) : N := blen (enc_entry_body (entry_of r)) + 4.

Record vrec := { vr_off : N; vr_len : N; vr_rec : rec }.
Record vfile := { vf_fid : N; vf_recs : list vrec }.
(** Manager: files in fid order, activeID (= maxFid), offset. *)
Record bucket := { b_files : list vfile; b_active : N; b_off : N }.

Definition empty_bucket : bucket :=
  {| b_files := [{| vf_fid := 0; vf_recs := [] |}]; b_active := 0; b_off := vl_header |}.

(** kv.ValueLogBucket: crc32c of the key without its timestamp, mod the bucket count. *)
Definition bucket_of (c : cfg) (k : bytes) : N :=
  if c_nb c <=? 1 then 0 else (match k with [] => 0 | _ => crc32c k end) mod c_nb c.

(** db.shouldWriteValueToLSM is [len(value) < threshold]. *)
Definition is_big (c : cfg) (r : rec) : bool := c_thr c <=? blen (r_val r).

(** * Appending *)

(** Manager.rotateLocked *)
Definition rotate_b (b : bucket) : bucket :=
  {| b_files := b_files b ++ [{| vf_fid := b_active b + 1; vf_recs := [] |}];
     b_active := b_active b + 1; b_off := vl_header |}.

(** Manager.reserve: rotate when the request does not fit (no second check:
    an oversize request lands in the fresh file). Returns (bucket, fid, start). *)
Definition reserve (c : cfg) (b : bucket) (sz : N) : bucket * N * N :=
  let b0 := if b_off b <? vl_header
            then {| b_files := b_files b; b_active := b_active b; b_off := vl_header |} else b in
  let b1 := if c_max c <? b_off b0 + sz then rotate_b b0 else b0 in
  ({| b_files := b_files b1; b_active := b_active b1; b_off := b_off b1 + sz |}, b_active b1, b_off b1).

Definition add_to_file (fid : N) (vs : list vrec) (f : vfile) : vfile :=
  if vf_fid f =? fid then {| vf_fid := vf_fid f; vf_recs := vf_recs f ++ vs |} else f.
Definition add_recs (b : bucket) (fid : N) (vs : list vrec) : bucket :=
  {| b_files := map (add_to_file fid vs) (b_files b); b_active := b_active b; b_off := b_off b |}.

(** consecutive placement of the payloads of one reservation *)
Fixpoint place (off : N) (rs : list rec) : list vrec :=
  match rs with
  | [] => []
  | r :: rs' => {| vr_off := off; vr_len := rec_len r; vr_rec := r |} :: place (off + rec_len r) rs'
  end.

Definition ptr_of (bk fid : N) (v : vrec) : vptr :=
  {| p_len := vr_len v; p_off := vr_off v; p_fid := fid; p_bucket := bk |}.

Definition total_len (rs : list rec) : N := fold_right (fun r a => rec_len r + a) 0 rs.

(** appendPayload, one record at a time (the path taken when the batch is larger than a file) *)
Fixpoint append_each (c : cfg) (bk : N) (b : bucket) (rs : list rec) : bucket * list vptr :=
  match rs with
  | [] => (b, [])
  | r :: rs' =>
      let '(b1, fid, start) := reserve c b (rec_len r) in
      let v := {| vr_off := start; vr_len := rec_len r; vr_rec := r |} in
      let '(b2, ps) := append_each c bk (add_recs b1 fid [v]) rs' in
      (b2, ptr_of bk fid v :: ps)
  end.

(** Manager.AppendEntries *)
Definition append_entries (c : cfg) (bk : N) (b : bucket) (rs : list rec) : bucket * list vptr :=
  match rs with
  | [] => (b, [])
  | _ =>
      if (0 <? c_max c) && (c_max c <? total_len rs) then append_each c bk b rs
      else
        let '(b1, fid, start) := reserve c b (total_len rs) in
        let vs := place start rs in
        (add_recs b1 fid vs, map (ptr_of bk fid) vs)
  end.

(** * Reading *)

Definition find_file (b : bucket) (fid : N) : option vfile :=
  find (fun f => vf_fid f =? fid) (b_files b).

(** valueLog.read -> Manager.ReadValue: segment lookup, bounds, DecodeValueSlice
    (header, lengths, CRC).  A pointer that does not address a whole record is
    outside the model and reported as a failure. *)
Definition vl_read (vl : list bucket) (p : vptr) : option bytes :=
  match nth_error vl (N.to_nat (p_bucket p)) with
  | None => None
  | Some b =>
      match find_file b (p_fid p) with
      | None => None
      | Some f =>
          match find (fun v => vr_off v =? p_off p) (vf_recs f) with
          | None => None
          | Some v =>
              if vr_len v =? p_len p then
                match decode_value_slice (enc_entry (entry_of (vr_rec v))) with
                | VsOk value _ _ _ _ => Some value
                | _ => None
                end
              else None
          end
      end
  end.

(** * The DB layer *)

Record db := { d_lsm : state; d_vl : list bucket }.

Definition set_val_meta (r : rec) (v : bytes) (m : N) : rec :=
  {| r_key := r_key r; r_ver := r_ver r; r_val := v; r_meta := m; r_exp := r_exp r; r_seq := r_seq r |}.

(** valueLog.write for one request: per bucket, the large entries in request order. *)
Definition group (c : cfg) (bk : N) (batch : list rec) : list rec :=
  filter (fun r => is_big c r && (bucket_of c (r_key r) =? bk)) batch.

Fixpoint write_buckets (c : cfg) (bk : N) (vl : list bucket) (batch : list rec) : list bucket * list (list vptr) :=
  match vl with
  | [] => ([], [])
  | b :: vl' =>
      let '(b', ps) := append_entries c bk b (group c bk batch) in
      let '(vl'', pss) := write_buckets c (bk + 1) vl' batch in
      (b' :: vl'', ps :: pss)
  end.

Fixpoint pop_nth {A} (n : nat) (l : list (list A)) : option A * list (list A) :=
  match l, n with
  | [], _ => (None, [])
  | q :: l', O => match q with [] => (None, l) | x :: q' => (Some x, q' :: l') end
  | q :: l', S n' => let '(o, l'') := pop_nth n' l' in (o, q :: l'')
  end.

(** writeToLSM: pointer + BitValuePointer for large values, the bit cleared otherwise. *)
Fixpoint lsm_entries (c : cfg) (batch : list rec) (pss : list (list vptr)) : list rec :=
  match batch with
  | [] => []
  | r :: batch' =>
      if is_big c r then
        let '(o, pss') := pop_nth (N.to_nat (bucket_of c (r_key r))) pss in
        let p := match o with Some p => p | None => {| p_len := 0; p_off := 0; p_fid := 0; p_bucket := 0 |} end in
        set_val_meta r (enc_vptr p) (N.lor (r_meta r) bit_vptr) :: lsm_entries c batch' pss'
      else set_val_meta r (r_val r) (N.ldiff (r_meta r) bit_vptr) :: lsm_entries c batch' pss
  end.

(** One write request through commitWorker: vlog.write, then applyRequests/writeToLSM. *)
Definition db_write (c : cfg) (d : db) (batch : list rec) : db :=
  let '(vl', pss) := write_buckets c 0 (d_vl d) batch in
  {| d_lsm := fold_left put (lsm_entries c batch pss) (d_lsm d); d_vl := vl' |}.

(** Reads. *)
Inductive gres := GNone | GErr | GVal (r : rec).

Definition is_ptr (r : rec) : bool := N.testbit (r_meta r) 1.

(** loadBorrowedEntry's second half *)
Definition resolve (vl : list bucket) (r : rec) : gres :=
  if is_ptr r then
    match vl_read vl (decode_vptr (r_val r)) with
    | Some v => GVal (set_val_meta r v (N.ldiff (r_meta r) bit_vptr))
    | None => GErr
    end
  else GVal r.

(** loadBorrowedEntry = GetVersionedEntry *)
Definition db_get (d : db) (k : bytes) (v : N) : gres :=
  match get (d_lsm d) k v with
  | None => GNone
  | Some r => resolve (d_vl d) r
  end.

(** db.isDeletedOrExpired *)
Definition dead (now : N) (r : rec) : bool :=
  N.testbit (r_meta r) 0 || (negb (r_exp r =? 0) && (r_exp r <=? now)).

(** GetCF (v = max) and Txn.Get (v = read timestamp): the pointer is resolved first. *)
Definition db_get_live (now : N) (d : db) (k : bytes) (v : N) : gres :=
  match db_get d k v with
  | GVal r => if dead now r then GNone else GVal r
  | o => o
  end.

(** Txn.Get at its read timestamp: as Get, deleted and expired entries are absent
    (since /repo 0719305 a zero-length value with meta 0 is returned like any other value). *)
Definition txn_get (now : N) (d : db) (k : bytes) (ts : N) : gres := db_get_live now d k ts.

(** * GC: valueLog.rewrite *)

(** Only the record the LSM pointer names is live (Badger's rule, /repo e808ac5):
    [diskVP.Fid != fid || diskVP.Offset != ptr.Offset] skips the record. *)
Definition ptr_here (fid off : N) (p : vptr) : bool := (p_fid p =? fid) && (p_off p =? off).

Inductive decision := DSkip | DMove (r : rec) | DFail.

(** the callback [process] of rewrite for one record of the file *)
Definition gc_process (now : N) (s : state) (bk fid : N) (v : vrec) : decision :=
  let e := vr_rec v in
  let entry := match get s (r_key e) (r_ver e) with Some x => x | None => e end in
  if dead now entry || negb (is_ptr entry) then DSkip            (* kv.DiscardEntry *)
  else if blen (r_val entry) =? 0 then DFail
  else
    let p := decode_vptr (r_val entry) in
    if negb (p_bucket p =? bk) then DSkip
    else if negb (ptr_here fid (vr_off v) p) then DSkip
    else DMove {| r_key := r_key e; r_ver := r_ver e; r_val := r_val e; r_meta := N.ldiff (r_meta e) bit_vptr;
                  r_exp := r_exp e; r_seq := r_seq e |}.

Fixpoint gc_collect (now : N) (s : state) (bk fid : N) (vs : list vrec) : option (list rec) :=
  match vs with
  | [] => Some []
  | v :: vs' =>
      match gc_process now s bk fid v with
      | DFail => None
      | DSkip => gc_collect now s bk fid vs'
      | DMove r => option_map (cons r) (gc_collect now s bk fid vs')
      end
  end.

(** Manager.Remove of a sealed file *)
Definition remove_file (b : bucket) (fid : N) : bucket :=
  {| b_files := filter (fun f => negb (vf_fid f =? fid)) (b_files b); b_active := b_active b; b_off := b_off b |}.

Fixpoint upd_nth {A} (n : nat) (f : A -> A) (l : list A) : list A :=
  match l, n with
  | [], _ => []
  | x :: l', O => f x :: l'
  | x :: l', S n' => x :: upd_nth n' f l'
  end.

Inductive gc_result := GcOk | GcErr.

(** Ghost sequence numbers of the moved entries: the write-back is a new
    acknowledged write of the LSM; [n] is the next unused number. *)
Fixpoint renumber (n : N) (wb : list rec) : list rec :=
  match wb with
  | [] => []
  | r :: wb' => {| r_key := r_key r; r_ver := r_ver r; r_val := r_val r; r_meta := r_meta r; r_exp := r_exp r; r_seq := n |}
                :: renumber (n + 1) wb'
  end.

(** First half of rewrite: iterate the file and decide ([None] = an error aborted it). *)
Definition gc_decide (now : N) (d : db) (bk fid nseq : N) : option (list rec) :=
  match nth_error (d_vl d) (N.to_nat bk) with
  | None => None
  | Some b =>
      if b_active b <=? fid then None else
      match find_file b fid with
      | None => None
      | Some f => option_map (renumber nseq) (gc_collect now (d_lsm d) bk fid (vf_recs f))
      end
  end.

(** Second half: the moved entries go through the write pipeline as ONE request
    (fewer than MaxBatchCount-1 = 63 of them; more is outside the model and
    reported as an error).  When something was moved the function then reads
    the key of an entry the pipeline has already recycled (ErrEmptyKey) and
    returns before removing the file; an empty write-back removes the file. *)
Definition gc_finish (c : cfg) (d : db) (bk fid : N) (wb : list rec) : db * gc_result :=
  match wb with
  | [] => ({| d_lsm := d_lsm d; d_vl := upd_nth (N.to_nat bk) (fun b => remove_file b fid) (d_vl d) |}, GcOk)
  | _ => (db_write c d wb, GcErr)
  end.

Definition rewrite (c : cfg) (now : N) (d : db) (bk fid nseq : N) : db * gc_result :=
  match gc_decide now d bk fid nseq with
  | None => (d, GcErr)
  | Some wb => if 62 <? N.of_nat (length wb) then (d, GcErr) else gc_finish c d bk fid wb
  end.

(** rewrite with a writer's request landing at the yield point between the two halves *)
Definition rewrite_race (c : cfg) (now : N) (d : db) (bk fid nseq : N) (batch : list rec) : db * gc_result :=
  match gc_decide now d bk fid nseq with
  | None => (db_write c d batch, GcErr)
  | Some wb => if 62 <? N.of_nat (length wb) then (db_write c d batch, GcErr)
               else gc_finish c (db_write c d batch) bk fid wb
  end.

Definition init_db (c : cfg) (memid : N) : db :=
  {| d_lsm := init memid; d_vl := repeat empty_bucket (N.to_nat (N.max 1 (c_nb c))) |}.

(** * Hot/cold bucket routing (ValueLogHotBucketCount > 0)

    With hot buckets enabled the bucket of an out-of-line entry depends on the
    hot-key tracker (vlog.go bucketForEntry: keys touched at least
    ValueLogHotKeyThreshold times go to the hot buckets).  The tracker is not
    modelled: the harness reports, for every out-of-line entry of a request,
    the bucket the write path chose, and the functions below take it as an
    input.  Everything else (grouping per bucket in request order, one
    AppendEntries per bucket, pointers, writeToLSM, GC) is as above; with the
    reported bucket equal to [bucket_of] they coincide with [db_write] /
    [rewrite] (Proofs/VlogGcProofs.v [db_write_r_static]). *)
Definition group_r (c : cfg) (bk : N) (batch : list (rec * N)) : list rec :=
  map fst (filter (fun rb => is_big c (fst rb) && (snd rb =? bk)) batch).

Fixpoint write_buckets_r (c : cfg) (bk : N) (vl : list bucket) (batch : list (rec * N)) : list bucket * list (list vptr) :=
  match vl with
  | [] => ([], [])
  | b :: vl' =>
      let '(b', ps) := append_entries c bk b (group_r c bk batch) in
      let '(vl'', pss) := write_buckets_r c (bk + 1) vl' batch in
      (b' :: vl'', ps :: pss)
  end.

Fixpoint lsm_entries_r (c : cfg) (batch : list (rec * N)) (pss : list (list vptr)) : list rec :=
  match batch with
  | [] => []
  | (r, bk) :: batch' =>
      if is_big c r then
        let '(o, pss') := pop_nth (N.to_nat bk) pss in
        let p := match o with Some p => p | None => {| p_len := 0; p_off := 0; p_fid := 0; p_bucket := 0 |} end in
        set_val_meta r (enc_vptr p) (N.lor (r_meta r) bit_vptr) :: lsm_entries_r c batch' pss'
      else set_val_meta r (r_val r) (N.ldiff (r_meta r) bit_vptr) :: lsm_entries_r c batch' pss
  end.

Definition db_write_r (c : cfg) (d : db) (batch : list (rec * N)) : db :=
  let '(vl', pss) := write_buckets_r c 0 (d_vl d) batch in
  {| d_lsm := fold_left put (lsm_entries_r c batch pss) (d_lsm d); d_vl := vl' |}.

(** reported routes of GC's write-back: (base key, version, bucket) *)
Definition route_of (c : cfg) (routes : list (bytes * N * N)) (r : rec) : N :=
  match find (fun t => bytes_eqb (fst (fst t)) (r_key r) && (snd (fst t) =? r_ver r)) routes with
  | Some t => snd t
  | None => bucket_of c (r_key r)
  end.

Definition gc_finish_r (c : cfg) (d : db) (bk fid : N) (wb : list rec) (routes : list (bytes * N * N)) : db * gc_result :=
  match wb with
  | [] => ({| d_lsm := d_lsm d; d_vl := upd_nth (N.to_nat bk) (fun b => remove_file b fid) (d_vl d) |}, GcOk)
  | _ => (db_write_r c d (map (fun r => (r, route_of c routes r)) wb), GcErr)
  end.

Definition rewrite_r (c : cfg) (now : N) (d : db) (bk fid nseq : N) (routes : list (bytes * N * N)) : db * gc_result :=
  match gc_decide now d bk fid nseq with
  | None => (d, GcErr)
  | Some wb => if 62 <? N.of_nat (length wb) then (d, GcErr) else gc_finish_r c d bk fid wb routes
  end.

Definition rewrite_race_r (c : cfg) (now : N) (d : db) (bk fid nseq : N) (batch : list (rec * N))
           (routes : list (bytes * N * N)) : db * gc_result :=
  match gc_decide now d bk fid nseq with
  | None => (db_write_r c d batch, GcErr)
  | Some wb => if 62 <? N.of_nat (length wb) then (db_write_r c d batch, GcErr)
               else gc_finish_r c (db_write_r c d batch) bk fid wb routes
  end.

(** Close + Open: valueLog.open replays every file.  After a clean close every
    sealed file was truncated to its written size by DoneWriting, so replay ends
    exactly at the file size and no file is dropped - not even a sealed file
    without records (only a replay that stops before the end of a sealed file
    at the header leads to utils.ErrDeleteVlogFile; that is crash recovery,
    properties C10/C11).  The LSM side is [Lsm.reopen]. *)
Definition db_reopen (d : db) : db := {| d_lsm := reopen (d_lsm d); d_vl := d_vl d |}.

(** * GC against a concurrent writer (schedules on Base/Sched.v)

    Two threads.  The GC thread runs [rewrite] in two atomic steps, split at
    the yield point "vlog.gc.rewrite.decided": (1) iterate the file and decide
    which entries to move, (2) write them back and possibly remove the file.
    The writer thread sends its write requests one per step (a request is
    applied atomically by the commit worker). *)
Inductive gc_pc := GcStart | GcDecided (wb : option (list rec)) | GcDone.
Inductive gthread := TGc | TWr.

Record gstate := { g_db : db; g_pc : gc_pc; g_todo : list (list rec); g_acked : list rec }.

Definition gc_step2 (c : cfg) (d : db) (bk fid : N) (o : option (list rec)) : db :=
  match o with
  | None => d
  | Some wb => if 62 <? N.of_nat (length wb) then d else fst (gc_finish c d bk fid wb)
  end.

Definition gtstep (c : cfg) (now bk fid nseq : N) (g : gstate) (t : gthread) : option gstate :=
  match t with
  | TGc =>
      match g_pc g with
      | GcStart => Some {| g_db := g_db g; g_pc := GcDecided (gc_decide now (g_db g) bk fid nseq);
                           g_todo := g_todo g; g_acked := g_acked g |}
      | GcDecided o => Some {| g_db := gc_step2 c (g_db g) bk fid o; g_pc := GcDone;
                               g_todo := g_todo g; g_acked := g_acked g |}
      | GcDone => None
      end
  | TWr =>
      match g_todo g with
      | [] => None
      | b :: rest => Some {| g_db := db_write c (g_db g) b; g_pc := g_pc g; g_todo := rest; g_acked := g_acked g ++ b |}
      end
  end.

(** manifest/manager.go: apply, replay (readEdit loop), the in-memory Version.
    Maps are association lists kept sorted by key (the order is not
    observable in Go).  Files of a level keep the code's order (append order). *)
From Coq Require Import List NArith Bool.
From Coq Require Import Init.Byte.
From NoKV Require Import Base.Bytes Base.Num Model.ManifestCodec.
Import ListNotations.
Local Open Scope N_scope.

Section Assoc.
  Context {K V : Type} (ltb eqb : K -> K -> bool).
  Fixpoint upsert (k : K) (v : V) (l : list (K * V)) : list (K * V) :=
    match l with
    | [] => [(k, v)]
    | (k', v') :: l' =>
        if eqb k k' then (k, v) :: l'
        else if ltb k k' then (k, v) :: l
        else (k', v') :: upsert k v l'
    end.
  Fixpoint lookup (k : K) (l : list (K * V)) : option V :=
    match l with
    | [] => None
    | (k', v') :: l' => if eqb k k' then Some v' else lookup k l'
    end.
  Fixpoint remove_key (k : K) (l : list (K * V)) : list (K * V) :=
    match l with
    | [] => []
    | (k', v') :: l' => if eqb k k' then l' else (k', v') :: remove_key k l'
    end.
End Assoc.

Definition pair_ltb (a b : N * N) : bool :=
  (fst a <? fst b) || ((fst a =? fst b) && (snd a <? snd b)).
Definition pair_eqb (a b : N * N) : bool := (fst a =? fst b) && (snd a =? snd b).

Record version := {
  v_levels : list (N * list file_meta);
  v_logseg : N; v_logoff : N;
  v_vlogs : list ((N * N) * vlog_meta);
  v_heads : list (N * vlog_meta);
  v_rafts : list (N * raft_ptr);
  v_regions : list (N * region_meta) }.

Definition empty_version : version :=
  {| v_levels := []; v_logseg := 0; v_logoff := 0; v_vlogs := []; v_heads := []; v_rafts := []; v_regions := [] |}.

(** remove the first file with this id *)
Fixpoint remove_file (id : N) (fs : list file_meta) : list file_meta :=
  match fs with
  | [] => []
  | f :: fs' => if fm_id f =? id then fs' else f :: remove_file id fs'
  end.

Definition level_files (v : version) (lv : N) : list file_meta :=
  match lookup N.eqb lv (v_levels v) with Some fs => fs | None => [] end.

Definition set_levels (v : version) l := {| v_levels := l; v_logseg := v_logseg v; v_logoff := v_logoff v;
  v_vlogs := v_vlogs v; v_heads := v_heads v; v_rafts := v_rafts v; v_regions := v_regions v |}.
Definition set_vlog (v : version) vl hd := {| v_levels := v_levels v; v_logseg := v_logseg v; v_logoff := v_logoff v;
  v_vlogs := vl; v_heads := hd; v_rafts := v_rafts v; v_regions := v_regions v |}.

Definition head_is (v : version) (bucket fid : N) : bool :=
  match lookup N.eqb bucket (v_heads v) with Some h => vl_fid h =? fid | None => false end.

(** Manager.apply *)
Definition apply (v : version) (e : edit) : version :=
  match e with
  | EAddFile f =>
      set_levels v (upsert N.ltb N.eqb (fm_level f) (level_files v (fm_level f) ++ [f]) (v_levels v))
  | EDeleteFile f =>
      match lookup N.eqb (fm_level f) (v_levels v) with
      | Some fs => if existsb (fun g => fm_id g =? fm_id f) fs
                   then set_levels v (upsert N.ltb N.eqb (fm_level f) (remove_file (fm_id f) fs) (v_levels v))
                   else v
      | None => v
      end
  | ELogPointer s o =>
      {| v_levels := v_levels v; v_logseg := s; v_logoff := o; v_vlogs := v_vlogs v; v_heads := v_heads v;
         v_rafts := v_rafts v; v_regions := v_regions v |}
  | EVlogHead (Some m) =>
      let m' := {| vl_bucket := vl_bucket m; vl_fid := vl_fid m; vl_offset := vl_offset m; vl_valid := true |} in
      set_vlog v (upsert pair_ltb pair_eqb (vl_bucket m, vl_fid m) m' (v_vlogs v))
                 (upsert N.ltb N.eqb (vl_bucket m) m' (v_heads v))
  | EVlogDelete (Some m) =>
      let m' := {| vl_bucket := vl_bucket m; vl_fid := vl_fid m; vl_offset := 0; vl_valid := false |} in
      set_vlog v (upsert pair_ltb pair_eqb (vl_bucket m, vl_fid m) m' (v_vlogs v))
                 (if head_is v (vl_bucket m) (vl_fid m) then remove_key N.eqb (vl_bucket m) (v_heads v) else v_heads v)
  | EVlogUpdate (Some m) =>
      set_vlog v (upsert pair_ltb pair_eqb (vl_bucket m, vl_fid m) m (v_vlogs v))
                 (if head_is v (vl_bucket m) (vl_fid m)
                  then (if vl_valid m then upsert N.ltb N.eqb (vl_bucket m) m (v_heads v)
                        else remove_key N.eqb (vl_bucket m) (v_heads v))
                  else v_heads v)
  | ERaftPointer (Some r) =>
      {| v_levels := v_levels v; v_logseg := v_logseg v; v_logoff := v_logoff v; v_vlogs := v_vlogs v;
         v_heads := v_heads v; v_rafts := upsert N.ltb N.eqb (rp_group r) r (v_rafts v); v_regions := v_regions v |}
  | ERegion (Some r) =>
      {| v_levels := v_levels v; v_logseg := v_logseg v; v_logoff := v_logoff v; v_vlogs := v_vlogs v;
         v_heads := v_heads v; v_rafts := v_rafts v;
         v_regions := if re_delete r then remove_key N.eqb (rg_id (re_meta r)) (v_regions v)
                      else upsert N.ltb N.eqb (rg_id (re_meta r)) (re_meta r) (v_regions v) |}
  | _ => v
  end.

Definition apply_all (v : version) (es : list edit) : version := fold_left apply es v.

(** Manager.replay: readEdit until io.EOF; any other error fails the open *)
Inductive replay_res := RpOk (v : version) | RpErr | RpFuel.

Fixpoint replay_bytes (fuel : nat) (v : version) (bs : bytes) : replay_res :=
  match fuel with
  | O => RpFuel
  | S f =>
      match read_edit bs with
      | ReEof => RpOk v
      | ReErr | RePanic => RpErr
      | ReOk e rest => replay_bytes f (apply v e) rest
      end
  end.

Definition replay_manifest (bs : bytes) : replay_res := replay_bytes (S (length bs)) empty_version bs.

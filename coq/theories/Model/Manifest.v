(** manifest/manager.go: apply, replay (readEdit loop), the in-memory Version.
    Maps are association lists kept sorted by key (the order is not
    observable in Go).  Files of a level keep the code's order (append order). *)
From Coq Require Import List NArith Bool.
From Coq Require Import Init.Byte.
From NoKV Require Import Base.Bytes Base.Num Model.PercoCodec Model.ManifestCodec.
Import ListNotations.
Local Open Scope N_scope.

Section Assoc.
  Context {K V : Type} (ltb eqb : K -> K -> bool).
  Fixpoint upsert (k : K) (v : V) (l : list (K * V)) : list (K * V) :=
    match l with
    | [] => [(k, v)]
    | (k', v') :: l' =>
        if eqb k k' then (k, v) :: l'
        else if ltb k k' then (k, v) :: l
        else (k', v') :: upsert k v l'
    end.
  Fixpoint lookup (k : K) (l : list (K * V)) : option V :=
    match l with
    | [] => None
    | (k', v') :: l' => if eqb k k' then Some v' else lookup k l'
    end.
  Fixpoint remove_key (k : K) (l : list (K * V)) : list (K * V) :=
    match l with
    | [] => []
    | (k', v') :: l' => if eqb k k' then l' else (k', v') :: remove_key k l'
    end.
End Assoc.

Definition pair_ltb (a b : N * N) : bool :=
  (fst a <? fst b) || ((fst a =? fst b) && (snd a <? snd b)).
Definition pair_eqb (a b : N * N) : bool := (fst a =? fst b) && (snd a =? snd b).

Record version := {
  v_levels : list (N * list file_meta);
  v_logseg : N; v_logoff : N;
  v_vlogs : list ((N * N) * vlog_meta);
  v_heads : list (N * vlog_meta);
  v_rafts : list (N * raft_ptr);
  v_regions : list (N * region_meta) }.

Definition empty_version : version :=
  {| v_levels := []; v_logseg := 0; v_logoff := 0; v_vlogs := []; v_heads := []; v_rafts := []; v_regions := [] |}.

(** remove the first file with this id *)
Fixpoint remove_file (id : N) (fs : list file_meta) : list file_meta :=
  match fs with
  | [] => []
  | f :: fs' => if fm_id f =? id then fs' else f :: remove_file id fs'
  end.

Definition level_files (v : version) (lv : N) : list file_meta :=
  match lookup N.eqb lv (v_levels v) with Some fs => fs | None => [] end.

Definition set_levels (v : version) l := {| v_levels := l; v_logseg := v_logseg v; v_logoff := v_logoff v;
  v_vlogs := v_vlogs v; v_heads := v_heads v; v_rafts := v_rafts v; v_regions := v_regions v |}.
Definition set_vlog (v : version) vl hd := {| v_levels := v_levels v; v_logseg := v_logseg v; v_logoff := v_logoff v;
  v_vlogs := vl; v_heads := hd; v_rafts := v_rafts v; v_regions := v_regions v |}.

Definition head_is (v : version) (bucket fid : N) : bool :=
  match lookup N.eqb bucket (v_heads v) with Some h => vl_fid h =? fid | None => false end.

(** Manager.apply *)
Definition apply (v : version) (e : edit) : version :=
  match e with
  | EAddFile f =>
      set_levels v (upsert N.ltb N.eqb (fm_level f) (level_files v (fm_level f) ++ [f]) (v_levels v))
  | EDeleteFile f =>
      match lookup N.eqb (fm_level f) (v_levels v) with
      | Some fs => if existsb (fun g => fm_id g =? fm_id f) fs
                   then set_levels v (upsert N.ltb N.eqb (fm_level f) (remove_file (fm_id f) fs) (v_levels v))
                   else v
      | None => v
      end
  | ELogPointer s o =>
      {| v_levels := v_levels v; v_logseg := s; v_logoff := o; v_vlogs := v_vlogs v; v_heads := v_heads v;
         v_rafts := v_rafts v; v_regions := v_regions v |}
  | EVlogHead (Some m) =>
      let m' := {| vl_bucket := vl_bucket m; vl_fid := vl_fid m; vl_offset := vl_offset m; vl_valid := true |} in
      set_vlog v (upsert pair_ltb pair_eqb (vl_bucket m, vl_fid m) m' (v_vlogs v))
                 (upsert N.ltb N.eqb (vl_bucket m) m' (v_heads v))
  | EVlogDelete (Some m) =>
      let m' := {| vl_bucket := vl_bucket m; vl_fid := vl_fid m; vl_offset := 0; vl_valid := false |} in
      set_vlog v (upsert pair_ltb pair_eqb (vl_bucket m, vl_fid m) m' (v_vlogs v))
                 (if head_is v (vl_bucket m) (vl_fid m) then remove_key N.eqb (vl_bucket m) (v_heads v) else v_heads v)
  | EVlogUpdate (Some m) =>
      set_vlog v (upsert pair_ltb pair_eqb (vl_bucket m, vl_fid m) m (v_vlogs v))
                 (if head_is v (vl_bucket m) (vl_fid m)
                  then (if vl_valid m then upsert N.ltb N.eqb (vl_bucket m) m (v_heads v)
                        else remove_key N.eqb (vl_bucket m) (v_heads v))
                  else v_heads v)
  | ERaftPointer (Some r) =>
      {| v_levels := v_levels v; v_logseg := v_logseg v; v_logoff := v_logoff v; v_vlogs := v_vlogs v;
         v_heads := v_heads v; v_rafts := upsert N.ltb N.eqb (rp_group r) r (v_rafts v); v_regions := v_regions v |}
  | ERegion (Some r) =>
      {| v_levels := v_levels v; v_logseg := v_logseg v; v_logoff := v_logoff v; v_vlogs := v_vlogs v;
         v_heads := v_heads v; v_rafts := v_rafts v;
         v_regions := if re_delete r then remove_key N.eqb (rg_id (re_meta r)) (v_regions v)
                      else upsert N.ltb N.eqb (rg_id (re_meta r)) (re_meta r) (v_regions v) |}
  | _ => v
  end.

Definition apply_all (v : version) (es : list edit) : version := fold_left apply es v.

(** Manager.replay: readEdit until io.EOF; any other error fails the open *)
Inductive replay_res := RpOk (v : version) | RpErr | RpFuel.

Fixpoint replay_bytes (fuel : nat) (v : version) (bs : bytes) : replay_res :=
  match fuel with
  | O => RpFuel
  | S f =>
      match read_edit bs with
      | ReEof => RpOk v
      | ReErr | RePanic => RpErr
      | ReOk e rest => replay_bytes f (apply v e) rest
      end
  end.

Definition replay_manifest (bs : bytes) : replay_res := replay_bytes (S (length bs)) empty_version bs.

(** * Rewrite, CURRENT replacement, Verify, crash states

    The directory: CURRENT holds the id of the live manifest file (the name
    "MANIFEST-%06d" and the id determine each other), CURRENT.tmp may exist
    with any content, and manifest files by id.  A process crash keeps every
    completed write / rename / remove; a torn last write keeps a byte prefix. *)

(** writeSnapshot sorts the files of a level by id (sort.Slice; insertion
    order among equal ids is not specified by Go — ids are unique per level in
    every theorem) *)
Fixpoint insert_file (f : file_meta) (l : list file_meta) : list file_meta :=
  match l with
  | [] => [f]
  | g :: l' => if fm_id f <? fm_id g then f :: l else g :: insert_file f l'
  end.
Definition sort_files (l : list file_meta) : list file_meta := fold_right insert_file [] l.

(** writeSnapshot (after the repair fixes/manifest-reload-equals-memory.md: every
    value-log entry is written as EditUpdateValueLog) *)
Definition snapshot_edits (v : version) : list edit :=
  concat (map (fun lf => map EAddFile (sort_files (snd lf))) (v_levels v)) ++
  [ELogPointer (v_logseg v) (v_logoff v)] ++
  map (fun x => EVlogUpdate (Some (snd x))) (v_vlogs v) ++
  map (fun x => EVlogHead (Some (snd x))) (v_heads v) ++
  map (fun x => ERaftPointer (Some (snd x))) (v_rafts v) ++
  map (fun x => ERegion (Some {| re_meta := snd x; re_delete := false |})) (v_regions v).

Definition enc_all (es : list edit) : bytes := concat (map enc_edit es).

Record fsys := {
  f_current : option N;            (* CURRENT *)
  f_tmp : option bytes;            (* CURRENT.tmp *)
  f_man : list (N * bytes)         (* MANIFEST-<id> *)
}.

Definition man_get (fs : fsys) (id : N) : option bytes := lookup N.eqb id (f_man fs).
Definition man_set (fs : fsys) (id : N) (bs : bytes) : fsys :=
  {| f_current := f_current fs; f_tmp := f_tmp fs; f_man := upsert N.ltb N.eqb id bs (f_man fs) |}.
Definition man_del (fs : fsys) (id : N) : fsys :=
  {| f_current := f_current fs; f_tmp := f_tmp fs; f_man := remove_key N.eqb id (f_man fs) |}.
Definition set_tmp (fs : fsys) (t : option bytes) : fsys :=
  {| f_current := f_current fs; f_tmp := t; f_man := f_man fs |}.
Definition set_current (fs : fsys) (c : N) : fsys :=
  {| f_current := Some c; f_tmp := f_tmp fs; f_man := f_man fs |}.

Record mgr := {
  m_fs : fsys; m_cur : N; m_next : N; m_ver : version;
  m_thr : N                        (* rewrite threshold, 0 = disabled *)
}.

(** createNew *)
Definition empty_fs : fsys := {| f_current := None; f_tmp := None; f_man := [] |}.
Definition create_new (thr : N) : mgr :=
  {| m_fs := set_current (man_set empty_fs 1 []) 1; m_cur := 1; m_next := 2; m_ver := empty_version; m_thr := thr |}.

(** nextManifestFileLocked: first id >= next that does not exist *)
Fixpoint next_free (fuel : nat) (fs : fsys) (id : N) : N :=
  match fuel with
  | O => id
  | S f => match man_get fs id with None => id | Some _ => next_free f fs (id + 1) end
  end.

Definition cur_bytes (m : mgr) : bytes := match man_get (m_fs m) (m_cur m) with Some b => b | None => [] end.

(** the in-memory part of logEditsLocked and the append, before maybeRewrite *)
Definition appended (m : mgr) (batch : list edit) : mgr :=
  {| m_fs := man_set (m_fs m) (m_cur m) (cur_bytes m ++ enc_all batch); m_cur := m_cur m; m_next := m_next m;
     m_ver := apply_all (m_ver m) batch; m_thr := m_thr m |}.

Definition needs_rewrite (m : mgr) : bool := (0 <? m_thr m) && (m_thr m <=? blen (cur_bytes m)).

Definition new_id (m : mgr) : N := next_free (S (length (f_man (m_fs m)))) (m_fs m) (m_next m).

(** rewriteLocked, all effects completed *)
Definition rewritten (m : mgr) : mgr :=
  let id := new_id m in
  {| m_fs := man_del (set_tmp (set_current (man_set (m_fs m) id (enc_all (snapshot_edits (m_ver m)))) id) None) (m_cur m);
     m_cur := id; m_next := id + 1; m_ver := m_ver m; m_thr := m_thr m |}.

(** LogEdits *)
Definition log_edits (m : mgr) (batch : list edit) : mgr :=
  let m1 := appended m batch in
  if needs_rewrite m1 then rewritten m1 else m1.

Definition log_all (m : mgr) (batches : list (list edit)) : mgr := fold_left log_edits batches m.

(** the file systems a crash during [LogEdits m batch] can leave behind *)
Inductive crash_fs (m : mgr) (batch : list edit) : fsys -> Prop :=
| CrAppend c :                        (* the append, torn at any byte (0 = before, all = complete) *)
    crash_fs m batch (man_set (m_fs m) (m_cur m) (cur_bytes m ++ take c (enc_all batch)))
| CrSnapshot c :                      (* new manifest created; snapshot write torn at any byte *)
    needs_rewrite (appended m batch) = true ->
    crash_fs m batch (man_set (m_fs (appended m batch)) (new_id (appended m batch))
                              (take c (enc_all (snapshot_edits (m_ver (appended m batch))))))
| CrTmp t :                           (* snapshot complete; CURRENT.tmp written (any content) *)
    needs_rewrite (appended m batch) = true ->
    crash_fs m batch (set_tmp (man_set (m_fs (appended m batch)) (new_id (appended m batch))
                                       (enc_all (snapshot_edits (m_ver (appended m batch))))) (Some t))
| CrRenamed :                         (* CURRENT.tmp renamed over CURRENT; old manifest still there *)
    needs_rewrite (appended m batch) = true ->
    crash_fs m batch (set_tmp (set_current (man_set (m_fs (appended m batch)) (new_id (appended m batch))
                                       (enc_all (snapshot_edits (m_ver (appended m batch))))) (new_id (appended m batch))) None)
| CrRemoved :                         (* old manifest removed: the final state *)
    needs_rewrite (appended m batch) = true ->
    crash_fs m batch (m_fs (rewritten (appended m batch))).

(** Verify: scan the records of the live manifest; a partial tail is cut off, an
    undecodable complete record is an error *)
Fixpoint verify_scan (fuel : nat) (off : N) (bs : bytes) : option N :=
  match fuel with
  | O => None
  | S f =>
      match rd_le32 bs with
      | None => Some off
      | Some len =>
          let r := drop 4 bs in
          if blen r <? len then Some off
          else match decode_edit (take len r) with
               | DVal _ => verify_scan f (off + 4 + len) (drop len r)
               | _ => None
               end
      end
  end.

Definition verify_bytes (bs : bytes) : option bytes :=
  match bs with
  | [] => Some []
  | _ => match verify_scan (S (length bs)) 0 bs with
         | Some off => Some (take off bs)
         | None => None
         end
  end.

(** Verify (ErrNotExist ignored, as db.go does) then Open, as the version read back.
    No CURRENT, or CURRENT naming a missing file: Open falls back to createNew. *)
Definition recover (fs : fsys) : replay_res :=
  match f_current fs with
  | None => RpOk empty_version
  | Some id =>
      match man_get fs id with
      | None => RpOk empty_version
      | Some bs =>
          match verify_bytes bs with
          | None => RpErr
          | Some bs' => replay_manifest bs'
          end
      end
  end.

(** Open without a preceding crash (no torn tail): what a clean reopen reads *)
Definition reload (fs : fsys) : replay_res :=
  match f_current fs with
  | None => RpOk empty_version
  | Some id => match man_get fs id with None => RpOk empty_version | Some bs => replay_manifest bs end
  end.

(** Verify + Open on an existing directory, as a manager that goes on logging
    (initNextFileID: the id named by CURRENT + 1; Verify removes CURRENT.tmp and
    truncates a torn tail).  [None]: Verify or replay fails. *)
Definition open_mgr (thr : N) (fs : fsys) : option mgr :=
  match f_current fs with
  | None => Some {| m_fs := set_current (man_set (set_tmp fs None) 1 []) 1; m_cur := 1; m_next := 2;
                    m_ver := empty_version; m_thr := thr |}
  | Some id =>
      match man_get fs id with
      | None => Some {| m_fs := set_current (man_set (set_tmp fs None) 1 []) 1; m_cur := 1; m_next := 2;
                        m_ver := empty_version; m_thr := thr |}
      | Some bs =>
          match verify_bytes bs with
          | None => None
          | Some bs' =>
              match replay_manifest bs' with
              | RpOk v => Some {| m_fs := man_set (set_tmp fs None) id bs'; m_cur := id; m_next := id + 1;
                                  m_ver := v; m_thr := thr |}
              | _ => None
              end
          end
      end
  end.

(** * I/O errors (faults, not crashes) during LogEdits

    [FAppendWrite]: the Write of the batch fails: nothing is written, nothing applied, the call
    returns the error.  The other faults hit rewriteLocked, which runs after the batch has been
    appended and applied: the call returns the error, the manager keeps appending to the old
    manifest and CURRENT keeps naming it; what is left behind is an unused file id and possibly
    an orphan manifest file / CURRENT.tmp. *)
Inductive fault :=
| FNone
| FAppendWrite      (* file_write on the live manifest *)
| FCreate           (* open_file (create) of the new manifest *)
| FSnapWrite        (* file_write of the snapshot: the new file is closed and removed *)
| FSnapSync         (* file_sync / file_close of the new manifest: the complete file stays *)
| FTmpWrite         (* write_file of CURRENT.tmp *)
| FRename.          (* rename CURRENT.tmp -> CURRENT *)

Definition faulted (m1 : mgr) (f : fault) : mgr :=
  let id := new_id m1 in
  let snap := enc_all (snapshot_edits (m_ver m1)) in
  let fs := match f with
            | FSnapSync | FTmpWrite => man_set (m_fs m1) id snap
            | FRename => set_tmp (man_set (m_fs m1) id snap) (Some [])
            | _ => m_fs m1
            end in
  {| m_fs := fs; m_cur := m_cur m1; m_next := id + 1; m_ver := m_ver m1; m_thr := m_thr m1 |}.

(** the manager after the call, and whether the call returned an error *)
Definition log_edits_f (m : mgr) (batch : list edit) (f : fault) : mgr * bool :=
  match f with
  | FNone => (log_edits m batch, false)
  | FAppendWrite => (m, true)
  | _ => let m1 := appended m batch in
         if needs_rewrite m1 then (faulted m1 f, true) else (m1, false)
  end.

Fixpoint log_all_f (m : mgr) (steps : list (list edit * fault)) : mgr * list bool :=
  match steps with
  | [] => (m, [])
  | (b, f) :: steps' =>
      let '(m1, e) := log_edits_f m b f in
      let '(m2, es) := log_all_f m1 steps' in
      (m2, e :: es)
  end.

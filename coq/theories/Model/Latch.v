(** Model of percolator/latch/latch.go (Manager.Acquire / Guard.Release) as a
    labelled transition system on Base/Sched.v.

    A manager has [nstripes] mutexes.  [Acquire keys] skips empty keys, maps
    every other key to [hash key mod nstripes], drops an index already in the
    list, sorts ascending and locks one stripe after the other (a [Lock] on a
    held stripe blocks: the step is disabled).  [Release] unlocks in reverse
    order and clears the guard, so a second [Release] does nothing.

    One atomic step = one [Lock]/[Unlock] of a stripe (the only shared
    accesses of the code).  No proofs in this file. *)
From Coq Require Import List NArith Bool.
From NoKV Require Import Base.Bytes Base.Sched Model.SchedLib.
Import ListNotations.
Local Open Scope N_scope.

Fixpoint memN (x : N) (l : list N) : bool :=
  match l with [] => false | y :: l' => (x =? y) || memN x l' end.

Fixpoint insertN (x : N) (l : list N) : list N :=
  match l with
  | [] => [x]
  | y :: l' => if x <=? y then x :: l else y :: insertN x l'
  end.

(** [sort.Ints] (on a duplicate-free list every correct sort agrees) *)
Fixpoint sortN (l : list N) : list N :=
  match l with [] => [] | x :: l' => insertN x (sortN l') end.

Definition key_empty (k : bytes) : bool := match k with [] => true | _ => false end.

Section Latch.
  Variable nstripes : N.            (* len(m.stripes), > 0 by NewManager *)
  Variable hash : bytes -> N.       (* kv.MemHash: any function *)

  Definition stripe_of (k : bytes) : N := hash k mod nstripes.

  (** the loop labelled [body] of Acquire: [acc] is [indices] so far *)
  Fixpoint indices (keys : list bytes) (acc : list N) : list N :=
    match keys with
    | [] => acc
    | k :: ks =>
        if key_empty k then indices ks acc
        else let idx := stripe_of k in
             if memN idx acc then indices ks acc else indices ks (acc ++ [idx])
    end.

  (** [Guard.slots] for a key set ([] = the empty guard [&Guard{}]) *)
  Definition slots_of (keys : list bytes) : list N := sortN (indices keys []).

  (** ---- shared state: which thread holds which stripe ---- *)
  Definition locks := list (N * nat).          (* (stripe, holder) *)

  Fixpoint holder (s : N) (l : locks) : option nat :=
    match l with
    | [] => None
    | (s', t) :: l' => if s =? s' then Some t else holder s l'
    end.

  Fixpoint unlock (s : N) (l : locks) : locks :=
    match l with
    | [] => []
    | (s', t) :: l' => if s =? s' then l' else (s', t) :: unlock s l'
    end.

  (** ---- per-thread program: Acquire keys; critical section; Release ---- *)
  Inductive pc :=
  | Acq (done : list N) (todo : list N)   (* locked [done] (latest first), still to lock [todo] *)
  | Crit (held : list N)                  (* Acquire returned; [held] latest first *)
  | Rel (held : list N)                   (* inside Release, still to unlock [held], head first *)
  | Fin.

  Record thread := { th_keys : list bytes; th_pc : pc }.
  Record gstate := { g_locks : locks; g_threads : list thread }.

  Definition start_pc (keys : list bytes) : pc :=
    match slots_of keys with [] => Crit [] | sl => Acq [] sl end.

  Definition init (reqs : list (list bytes)) : gstate :=
    {| g_locks := []; g_threads := map (fun ks => {| th_keys := ks; th_pc := start_pc ks |}) reqs |}.

  Definition after_lock (d todo : list N) : pc :=
    match todo with [] => Crit d | _ => Acq d todo end.

  (** one step of thread [t]; [None] = blocked or finished *)
  Definition thread_step (t : nat) (l : locks) (p : pc) : option (locks * pc) :=
    match p with
    | Acq d [] => None                     (* not produced by [start_pc]/[after_lock] *)
    | Acq d (s :: todo) =>
        match holder s l with
        | Some _ => None                   (* Lock blocks *)
        | None => Some ((s, t) :: l, after_lock (s :: d) todo)
        end
    | Crit held => Some (l, match held with [] => Fin | _ => Rel held end)
    | Rel [] => None
    | Rel (s :: held) => Some (unlock s l, match held with [] => Fin | _ => Rel held end)
    | Fin => None
    end.

  Definition tstep (g : gstate) (t : nat) : option gstate :=
    match nth_error (g_threads g) t with
    | None => None
    | Some th =>
        match thread_step t (g_locks g) (th_pc th) with
        | None => None
        | Some (l', p') =>
            Some {| g_locks := l';
                    g_threads := set_nth t {| th_keys := th_keys th; th_pc := p' |} (g_threads g) |}
        end
    end.

  (** ---- the guard object, for "releasing twice is harmless" ---- *)
  (** [Some slots] = guard with manager set; [None] = manager nil (after Release, or empty guard) *)
  Definition guard := option (list N).

  Definition release (l : locks) (gd : guard) : locks * guard :=
    match gd with
    | None => (l, None)
    | Some [] => (l, Some [])            (* len(g.slots) == 0: early return, fields untouched *)
    | Some sl => (fold_left (fun l s => unlock s l) (rev sl) l, None)
    end.

  (** remaining atomic steps of a thread (ranking function) *)
  Definition pc_rank (p : pc) : nat :=
    match p with
    | Acq d todo => length todo + 1 + length d + length todo
    | Crit held => 1 + length held
    | Rel held => length held
    | Fin => 0
    end.
End Latch.

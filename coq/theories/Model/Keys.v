(** Internal key layout: kv/key.go (InternalKey, SplitInternalKey, ParseKey,
    ParseTs, SameKey, KeyWithTs), kv/cf.go (EncodeKeyWithCF, DecodeKeyCF),
    utils/util.go (CompareKeys, CompareUserKeys).

      0xFF 'C' 'F' cf | user key | be64 (2^64-1 - version)

    The theorem that [compare_keys] on encoded keys is the logical order
    (cf ascending, user key ascending bytewise, version descending) is
    [Proofs/KeysProofs.v: compare_keys_enc] (exported as C16_key_order). *)
From Coq Require Import List NArith Bool.
From Coq Require Import Init.Byte.
From NoKV Require Import Base.Bytes Base.Num.
Import ListNotations.
Local Open Scope N_scope.

Record ikey := { ik_cf : N; ik_ukey : bytes; ik_ver : N }.

Definition max_u64 : N := 18446744073709551615.

Definition cf_default : N := 0.
Definition cf_lock : N := 1.
Definition cf_write : N := 2.

(** ColumnFamily.Valid *)
Definition cf_valid (cf : N) : bool := cf <=? 2.
(** [if !cf.Valid() { cf = CFDefault }] *)
Definition norm_cf (cf : N) : N := if cf_valid cf then cf else cf_default.

(** cf is a uint8, version a uint64 *)
Definition ikey_wf (k : ikey) : Prop := ik_cf k <= 2 /\ ik_ver k < two64.
Definition ikey_wfb (k : ikey) : bool := (ik_cf k <=? 2) && (ik_ver k <? two64).

Definition cf_marker : bytes := [xff; x43; x46].

(** kv.EncodeKeyWithCF *)
Definition enc_cf_key (cf : N) (ukey : bytes) : bytes := cf_marker ++ n2b (norm_cf cf) :: ukey.

(** kv.KeyWithTs *)
Definition key_with_ts (key : bytes) (ts : N) : bytes := key ++ be64 (max_u64 - ts).

(** kv.InternalKey *)
Definition enc_ikey (k : ikey) : bytes := key_with_ts (enc_cf_key (ik_cf k) (ik_ukey k)) (ik_ver k).

(** kv.ParseKey: strips the 8-byte suffix (keys shorter than 8 are returned whole) *)
Definition parse_key (k : bytes) : bytes := if blen k <? 8 then k else take (blen k - 8) k.

(** kv.ParseTs *)
Definition parse_ts (k : bytes) : N :=
  if blen k <=? 8 then 0
  else match rd_be64 (drop (blen k - 8) k) with
       | Some v => max_u64 - v
       | None => 0
       end.

(** kv.DecodeKeyCF: (cf, user key, marker-present) *)
Definition decode_key_cf (k : bytes) : N * bytes * bool :=
  match k with
  | a :: b :: c :: d :: u =>
      if byte_eqb a xff && byte_eqb b x43 && byte_eqb c x46 && cf_valid (b2n d)
      then (b2n d, u, true) else (cf_default, k, false)
  | _ => (cf_default, k, false)
  end.

(** kv.SplitInternalKey *)
Definition split_ikey (k : bytes) : ikey :=
  let '(cf, u, _) := decode_key_cf (parse_key k) in
  {| ik_cf := cf; ik_ukey := u; ik_ver := parse_ts k |}.

(** kv.SameKey *)
Definition same_key (a b : bytes) : bool :=
  (blen a =? blen b) && bytes_eqb (parse_key a) (parse_key b).

(** utils.CompareKeys: [None] = CondPanic (a key of 8 bytes or fewer) *)
Definition compare_keys (a b : bytes) : option comparison :=
  if (blen a <=? 8) || (blen b <=? 8) then None
  else
    match bytes_cmp (take (blen a - 8) a) (take (blen b - 8) b) with
    | Eq => Some (bytes_cmp (drop (blen a - 8) a) (drop (blen b - 8) b))
    | c => Some c
    end.

(** utils.CompareUserKeys *)
Definition compare_user_keys (a b : bytes) : comparison := bytes_cmp (parse_key a) (parse_key b).

(** The logical order: column family ascending, user key ascending
    (bytewise), version DEscending. *)
Definition ikey_compare (a b : ikey) : comparison :=
  match N.compare (ik_cf a) (ik_cf b) with
  | Eq => match bytes_cmp (ik_ukey a) (ik_ukey b) with
          | Eq => N.compare (ik_ver b) (ik_ver a)
          | c => c
          end
  | c => c
  end.

Definition ikey_ltb (a b : ikey) : bool := match ikey_compare a b with Lt => true | _ => false end.

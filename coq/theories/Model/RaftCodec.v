(** raftstore/engine/wal_storage.go: encodeRaftEntries / decodeRaftEntries,
    encodeRaftHardState / decodeRaftHardState (same framing as the snapshot
    codec), and raftstore/command/codec.go (0xCE frame), after the repair
    fixes/codec-decoders-panic-alloc.md.  Protobuf bodies are opaque byte
    strings (the marshalled entry / hard state / request). *)
From Coq Require Import List NArith Bool.
From Coq Require Import Init.Byte.
From NoKV Require Import Base.Bytes Base.Num Base.Varint Model.PercoCodec.
Import ListNotations.
Local Open Scope N_scope.

(** group | count | (len | body)* *)
Definition enc_raft_entries (gid : N) (bodies : list bytes) : bytes :=
  put_uvarint gid ++ put_uvarint (N.of_nat (length bodies)) ++
  concat (map (fun b => put_uvarint (blen b) ++ b) bodies).

(** readUvarint(data, &idx) of wal_storage.go: idx >= len -> error *)
Definition ix_var (data : bytes) (idx : N) : option (N * N) :=
  if blen data <=? idx then None else
  match uvarint (drop idx data) with
  | UvOk v n => Some (v, idx + n)
  | _ => None
  end.

Fixpoint dec_bodies (count : nat) (data : bytes) (idx : N) : option (list bytes) :=
  match count with
  | O => Some []
  | S c =>
      match ix_var data idx with
      | None => None
      | Some (size, idx) =>
          if blen data - idx <? size then None else
          match dec_bodies c data (idx + size) with
          | None => None
          | Some l => Some (take size (drop idx data) :: l)
          end
      end
  end.

(** [None] = error. The count is checked against len(data) before [make]. *)
Definition decode_raft_entries (data : bytes) : option (N * list bytes) :=
  match ix_var data 0 with
  | None => None
  | Some (gid, idx) =>
      match ix_var data idx with
      | None => None
      | Some (count, idx) =>
          if blen data <? count then None else
          match dec_bodies (N.to_nat count) data idx with
          | None => None
          | Some l => Some (gid, l)
          end
      end
  end.

(** capacity requested from make([]Entry, 0, count) *)
Definition decode_raft_entries_alloc (data : bytes) : N :=
  match ix_var data 0 with
  | None => 0
  | Some (_, idx) =>
      match ix_var data idx with
      | None => 0
      | Some (count, _) => if blen data <? count then 0 else count
      end
  end.

(** group | len | body  (hard state and snapshot) *)
Definition enc_raft_blob (gid : N) (body : bytes) : bytes :=
  put_uvarint gid ++ put_uvarint (blen body) ++ body.

Definition decode_raft_blob (data : bytes) : option (N * bytes) :=
  match ix_var data 0 with
  | None => None
  | Some (gid, idx) =>
      match ix_var data idx with
      | None => None
      | Some (size, idx) =>
          if blen data - idx <? size then None else Some (gid, take size (drop idx data))
      end
  end.

(** command.Encode / Decode: 0xCE ++ body; [None] = not a command payload *)
Definition enc_command (body : bytes) : bytes := xce :: body.
Definition decode_command (data : bytes) : option bytes :=
  match data with
  | p :: body => if byte_eqb p xce then Some body else None
  | [] => None
  end.

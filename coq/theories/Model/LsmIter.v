(** Model of the iterator stack (property C06):

      lsm/iterator.go   NewIterators (source order), MergeIterator (binary tree of
                        two-way merges, left node kept on equal internal keys,
                        forward and reverse), ConcatIterator, Seek
      lsm/levels.go     levelHandler.iterators;  lsm/ingest.go  ingestBuffer.iterators
      iterator.go       DBIterator populate / materialize / Seek (clamping, seekOutOfRange)
      txn_iterator.go   readTsIterator, TxnIterator advance / materializeEntry / Seek / Rewind
      txn.go            newPendingWritesIterator (bytes.Compare on the encoded key)

    Definitions only.  Sources are the sorted record lists of Model/Lsm.v; an
    iterator positioned somewhere is the list of records it has still to yield.
    The flags of [cfg] switch between the code as it was found ([legacy]) and
    the code after the repairs recorded in /verif/fixes ([current]). *)
From Coq Require Import List NArith Bool.
From NoKV Require Import Base.Bytes Base.Num Model.Keys Model.Lsm.
Import ListNotations.
Local Open Scope N_scope.

Record cfg := {
  fix_imm_order : bool;   (* F3: NewIterators lists sealed memtables newest first *)
  fix_tomb_last : bool;   (* F8: forward advance records lastKey for a skipped tombstone *)
  fix_db_dead : bool;     (* DBIterator.materialize tests the delete bit, not only Value == nil *)
  fix_db_rseek : bool;    (* DBIterator.Seek in reverse seeks below every version of the key *)
  fix_txn_cf : bool;      (* TxnIterator.advance skips entries outside the default column family *)
  fix_pend_cmp : bool;    (* pending writes ordered with CompareKeys instead of bytes.Compare *)
  fix_get_empty : bool    (* Txn.Get no longer reads [Value == nil && Meta == 0] as not found *)
}.

Definition legacy : cfg :=
  {| fix_imm_order := false; fix_tomb_last := false; fix_db_dead := false; fix_db_rseek := false;
     fix_txn_cf := false; fix_pend_cmp := false; fix_get_empty := false |}.

(** * Sources in the order of lsm.NewIterators *)

(** levelHandler.iterators for a level >= 1: every ingest shard through
    iteratorsReversed(sh.tables), then one ConcatIterator over the main tables. *)
Definition level_iters (lv : level) : list (list rec) :=
  map t_recs (concat (map (@rev table) (lv_shards lv)))
  ++ match lv_main lv with [] => [] | ts => [concat (map t_recs ts)] end.

Definition lsm_sources (c : cfg) (s : state) : list (list rec) :=
  [st_mem s]
  ++ map snd (if fix_imm_order c then rev (st_imms s) else st_imms s)
  ++ map t_recs (rev (st_l0 s))
  ++ concat (map level_iters (st_lvls s)).

(** * MergeIterator *)

(** Comparison used by [fix]: utils.CompareKeys, with the roles exchanged in reverse mode. *)
Definition dcmp (rv : bool) (a b : rec) : comparison := if rv then rcmp b a else rcmp a b.

(** Two children: the smaller head is yielded; on equal keys the right child is advanced. *)
Fixpoint gmerge_fuel (cmp : rec -> rec -> comparison) (fuel : nat) (a b : list rec) : list rec :=
  match fuel with
  | O => a ++ b
  | S f =>
      match a, b with
      | [], _ => b
      | _, [] => a
      | x :: a', y :: b' =>
          match cmp x y with
          | Lt => x :: gmerge_fuel cmp f a' b
          | Eq => x :: gmerge_fuel cmp f a' b'
          | Gt => y :: gmerge_fuel cmp f a b'
          end
      end
  end.
Definition gmerge (cmp : rec -> rec -> comparison) (a b : list rec) : list rec :=
  gmerge_fuel cmp (length a + length b) a b.

(** NewMergeIterator: 0 -> empty, 1 -> the iterator itself, 2 -> one node,
    otherwise split at len/2. *)
Fixpoint mtree_fuel (cmp : rec -> rec -> comparison) (fuel : nat) (srcs : list (list rec)) : list rec :=
  match fuel with
  | O => []
  | S f =>
      match srcs with
      | [] => []
      | [a] => a
      | [a; b] => gmerge cmp a b
      | _ => let mid := Nat.div2 (length srcs) in
             gmerge cmp (mtree_fuel cmp f (firstn mid srcs)) (mtree_fuel cmp f (skipn mid srcs))
      end
  end.
Definition mtree (cmp : rec -> rec -> comparison) (srcs : list (list rec)) : list rec :=
  mtree_fuel cmp (length srcs) srcs.

(** * Positioning one source *)

Inductive ipos := PRewind | PSeek (k : bytes) (v : N).   (* seek target: base key, version *)

Fixpoint drop_while {A} (f : A -> bool) (l : list A) : list A :=
  match l with
  | [] => []
  | x :: l' => if f x then drop_while f l' else l
  end.

(** Memtable / table / ConcatIterator: forward Seek lands on the first record
    >= target, reverse Seek on the last record <= target; Rewind on the first
    (last) record. *)
Definition before (rv : bool) (k : bytes) (v : N) (x : rec) : bool :=
  match kcmp (r_key x) (r_ver x) k v with
  | Lt => negb rv
  | Gt => rv
  | Eq => false
  end.

Definition lsm_pos (rv : bool) (p : ipos) (l : list rec) : list rec :=
  let l := if rv then rev l else l in
  match p with
  | PRewind => l
  | PSeek k v => drop_while (before rv k v) l
  end.

(** pendingWritesIterator: entries carry version readTs and are sorted (and
    searched) with bytes.Compare on base key ++ be64(^version). *)
Definition enc (k : bytes) (v : N) : bytes := k ++ be64 (max_u64 - v).
Definition pcmp (c : cfg) (k1 : bytes) (v1 : N) (k2 : bytes) (v2 : N) : comparison :=
  if fix_pend_cmp c then kcmp k1 v1 k2 v2 else bytes_cmp (enc k1 v1) (enc k2 v2).
Definition pend_leb (c : cfg) (rv : bool) (a b : rec) : bool :=
  match pcmp c (r_key a) (r_ver a) (r_key b) (r_ver b) with
  | Lt => negb rv
  | Gt => rv
  | Eq => true
  end.
Definition pend_sorted (c : cfg) (rv : bool) (pw : list rec) : list rec := isort (pend_leb c rv) pw.
Definition pend_before (c : cfg) (rv : bool) (k : bytes) (v : N) (x : rec) : bool :=
  match pcmp c (r_key x) (r_ver x) k v with
  | Lt => negb rv
  | Gt => rv
  | Eq => false
  end.
Definition pend_pos (c : cfg) (rv : bool) (p : ipos) (pw : list rec) : list rec :=
  let l := pend_sorted c rv pw in
  match p with
  | PRewind => l
  | PSeek k v => drop_while (pend_before c rv k v) l
  end.

(** readTsIterator: after every positioning step, skip records newer than readTs. *)
Definition visible (readTs : N) (x : rec) : bool := r_ver x <=? readTs.

(** The merged internal stream under DB.NewIterator / NewInternalIterator. *)
Definition db_stream (c : cfg) (s : state) (rv : bool) (p : ipos) : list rec :=
  mtree (dcmp rv) (map (lsm_pos rv p) (lsm_sources c s)).

(** ... and under Txn.NewIterator ([pw] = pending writes of an update
    transaction, already stamped with version readTs; [] otherwise). *)
Definition txn_stream (c : cfg) (s : state) (rv : bool) (readTs : N) (pw : list rec) (p : ipos) : list rec :=
  mtree (dcmp rv)
        (match pw with [] => [] | _ => [pend_pos c rv p pw] end
         ++ map (fun l => filter (visible readTs) (lsm_pos rv p l)) (lsm_sources c s)).

(** * Items *)

Record item := { i_cf : N; i_key : bytes; i_ver : N; i_val : bytes }.

Definition split_base (bk : bytes) : N * bytes := let '(cf, u, _) := decode_key_cf bk in (cf, u).

Definition mk_item (x : rec) : item :=
  let '(cf, u) := split_base (r_key x) in
  {| i_cf := cf; i_key := u; i_ver := r_ver x; i_val := r_val x |}.

Definition deleted (x : rec) : bool := negb (N.land (r_meta x) 1 =? 0).
Definition expired (now : N) (x : rec) : bool := negb (r_exp x =? 0) && (r_exp x <=? now).
(** isDeletedOrExpired(meta, expiresAt) *)
Definition deadb (now : N) (x : rec) : bool := deleted x || expired now x.

Definition nonempty (b : bytes) : bool := match b with [] => false | _ => true end.

(** * DBIterator *)

Record dopts := { d_asc : bool; d_keyonly : bool; d_lower : bytes; d_upper : bytes }.

(** materialize: kv.Entry.IsDeletedOrExpired tests Value == nil, and a value
    decoded from a memtable or a block is never nil: a tombstone passes. *)
Definition db_dead (c : cfg) (now : N) (x : rec) : bool :=
  if fix_db_dead c then deadb now x else expired now x.

(** populate, iterated by Next until the iterator turns invalid. *)
Fixpoint db_run (c : cfg) (now : N) (o : dopts) (l : list rec) : list item :=
  match l with
  | [] => []
  | x :: l' =>
      let u := snd (split_base (r_key x)) in
      if nonempty (d_lower o) && bytes_ltb u (d_lower o) then
        (if d_asc o then db_run c now o l' else [])
      else if nonempty (d_upper o) && bytes_leb (d_upper o) u then
        (if d_asc o then [] else db_run c now o l')
      else if db_dead c now x then db_run c now o l'
      else mk_item x :: db_run c now o l'
  end.

Definition db_base (u : bytes) : bytes := enc_cf_key cf_default u.

Inductive action := ARewind | ASeek (k : bytes).

Definition db_list (c : cfg) (now : N) (s : state) (o : dopts) (a : action) : list item :=
  let rv := negb (d_asc o) in
  match a with
  | ARewind => db_run c now o (db_stream c s rv PRewind)
  | ASeek key =>
      if d_asc o then
        if nonempty (d_upper o) && bytes_leb (d_upper o) key then []
        else
          let key := if nonempty (d_lower o) && bytes_ltb key (d_lower o) then d_lower o else key in
          db_run c now o (db_stream c s rv (PSeek (db_base key) max_u64))
      else
        if nonempty (d_lower o) && bytes_ltb key (d_lower o) then []
        else
          let key := if nonempty (d_upper o) && bytes_leb (d_upper o) key then d_upper o else key in
          db_run c now o (db_stream c s rv (PSeek (db_base key) (if fix_db_rseek c then 0 else max_u64)))
  end.

(** * TxnIterator *)

Record topts := {
  o_rev : bool; o_all : bool; o_keyonly : bool;
  o_pik : bool;            (* prefixIsKey (NewKeyIterator) *)
  o_prefix : bytes; o_since : N; o_lower : bytes; o_upper : bytes }.

(** What [advance] does with the record under the cursor: move on (with a
    possibly updated lastKey), give up (bound reached: the iterator turns
    invalid), or stop at it. *)
Inductive verdict1 := VSkip (last : bytes) | VStop | VEmit.

Definition judge (c : cfg) (now readTs : N) (o : topts) (last : bytes) (x : rec) : verdict1 :=
  let '(cf, u) := split_base (r_key x) in
  if fix_txn_cf c && negb (cf =? cf_default) then VSkip last
  else if nonempty (o_lower o) && bytes_ltb u (o_lower o) then (if o_rev o then VStop else VSkip last)
  else if nonempty (o_upper o) && bytes_leb (o_upper o) u then (if o_rev o then VSkip last else VStop)
  else if readTs <? r_ver x then VSkip last
  else if (0 <? o_since o) && (r_ver x <=? o_since o) then VSkip last
  else if nonempty (o_prefix o)
          && negb (if o_pik o then bytes_eqb u (o_prefix o) else is_prefix (o_prefix o) u)
  then VSkip last
  else if negb (o_all o) && nonempty last && bytes_eqb last u then VSkip last
  else if deadb now x then
    VSkip (if fix_tomb_last c && negb (o_all o) && negb (o_rev o) then u else last)
  else VEmit.

(** One call of [advance] on the records still to come: the item it stops at
    (None = invalid), the new lastKey, and what a following Next continues on. *)
Fixpoint adv (c : cfg) (now readTs : N) (o : topts) (last : bytes) (l : list rec)
  : option item * bytes * list rec :=
  match l with
  | [] => (None, last, [])
  | x :: l' =>
      match judge c now readTs o last x with
      | VSkip last' => adv c now readTs o last' l'
      | VStop => (None, last, l')
      | VEmit => (Some (mk_item x), snd (split_base (r_key x)), l')
      end
  end.

(** Next* until invalid. *)
Fixpoint collect_fuel (c : cfg) (now readTs : N) (o : topts) (fuel : nat) (last : bytes) (l : list rec) : list item :=
  match fuel with
  | O => []
  | S f =>
      match adv c now readTs o last l with
      | (Some it, last', rest) => it :: collect_fuel c now readTs o f last' rest
      | (None, _, _) => []
      end
  end.
Definition collect (c : cfg) (now readTs : N) (o : topts) (last : bytes) (l : list rec) : list item :=
  collect_fuel c now readTs o (S (length l)) last l.

(** The loop of the reverse-Seek fallback: skip items whose key is above the target. *)
Fixpoint skip_above (c : cfg) (now readTs : N) (o : topts) (key : bytes) (fuel : nat) (last : bytes) (l : list rec)
  : option item * bytes * list rec :=
  match fuel with
  | O => (None, last, [])
  | S f =>
      match adv c now readTs o last l with
      | (Some it, last', rest) =>
          if bytes_ltb key (i_key it) then skip_above c now readTs o key f last' rest
          else (Some it, last', rest)
      | r => r
      end
  end.

Definition txn_base (u : bytes) : bytes := enc_cf_key cf_default u.

Definition txn_list (c : cfg) (now : N) (s : state) (readTs : N) (pw : list rec) (o : topts) (a : action) : list item :=
  let rv := o_rev o in
  let st := txn_stream c s rv readTs pw in
  let go := collect c now readTs o in
  match a with
  | ARewind => go [] (st PRewind)
  | ASeek [] => go [] (st PRewind)
  | ASeek key =>
      if negb rv then
        if nonempty (o_upper o) && bytes_leb (o_upper o) key then []
        else
          let key := if nonempty (o_lower o) && bytes_ltb key (o_lower o) then o_lower o else key in
          go [] (st (PSeek (txn_base key) readTs))
      else
        if nonempty (o_lower o) && bytes_ltb key (o_lower o) then []
        else
          let key := if nonempty (o_upper o) && bytes_leb (o_upper o) key then o_upper o else key in
          let fallback (last : bytes) :=
            let l := st PRewind in
            match skip_above c now readTs o key (S (length l)) last l with
            | (Some it, last', rest) => it :: go last' rest
            | (None, _, _) => []
            end in
          match adv c now readTs o [] (st (PSeek (txn_base key) 0)) with
          | (Some it, last', rest) =>
              if bytes_ltb key (i_key it) then fallback last' else it :: go last' rest
          | (None, last', _) => fallback last'
          end
  end.

(** The code as it is now (after the repairs left in /repo, see /verif/fixes). *)
Definition current : cfg :=
  {| fix_imm_order := true; fix_tomb_last := true; fix_db_dead := true; fix_db_rseek := true;
     fix_txn_cf := true; fix_pend_cmp := true; fix_get_empty := true |}.

(** * Txn.Get (the point read the listings are compared with)

    Pending write first; otherwise LSM.Get at readTs (the greatest version <=
    readTs over every memtable and level, the first scanned copy winning ties);
    a tombstone or expired entry is not found.

    Before its repair ([fix_get_empty] off) Txn.Get also read
    [Value == nil && Meta == 0] as not found.  A copy served by a table went
    through kv.SafeCopy(nil, value), which turns an empty value into a nil
    slice, while a memtable keeps a non-nil empty slice; the memtables' best
    hit is replaced by a table's only on a strictly greater version, so the
    winner is a memtable's exactly when it has the version of the memtables'
    best. *)
Definition txn_get (c : cfg) (now : N) (s : state) (readTs : N) (pw : list rec) (bk : bytes) : option bytes :=
  match find (fun p => bytes_eqb (r_key p) bk) pw with
  | Some p => if deadb now p then None else Some (r_val p)
  | None =>
      let b1 := fold_left (mem_step bk readTs) (st_mem s :: map snd (rev (st_imms s))) None in
      match get s bk readTs with
      | Some r =>
          let from_mem := match b1 with Some b => r_ver b =? r_ver r | None => false end in
          if negb (fix_get_empty c) && negb from_mem && negb (nonempty (r_val r)) && (r_meta r =? 0) then None
          else if deadb now r then None else Some (r_val r)
      | None => None
      end
  end.

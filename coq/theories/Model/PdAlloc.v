(** Model of the PD allocators and their checkpoint
    (pd/server/service.go Tso / AllocID / persistAllocatorState,
    pd/tso/allocator.go, pd/core/id_allocator.go, pd/storage/local.go
    SaveAllocatorState, pd/storage/storage.go ResolveAllocatorStarts) as a
    transition system on Base/Sched.v, with process crashes and restarts as
    labels.

    Shared state: the two counters (atomic), the checkpoint file, the service's
    [persistMu].  A request thread runs
      [Reserve n]  (atomic add on its counter)
      [persistMu.Lock]        — only in the repaired code ([fixed = true])
      [load ids.Current] [load tso.Current]
      [SaveAllocatorState id ts]  (write tmp + rename under the store's mutex:
                                   one atomic replacement of the file; unlock)
      respond (first, count).
    [fixed = false] is the code before the repair (fixes/C27-pd-checkpoint.md):
    the counters were read without any mutex.

    A [Crash] label kills the process at the current state (the file keeps its
    last completed replacement), and starts a new incarnation with start flags
    [(id_start, ts_start)] and a new set of requests; the counters restart at
    [ResolveAllocatorStarts flags checkpoint].

    Ghost state (not in the code): the reservation logs of the current
    incarnation, the responses given in this and in earlier incarnations.

    Counters are uint64 in the code.  A [Reserve] that would take a counter
    above 2^64-2 is disabled in the model: exhausting the 64-bit space is
    outside the model (and so [ResolveAllocatorStarts]' saturation branch at
    MaxUint64 is modelled but never decisive).  No proofs in this file. *)
From Coq Require Import List NArith Bool.
From NoKV Require Import Base.Sched Model.SchedLib.
Import ListNotations.
Local Open Scope N_scope.

Definition max_u64 : N := 18446744073709551615.

Inductive kind := KId | KTs.
Record req := { r_kind : kind; r_count : N }.      (* count as sent; 0 means 1 *)

Definition eff_count (r : req) : N := if r_count r =? 0 then 1 else r_count r.

Inductive pc :=
| PReserve
| PLock (first : N)
| PLoadId (first : N)
| PLoadTs (first id : N)
| PSave (first id ts : N)
| PDone (first : N)
| PFail (first : N).       (* the checkpoint write failed: the request returned an error, nothing was responded *)

Record thread := { th_req : req; th_pc : pc }.

Record gstate := {
  g_ids : N;                      (* IDAllocator.next  = last allocated id *)
  g_tso : N;                      (* Allocator.counter = last allocated ts *)
  g_ck_id : N; g_ck_ts : N;       (* PD_STATE.json (0,0 when absent) *)
  g_mu : bool;                    (* persistMu held *)
  g_threads : list thread;
  (* ghost *)
  g_base_id : N; g_base_ts : N;   (* counters at the start of this incarnation *)
  g_log_id : list (N * N);        (* reservations (first, count) of this incarnation, newest first *)
  g_log_ts : list (N * N);
  g_resp : list (kind * N * N);   (* responses of this incarnation *)
  g_resp_old : list (kind * N * N)  (* responses of earlier incarnations *)
}.

Inductive label := Th (t : nat) | Crash (id_start ts_start : N) (reqs : list req).

(** NewIDAllocator / NewAllocator: first allocation is [start] (1 when 0) *)
Definition counter_of_start (start : N) : N := (if start =? 0 then 1 else start) - 1.

(** ResolveAllocatorStarts for one counter *)
Definition resolve (flag ck : N) : N :=
  let next := if ck <? max_u64 then ck + 1 else ck in
  if flag <? next then next else flag.

Definition threads_of (reqs : list req) : list thread :=
  map (fun r => {| th_req := r; th_pc := PReserve |}) reqs.

(** a process started on a directory whose checkpoint is [(ck_id, ck_ts)] *)
Definition boot (id_start ts_start ck_id ck_ts : N) (reqs : list req) (old : list (kind * N * N)) : gstate :=
  let i := counter_of_start (resolve id_start ck_id) in
  let t := counter_of_start (resolve ts_start ck_ts) in
  {| g_ids := i; g_tso := t; g_ck_id := ck_id; g_ck_ts := ck_ts; g_mu := false;
     g_threads := threads_of reqs;
     g_base_id := i; g_base_ts := t; g_log_id := []; g_log_ts := [];
     g_resp := []; g_resp_old := old |}.

(** first start on an empty directory *)
Definition init (id_start ts_start : N) (reqs : list req) : gstate :=
  boot id_start ts_start 0 0 reqs [].

Section Variant.
  Variable fixed : bool.
  (** requests whose checkpoint write fails (I/O error in SaveAllocatorState before anything is
      written: the file keeps its content, the request returns an error instead of a response) *)
  Variable failing : nat -> bool.

  Definition set_thread (g : gstate) (t : nat) (th : thread) (p : pc) : list thread :=
    set_nth t {| th_req := th_req th; th_pc := p |} (g_threads g).

  Definition thread_step (g : gstate) (t : nat) (th : thread) : option gstate :=
    let r := th_req th in
    let n := eff_count r in
    match th_pc th with
    | PReserve =>
        let cur := match r_kind r with KId => g_ids g | KTs => g_tso g end in
        if max_u64 - 1 <? cur + n then None else
        let first := cur + 1 in
        let p := if fixed then PLock first else PLoadId first in
        Some match r_kind r with
             | KId => {| g_ids := cur + n; g_tso := g_tso g; g_ck_id := g_ck_id g; g_ck_ts := g_ck_ts g;
                         g_mu := g_mu g; g_threads := set_thread g t th p;
                         g_base_id := g_base_id g; g_base_ts := g_base_ts g;
                         g_log_id := (first, n) :: g_log_id g; g_log_ts := g_log_ts g;
                         g_resp := g_resp g; g_resp_old := g_resp_old g |}
             | KTs => {| g_ids := g_ids g; g_tso := cur + n; g_ck_id := g_ck_id g; g_ck_ts := g_ck_ts g;
                         g_mu := g_mu g; g_threads := set_thread g t th p;
                         g_base_id := g_base_id g; g_base_ts := g_base_ts g;
                         g_log_id := g_log_id g; g_log_ts := (first, n) :: g_log_ts g;
                         g_resp := g_resp g; g_resp_old := g_resp_old g |}
             end
    | PLock first =>
        if g_mu g then None else
        Some {| g_ids := g_ids g; g_tso := g_tso g; g_ck_id := g_ck_id g; g_ck_ts := g_ck_ts g;
                g_mu := true; g_threads := set_thread g t th (PLoadId first);
                g_base_id := g_base_id g; g_base_ts := g_base_ts g;
                g_log_id := g_log_id g; g_log_ts := g_log_ts g;
                g_resp := g_resp g; g_resp_old := g_resp_old g |}
    | PLoadId first =>
        Some {| g_ids := g_ids g; g_tso := g_tso g; g_ck_id := g_ck_id g; g_ck_ts := g_ck_ts g;
                g_mu := g_mu g; g_threads := set_thread g t th (PLoadTs first (g_ids g));
                g_base_id := g_base_id g; g_base_ts := g_base_ts g;
                g_log_id := g_log_id g; g_log_ts := g_log_ts g;
                g_resp := g_resp g; g_resp_old := g_resp_old g |}
    | PLoadTs first id =>
        Some {| g_ids := g_ids g; g_tso := g_tso g; g_ck_id := g_ck_id g; g_ck_ts := g_ck_ts g;
                g_mu := g_mu g; g_threads := set_thread g t th (PSave first id (g_tso g));
                g_base_id := g_base_id g; g_base_ts := g_base_ts g;
                g_log_id := g_log_id g; g_log_ts := g_log_ts g;
                g_resp := g_resp g; g_resp_old := g_resp_old g |}
    | PSave first id ts =>
        if failing t then
          Some {| g_ids := g_ids g; g_tso := g_tso g; g_ck_id := g_ck_id g; g_ck_ts := g_ck_ts g;
                  g_mu := if fixed then false else g_mu g;
                  g_threads := set_thread g t th (PFail first);
                  g_base_id := g_base_id g; g_base_ts := g_base_ts g;
                  g_log_id := g_log_id g; g_log_ts := g_log_ts g;
                  g_resp := g_resp g; g_resp_old := g_resp_old g |}
        else
        (* file replaced; deferred persistMu.Unlock; the response is returned *)
        Some {| g_ids := g_ids g; g_tso := g_tso g; g_ck_id := id; g_ck_ts := ts;
                g_mu := if fixed then false else g_mu g;
                g_threads := set_thread g t th (PDone first);
                g_base_id := g_base_id g; g_base_ts := g_base_ts g;
                g_log_id := g_log_id g; g_log_ts := g_log_ts g;
                g_resp := (r_kind r, first, n) :: g_resp g; g_resp_old := g_resp_old g |}
    | PDone _ | PFail _ => None
    end.

  Definition tstep (g : gstate) (l : label) : option gstate :=
    match l with
    | Th t => match nth_error (g_threads g) t with
              | Some th => thread_step g t th
              | None => None
              end
    | Crash id_start ts_start reqs =>
        if (max_u64 <? id_start) || (max_u64 <? ts_start) then None else
        Some (boot id_start ts_start (g_ck_id g) (g_ck_ts g) reqs (g_resp g ++ g_resp_old g))
    end.
End Variant.

Definition counter (g : gstate) (k : kind) : N := match k with KId => g_ids g | KTs => g_tso g end.
Definition ckpt (g : gstate) (k : kind) : N := match k with KId => g_ck_id g | KTs => g_ck_ts g end.
Definition base (g : gstate) (k : kind) : N := match k with KId => g_base_id g | KTs => g_base_ts g end.
Definition rlog (g : gstate) (k : kind) : list (N * N) := match k with KId => g_log_id g | KTs => g_log_ts g end.

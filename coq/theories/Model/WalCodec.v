(** wal/record.go: EncodeRecord / DecodeRecord.

      | length (4B BE) | type (1B) | payload | crc32c(type ++ payload) (4B BE) |

    [DecodeRecord] reads from a stream; the model takes the remaining bytes of
    the stream and returns the remaining bytes after the record.  This is the
    code *after* the repair fixes/wal-partial-header.md: 1..3 header bytes are
    a partial record (before: reported as a clean EOF). *)
From Coq Require Import List NArith Bool.
From Coq Require Import Init.Byte.
From NoKV Require Import Base.Bytes Base.Num Base.Crc32c.
Import ListNotations.
Local Open Scope N_scope.

(** EncodeRecord: [length := uint32(len(payload)+1)] wraps. *)
Definition enc_record (ty : byte) (p : bytes) : bytes :=
  be32 (blen p + 1) ++ ty :: p ++ be32 (crc32c (ty :: p)).

Inductive dec_res :=
| DEof                                   (* io.EOF: no byte left *)
| DEmpty                                 (* utils.ErrEmptyRecord: length word is 0 *)
| DPartial                               (* utils.ErrPartialRecord *)
| DBadCrc                                (* kv.ErrBadChecksum *)
| DOk (ty : byte) (p : bytes) (len : N) (rest : bytes).

Definition decode_record (bs : bytes) : dec_res :=
  match rd_be32 bs with
  | None => match bs with [] => DEof | _ => DPartial end
  | Some len =>
      if len =? 0 then DEmpty else
      let r1 := drop 4 bs in
      if blen r1 <? len then DPartial else
      let buf := take len r1 in
      let r2 := drop len r1 in
      match rd_be32 r2 with
      | None => DPartial
      | Some crc =>
          if crc =? crc32c buf then
            match buf with
            | ty :: p => DOk ty p len (drop 4 r2)
            | [] => DEmpty
            end
          else DBadCrc
      end
  end.

(** What [DecodeRecord] passes to [make] before it has read the body: the
    declared length, whenever 4 header bytes are present and it is non-zero. *)
Definition decode_record_alloc (bs : bytes) : N :=
  match rd_be32 bs with
  | Some len => len
  | None => 0
  end.

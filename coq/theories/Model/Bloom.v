(** Model of utils/bloom.go: Hash, buildBloomFilter, BloomMayContain.
    Definitions only.

    [bitsPerKey] (utils.BloomBitsPerKey) and the probe count [k]
    (utils.BloomKForBitsPerKey) are produced by float64 arithmetic that is not
    modelled: they are inputs here (the harness reports the values the Go code
    computed).  All hash arithmetic is uint32 (mod 2^32). *)
From Coq Require Import List NArith Bool.
From Coq Require Import Init.Byte.
From NoKV Require Import Base.Bytes Base.Num.
Import ListNotations.
Local Open Scope N_scope.

Definition bloom_seed : N := 3164544308.   (* 0xbc9f1d34 *)
Definition bloom_m : N := 3332679571.      (* 0xc6a4a793 *)

(** the 4-byte loop of [Hash]; returns the running hash and the tail (< 4 bytes) *)
Fixpoint hash_loop (h : N) (b : bytes) : N * bytes :=
  match b with
  | b0 :: b1 :: b2 :: b3 :: rest =>
      let h1 := u32 (h + (b2n b0 + b2n b1 * two8 + b2n b2 * two16 + b2n b3 * two24)) in
      let h2 := u32 (h1 * bloom_m) in
      hash_loop (N.lxor h2 (h2 / two16)) rest
  | _ => (h, b)
  end.

Definition hash_tail (h : N) (b : bytes) : N :=
  let fin (h : N) := let h2 := u32 (h * bloom_m) in N.lxor h2 (h2 / two24) in
  match b with
  | [b0; b1; b2] => fin (u32 (u32 (u32 (h + b2n b2 * two16) + b2n b1 * two8) + b2n b0))
  | [b0; b1] => fin (u32 (u32 (h + b2n b1 * two8) + b2n b0))
  | [b0] => fin (u32 (h + b2n b0))
  | _ => h
  end.

(** utils.Hash *)
Definition hash (b : bytes) : N :=
  let h0 := N.lxor bloom_seed (u32 (u32 (blen b) * bloom_m)) in
  let '(h, tl) := hash_loop h0 b in
  hash_tail h tl.

(** [h>>17 | h<<15] on uint32 *)
Definition bloom_delta (h : N) : N := N.lor (h / 131072) (u32 (h * 32768)).

(** the bit positions probed for hash [h]: [k] probes, [h += delta] each time *)
Fixpoint probes (k : nat) (h delta nbits : N) : list N :=
  match k with
  | O => []
  | S k' => (h mod nbits) :: probes k' (u32 (h + delta)) delta nbits
  end.

Definition probes_of (k : nat) (h nbits : N) : list N := probes k h (bloom_delta h) nbits.

Fixpoint upd_nth {A} (n : nat) (f : A -> A) (l : list A) : list A :=
  match l, n with
  | [], _ => []
  | x :: l', O => f x :: l'
  | x :: l', S n' => x :: upd_nth n' f l'
  end.

(** [filter[pos/8] |= 1 << (pos%8)] *)
Definition set_bit (body : bytes) (pos : N) : bytes :=
  upd_nth (N.to_nat (pos / 8)) (fun b => n2b (N.lor (b2n b) (N.shiftl 1 (pos mod 8)))) body.

(** [filter[pos/8] & (1 << (pos%8)) != 0] *)
Definition get_bit (body : bytes) (pos : N) : bool :=
  match nth_error body (N.to_nat (pos / 8)) with
  | Some b => N.testbit (b2n b) (pos mod 8)
  | None => false
  end.

Definition bloom_nbytes (nkeys bpk : N) : N := (N.max (nkeys * bpk) 64 + 7) / 8.

Definition insert_hash (k : nat) (nbits : N) (body : bytes) (h : N) : bytes :=
  fold_left set_bit (probes_of k h nbits) body.

(** buildBloomFilter(keys, bitsPerKey) with the probe count [k] as an input *)
Definition build_bloom (hs : list N) (bpk k : N) : bytes :=
  let nbytes := bloom_nbytes (N.of_nat (length hs)) bpk in
  let nbits := nbytes * 8 in
  fold_left (insert_hash (N.to_nat k) nbits) hs (repeat x00 (N.to_nat nbytes)) ++ [n2b k].

(** BloomMayContain(filter, h) *)
Definition may_contain (filter : bytes) (h : N) : bool :=
  if blen filter <? 2 then false
  else
    let k := b2n (last filter x00) in
    if 30 <? k then true
    else
      let body := removelast filter in
      let nbits := 8 * (blen filter - 1) in
      forallb (get_bit body) (probes_of (N.to_nat k) h nbits).

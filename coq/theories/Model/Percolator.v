(** Model of [percolator/reader.go] and [percolator/txn.go] over the *ideal*
    MVCC store interface (C17, C18, C19, C28).

    The store is three column families (default, lock, write).  Each is a map
    from (user key, version) to an entry, where an entry is either a value or
    a tombstone ([None]; written by [DeleteVersionedEntry]).  It is accessed
    only through [get_versioned] (newest entry with version <= v, tombstones
    included), [set_versioned], [delete_versioned] and the ordered iterator
    ([vm_rows m k] = the versions of one user key, newest first, which is what
    [iter.Seek(InternalKey(cf,k,MaxUint64))] followed by [Next] while the user
    key is unchanged yields; [vm_groups] = all user keys in ascending order,
    each with its versions newest first, which is the order of the full
    iterator).  The LSM under this interface is another family's model.

    Lock and write records are abstract records (their byte codec is C16).
    [ShortValue] is never written by this code and is not modelled.

    The code is modelled as it is in the working tree.  Three functions were
    repaired (see /verif/fixes/percolator-*.md); a [cfg] record selects, for
    each repair, the code before ([false]) or after ([true]) it, so that the
    refutation witnesses of the old code stay checkable.  [current] is the
    working tree.  Definitions only, no proofs. *)
From Coq Require Import List NArith Bool.
From NoKV Require Import Base.Bytes.
Import ListNotations.
Local Open Scope N_scope.

Definition max_u64 : N := 18446744073709551615.
Definition wrap64 (n : N) : N := n mod 18446744073709551616.

(** * The ideal versioned map *)
Section VMap.
  Context {A : Type}.

  (** versions of one user key, newest (largest version) first; [None] = tombstone *)
  Definition rows := list (N * option A).
  (** user keys in ascending [bytes.Compare] order *)
  Definition vmap := list (bytes * rows).

  Fixpoint rows_set (rs : rows) (v : N) (e : option A) : rows :=
    match rs with
    | [] => [(v, e)]
    | (v', e') :: rs' =>
        if v' <? v then (v, e) :: rs
        else if v' =? v then (v, e) :: rs'
        else (v', e') :: rows_set rs' v e
    end.

  (** newest entry with version <= v *)
  Fixpoint rows_get (rs : rows) (v : N) : option (N * option A) :=
    match rs with
    | [] => None
    | (v', e') :: rs' => if v' <=? v then Some (v', e') else rows_get rs' v
    end.

  Fixpoint vm_rows (m : vmap) (k : bytes) : rows :=
    match m with
    | [] => []
    | (k', rs) :: m' => if bytes_eqb k k' then rs else vm_rows m' k
    end.

  Fixpoint vm_has (m : vmap) (k : bytes) : bool :=
    match m with
    | [] => false
    | (k', _) :: m' => bytes_eqb k k' || vm_has m' k
    end.

  Fixpoint vm_replace (m : vmap) (k : bytes) (f : rows -> rows) : vmap :=
    match m with
    | [] => []
    | (k', rs) :: m' => if bytes_eqb k k' then (k', f rs) :: m' else (k', rs) :: vm_replace m' k f
    end.

  Fixpoint vm_insert (m : vmap) (k : bytes) (rs : rows) : vmap :=
    match m with
    | [] => [(k, rs)]
    | (k', rs') :: m' => if bytes_ltb k k' then (k, rs) :: m else (k', rs') :: vm_insert m' k rs
    end.

  Definition vm_upd (m : vmap) (k : bytes) (f : rows -> rows) : vmap :=
    if vm_has m k then vm_replace m k f else vm_insert m k (f []).

  Definition set_versioned (m : vmap) (k : bytes) (v : N) (a : A) : vmap :=
    vm_upd m k (fun rs => rows_set rs v (Some a)).
  Definition delete_versioned (m : vmap) (k : bytes) (v : N) : vmap :=
    vm_upd m k (fun rs => rows_set rs v None).
  Definition get_versioned (m : vmap) (k : bytes) (v : N) : option (N * option A) :=
    rows_get (vm_rows m k) v.

  (** the full iterator: user keys ascending, versions descending; the DB
      iterator ([DBIterator.materialize]) does not show tombstones *)
  Definition live_rows (rs : rows) : list (N * A) :=
    flat_map (fun '(v, e) => match e with Some a => [(v, a)] | None => [] end) rs.
  Definition vm_groups (m : vmap) : list (bytes * list (N * A)) :=
    map (fun '(k, rs) => (k, live_rows rs)) m.
End VMap.
Arguments rows : clear implicits.
Arguments vmap : clear implicits.

(** * Records *)
Inductive op := OpPut | OpDelete | OpLock | OpRollback.

Definition op_eqb (a b : op) : bool :=
  match a, b with
  | OpPut, OpPut | OpDelete, OpDelete | OpLock, OpLock | OpRollback, OpRollback => true
  | _, _ => false
  end.

Record lockrec := { l_primary : bytes; l_ts : N; l_ttl : N; l_kind : op; l_min_commit : N }.
Record writerec := { w_kind : op; w_start : N }.

Record store := { s_default : vmap bytes; s_lock : vmap lockrec; s_write : vmap writerec }.
Definition empty_store : store := {| s_default := []; s_lock := []; s_write := [] |}.

(** which repairs are in effect *)
Record cfg := {
  fix_read : bool;      (* F17: reads skip rollback / lock-only records; scan uses the same rule as get *)
  fix_commit : bool;    (* F18: Commit with the lock gone fails on a rollback record *)
  fix_rollback : bool   (* rollbackKey removes the lock only if it belongs to the transaction rolled back *)
}.
Definition current : cfg := {| fix_read := true; fix_commit := true; fix_rollback := true |}.
Definition legacy : cfg := {| fix_read := false; fix_commit := false; fix_rollback := false |}.

(** * reader.go *)

(** [GetLock]: entry at the fixed version [lockColumnTs = MaxUint64]; a
    tombstone (or nil value) means no lock. *)
Definition get_lock (s : store) (k : bytes) : option lockrec :=
  match get_versioned (s_lock s) k max_u64 with
  | Some (_, Some l) => Some l
  | _ => None
  end.

(** [scanWrites] visits the write records of [k] newest first, skipping
    tombstones; the three callers are its three callbacks. *)

(** [MostRecentWrite] *)
Fixpoint most_recent_write_loop (rs : rows writerec) (best : option (writerec * N)) : option (writerec * N) :=
  match rs with
  | [] => best
  | (_, None) :: rs' => most_recent_write_loop rs' best
  | (ts, Some w) :: rs' =>
      most_recent_write_loop rs'
        (match best with
         | None => Some (w, ts)
         | Some (_, c) => if c <? ts then Some (w, ts) else best
         end)
  end.
Definition most_recent_write (s : store) (k : bytes) : option (writerec * N) :=
  most_recent_write_loop (vm_rows (s_write s) k) None.

(** [GetWriteByStartTs]: stops at the first record with that start ts, and
    gives up once the commit ts falls below the start ts. *)
Fixpoint get_write_by_start_loop (rs : rows writerec) (start : N) : option (writerec * N) :=
  match rs with
  | [] => None
  | (_, None) :: rs' => get_write_by_start_loop rs' start
  | (ts, Some w) :: rs' =>
      if w_start w =? start then Some (w, ts)
      else if ts <? start then None
      else get_write_by_start_loop rs' start
  end.
Definition get_write_by_start_ts (s : store) (k : bytes) (start : N) : option (writerec * N) :=
  get_write_by_start_loop (vm_rows (s_write s) k) start.

(** [getWriteForRead] *)
Fixpoint get_write_for_read_loop (c : cfg) (rs : rows writerec) (read_ts : N)
         (best : option (writerec * N)) : option (writerec * N) :=
  match rs with
  | [] => best
  | (_, None) :: rs' => get_write_for_read_loop c rs' read_ts best
  | (ts, Some w) :: rs' =>
      if fix_read c && (op_eqb (w_kind w) OpRollback || op_eqb (w_kind w) OpLock)
      then get_write_for_read_loop c rs' read_ts best
      else get_write_for_read_loop c rs' read_ts
             (if (ts <=? read_ts) &&
                 match best with None => true | Some (_, ct) => ct <? ts end
              then Some (w, ts) else best)
  end.
Definition get_write_for_read (c : cfg) (s : store) (k : bytes) (read_ts : N) : option (writerec * N) :=
  get_write_for_read_loop c (vm_rows (s_write s) k) read_ts None.

(** [GetValue]; [None] = [ErrKeyNotFound].  A nil value and an empty value
    are the same thing at this interface. *)
Definition is_nil (v : bytes) : bool := match v with [] => true | _ => false end.

Definition get_value (c : cfg) (s : store) (k : bytes) (read_ts : N) : option bytes :=
  match get_write_for_read c s k read_ts with
  | None => None
  | Some (w, _) =>
      match w_kind w with
      | OpDelete | OpRollback => None
      | _ =>
          match get_versioned (s_default s) k (w_start w) with
          | None => None
          | Some (_, None) => None
          | Some (_, Some v) => if is_nil v then None else Some v
          end
      end
  end.

(** * txn.go *)

Inductive abort := AbUnsupportedOp | AbLockNotFound | AbRolledBack | AbEmptyKey.

Inductive key_error :=
| KELocked (key : bytes) (l : lockrec)
| KEConflict (key primary : bytes) (conflict_ts start_ts commit_ts : N)
| KEAbort (a : abort)
| KECommitTsExpired (key : bytes) (commit_ts min_commit : N)
| KERetryable.    (* a DB write was refused (only in Model/PercolatorFault.v; the ideal store never refuses) *)

Record mutation := { m_op : op; m_key : bytes; m_val : bytes }.

Definition put_lock (s : store) (k : bytes) (l : lockrec) : store :=
  {| s_default := s_default s; s_lock := set_versioned (s_lock s) k max_u64 l; s_write := s_write s |}.
Definition del_lock (s : store) (k : bytes) : store :=
  {| s_default := s_default s; s_lock := delete_versioned (s_lock s) k max_u64; s_write := s_write s |}.
Definition put_default (s : store) (k : bytes) (v : N) (x : bytes) : store :=
  {| s_default := set_versioned (s_default s) k v x; s_lock := s_lock s; s_write := s_write s |}.
Definition del_default (s : store) (k : bytes) (v : N) : store :=
  {| s_default := delete_versioned (s_default s) k v; s_lock := s_lock s; s_write := s_write s |}.
Definition put_write (s : store) (k : bytes) (v : N) (w : writerec) : store :=
  {| s_default := s_default s; s_lock := s_lock s; s_write := set_versioned (s_write s) k v w |}.

(** [prewriteMutation] *)
Definition prewrite_mutation (s : store) (primary : bytes) (start ttl min_commit : N) (m : mutation)
  : store * option key_error :=
  let k := m_key m in
  if is_nil k then (s, Some (KEAbort AbEmptyKey)) else
  match (match get_lock s k with
         | Some l => if l_ts l =? start then None else Some l
         | None => None
         end) with
  | Some l => (s, Some (KELocked k l))
  | None =>
      match (match most_recent_write s k with
             | Some (w, ct) => if start <=? ct then Some (w, ct) else None
             | None => None
             end) with
      | Some (w, ct) => (s, Some (KEConflict k primary ct (w_start w) start))
      | None =>
          match m_op m with
          | OpRollback => (s, Some (KEAbort AbUnsupportedOp))
          | o =>
              let s1 := del_default s k start in
              let s2 := match o with OpPut => put_default s1 k start (m_val m) | _ => s1 end in
              (put_lock s2 k {| l_primary := primary; l_ts := start; l_ttl := ttl;
                                l_kind := o; l_min_commit := min_commit |}, None)
          end
      end
  end.

(** [Prewrite]: every mutation is attempted; errors are collected *)
Fixpoint prewrite (s : store) (primary : bytes) (start ttl min_commit : N) (ms : list mutation)
  : store * list key_error :=
  match ms with
  | [] => (s, [])
  | m :: ms' =>
      let '(s1, e) := prewrite_mutation s primary start ttl min_commit m in
      let '(s2, es) := prewrite s1 primary start ttl min_commit ms' in
      (s2, match e with Some x => x :: es | None => es end)
  end.

(** [commitKey] *)
Definition commit_key (s : store) (k : bytes) (l : lockrec) (commit_version : N) : store * option key_error :=
  if commit_version <? l_min_commit l then (s, Some (KECommitTsExpired k commit_version (l_min_commit l)))
  else
    match get_write_by_start_ts s k (l_ts l) with
    | Some (w, ct) =>
        if op_eqb (w_kind w) OpRollback then (s, Some (KEAbort AbRolledBack))
        else (del_lock s k, None)      (* own commit record exists: finish the step, remove the lock *)
    | None =>
        (del_lock (put_write s k commit_version {| w_kind := l_kind l; w_start := l_ts l |}) k, None)
    end.

(** [rollbackKey] *)
Definition rollback_key (c : cfg) (s : store) (k : bytes) (start : N) : store * option key_error :=
  match get_write_by_start_ts s k start with
  | Some _ => (s, None)
  | None =>
      let s1 :=
        if fix_rollback c then
          match get_lock s k with
          | Some l => if l_ts l =? start then del_lock s k else s
          | None => s
          end
        else del_lock s k in
      (put_write (del_default s1 k start) k start {| w_kind := OpRollback; w_start := start |}, None)
  end.

(** [Commit]: keys in request order, stops at the first error *)
Fixpoint commit (c : cfg) (s : store) (keys : list bytes) (start commit_version : N) : store * option key_error :=
  match keys with
  | [] => (s, None)
  | k :: keys' =>
      if is_nil k then (s, Some (KEAbort AbEmptyKey)) else
      match get_lock s k with
      | None =>
          match get_write_by_start_ts s k start with
          | Some (w, _) =>
              if fix_commit c && op_eqb (w_kind w) OpRollback then (s, Some (KEAbort AbRolledBack))
              else commit c s keys' start commit_version
          | None => (s, Some (KEAbort AbLockNotFound))
          end
      | Some l =>
          if l_ts l =? start then
            match commit_key s k l commit_version with
            | (s1, None) => commit c s1 keys' start commit_version
            | r => r
            end
          else (s, Some (KELocked k l))
      end
  end.

(** [BatchRollback] *)
Fixpoint batch_rollback (c : cfg) (s : store) (keys : list bytes) (start : N) : store * option key_error :=
  match keys with
  | [] => (s, None)
  | k :: keys' =>
      if is_nil k then (s, Some (KEAbort AbEmptyKey)) else
      match rollback_key c s k start with
      | (s1, None) => batch_rollback c s1 keys' start
      | r => r
      end
  end.

(** [ResolveLock] *)
Fixpoint resolve_lock (c : cfg) (s : store) (keys : list bytes) (start commit_version : N) (resolved : N)
  : store * N * option key_error :=
  match keys with
  | [] => (s, resolved, None)
  | k :: keys' =>
      if is_nil k then resolve_lock c s keys' start commit_version resolved else
      match get_lock s k with
      | Some l =>
          if l_ts l =? start then
            match (if commit_version =? 0 then rollback_key c s k start else commit_key s k l commit_version) with
            | (s1, None) => resolve_lock c s1 keys' start commit_version (resolved + 1)
            | (s1, Some e) => (s1, resolved, Some e)
            end
          else resolve_lock c s keys' start commit_version resolved
      | None => resolve_lock c s keys' start commit_version resolved
      end
  end.

(** [isLockExpired]; [lock.Ts + lock.TTL] is Go's wrapping uint64 addition *)
Definition is_lock_expired (l : lockrec) (current_ts : N) : bool :=
  if l_ttl l =? 0 then false else wrap64 (l_ts l + l_ttl l) <=? current_ts.

Inductive action := ActNone | ActTTLExpireRollback | ActLockNotExistRollback | ActMinCommitPushed.

Record check_result := { cr_error : option key_error; cr_action : action; cr_ttl : N; cr_commit : N }.
Definition cr_ok (a : action) (ttl cv : N) : check_result :=
  {| cr_error := None; cr_action := a; cr_ttl := ttl; cr_commit := cv |}.
Definition cr_err (e : key_error) : check_result :=
  {| cr_error := Some e; cr_action := ActNone; cr_ttl := 0; cr_commit := 0 |}.

(** [CheckTxnStatus] *)
Definition check_txn_status (c : cfg) (s : store) (primary : bytes) (lock_ts current_ts caller_start : N)
           (rollback_if_not_exist : bool) : store * check_result :=
  match get_lock s primary with
  | Some l =>
      if negb (l_ts l =? lock_ts) then (s, cr_err (KELocked primary l))
      else
      match (match get_write_by_start_ts s primary lock_ts with
             | Some (w, ct) => if op_eqb (w_kind w) OpRollback then None else Some ct
             | None => None
             end) with
      | Some ct => (del_lock s primary, cr_ok ActNone 0 ct)   (* committed, lock left behind: remove it *)
      | None =>
      if is_lock_expired l current_ts then
        match rollback_key c s primary lock_ts with
        | (s1, None) => (s1, cr_ok ActTTLExpireRollback 0 0)
        | (s1, Some e) => (s1, cr_err e)
        end
      else if (0 <? caller_start) && (l_min_commit l <? wrap64 (caller_start + 1)) then
        let l' := {| l_primary := l_primary l; l_ts := l_ts l; l_ttl := l_ttl l; l_kind := l_kind l;
                     l_min_commit := wrap64 (caller_start + 1) |} in
        (put_lock s primary l', cr_ok ActMinCommitPushed (l_ttl l) 0)
      else (s, cr_ok ActNone (l_ttl l) 0)
      end
  | None =>
      match get_write_by_start_ts s primary lock_ts with
      | Some (w, ct) =>
          if op_eqb (w_kind w) OpRollback then (s, cr_ok ActLockNotExistRollback 0 0)
          else (s, cr_ok ActNone 0 ct)
      | None =>
          if rollback_if_not_exist then
            match rollback_key c s primary lock_ts with
            | (s1, None) => (s1, cr_ok ActLockNotExistRollback 0 0)
            | (s1, Some e) => (s1, cr_err e)
            end
          else (s, cr_ok ActNone 0 0)
      end
  end.

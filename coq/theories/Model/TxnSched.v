(** Transition system of the transaction oracle under thread interleaving
    (property C05), on [Base.Sched].

    Threads run one transaction each: begin, read some keys, buffer writes,
    commit.  One [tstep] is the region between two yield points:

      oracle.readTs.lock      before o.Lock() in beginRead
      oracle.readTs.wait      before txnMark.WaitForMark
      h.get                   (harness) before every Txn.Get
      oracle.newCommitTs.lock before o.Lock() in newCommitTs
      oracle.doneCommit       before txnMark.Done

    [fixed = true] (the code after fixes/txn-active-reads.md): the read
    timestamp is chosen and the reader registered in one critical section.
    [fixed = false] (before): nextTxnTs is loaded, then txnMark.LastIndex(),
    then readMark.Begin is called, each a separate step and none under the
    mutex; pruning uses readMark.DoneUntil().

    WaterMark.Begin/Done/DoneUntil/WaitForMark are atomic (their internals are
    property C32); the oracle state and its operations are those of
    [Model.TxnOracle].  The application of a commit's entries to the store is
    one step per entry.  Definitions only. *)
From Coq Require Import List NArith ZArith Bool.
From NoKV Require Import Base.Bytes Spec.SerialSpec Model.TxnOracle.
Import ListNotations.
Local Open Scope N_scope.

Record tprog := { p_reads : list bytes; p_writes : kvs }.

Inductive cres := CNone | CConflict | COk (ts : N).

Inductive tpc :=
| PNew (p : tprog)
| PLoad1 (p : tprog) (n : N)                 (* legacy: nextTxnTs-1 loaded *)
| PLoad2 (p : tprog) (r : N)                 (* legacy: min with LastIndex taken; readMark.Begin next *)
| PWait (r : N) (p : tprog)
| PRead (r : N) (todo : list bytes) (fps : list N) (obs : kvs) (ws : kvs)
| PCommit (r : N) (fps : list N) (obs : kvs) (ws : kvs)
| PApply (r : N) (obs : kvs) (ts : N) (todo : kvs) (ws : kvs)
| PFin (r : N) (obs : kvs) (res : cres).

Record sstate := {
  s_orc : oracle;
  s_store : store;
  s_threads : N -> tpc;
  s_issued : list (N * kvs) }.              (* ghost: every commit timestamp issued, with its writes *)

Section Model.
  Variable fixed : bool.
  Variable fp : bytes -> N.
  Variable c : cfg.

  Definition set_thread (f : N -> tpc) (t : N) (pc : tpc) : N -> tpc :=
    fun j => if j =? t then pc else f j.

  Definition upd (s : sstate) (o : oracle) (st : store) (t : N) (pc : tpc) (iss : list (N * kvs)) : sstate :=
    {| s_orc := o; s_store := st; s_threads := set_thread (s_threads s) t pc; s_issued := iss |}.

  Definition mk_txn (r : N) (fps : list N) : txn :=
    {| t_update := true; t_readts := r; t_reads := fps; t_ckeys := []; t_pending := [];
       t_discarded := false; t_doneread := false; t_count := 0; t_size := 0; t_log := [] |}.

  (** what the thread does after its reads: commit, or (no writes) finish *)
  Definition after_reads (s : sstate) (t r : N) (fps : list N) (obs ws : kvs) : sstate :=
    match ws with
    | [] => (* Commit with no writes returns nil; Discard releases the registration *)
        upd s (orc_done_read t r (s_orc s)) (s_store s) t (PFin r obs CNone) (s_issued s)
    | _ => upd s (s_orc s) (s_store s) t (PCommit r fps obs ws) (s_issued s)
    end.

  Definition tstep (s : sstate) (t : N) : option sstate :=
    match s_threads s t with
    | PNew p =>
        if fixed then
          let r := read_ts (s_orc s) in
          Some (upd s (orc_register true t r (s_orc s)) (s_store s) t (PWait r p) (s_issued s))
        else Some (upd s (s_orc s) (s_store s) t (PLoad1 p (o_next (s_orc s) - 1)) (s_issued s))
    | PLoad1 p n =>
        Some (upd s (s_orc s) (s_store s) t (PLoad2 p (N.min n (wm_last (o_txnmark (s_orc s))))) (s_issued s))
    | PLoad2 p r =>
        Some (upd s (orc_register false t r (s_orc s)) (s_store s) t (PWait r p) (s_issued s))
    | PWait r p =>
        if r <=? wm_done (o_txnmark (s_orc s)) then
          match p_reads p with
          | [] => Some (after_reads s t r [] [] (p_writes p))
          | _ => Some (upd s (s_orc s) (s_store s) t (PRead r (p_reads p) [] [] (p_writes p)) (s_issued s))
          end
        else None
    | PRead r [] fps obs ws => Some (after_reads s t r fps obs ws)
    | PRead r (k :: todo) fps obs ws =>
        let obs' := (k, read_at (s_store s) k r) :: obs in
        let fps' := fp k :: fps in
        match todo with
        | [] => Some (after_reads s t r fps' obs' ws)
        | _ => Some (upd s (s_orc s) (s_store s) t (PRead r todo fps' obs' ws) (s_issued s))
        end
    | PCommit r fps obs ws =>
        if has_conflict (s_orc s) (mk_txn r fps) then
          Some (upd s (orc_done_read t r (s_orc s)) (s_store s) t (PFin r obs CConflict) (s_issued s))
        else
          let o1 := orc_cleanup fixed c (orc_done_read t r (s_orc s)) in
          let keys := if cf_detect c then map (fun kv => fp (fst kv)) ws else [] in
          let '(o2, ts) := orc_issue c keys o1 in
          Some (upd s o2 (s_store s) t (PApply r obs ts ws ws) ((ts, ws) :: s_issued s))
    | PApply r obs ts (kv :: todo) ws =>
        Some (upd s (s_orc s) ({| se_key := fst kv; se_ver := ts; se_val := snd kv |} :: s_store s) t
                  (PApply r obs ts todo ws) (s_issued s))
    | PApply r obs ts [] ws =>
        Some (upd s (orc_done_commit ts (s_orc s)) (s_store s) t (PFin r obs (COk ts)) (s_issued s))
    | PFin _ _ _ => None
    end.

  Definition s_init (progs : N -> tprog) : sstate :=
    {| s_orc := orc_new; s_store := []; s_threads := fun t => PNew (progs t); s_issued := [] |}.

  (** the read timestamp of a thread that has left readTs (passed the wait) *)
  Definition left_readts (pc : tpc) : option N :=
    match pc with
    | PRead r _ _ _ _ | PCommit r _ _ _ | PApply r _ _ _ _ | PFin r _ _ => Some r
    | _ => None
    end.

  Definition obs_of (pc : tpc) : kvs :=
    match pc with
    | PRead _ _ _ obs _ | PCommit _ _ obs _ | PApply _ obs _ _ _ | PFin _ obs _ => obs
    | _ => []
    end.

  Definition fully_applied (st : store) (ts : N) (ws : kvs) : Prop :=
    forall k v, In (k, v) ws -> In {| se_key := k; se_ver := ts; se_val := v |} st.
End Model.

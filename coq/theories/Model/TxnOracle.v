(** Call-atomic model of NoKV's optimistic transaction layer (txn.go) over the
    ideal MVCC store of [Spec.SerialSpec]:

      oracle.readTs / hasConflict / newCommitTs / doneRead /
      cleanupCommittedTransactions / doneCommit / initCommitState,
      Txn.Get / modify (Set, Delete) / checkSize / Commit / commitAndSend /
      Discard / recycle, DB.sendToWriteCh's size checks and the closed-queue
      error of enqueueCommitRequest.

    Every API call is one atomic step (the schedule dimension is
    [Model.TxnSched], property C05).  Definitions only.

    [fixed = false] is the oracle as it was at commit a8c3052: the pruning
    bound of the conflict history is [readMark.DoneUntil()].  [fixed = true] is
    the repaired oracle (see /verif/fixes/txn-active-reads.md): the oracle
    registers every reader under its mutex in [activeReads] and prunes below
    the smallest registered read timestamp.

    Not modelled: TTL expiry (the wall clock), the hot-key throttle (disabled
    in the harness), empty/oversized keys, the 2^64 wrap of the timestamp
    counter, watermark window rebuilds (indices stay below 65536; property
    C32).  The key fingerprint [kv.MemHash] is the section variable [fp]. *)
From Coq Require Import List NArith ZArith Bool.
From NoKV Require Import Base.Bytes Spec.SerialSpec.
Import ListNotations.
Local Open Scope N_scope.

(** * utils.WaterMark, sequential semantics *)
Record wm := { wm_done : N; wm_last : N; wm_cnt : N -> Z }.

Definition wm_new : wm := {| wm_done := 0; wm_last := 0; wm_cnt := fun _ => 0%Z |}.

(** tryAdvance: while doneUntil < lastIndex and slots[doneUntil+1] <= 0, advance. *)
Fixpoint wm_advance (fuel : nat) (cnt : N -> Z) (last d : N) : N :=
  match fuel with
  | O => d
  | S f => if (d <? last) && (cnt (d + 1)%N <=? 0)%Z then wm_advance f cnt last (d + 1) else d
  end.

Definition wm_try (w : wm) : wm :=
  {| wm_done := wm_advance (N.to_nat (wm_last w - wm_done w)) (wm_cnt w) (wm_last w) (wm_done w);
     wm_last := wm_last w; wm_cnt := wm_cnt w |}.

(** addIndex: index 0 is ignored (returns before tryAdvance). *)
Definition wm_add (i : N) (d : Z) (w : wm) : wm :=
  if i =? 0 then w
  else wm_try {| wm_done := wm_done w; wm_last := wm_last w;
                 wm_cnt := fun j => if j =? i then (wm_cnt w j + d)%Z else wm_cnt w j |}.

Definition wm_set_last (i : N) (w : wm) : wm :=
  {| wm_done := wm_done w; wm_last := N.max (wm_last w) i; wm_cnt := wm_cnt w |}.
Definition wm_set_done (d : N) (w : wm) : wm :=
  {| wm_done := d; wm_last := wm_last w; wm_cnt := wm_cnt w |}.

Definition wm_begin (i : N) (w : wm) : wm := wm_add i 1 (wm_set_last i w).
Definition wm_finish (i : N) (w : wm) : wm := wm_add i (-1) w.

(** * Configuration, errors, operations *)
Record cfg := { cf_detect : bool; cf_maxcount : N; cf_maxsize : N; cf_vthr : N }.

Inductive err :=
| EConflict | ETooBig | EBlocked | EReadOnly | EDiscarded | ECommitDiscarded
| EApply      (* the commit worker could not apply the request (LSM / WAL append failed) *)
| EBadOp      (* the driver used a slot wrongly (never generated) *)
| EHang.      (* WaitForMark would block forever (never observed) *)

Inductive op :=
| Begin (id : N) (update : bool)
| Get (id : N) (k : bytes)
| Put (id : N) (k : bytes) (v : option bytes)      (* Set / Delete *)
| Commit (id : N)
| Discard (id : N)
| Close
| Reopen
| FailWal                                          (* fault: from now on every LSM apply fails *)
| Dump (k : bytes).                                (* all versions of a key, newest first *)

Inductive out :=
| ORead (v : option bytes)
| OOk
| OCommitted (ts : N)
| OErr (e : err)
| ODump (l : list (N * option bytes)).

(** * Oracle *)
Record ctxn := { c_ts : N; c_keys : list N }.

Record oracle := {
  o_next : N;
  o_txnmark : wm;
  o_readmark : wm;
  o_committed : list ctxn;
  o_cleanup : N;
  o_intent : list (N * N);          (* key hash -> latest commit ts, unique keys *)
  o_active : list (N * N) }.        (* repaired code: transaction handle -> read ts *)

Definition mem (x : N) (l : list N) : bool := existsb (N.eqb x) l.

Fixpoint it_get (l : list (N * N)) (k : N) : option N :=
  match l with
  | [] => None
  | (k', v) :: l' => if k' =? k then Some v else it_get l' k
  end.
Definition it_set (k v : N) (l : list (N * N)) : list (N * N) :=
  (k, v) :: filter (fun e => negb (fst e =? k)) l.

Definition orc_new : oracle :=
  {| o_next := 1; o_txnmark := wm_new; o_readmark := wm_new; o_committed := []; o_cleanup := 0;
     o_intent := []; o_active := [] |}.

(** newOracle + initCommitState (committed = lsm.MaxVersion()) *)
Definition orc_init (committed : N) : oracle :=
  if committed =? 0 then orc_new
  else {| o_next := committed + 1;
          o_txnmark := wm_set_last committed (wm_set_done committed wm_new);
          o_readmark := wm_set_done committed wm_new;
          o_committed := []; o_cleanup := committed; o_intent := []; o_active := [] |}.

Definition min_active (o : oracle) : N :=
  fold_right (fun e m => N.min (snd e) m) (o_next o - 1) (o_active o).

Record txn := {
  t_update : bool; t_readts : N; t_reads : list N; t_ckeys : list N; t_pending : kvs;
  t_discarded : bool; t_doneread : bool; t_count : N; t_size : N;
  t_log : kvs }.                    (* ghost: reads served by the database, with results *)

Definition dead_txn : txn :=
  {| t_update := false; t_readts := 0; t_reads := []; t_ckeys := []; t_pending := [];
     t_discarded := true; t_doneread := false; t_count := 0; t_size := 0; t_log := [] |}.

Section Model.
  Variable fixed : bool.
  Variable fp : bytes -> N.
  Variable c : cfg.

  Definition blen (b : bytes) : N := N.of_nat (length b).
  Definition vlen (v : option bytes) : N := match v with Some b => blen b | None => 0 end.

  (** kv.Entry.EstimateSize *)
  Definition est_size (klen vl thr : N) : N :=
    if vl <? thr then klen + vl + 1 else klen + 12 + 1.

  (** oracle.readTs, atomically *)
  Definition read_ts (o : oracle) : N := N.min (o_next o - 1) (wm_last (o_txnmark o)).

  Definition orc_register (id r : N) (o : oracle) : oracle :=
    {| o_next := o_next o; o_txnmark := o_txnmark o; o_readmark := wm_begin r (o_readmark o);
       o_committed := o_committed o; o_cleanup := o_cleanup o; o_intent := o_intent o;
       o_active := if fixed then (id, r) :: o_active o else o_active o |}.

  (** oracle.doneRead (the caller checks txn.doneRead) *)
  Definition orc_done_read (id r : N) (o : oracle) : oracle :=
    {| o_next := o_next o; o_txnmark := o_txnmark o; o_readmark := wm_finish r (o_readmark o);
       o_committed := o_committed o; o_cleanup := o_cleanup o; o_intent := o_intent o;
       o_active := filter (fun e => negb (fst e =? id)) (o_active o) |}.

  Definition has_conflict (o : oracle) (t : txn) : bool :=
    match t_reads t with
    | [] => false
    | _ =>
        existsb (fun ro => match it_get (o_intent o) ro with Some ts => t_readts t <? ts | None => false end)
                (t_reads t)
        || existsb (fun ct => (t_readts t <? c_ts ct) && existsb (fun ro => mem ro (c_keys ct)) (t_reads t))
                   (o_committed o)
    end.

  Definition prune_bound (o : oracle) : N :=
    if fixed then min_active o else wm_done (o_readmark o).

  (** cleanupCommittedTransactions *)
  Definition orc_cleanup (o : oracle) : oracle :=
    if negb (cf_detect c) then o else
    let m := prune_bound o in
    if m <=? o_cleanup o then o else
    {| o_next := o_next o; o_txnmark := o_txnmark o; o_readmark := o_readmark o;
       o_committed := filter (fun ct => m <? c_ts ct) (o_committed o);
       o_cleanup := m;
       o_intent := filter (fun e => negb (existsb (fun ct => (c_ts ct <=? m) && (c_ts ct =? snd e)
                                                              && mem (fst e) (c_keys ct)) (o_committed o)))
                          (o_intent o);
       o_active := o_active o |}.

  (** newCommitTs after the conflict check and doneRead *)
  Definition orc_issue (keys : list N) (o : oracle) : oracle * N :=
    let ts := o_next o in
    ({| o_next := ts + 1; o_txnmark := wm_begin ts (o_txnmark o); o_readmark := o_readmark o;
        o_committed := if cf_detect c then {| c_ts := ts; c_keys := keys |} :: o_committed o
                       else o_committed o;
        o_cleanup := o_cleanup o;
        o_intent := if cf_detect c then fold_right (fun k l => it_set k ts l) (o_intent o) keys
                    else o_intent o;
        o_active := o_active o |}, ts).

  Definition orc_done_commit (ts : N) (o : oracle) : oracle :=
    {| o_next := o_next o; o_txnmark := wm_finish ts (o_txnmark o); o_readmark := o_readmark o;
       o_committed := o_committed o; o_cleanup := o_cleanup o; o_intent := o_intent o;
       o_active := o_active o |}.

  (** * Whole system *)
  Record hrec := { h_ts : N; h_reads : kvs; h_writes : kvs }.

  Record state := {
    st_store : store;
    st_orc : oracle;
    st_txns : N -> option txn;
    st_closed : bool;
    st_broken : bool;               (* injected fault: applyRequests fails *)
    st_hist : list hrec }.          (* ghost: committed writers, newest first *)

  Definition st_init : state :=
    {| st_store := []; st_orc := orc_new; st_txns := fun _ => None; st_closed := false; st_broken := false;
       st_hist := [] |}.

  Definition set_txn (f : N -> option txn) (id : N) (t : txn) : N -> option txn :=
    fun j => if j =? id then Some t else f j.

  Definition with_orc_txn (s : state) (o : oracle) (id : N) (t : txn) : state :=
    {| st_store := st_store s; st_orc := o; st_txns := set_txn (st_txns s) id t;
       st_closed := st_closed s; st_broken := st_broken s; st_hist := st_hist s |}.

  Definition entries_of (ts : N) (ws : kvs) : store :=
    map (fun kv => {| se_key := fst kv; se_ver := ts; se_val := snd kv |}) ws.

  Definition pw_set (k : bytes) (v : option bytes) (p : kvs) : kvs :=
    (k, v) :: filter (fun e => negb (bytes_eqb (fst e) k)) p.

  (** Txn.Discard (+ recycle): release the read registration once. *)
  Definition discard_orc (id : N) (t : txn) (o : oracle) : oracle :=
    if t_doneread t then o else orc_done_read id (t_readts t) o.

  Definition send_size (ws : kvs) : N :=
    fold_right (fun kv a => est_size (blen (fst kv) + 12) (vlen (snd kv)) (cf_vthr c) + a) 0 ws.

  Definition step (s : state) (o : op) : state * out :=
    match o with
    | Begin id u =>
        match st_txns s id with
        | Some t => if t_discarded t then
                      let r := read_ts (st_orc s) in
                      if wm_done (o_txnmark (st_orc s)) <? r then (s, OErr EHang) else
                      (with_orc_txn s (orc_register id r (st_orc s)) id
                         {| t_update := u; t_readts := r; t_reads := []; t_ckeys := []; t_pending := [];
                            t_discarded := false; t_doneread := false; t_count := 1; t_size := 0; t_log := [] |},
                       OOk)
                    else (s, OErr EBadOp)
        | None =>
            let r := read_ts (st_orc s) in
            if wm_done (o_txnmark (st_orc s)) <? r then (s, OErr EHang) else
            (with_orc_txn s (orc_register id r (st_orc s)) id
               {| t_update := u; t_readts := r; t_reads := []; t_ckeys := []; t_pending := [];
                  t_discarded := false; t_doneread := false; t_count := 1; t_size := 0; t_log := [] |},
             OOk)
        end
    | Get id k =>
        match st_txns s id with
        | None => (s, OErr EBadOp)
        | Some t =>
            if t_discarded t then (s, OErr EDiscarded) else
            match (if t_update t then kv_get (t_pending t) k else None) with
            | Some v => (s, ORead v)
            | None =>
                let r := read_at (st_store s) k (t_readts t) in
                (with_orc_txn s (st_orc s) id
                   {| t_update := t_update t; t_readts := t_readts t;
                      t_reads := if t_update t then fp k :: t_reads t else t_reads t;
                      t_ckeys := t_ckeys t; t_pending := t_pending t; t_discarded := false;
                      t_doneread := t_doneread t; t_count := t_count t; t_size := t_size t;
                      t_log := (k, r) :: t_log t |},
                 ORead r)
            end
        end
    | Put id k v =>
        match st_txns s id with
        | None => (s, OErr EBadOp)
        | Some t =>
            if negb (t_update t) then (s, OErr EReadOnly) else
            if t_discarded t then (s, OErr EDiscarded) else
            let cnt := t_count t + 1 in
            let sz := t_size t + est_size (blen k) (vlen v) (cf_vthr c + 10) in
            if (cf_maxcount c <=? cnt) || (cf_maxsize c <=? sz) then (s, OErr ETooBig) else
            (with_orc_txn s (st_orc s) id
               {| t_update := true; t_readts := t_readts t; t_reads := t_reads t;
                  t_ckeys := if cf_detect c then fp k :: t_ckeys t else t_ckeys t;
                  t_pending := pw_set k v (t_pending t); t_discarded := false;
                  t_doneread := t_doneread t; t_count := cnt; t_size := sz; t_log := t_log t |},
             OOk)
        end
    | Discard id =>
        match st_txns s id with
        | None => (s, OErr EBadOp)
        | Some t =>
            if t_discarded t then (s, OOk) else
            (with_orc_txn s (discard_orc id t (st_orc s)) id dead_txn, OOk)
        end
    | Commit id =>
        match st_txns s id with
        | None => (s, OErr EBadOp)
        | Some t =>
            if t_discarded t then (s, OErr ECommitDiscarded) else
            match t_pending t with
            | [] => (with_orc_txn s (discard_orc id t (st_orc s)) id dead_txn, OOk)
            | _ =>
                if has_conflict (st_orc s) t then
                  (with_orc_txn s (discard_orc id t (st_orc s)) id dead_txn, OErr EConflict)
                else
                  let o1 := orc_cleanup (discard_orc id t (st_orc s)) in
                  let '(o2, ts) := orc_issue (t_ckeys t) o1 in
                  let o3 := orc_done_commit ts o2 in
                  let ws := t_pending t in
                  if (cf_maxcount c <=? N.of_nat (length ws)) || (cf_maxsize c <=? send_size ws) then
                    (with_orc_txn s o3 id dead_txn, OErr ETooBig)
                  else if st_closed s then
                    (with_orc_txn s o3 id dead_txn, OErr EBlocked)
                  else if st_broken s then
                    (* commitWorker: applyRequests fails for this request; finishCommitRequests
                       reports the error to it; nothing reached the memtable *)
                    (with_orc_txn s o3 id dead_txn, OErr EApply)
                  else
                    ({| st_store := entries_of ts ws ++ st_store s; st_orc := o3;
                        st_txns := set_txn (st_txns s) id dead_txn; st_closed := false; st_broken := false;
                        st_hist := {| h_ts := ts; h_reads := t_log t; h_writes := ws |} :: st_hist s |},
                     OCommitted ts)
            end
        end
    | Close =>
        ({| st_store := st_store s; st_orc := st_orc s; st_txns := st_txns s; st_closed := true;
            st_broken := st_broken s; st_hist := st_hist s |}, OOk)
    | Reopen =>
        ({| st_store := st_store s; st_orc := orc_init (max_ver (st_store s)); st_txns := fun _ => None;
            st_closed := false; st_broken := false; st_hist := st_hist s |}, OOk)
    | FailWal =>
        ({| st_store := st_store s; st_orc := st_orc s; st_txns := st_txns s; st_closed := st_closed s;
            st_broken := true; st_hist := st_hist s |}, OOk)
    | Dump k =>
        (s, ODump (map (fun e => (se_ver e, se_val e)) (filter (fun e => bytes_eqb (se_key e) k) (st_store s))))
    end.

  Fixpoint run (s : state) (ops : list op) : state * list out :=
    match ops with
    | [] => (s, [])
    | o :: ops' => let '(s1, x) := step s o in let '(s2, xs) := run s1 ops' in (s2, x :: xs)
    end.

  Definition run_state (s : state) (ops : list op) : state := fold_left (fun s o => fst (step s o)) ops s.
End Model.

(** * The first commit after a reopen, with the 64-bit arithmetic of the code

    Open seeds the oracle with [lsm.MaxVersion()] ([m]); [initCommitState] stores
    [lastCleanupTs := m] and [nextTxnTs := m + 1] in a uint64; [newCommitTs] takes
    [ts := nextTxnTs] and asserts [ts >= lastCleanupTs] ([utils.AssertTrue] ends the
    process otherwise).  The plain (non-transactional) API writes at the sentinel
    version 2^64-1.  (The rest of this file works with unbounded numbers; the wrap
    matters only here.) *)
Definition two64 : N := 18446744073709551616.
Definition sentinel_version : N := two64 - 1.

Inductive reopen_commit := RcCommits (ts : N) | RcFatal.

Definition next_after_open (m : N) : N := if m =? 0 then 1 else (m + 1) mod two64.

Definition commit_after_open (m : N) : reopen_commit :=
  let ts := next_after_open m in
  if m <=? ts then RcCommits ts else RcFatal.

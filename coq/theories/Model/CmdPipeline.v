(** Model of NoKV's own glue around the etcd raft library
    (raftstore/store/command_pipeline.go, command_service.go,
    raftstore/peer/peer.go: handleReady / beginApply / finishApply /
    LinearizableRead / WaitApplied).

    The consensus algorithm itself is not modelled: which entries are
    delivered to which store in which order, who is leader in which term and
    what index ReadIndex returns are inputs (events) of this model; what is
    assumed about them is stated as hypotheses in [Spec.ClusterSpec] and
    becomes premises of the theorems.

    The state machine behind [Config.CommandApplier] is a section variable.
    No proofs here. *)
From Coq Require Import List NArith Bool.
Import ListNotations.
Local Open Scope N_scope.

Section Pipeline.
  (** [cmd]: a decoded [pb.RaftCmdRequest] without its header; [resp]: what
      the applier answers; [sm]: the state behind the applier; [W]: the
      identity of a waiter (the channel created by [registerProposal]). *)
  Context {cmd resp sm W : Type}.
  (** [Config.CommandApplier]; [None] = it returned an error. *)
  Variable applier : sm -> cmd -> sm * option resp.

  (** * Raft entries as [applyEntries] sees them *)
  Inductive payload :=
  | PEmpty                       (* len(entry.Data) == 0 *)
  | PAdmin                       (* 0xAD-prefixed admin command: handled by the peer, never reaches the pipeline *)
  | PGarbage                     (* command.Decode fails *)
  | PLegacy                      (* command.Decode says "not a command" *)
  | PCmd (region reqid : N) (c : cmd).  (* header.RegionId, header.RequestId and the requests *)
  Inductive ekind := ENormal | EConf.
  Record entry := { e_index : N; e_term : N; e_kind : ekind; e_data : payload }.

  Inductive result := ROk (r : resp) | RErr.

  (** * commandPipeline *)
  (** [proposals] is a Go map keyed by the struct [proposalKey{region, id}] of two
      uint64; the model keys an association list by the number
      [region * 2^64 + id] (injective on uint64 pairs). *)
  Definition pkey (region id : N) : N := region * 2^64 + id.
  Record pipe := { p_seq : N; p_props : list (N * W) }.
  Definition pipe_init : pipe := {| p_seq := 0; p_props := [] |}.

  (** [nextProposalID(term)]: [cp.seq++; return term<<32 | cp.seq&0xffffffff] (uint64). *)
  Definition mk_id (term seq : N) : N := (term * 2^32) mod 2^64 + seq mod 2^32.
  Definition next_id (term : N) (p : pipe) : N * pipe :=
    let s := (p_seq p + 1) mod 2^64 in
    (mk_id term s, {| p_seq := s; p_props := p_props p |}).

  (** The same function before the repair of F20 (parent commit):
      [cp.seq++; return cp.seq]. *)
  Definition next_id_v0 (term : N) (p : pipe) : N * pipe :=
    let s := (p_seq p + 1) mod 2^64 in
    (s, {| p_seq := s; p_props := p_props p |}).

  Fixpoint lookup (id : N) (l : list (N * W)) : option W :=
    match l with
    | [] => None
    | (i, w) :: l' => if i =? id then Some w else lookup id l'
    end.
  Fixpoint remove (id : N) (l : list (N * W)) : list (N * W) :=
    match l with
    | [] => []
    | (i, w) :: l' => if i =? id then remove id l' else (i, w) :: remove id l'
    end.

  Inductive reg_out := RegOk | RegDup | RegNil.
  (** [registerRegionProposal] *)
  Definition register (region id : N) (w : W) (p : pipe) : reg_out * pipe :=
    if id =? 0 then (RegNil, p)
    else match lookup (pkey region id) (p_props p) with
         | Some _ => (RegDup, p)
         | None => (RegOk, {| p_seq := p_seq p; p_props := (pkey region id, w) :: p_props p |})
         end.
  (** [removeRegionProposal] *)
  Definition unregister (region id : N) (p : pipe) : pipe :=
    if id =? 0 then p else {| p_seq := p_seq p; p_props := remove (pkey region id) (p_props p) |}.
  (** [completeRegionProposal]: the waiter that receives the result, if any. *)
  Definition complete (region id : N) (p : pipe) : pipe * option W :=
    if id =? 0 then (p, None)
    else match lookup (pkey region id) (p_props p) with
         | None => (p, None)
         | Some w => ({| p_seq := p_seq p; p_props := remove (pkey region id) (p_props p) |}, Some w)
         end.

  (** The same three before regions were part of the key (commit b93c45d):
      the map was keyed by the request id alone. *)
  Definition register_v1 (region id : N) (w : W) (p : pipe) : reg_out * pipe := register 0 id w p.
  Definition unregister_v1 (region id : N) (p : pipe) : pipe := unregister 0 id p.
  Definition complete_v1 (region id : N) (p : pipe) : pipe * option W := complete 0 id p.

  (** * One store incarnation *)
  (** What was handed to the applier, in order. *)
  Record applied := { ap_index : N; ap_term : N; ap_region : N; ap_reqid : N; ap_cmd : cmd; ap_res : result }.
  (** A completed proposal: the waiter, the entry whose application completed
      it and the result it was handed. *)
  Record completion := { k_w : W; k_by : applied }.

  Record store := {
    s_pipe : pipe;
    s_sm : sm;
    s_log : list applied;          (* newest first *)
    s_done : list completion;      (* newest first *)
    s_mark : N                     (* applyMark.DoneUntil *)
  }.
  Definition store_init (m : sm) : store :=
    {| s_pipe := pipe_init; s_sm := m; s_log := []; s_done := []; s_mark := 0 |}.

  Inductive apply_out := AOk | AErrDecode | AErrLegacy | AErrApply.

  Definition apply_one (e : entry) (region id : N) (c : cmd) (s : store) : store * bool :=
    let '(m', r) := applier (s_sm s) c in
    let res := match r with Some x => ROk x | None => RErr end in
    let a := {| ap_index := e_index e; ap_term := e_term e; ap_region := region; ap_reqid := id; ap_cmd := c; ap_res := res |} in
    let '(p', ow) := complete region id (s_pipe s) in
    ({| s_pipe := p'; s_sm := m'; s_log := a :: s_log s;
        s_done := match ow with Some w => {| k_w := w; k_by := a |} :: s_done s | None => s_done s end;
        s_mark := s_mark s |},
     match r with Some _ => true | None => false end).

  (** [commandPipeline.applyEntries] *)
  Fixpoint apply_entries (es : list entry) (s : store) : store * apply_out :=
    match es with
    | [] => (s, AOk)
    | e :: es' =>
        match e_kind e with
        | EConf => apply_entries es' s
        | ENormal =>
            match e_data e with
            | PEmpty => apply_entries es' s
            | PAdmin => (s, AErrLegacy)          (* not reachable through handleReady *)
            | PGarbage => (s, AErrDecode)
            | PLegacy => (s, AErrLegacy)
            | PCmd region id c =>
                let '(s', ok) := apply_one e region id c s in
                if ok then apply_entries es' s' else (s', AErrApply)
            end
        end
    end.

  (** [Peer.handleReady], committed-entries part: [beginApply]; conf changes
      and admin commands are consumed by the peer, empty entries skipped, the
      rest goes to the pipeline in one call; [finishApply] marks every
      committed entry of the batch done, whatever the pipeline returned. *)
  Definition to_apply (es : list entry) : list entry :=
    filter (fun e => match e_kind e, e_data e with
                     | ENormal, PEmpty | ENormal, PAdmin | EConf, _ => false
                     | ENormal, _ => true
                     end) es.
  Definition last_index (es : list entry) (d : N) : N := fold_left (fun _ e => e_index e) es d.
  Definition handle_committed (es : list entry) (s : store) : store * apply_out :=
    let '(s', out) := apply_entries (to_apply es) s in
    ({| s_pipe := s_pipe s'; s_sm := s_sm s'; s_log := s_log s'; s_done := s_done s';
        s_mark := N.max (s_mark s') (last_index es 0) |}, out).

  (** [Peer.WaitApplied(index)] returns without waiting exactly when *)
  Definition wait_applied (index : N) (s : store) : bool := (index =? 0) || (index <=? s_mark s).

  (** * validateCommand / ProposeCommand / ReadCommand *)
  (** What [validateCommand] finds. The region / epoch / key checks are the
      subject of C25 ([Model.CmdValidate]); here they are one input. *)
  Inductive vstatus :=
  | VReject                          (* region unknown, epoch mismatch, key outside, no peer *)
  | VStatus (leader : bool) (term lead : N).   (* peer.Status(): RaftState == StateLeader, Term, Lead *)

  Inductive call_out :=
  | ORegionError                     (* EpochNotMatch *)
  | ONotLeader (lead : N)            (* NotLeader, with the leader hint *)
  | ODuplicate                       (* "duplicate proposal id" *)
  | OUnavailable                     (* id 0: "command pipeline unavailable" *)
  | OWaiting (id : N)                (* registered and handed to raft; blocks on the waiter *)
  | OReading (id : N).               (* ReadCommand: ReadIndex requested *)

  (** [ProposeCommand] up to the point where it blocks. [given]: the
      RequestId the caller put in the header (0 = let the store choose). *)
  Definition propose_command (nid : N -> pipe -> N * pipe) (v : vstatus) (region given : N) (w : W) (s : store)
    : store * call_out :=
    match v with
    | VReject => (s, ORegionError)
    | VStatus false _ lead => (s, ONotLeader lead)
    | VStatus true term _ =>
        let '(id, p1) := if given =? 0 then nid term (s_pipe s) else (given, s_pipe s) in
        let '(ro, p2) := register region id w p1 in
        let s' := {| s_pipe := p2; s_sm := s_sm s; s_log := s_log s; s_done := s_done s; s_mark := s_mark s |} in
        match ro with
        | RegOk => (s', OWaiting id)
        | RegDup => (s', ODuplicate)
        | RegNil => (s', OUnavailable)
        end
    end.

  (** [ReadCommand] up to the ReadIndex request. *)
  Definition read_command_start (nid : N -> pipe -> N * pipe) (v : vstatus) (given : N) (s : store)
    : store * call_out :=
    match v with
    | VReject => (s, ORegionError)
    | VStatus false _ lead => (s, ONotLeader lead)
    | VStatus true term _ =>
        let '(id, p1) := if given =? 0 then nid term (s_pipe s) else (given, s_pipe s) in
        ({| s_pipe := p1; s_sm := s_sm s; s_log := s_log s; s_done := s_done s; s_mark := s_mark s |}, OReading id)
    end.

  (** [ReadCommand] after [LinearizableRead] returned [ridx]: it is served once
      [WaitApplied ridx] lets it through, by running the applier on the
      current state (the resulting state is discarded by a read-only command). *)
  Definition read_command_serve (ridx : N) (c : cmd) (s : store) : option (option resp) :=
    if wait_applied ridx s then Some (snd (applier (s_sm s) c)) else None.
End Pipeline.

Arguments payload : clear implicits.
Arguments entry : clear implicits.
Arguments result : clear implicits.
Arguments pipe : clear implicits.
Arguments applied : clear implicits.
Arguments completion : clear implicits.
Arguments store : clear implicits.

(** * The whole cluster: stores that restart, driven by a global trace *)
Section Cluster.
  Context {cmd resp sm : Type}.
  Variable applier : sm -> cmd -> sm * option resp.
  (** waiters are identified by the number of the client call *)
  Notation W := N.

  Inductive gevent :=
  | GStart (s : N)                                   (* store s restarts: new pipeline, log re-delivered later *)
  | GPropose (s region : N) (w : W) (c : cmd) (v : vstatus) (* ProposeCommand on s for a region (header.RequestId = 0) *)
  | GRead (s : N) (w : W) (v : vstatus)              (* ReadCommand on s reaches validateCommand *)
  | GDeliver (s : N) (es : list (entry cmd))         (* a Ready of s carries these committed entries *)
  | GTimeout (s region id : N).                      (* a waiter of s gives up: removeRegionProposal *)

  (** A registered proposal. *)
  Record proposal := { pr_store : N; pr_inc : N; pr_region : N; pr_w : W; pr_id : N; pr_cmd : cmd; pr_term : N }.

  Record gstate := {
    g_stores : N -> N * store cmd resp sm W;   (* store id -> (incarnation, state) *)
    g_props : list proposal;                   (* every registered proposal, newest first *)
    g_outs : list (W * call_out)               (* what each call got before blocking, newest first *)
  }.
  Definition gset (s : N) (x : N * store cmd resp sm W) (f : N -> N * store cmd resp sm W) :=
    fun i => if i =? s then x else f i.

  Variable init_sm : sm.
  (** [nid]: [next_id] (the code as it is) or [next_id_v0] (before the repair). *)
  Variable nid : N -> pipe W -> N * pipe W.

  Definition get_store (g : gstate) (s : N) : N * store cmd resp sm W := g_stores g s.

  Definition gstep (g : gstate) (e : gevent) : gstate :=
    match e with
    | GStart s =>
        let '(inc, st) := get_store g s in
        (* the state machine is durable; pipeline, waiters and apply mark are not
           ([s_done] is a history variable and is kept) *)
        let st' := {| s_pipe := pipe_init; s_sm := s_sm st; s_log := []; s_done := s_done st; s_mark := 0 |} in
        {| g_stores := gset s (inc + 1, st') (g_stores g); g_props := g_props g; g_outs := g_outs g |}
    | GPropose s region w c v =>
        let '(inc, st) := get_store g s in
        let '(st', out) := propose_command nid v region 0 w st in
        {| g_stores := gset s (inc, st') (g_stores g);
           g_props := match out, v with
                      | OWaiting id, VStatus _ term _ =>
                          {| pr_store := s; pr_inc := inc; pr_region := region; pr_w := w; pr_id := id; pr_cmd := c; pr_term := term |} :: g_props g
                      | _, _ => g_props g
                      end;
           g_outs := (w, out) :: g_outs g |}
    | GRead s w v =>
        let '(inc, st) := get_store g s in
        let '(st', out) := read_command_start nid v 0 st in
        {| g_stores := gset s (inc, st') (g_stores g); g_props := g_props g; g_outs := (w, out) :: g_outs g |}
    | GDeliver s es =>
        let '(inc, st) := get_store g s in
        let '(st', _) := handle_committed applier es st in
        {| g_stores := gset s (inc, st') (g_stores g); g_props := g_props g; g_outs := g_outs g |}
    | GTimeout s region id =>
        let '(inc, st) := get_store g s in
        let st' := {| s_pipe := unregister region id (s_pipe st); s_sm := s_sm st; s_log := s_log st;
                      s_done := s_done st; s_mark := s_mark st |} in
        {| g_stores := gset s (inc, st') (g_stores g); g_props := g_props g; g_outs := g_outs g |}
    end.

  Definition ginit : gstate := {| g_stores := fun _ => (0, store_init init_sm); g_props := []; g_outs := [] |}.
  Definition grun (tr : list gevent) : gstate := fold_left gstep tr ginit.

  (** Every completion handed out so far by store [s]. *)
  Definition completions (g : gstate) (s : N) : list (completion cmd resp W) := s_done (snd (g_stores g s)).
End Cluster.

Arguments gevent : clear implicits.
Arguments proposal : clear implicits.
Arguments gstate : clear implicits.

(** Model of the SSTable builder and reader: lsm/builder.go (tableBuilder.add,
    tryFinishBlock, finishBlock, keyDiff, done; blockIterator.setIdx, seek,
    Next), lsm/table.go (table.Search, tableIterator.Seek, seekHelper, Next,
    seekToFirst, seekToLast, loadBlock), file/sstable_linux.go (footer).
    Definitions only.

    Keys are full internal keys (base key ++ 8-byte inverted version).
    [cmpk] is utils.CompareKeys after its CondPanic (keys of 8 bytes or fewer
    panic in the code; every key handled here is longer, see
    Proofs/SstProofs.v: cmpk_compare_keys).

    [tseek_orig] is tableIterator.Seek as it was before the repair recorded in
    /verif/fixes/F5-table-seek-next-block.md; [tseek] is the current code. *)
From Coq Require Import List NArith ZArith Bool.
From Coq Require Import Init.Byte.
From NoKV Require Import Base.Bytes Base.Num Base.Varint Model.Keys Model.Bloom.
Import ListNotations.
Local Open Scope N_scope.

(** kv.ValueStruct (Meta, ExpiresAt, Value) *)
Record vstruct := { vs_meta : N; vs_exp : N; vs_val : bytes }.
Record entry := { e_key : bytes; e_vs : vstruct }.

Definition vs_zero : vstruct := {| vs_meta := 0; vs_exp := 0; vs_val := [] |}.

(** utils.CompareKeys *)
Definition cmpk (a b : bytes) : comparison :=
  match bytes_cmp (take (blen a - 8) a) (take (blen b - 8) b) with
  | Eq => bytes_cmp (drop (blen a - 8) a) (drop (blen b - 8) b)
  | c => c
  end.

(** ValueStruct.EncodedSize: the bytes an entry's value occupies in a block *)
Definition vs_size (v : vstruct) : N := blen (vs_val v) + 1 + size_varint (vs_exp v).
(** Entry.EncodedSize: what tryFinishBlock adds to its estimate *)
Definition entry_size (v : vstruct) : N :=
  blen (vs_val v) + size_varint (vs_meta v) + size_varint (vs_exp v).

(** * Blocks *)

(** one prefix-compressed entry: header (overlap, len diff), diff, value *)
Record bentry := { be_overlap : N; be_diff : bytes; be_vs : vstruct }.

(** [b_base]: block.baseKey (goes to the index); [b_end]: block.end before the
    trailer is appended (= bytes of all entries) *)
Record block := { b_base : bytes; b_ents : list bentry; b_end : N }.

Definition b_count (b : block) : N := N.of_nat (length (b_ents b)).
(** pb.BlockOffset.Len: entries + offsets (4 each) + count (4) + checksum (8) + its length (4) *)
Definition b_len (b : block) : N := b_end b + 4 * b_count b + 16.

(** length of the longest common prefix (the loop of keyDiff) *)
Fixpoint lcp (a b : bytes) : N :=
  match a, b with
  | x :: a', y :: b' => if byte_eqb x y then 1 + lcp a' b' else 0
  | _, _ => 0
  end.

(** * Builder *)

Record bstate := { bs_done : list block; bs_cur : option block; bs_hashes : list N; bs_maxver : N }.

Definition bs_init : bstate := {| bs_done := []; bs_cur := None; bs_hashes := []; bs_maxver := 0 |}.

(** tryFinishBlock *)
Definition try_finish (bsz : N) (cur : option block) (e : entry) : bool :=
  match cur with
  | None => true
  | Some b =>
      if b_count b =? 0 then false
      else
        let offsets_size := (b_count b + 1) * 4 + 4 + 8 + 4 in
        let est := b_end b + 6 + blen (e_key e) + entry_size (e_vs e) + offsets_size in
        bsz <? est
  end.

(** finishBlock: an absent or empty current block is not appended *)
Definition finish_block (done : list block) (cur : option block) : list block :=
  match cur with
  | Some b => match b_ents b with [] => done | _ => done ++ [b] end
  | None => done
  end.

Definition max_u16 : N := 65535.

(** tableBuilder.add; [None] = CondPanic (overlap or diff does not fit uint16) *)
Definition add (bsz : N) (st : bstate) (e : entry) : option bstate :=
  let key := e_key e in
  let '(done, cur) :=
    if try_finish bsz (bs_cur st) e
    then (finish_block (bs_done st) (bs_cur st), {| b_base := []; b_ents := []; b_end := 0 |})
    else (bs_done st, match bs_cur st with Some b => b | None => {| b_base := []; b_ents := []; b_end := 0 |} end) in
  let hashes := bs_hashes st ++ [hash (parse_key key)] in
  let maxver := N.max (bs_maxver st) (parse_ts key) in
  let '(base, overlap) :=
    if blen (b_base cur) =? 0 then (key, 0) else (b_base cur, lcp key (b_base cur)) in
  let diff := drop overlap key in
  if (max_u16 <? blen key - blen diff) || (max_u16 <? blen diff) then None
  else
    let be := {| be_overlap := blen key - blen diff; be_diff := diff; be_vs := e_vs e |} in
    Some {| bs_done := done;
            bs_cur := Some {| b_base := base; b_ents := b_ents cur ++ [be];
                              b_end := b_end cur + 4 + blen diff + vs_size (e_vs e) |};
            bs_hashes := hashes; bs_maxver := maxver |}.

Fixpoint add_all (bsz : N) (st : bstate) (es : list entry) : option bstate :=
  match es with
  | [] => Some st
  | e :: es' => match add bsz st e with Some st' => add_all bsz st' es' | None => None end
  end.

(** What openTable keeps of the file: the blocks (reached through the index,
    which stores each block's base key, offset and length), the bloom filter
    ([] = none), MaxVersion and KeyCount. *)
Record table := { t_blocks : list block; t_bloom : bytes; t_maxver : N; t_count : N }.

(** tableBuilder.done; [with_bloom] = (opt.BloomFalsePositive > 0), [bpk] =
    BloomBitsPerKey(len(keyHashes), fp), [k] = BloomKForBitsPerKey(bpk) *)
Definition build (bsz : N) (with_bloom : bool) (bpk k : N) (es : list entry) : option table :=
  match add_all bsz bs_init es with
  | None => None
  | Some st =>
      let blocks := finish_block (bs_done st) (bs_cur st) in
      Some {| t_blocks := blocks;
              t_bloom := if with_bloom then build_bloom (bs_hashes st) bpk k else [];
              t_maxver := bs_maxver st;
              t_count := fold_left (fun n b => n + b_count b) blocks 0 |}
  end.

(** * Block iterator *)

Record biter := {
  bi_blk : block; bi_idx : Z; bi_key : bytes; bi_prev : N; bi_vs : vstruct; bi_err : bool }.

(** setBlock *)
Definition bi_set_block (b : block) : biter :=
  {| bi_blk := b; bi_idx := 0%Z; bi_key := []; bi_prev := 0; bi_vs := vs_zero; bi_err := false |}.

(** the iterator's own base key: the diff of the block's first entry *)
Definition bi_base (b : block) : bytes :=
  match b_ents b with be :: _ => be_diff be | [] => [] end.

(** setIdx: key reconstruction from the previous key, the base key and the
    entry's (overlap, diff), with [prevOverlap] *)
Definition bi_set_idx (it : biter) (i : Z) : biter :=
  let b := bi_blk it in
  let oob := {| bi_blk := b; bi_idx := i; bi_key := bi_key it; bi_prev := bi_prev it;
                bi_vs := bi_vs it; bi_err := true |} in
  if (i <? 0)%Z || (Z.of_nat (length (b_ents b)) <=? i)%Z then oob
  else
    match nth_error (b_ents b) (Z.to_nat i) with
    | None => oob
    | Some be =>
        let base := bi_base b in
        let ov := be_overlap be in
        let key1 :=
          if bi_prev it <? ov then take (bi_prev it) (bi_key it) ++ drop (bi_prev it) (take ov base)
          else bi_key it in
        {| bi_blk := b; bi_idx := i; bi_key := take ov key1 ++ be_diff be; bi_prev := ov;
           bi_vs := be_vs be; bi_err := false |}
    end.

(** sort.Search with a predicate that mutates state *)
Fixpoint bsearch_st {St : Type} (f : St -> nat -> St * bool) (fuel : nat) (s : St) (i j : nat) : St * nat :=
  match fuel with
  | O => (s, i)
  | S fu =>
      if (i <? j)%nat then
        let h := Nat.div2 (i + j) in
        let '(s', r) := f s h in
        if r then bsearch_st f fu s' i h else bsearch_st f fu s' (S h) j
      else (s, i)
  end.

Definition is_ge (c : comparison) : bool := match c with Lt => false | _ => true end.
Definition is_gt (c : comparison) : bool := match c with Gt => true | _ => false end.
Definition is_le (c : comparison) : bool := match c with Gt => false | _ => true end.

(** blockIterator.seek *)
Definition bi_seek (asc : bool) (it : biter) (key : bytes) : biter :=
  let n := length (b_ents (bi_blk it)) in
  if asc then
    let '(it', found) :=
      bsearch_st (fun s idx => let s' := bi_set_idx s (Z.of_nat idx) in (s', is_ge (cmpk (bi_key s') key)))
                 (S n) it 0%nat n in
    bi_set_idx it' (Z.of_nat found)
  else
    let '(it', found) :=
      bsearch_st (fun s idx => let s' := bi_set_idx s (Z.of_nat idx) in (s', is_gt (cmpk (bi_key s') key)))
                 (S n) it 0%nat n in
    match found with
    | O => bi_set_idx it' (-1)%Z
    | S p => bi_set_idx it' (Z.of_nat p)
    end.

(** blockIterator.Next *)
Definition bi_next (asc : bool) (it : biter) : biter :=
  if asc then bi_set_idx it (bi_idx it + 1)%Z else bi_set_idx it (bi_idx it - 1)%Z.

(** * Table iterator *)

(** [ti_bi = None]: len(bi.data) == 0 (no block loaded) *)
Record titer := { ti_pos : Z; ti_bi : option biter; ti_err : bool }.

Definition ti_init : titer := {| ti_pos := 0%Z; ti_bi := None; ti_err := false |}.

Definition nblocks (t : table) : Z := Z.of_nat (length (t_blocks t)).

Definition get_block (t : table) (i : Z) : option block :=
  if (i <? 0)%Z then None else nth_error (t_blocks t) (Z.to_nat i).

(** fetchBlock + setBlock + seekToFirst / seekToLast by direction *)
Definition ti_load (asc : bool) (t : table) (pos : Z) : titer :=
  match get_block t pos with
  | None => {| ti_pos := pos; ti_bi := None; ti_err := true |}
  | Some b =>
      let bi := bi_set_block b in
      let bi' := if asc then bi_set_idx bi 0%Z else bi_set_idx bi (Z.of_nat (length (b_ents b)) - 1)%Z in
      {| ti_pos := pos; ti_bi := Some bi'; ti_err := bi_err bi' |}
  end.

Definition out_of_blocks (asc : bool) (t : table) (pos : Z) : bool :=
  if asc then (nblocks t <=? pos)%Z else (pos <? 0)%Z.

(** tableIterator.Next (the recursion is at most one level deep) *)
Definition ti_next (asc : bool) (t : table) (it : titer) : titer :=
  if out_of_blocks asc t (ti_pos it) then {| ti_pos := ti_pos it; ti_bi := ti_bi it; ti_err := true |}
  else
    match ti_bi it with
    | None => ti_load asc t (ti_pos it)
    | Some bi =>
        let bi' := bi_next asc bi in
        if bi_err bi' then
          let pos' := if asc then (ti_pos it + 1)%Z else (ti_pos it - 1)%Z in
          if out_of_blocks asc t pos' then {| ti_pos := pos'; ti_bi := None; ti_err := true |}
          else ti_load asc t pos'
        else {| ti_pos := ti_pos it; ti_bi := Some bi'; ti_err := false |}
    end.

(** Rewind: seekToFirst / seekToLast *)
Definition ti_rewind (asc : bool) (t : table) : titer :=
  match t_blocks t with
  | [] => {| ti_pos := 0%Z; ti_bi := None; ti_err := true |}
  | _ => if asc then ti_load true t 0%Z else ti_load false t (nblocks t - 1)%Z
  end.

(** seekHelper *)
Definition seek_helper (asc : bool) (t : table) (idx : nat) (key : bytes) : titer :=
  match nth_error (t_blocks t) idx with
  | None => {| ti_pos := Z.of_nat idx; ti_bi := None; ti_err := true |}
  | Some b =>
      let bi := bi_seek asc (bi_set_block b) key in
      {| ti_pos := Z.of_nat idx; ti_bi := Some bi; ti_err := bi_err bi |}
  end.

(** the block choice of Seek: first block whose base key is > key *)
Definition block_search (t : table) (key : bytes) : nat :=
  let n := length (t_blocks t) in
  snd (bsearch_st (fun (s : unit) idx =>
                     (s, match nth_error (t_blocks t) idx with
                         | Some b => is_gt (cmpk (b_base b) key)
                         | None => true
                         end)) (S n) tt 0%nat n).

(** tableIterator.Seek before the repair *)
Definition tseek_orig (asc : bool) (t : table) (key : bytes) : titer :=
  let idx := block_search t key in
  if asc then
    match idx with
    | O => seek_helper true t 0 key
    | S p => seek_helper true t p key
    end
  else
    match idx with
    | O => {| ti_pos := 0%Z; ti_bi := None; ti_err := true |}
    | S p => seek_helper false t p key
    end.

(** tableIterator.Seek (current code): forward falls through to the next block
    when the in-block seek is exhausted *)
Definition tseek (asc : bool) (t : table) (key : bytes) : titer :=
  let idx := block_search t key in
  if asc then
    match idx with
    | O => seek_helper true t 0 key
    | S p =>
        let it := seek_helper true t p key in
        if ti_err it && (idx <? length (t_blocks t))%nat then seek_helper true t idx key else it
    end
  else
    match idx with
    | O => {| ti_pos := 0%Z; ti_bi := None; ti_err := true |}
    | S p => seek_helper false t p key
    end.

(** Item(): the block iterator's current key and value *)
Definition ti_item (it : titer) : option entry :=
  if ti_err it then None
  else match ti_bi it with
       | Some bi => Some {| e_key := bi_key bi; e_vs := bi_vs bi |}
       | None => None
       end.

(** [for ; it.Valid(); it.Next()]: collect items; [None] = out of fuel *)
Fixpoint drain (asc : bool) (t : table) (fuel : nat) (it : titer) : option (list entry) :=
  match fuel with
  | O => None
  | S fu =>
      match ti_item it with
      | None => Some []
      | Some e =>
          match drain asc t fu (ti_next asc t it) with
          | Some l => Some (e :: l)
          | None => None
          end
      end
  end.

Definition total_entries (t : table) : nat :=
  fold_left (fun n b => (n + length (b_ents b))%nat) (t_blocks t) 0%nat.

Definition iterate (asc : bool) (t : table) : option (list entry) :=
  drain asc t (S (total_entries t)) (ti_rewind asc t).

Definition seek_iterate (asc : bool) (t : table) (key : bytes) : option (list entry) :=
  drain asc t (S (total_entries t)) (tseek asc t key).

Definition seek_iterate_orig (asc : bool) (t : table) (key : bytes) : option (list entry) :=
  drain asc t (S (total_entries t)) (tseek_orig asc t key).

(** table.Search(key, &maxVs): [Some e] = found (and *maxVs becomes the
    version of e), [None] = ErrKeyNotFound *)
Definition search_with (sk : bool -> table -> bytes -> titer) (t : table) (key : bytes) (maxvs : N) : option entry :=
  let probe := if 8 <? blen key then parse_key key else key in
  if (0 <? blen (t_bloom t)) && negb (may_contain (t_bloom t) (hash probe)) then None
  else
    match ti_item (sk true t key) with
    | None => None
    | Some e =>
        if same_key key (e_key e) && (maxvs <? parse_ts (e_key e)) then Some e else None
    end.

Definition search := search_with tseek.
Definition search_orig := search_with tseek_orig.

(** A small file-system model for the crash family (C09, C10, C11).

    A directory is a finite map from paths to file contents.  The crash family
    works at record granularity (the byte-level framing of WAL records and
    manifest edits, including torn tails, is the subject of C13 and C15), so a
    file's content is a list of complete records of the kind the file holds.

    Process crash (the only crash considered): every completed [write],
    [rename], [remove], [ftruncate] and every completed MAP_SHARED store is in
    the file; userland buffers (the WAL's [bufio.Writer]) are not.  In the model
    this is the split of the machine state into a [disk] part, changed by file
    effects only, and a runtime part that [crash] throws away (Model/Recovery.v). *)
From Coq Require Import List NArith Bool.
Import ListNotations.
Local Open Scope N_scope.

Section Map.
  Context {K V : Type} (eqb : K -> K -> bool).

  Fixpoint fget (k : K) (m : list (K * V)) : option V :=
    match m with
    | [] => None
    | (k', v) :: m' => if eqb k k' then Some v else fget k m'
    end.

  Fixpoint fdel (k : K) (m : list (K * V)) : list (K * V) :=
    match m with
    | [] => []
    | (k', v) :: m' => if eqb k k' then fdel k m' else (k', v) :: fdel k m'
    end.

  (** create or replace; a new file goes to the end (creation order) *)
  Fixpoint fput (k : K) (v : V) (m : list (K * V)) : list (K * V) :=
    match m with
    | [] => [(k, v)]
    | (k', v') :: m' => if eqb k k' then (k, v) :: m' else (k', v') :: fput k v m'
    end.

  Definition fhas (k : K) (m : list (K * V)) : bool :=
    match fget k m with Some _ => true | None => false end.
End Map.

Definition pair_eqb (a b : N * N) : bool := (fst a =? fst b) && (snd a =? snd b).

(** append to a file holding a list of records (the file must exist) *)
Definition fappend {K A : Type} (eqb : K -> K -> bool) (k : K) (xs : list A) (m : list (K * list A)) : list (K * list A) :=
  match fget eqb k m with
  | Some old => fput eqb k (old ++ xs) m
  | None => m
  end.

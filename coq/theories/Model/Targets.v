(** Model of [compact.BuildTargets] (lsm/compact/picker.go): the per-level size
    targets and the BASE LEVEL, i.e. the level that receives the tables moved out of
    L0.  Sizes are [Z] (the code uses int64; the harness keeps every product below
    2^62, overflow of [tsz] is not modelled).  No proofs in this file. *)
From Coq Require Import List ZArith Bool Arith.
Import ListNotations.
Local Open Scope Z_scope.

Record topt := { o_base_level_size : Z; o_level_mult : Z; o_base_table : Z; o_table_mult : Z; o_memtable : Z }.
Record targets := { t_base : nat; t_target : list Z; t_file : list Z }.

Definition adjust (o : topt) (sz : Z) : Z := if sz <? o_base_level_size o then o_base_level_size o else sz.

(** first loop: for i := n-1; i > 0; i-- *)
Fixpoint size_loop (o : topt) (i : nat) (db : Z) (base : nat) (acc : list Z) : nat * list Z :=
  match i with
  | O => (base, acc)
  | S j =>
      let tg := adjust o db in
      let base' := if Nat.eqb base 0 && (tg <=? o_base_level_size o) then i else base in
      size_loop o j (if 0 <? o_level_mult o then db / o_level_mult o else db) base' (tg :: acc)
  end.

(** second loop: file sizes, i ascending; [tsz] is threaded *)
Fixpoint file_loop (o : topt) (base : nat) (i n : nat) (tsz : Z) : list Z :=
  match n with
  | O => []
  | S n' =>
      if Nat.eqb i 0 then o_memtable o :: file_loop o base (S i) n' tsz
      else if Nat.leb i base then tsz :: file_loop o base (S i) n' tsz
      else let t1 := tsz * o_table_mult o in
           let t2 := if t1 <=? 0 then 1 else t1 in
           t2 :: file_loop o base (S i) n' t2
  end.

(** "find the last empty level": for i := base+1; i < n-1; i++ { if sizes[i] > 0 break; base = i } *)
Fixpoint skip_empty (sizes : list Z) (n : nat) (fuel i base : nat) : nat :=
  match fuel with
  | O => base
  | S f => if Nat.ltb i (n - 1) then
             if 0 <? nth i sizes 0 then base else skip_empty sizes n f (S i) i
           else base
  end.

(** the repair: for i := 1; i < base; i++ { if sizes[i] > 0 { base = i; break } } *)
Fixpoint first_nonempty (sizes : list Z) (fuel i base : nat) : nat :=
  match fuel with
  | O => base
  | S f => if Nat.ltb i base then
             if 0 <? nth i sizes 0 then i else first_nonempty sizes f (S i) base
           else base
  end.

Definition build_targets (sizes : list Z) (o : topt) : targets :=
  let n := length sizes in
  match n with
  | O => {| t_base := 0; t_target := []; t_file := [] |}
  | S m =>
      let db := nth m sizes 0 in
      let '(b1, tg) := size_loop o m db 0%nat [] in
      let target := 0 :: tg in
      let tsz0 := if o_base_table o <=? 0 then 1 else o_base_table o in
      let files := file_loop o b1 0 n tsz0 in
      let b2 := skip_empty sizes n n (S b1) b1 in
      let b3 := if Nat.ltb b2 (n - 1) && (nth b2 sizes 0 =? 0) && (nth (S b2) sizes 0 <? nth (S b2) target 0)
                then S b2 else b2 in
      let b4 := first_nonempty sizes b3 1 b3 in
      {| t_base := b4; t_target := target; t_file := files |}
  end.

(** What an L0 move needs from the base level: no level strictly between L0 and it holds data. *)
Definition base_above_data (sizes : list Z) (b : nat) : bool :=
  forallb (fun i => nth i sizes 0 <=? 0) (seq 1 (b - 1)).

(** Model for C30: several Redis clients run INCR-family / SET NX commands on
    one key of the embedded backend concurrently.

    Every such command is one NoKV transaction (backend_embedded.go IncrBy /
    Set inside db.Update); its atomic steps are
      [begin]  newTransaction: readTs := the newest commit timestamp
               (oracle.beginRead waits until all commits <= readTs are applied)
      [get]    txn.Get(key): the newest version with ts <= readTs
      [set]    txn.SetEntry: buffered in the transaction (SET NX on an existing
               key returns errConditionNotMet here and the transaction ends)
      [commit] oracle.newCommitTs under the oracle lock: with conflict
               detection on, fail with ErrConflict iff the key read was
               committed by another transaction after readTs (txn.go
               hasConflict: committedTxns with ts > readTs containing a read
               fingerprint); otherwise take the next timestamp and apply the
               write.  IncrBy does not retry: ErrConflict is an error reply.
    Commit (timestamp + application + visibility) is atomic in the model: the
    txnMark wait in beginRead makes a reader see every commit <= its readTs.

    [detect] is Options.DetectConflicts.  The history of the key is the list
    of (commit ts, value), newest first.  [acked] / [oks] are ghost counters of
    what clients were told: the sum of the deltas of INCRs that replied with an
    integer, the number of SET NX that replied OK.  No proofs here. *)
From Coq Require Import List NArith ZArith Bool.
From NoKV Require Import Base.Sched.
Import ListNotations.
Local Open Scope N_scope.

Inductive op := OIncr (d : Z) | OSetNX (v : Z).

Inductive pc :=
| PIdle
| PBegun (rts : N)
| PRead (rts : N) (cur : option Z)
| PWrote (rts : N) (w : Z).

Record thread := { t_ops : list op; t_pc : pc }.

Record G := {
  hist : list (N * Z);
  next : N;                 (* oracle.nextTxnTs *)
  acked : Z;
  oks : nat;
  conflicts : nat;
  threads : list thread }.

Section Model.
  Variable detect : bool.       (* Options.DetectConflicts *)
  Variable base : option Z.     (* content of the key before the run *)

  Fixpoint value_at (h : list (N * Z)) (rts : N) : option Z :=
    match h with
    | [] => base
    | (ts, v) :: h' => if ts <=? rts then Some v else value_at h' rts
    end.

  Definition latest (h : list (N * Z)) : option Z :=
    match h with [] => base | (_, v) :: _ => Some v end.

  Definition num (o : option Z) : Z := match o with Some z => z | None => 0%Z end.

  (** hasConflict for the single key read. *)
  Definition conflict (h : list (N * Z)) (rts : N) : bool :=
    existsb (fun p => rts <? fst p) h.

  Fixpoint set_nth (l : list thread) (i : nat) (t : thread) : list thread :=
    match l, i with
    | [], _ => []
    | _ :: l', O => t :: l'
    | x :: l', S i' => x :: set_nth l' i' t
    end.

  Definition with_thread (g : G) (i : nat) (t : thread) : G :=
    {| hist := hist g; next := next g; acked := acked g; oks := oks g; conflicts := conflicts g;
       threads := set_nth (threads g) i t |}.

  Definition tstep (g : G) (i : nat) : option G :=
    match nth_error (threads g) i with
    | None => None
    | Some t =>
        match t_ops t with
        | [] => None
        | o :: rest =>
            match t_pc t with
            | PIdle => Some (with_thread g i {| t_ops := t_ops t; t_pc := PBegun (next g - 1) |})
            | PBegun rts => Some (with_thread g i {| t_ops := t_ops t; t_pc := PRead rts (value_at (hist g) rts) |})
            | PRead rts cur =>
                match o with
                | OIncr d => Some (with_thread g i {| t_ops := t_ops t; t_pc := PWrote rts (num cur + d) |})
                | OSetNX v =>
                    match cur with
                    | Some _ => Some (with_thread g i {| t_ops := rest; t_pc := PIdle |})   (* nil reply *)
                    | None => Some (with_thread g i {| t_ops := t_ops t; t_pc := PWrote rts v |})
                    end
                end
            | PWrote rts w =>
                if detect && conflict (hist g) rts then
                  Some {| hist := hist g; next := next g; acked := acked g; oks := oks g;
                          conflicts := S (conflicts g);
                          threads := set_nth (threads g) i {| t_ops := rest; t_pc := PIdle |} |}
                else
                  Some {| hist := (next g, w) :: hist g; next := next g + 1;
                          acked := (match o with OIncr d => acked g + d | OSetNX _ => acked g end)%Z;
                          oks := (match o with OIncr _ => oks g | OSetNX _ => S (oks g) end);
                          conflicts := conflicts g;
                          threads := set_nth (threads g) i {| t_ops := rest; t_pc := PIdle |} |}
            end
        end
    end.

  (** The raft-backed deployment (backend_raft.go IncrBy / Set NX): the value is
      read at a reserved timestamp ([PBegun]/[PRead] as above), but the write
      goes through [mutate], which reserves a *fresh* start timestamp; the
      percolator prewrite check refuses the write iff the newest write of the
      key has commitTs >= that start timestamp (percolator/txn.go
      prewriteMutation).  Prewrite + commit are one step here (a lock only
      delays a competitor). *)
  Definition tstep_raft (g : G) (i : nat) : option G :=
    match nth_error (threads g) i with
    | None => None
    | Some t =>
        match t_ops t, t_pc t with
        | o :: rest, PWrote rts w =>
            let start := next g in
            if existsb (fun p => start <=? fst p) (hist g) then
              Some {| hist := hist g; next := next g + 2; acked := acked g; oks := oks g;
                      conflicts := S (conflicts g);
                      threads := set_nth (threads g) i {| t_ops := rest; t_pc := PIdle |} |}
            else
              Some {| hist := (start + 1, w) :: hist g; next := next g + 2;
                      acked := (match o with OIncr d => acked g + d | OSetNX _ => acked g end)%Z;
                      oks := (match o with OIncr _ => oks g | OSetNX _ => S (oks g) end);
                      conflicts := conflicts g;
                      threads := set_nth (threads g) i {| t_ops := rest; t_pc := PIdle |} |}
        | _, _ => tstep g i
        end
    end.

  Definition init (progs : list (list op)) : G :=
    {| hist := []; next := 1; acked := 0; oks := 0; conflicts := 0;
       threads := map (fun p => {| t_ops := p; t_pc := PIdle |}) progs |}.

  Definition final (progs : list (list op)) (sched : list nat) : G := run tstep (init progs) sched.

  Definition final_raft (progs : list (list op)) (sched : list nat) : G := run tstep_raft (init progs) sched.

  Definition is_incr (o : op) : bool := match o with OIncr _ => true | _ => false end.
  Definition is_setnx (o : op) : bool := match o with OSetNX _ => true | _ => false end.
  Definition finished (g : G) : bool := forallb (fun t => match t_ops t with [] => true | _ => false end) (threads g).
End Model.

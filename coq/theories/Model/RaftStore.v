(** raftstore/engine/wal_storage.go over the shared, *buffered* wal.Manager,
    the parts of etcd's MemoryStorage it relies on, OpenWALStorage replay and
    the persist-then-send order of peer.go:handleReady/processReady.
    No proofs here.

    Level of the model.  A WAL is the sequence of its typed records (framing,
    CRC and the torn tail are C13's business: a record that only partly
    reached the file is dropped by VerifyDir/replay, so a crash image is a
    sequence of complete records).  [w_file] = records whose bytes reached the
    operating system through write(); [w_buf] = records still inside the
    manager's bufio.Writer.  A *process crash* keeps [w_file] and the first [k]
    records of [w_buf] that bufio had already pushed out on its own (k = 0
    whenever less than the 256 KiB buffer is pending) and drops the rest.  The
    manifest is written with an unbuffered write(), so the raft pointer it holds
    survives.  A pointer's (Segment, Offset) is abstracted to the ordinal of
    the record it ends at ([p_pos] = number of records of the log up to and
    including that record; 0 = no pointer), which is monotone in (Segment,
    Offset).

    The boolean [sync] selects the code: [true] = the tree after
    fixes/raft-wal-sync-before-publish.md (appendDurable: AppendRecords then
    wal.Sync), [false] = the tree before it (AppendRecords only). *)
From Coq Require Import List NArith Bool.
Import ListNotations.
Local Open Scope N_scope.

Record hardstate := HS { hs_term : N; hs_vote : N; hs_commit : N }.
Definition hs_empty : hardstate := HS 0 0 0.
(** raft.IsEmptyHardState *)
Definition hs_is_empty (h : hardstate) : bool :=
  (hs_term h =? 0) && (hs_vote h =? 0) && (hs_commit h =? 0).

(** a log entry without its index: (term, payload token).  Entries of one
    append are contiguous, [first] is the index of the first one. *)
Definition entry := (N * N)%type.

Definition len {A} (l : list A) : N := N.of_nat (length l).
Definition ntake {A} (n : N) (l : list A) : list A := firstn (N.to_nat n) l.
Definition ndrop {A} (n : N) (l : list A) : list A := skipn (N.to_nat n) l.

(** ** etcd raft MemoryStorage (storage.go) *)
Record mem := {
  m_hs : hardstate;
  m_snapi : N; m_snapt : N;     (* snapshot.Metadata.Index / Term *)
  m_off : N; m_offt : N;        (* ents[0] : the dummy entry *)
  m_ents : list entry           (* ents[1:] ; ents[j] has index m_off + j *)
}.
Definition mem_init : mem :=
  {| m_hs := hs_empty; m_snapi := 0; m_snapt := 0; m_off := 0; m_offt := 0; m_ents := [] |}.

Inductive err :=
| EPanic            (* getLogger().Panicf *)
| ECompacted | EUnavailable | ESnapOutOfDate
| EPtrNotFound      (* validateManifestPointer: offset not found / segment missing *)
| EPtrNonRaft       (* validateManifestPointer: non-raft record type *)
| EOther.           (* an error class this model never produces *)
Inductive res (A : Type) := Ok (a : A) | Err (e : err).
Arguments Ok {A} a. Arguments Err {A} e.

Definition m_first (m : mem) : N := m_off m + 1.
Definition m_last (m : mem) : N := m_off m + len (m_ents m).

Definition mem_set_ents (m : mem) (es : list entry) : mem :=
  {| m_hs := m_hs m; m_snapi := m_snapi m; m_snapt := m_snapt m;
     m_off := m_off m; m_offt := m_offt m; m_ents := es |}.
Definition mem_set_hs (m : mem) (h : hardstate) : mem :=
  {| m_hs := h; m_snapi := m_snapi m; m_snapt := m_snapt m;
     m_off := m_off m; m_offt := m_offt m; m_ents := m_ents m |}.

(** Append *)
Definition mem_append (m : mem) (first : N) (es : list entry) : res mem :=
  match es with
  | [] => Ok m
  | _ =>
      let fi := m_first m in
      let last := first + len es - 1 in
      if last <? fi then Ok m else
      let first' := if first <? fi then fi else first in
      let es' := if first <? fi then ndrop (fi - first) es else es in
      let offset := first' - m_off m in
      if offset <=? len (m_ents m) + 1
      then Ok (mem_set_ents m (ntake (offset - 1) (m_ents m) ++ es'))
      else Err EPanic
  end.

(** Term *)
Definition mem_term (m : mem) (i : N) : res N :=
  if i <? m_off m then Err ECompacted
  else if len (m_ents m) + 1 <=? i - m_off m then Err EUnavailable
  else if i =? m_off m then Ok (m_offt m)
  else match nth_error (m_ents m) (N.to_nat (i - m_off m - 1)) with
       | Some e => Ok (fst e)
       | None => Err EUnavailable
       end.

(** Compact *)
Definition mem_compact (m : mem) (ci : N) : res mem :=
  if ci <=? m_off m then Err ECompacted
  else if m_last m <? ci then Err EPanic
  else match nth_error (m_ents m) (N.to_nat (ci - m_off m - 1)) with
       | Some e =>
           Ok {| m_hs := m_hs m; m_snapi := m_snapi m; m_snapt := m_snapt m;
                 m_off := ci; m_offt := fst e; m_ents := ndrop (ci - m_off m) (m_ents m) |}
       | None => Err EPanic
       end.

(** ApplySnapshot *)
Definition mem_apply_snap (m : mem) (si st : N) : res mem :=
  if si <=? m_snapi m then Err ESnapOutOfDate
  else Ok {| m_hs := m_hs m; m_snapi := si; m_snapt := st; m_off := si; m_offt := st; m_ents := [] |}.

(** ** the buffered WAL, at record level *)
Definition own_gid : N := 1.
Inductive rec :=
| REntries (gid first : N) (es : list entry)   (* wal.RecordTypeRaftEntry *)
| RState (gid : N) (h : hardstate)             (* wal.RecordTypeRaftState *)
| RSnap (gid si st : N)                        (* wal.RecordTypeRaftSnapshot *)
| RLsm.                                        (* wal.RecordTypeEntry (the LSM's) *)

Definition is_raft (r : rec) : bool := match r with RLsm => false | _ => true end.

Record bwal := { w_file : list rec; w_buf : list rec }.
Definition wal_count (w : bwal) : N := len (w_file w) + len (w_buf w).
(** AppendRecords (SyncOnWrite = false): into the bufio.Writer *)
Definition wal_append (w : bwal) (r : rec) : bwal := {| w_file := w_file w; w_buf := w_buf w ++ [r] |}.
(** Sync: writer.Flush + file.Sync *)
Definition wal_sync (w : bwal) : bwal := {| w_file := w_file w ++ w_buf w; w_buf := [] |}.
(** what a killed process leaves in the directory *)
Definition wal_crash (k : nat) (w : bwal) : list rec := w_file w ++ firstn k (w_buf w).
(** wal.Open on a directory: resumes at the end, empty writer *)
Definition wal_open (img : list rec) : bwal := {| w_file := img; w_buf := [] |}.

(** appendDurable (sync = true) / plain AppendRecords (sync = false) *)
Definition wal_put (sync : bool) (w : bwal) (r : rec) : bwal :=
  let w1 := wal_append w r in if sync then wal_sync w1 else w1.

(** ** WALStorage *)
Record ptr := { p_pos : N; p_trunc : N }.
Definition ptr_none : ptr := {| p_pos := 0; p_trunc := 0 |}.

Record state := {
  st_wal : bwal;        (* the shared wal.Manager *)
  st_mem : mem;         (* ws.mem *)
  st_ptr : ptr;         (* ws.pointer = manifest.RaftPointer(group) *)
  st_dead : bool        (* OpenWALStorage failed: no storage object exists *)
}.
Definition init : state :=
  {| st_wal := wal_open []; st_mem := mem_init; st_ptr := ptr_none; st_dead := false |}.

Definition with_wal (s : state) (w : bwal) : state :=
  {| st_wal := w; st_mem := st_mem s; st_ptr := st_ptr s; st_dead := st_dead s |}.
Definition with_mem_ptr (s : state) (w : bwal) (m : mem) (p : ptr) : state :=
  {| st_wal := w; st_mem := m; st_ptr := p; st_dead := st_dead s |}.

(** updatePointer: [ptr.Segment == 0] (no record yet) leaves the pointer alone *)
Definition update_ptr (old new : ptr) : ptr := if p_pos new =? 0 then old else new.

(** SetHardState *)
Definition ws_set_hs (sync : bool) (s : state) (h : hardstate) : state * res unit :=
  if hs_is_empty h then
    (with_mem_ptr s (st_wal s) (mem_set_hs (st_mem s) h) (st_ptr s), Ok tt)
  else
    let w := wal_put sync (st_wal s) (RState own_gid h) in
    (with_mem_ptr s w (mem_set_hs (st_mem s) h)
       (update_ptr (st_ptr s) {| p_pos := wal_count w; p_trunc := p_trunc (st_ptr s) |}), Ok tt).

(** Append: the record is written before MemoryStorage looks at the entries *)
Definition ws_append (sync : bool) (s : state) (first : N) (es : list entry) : state * res unit :=
  match es with
  | [] => (s, Ok tt)
  | _ =>
      let w := wal_put sync (st_wal s) (REntries own_gid first es) in
      match mem_append (st_mem s) first es with
      | Err e => (with_wal s w, Err e)
      | Ok m =>
          (with_mem_ptr s w m
             (update_ptr (st_ptr s) {| p_pos := wal_count w; p_trunc := p_trunc (st_ptr s) |}), Ok tt)
      end
  end.

(** ApplySnapshot (IsEmptySnap = metadata index 0) *)
Definition ws_apply_snap (sync : bool) (s : state) (si st : N) : state * res unit :=
  if si =? 0 then (s, Ok tt) else
  let w := wal_put sync (st_wal s) (RSnap own_gid si st) in
  match mem_apply_snap (st_mem s) si st with
  | Err e => (with_wal s w, Err e)
  | Ok m => (with_mem_ptr s w m (update_ptr (st_ptr s) {| p_pos := wal_count w; p_trunc := si |}), Ok tt)
  end.

(** MaybeCompact(idx+1, 1) = compactTo idx: nothing is written to the WAL *)
Definition ws_compact (s : state) (idx : N) : state * res unit :=
  if idx =? 0 then (s, Ok tt)
  else if idx <=? p_trunc (st_ptr s) then (s, Ok tt)
  else
    match mem_term (st_mem s) idx with
    | Err ECompacted | Ok _ =>
        let m := match mem_compact (st_mem s) idx with Ok m => m | Err _ => st_mem s end in
        (with_mem_ptr s (st_wal s) m
           (update_ptr (st_ptr s) {| p_pos := p_pos (st_ptr s); p_trunc := idx |}), Ok tt)
    | Err e => (s, Err e)
    end.

(** ** OpenWALStorage *)
Definition validate_ptr (img : list rec) (p : ptr) : res unit :=
  if p_pos p =? 0 then Ok tt else
  match nth_error img (N.to_nat (p_pos p - 1)) with
  | None => Err EPtrNotFound
  | Some r => if is_raft r then Ok tt else Err EPtrNonRaft
  end.

(** one record of the replay callback; [pos] is the ordinal of the record *)
Definition replay1 (mp : mem * ptr) (pos : N) (r : rec) : res (mem * ptr) :=
  let (m, rp) := mp in
  match r with
  | RLsm => Ok mp
  | REntries g first es =>
      if negb (g =? own_gid) then Ok mp else
      match es with
      | [] => Ok mp
      | _ => match mem_append m first es with
             | Ok m' => Ok (m', {| p_pos := pos; p_trunc := p_trunc rp |})
             | Err e => Err e
             end
      end
  | RState g h =>
      if negb (g =? own_gid) then Ok mp
      else Ok (mem_set_hs m h, {| p_pos := pos; p_trunc := p_trunc rp |})
  | RSnap g si st =>
      if negb (g =? own_gid) || (si =? 0) then Ok mp else
      match mem_apply_snap m si st with
      | Ok m' => Ok (m', {| p_pos := pos; p_trunc := si |})
      | Err e => Err e
      end
  end.

Fixpoint replay (mp : mem * ptr) (pos : N) (img : list rec) : res (mem * ptr) :=
  match img with
  | [] => Ok mp
  | r :: img' =>
      match replay1 mp (pos + 1) r with
      | Ok mp' => replay mp' (pos + 1) img'
      | Err e => Err e
      end
  end.

(** isPointerAhead *)
Definition ptr_ahead (new old : ptr) : bool := p_pos old <? p_pos new.

Definition open_ws (img : list rec) (p : ptr) : res (mem * ptr) :=
  match validate_ptr img p with
  | Err e => Err e
  | Ok _ =>
      match replay (mem_init, ptr_none) 0 img with
      | Err e => Err e
      | Ok (m, rp) => Ok (m, if ptr_ahead rp p then rp else p)
      end
  end.

(** ** observables: InitialState, Snapshot metadata, FirstIndex, LastIndex,
    Entries(first, last+1) tagged with their indices *)
Fixpoint tag (i : N) (es : list entry) : list (N * entry) :=
  match es with
  | [] => []
  | e :: es' => (i, e) :: tag (i + 1) es'
  end.

Record obs := {
  o_hs : hardstate; o_snapi : N; o_snapt : N; o_first : N; o_last : N;
  o_ents : list (N * entry)
}.
Definition observe (m : mem) : obs :=
  {| o_hs := m_hs m; o_snapi := m_snapi m; o_snapt := m_snapt m;
     o_first := m_first m; o_last := m_last m; o_ents := tag (m_first m) (m_ents m) |}.

(** ** histories *)
(** records written by someone else through the same manager: the DB's own
    commit path (never synced by the writer) or another raft group's storage *)
Inductive foreign :=
| FLsm
| FState (h : hardstate)
| FEntries (first : N) (es : list entry)
| FSnap (si st : N).
Definition other_gid : N := 2.
Definition frec_of (f : foreign) : rec :=
  match f with
  | FLsm => RLsm
  | FState h => RState other_gid h
  | FEntries first es => REntries other_gid first es
  | FSnap si st => RSnap other_gid si st
  end.
(** the other group's WALStorage runs the same code; the LSM never syncs *)
Definition foreign_sync (sync : bool) (f : foreign) : bool :=
  match f with FLsm => false | _ => sync end.

Inductive op :=
| OHs (h : hardstate)
| OAppend (first : N) (es : list entry)
| OSnap (si st : N)
| OCompact (idx : N)
| OForeign (f : foreign)
| OCrash (k : nat).      (* the process is killed; the directory is reopened *)

Definition crash_reopen (s : state) (k : nat) : state * res unit :=
  let img := wal_crash k (st_wal s) in
  match open_ws img (st_ptr s) with
  | Ok (m, p) => ({| st_wal := wal_open img; st_mem := m; st_ptr := p; st_dead := false |}, Ok tt)
  | Err e => ({| st_wal := wal_open img; st_mem := st_mem s; st_ptr := st_ptr s; st_dead := true |}, Err e)
  end.

Definition step (sync : bool) (s : state) (o : op) : state * res unit :=
  if st_dead s then (s, Ok tt) else
  match o with
  | OHs h => ws_set_hs sync s h
  | OAppend first es => ws_append sync s first es
  | OSnap si st => ws_apply_snap sync s si st
  | OCompact idx => ws_compact s idx
  | OForeign f => (with_wal s (wal_put (foreign_sync sync f) (st_wal s) (frec_of f)), Ok tt)
  | OCrash k => crash_reopen s k
  end.

Fixpoint run (sync : bool) (s : state) (ops : list op) : state :=
  match ops with
  | [] => s
  | o :: ops' => run sync (fst (step sync s o)) ops'
  end.

(** what a fresh process would see if this one were killed now *)
Definition probe (s : state) (k : nat) : res obs :=
  match open_ws (wal_crash k (st_wal s)) (st_ptr s) with
  | Ok (m, _) => Ok (observe m)
  | Err e => Err e
  end.

(** ** peer.go: handleReady persists, processReady sends afterwards *)
Record ready := {
  rd_hs : hardstate;                 (* empty = absent *)
  rd_snap : N * N;                   (* index 0 = absent *)
  rd_first : N; rd_ents : list entry;
  rd_msgs : list N                   (* opaque message tokens *)
}.
Definition ready_ops (rd : ready) : list op :=
  (if hs_is_empty (rd_hs rd) then [] else [OHs (rd_hs rd)]) ++
  (if fst (rd_snap rd) =? 0 then [] else [OSnap (fst (rd_snap rd)) (snd (rd_snap rd))]) ++
  (match rd_ents rd with [] => [] | _ => [OAppend (rd_first rd) (rd_ents rd)] end).

Inductive event := EvSend (msgs : list N).

(** handleReady: the persist calls in order; the first error returns *)
Fixpoint persist (sync : bool) (s : state) (ops : list op) : state * bool :=
  match ops with
  | [] => (s, true)
  | o :: ops' =>
      match step sync s o with
      | (s', Ok _) => persist sync s' ops'
      | (s', Err _) => (s', false)
      end
  end.

(** processReady for one Ready: handleReady (an error returns before anything
    is sent), Advance, then sendMessages *)
Definition process_ready (sync : bool) (s : state) (rd : ready) : state * list event :=
  let (s', ok) := persist sync s (ready_ops rd) in
  (s', if ok then [EvSend (rd_msgs rd)] else []).

Fixpoint process_readies (sync : bool) (s : state) (rds : list ready) : state * list event :=
  match rds with
  | [] => (s, [])
  | rd :: rds' =>
      let (s1, ev1) := process_ready sync s rd in
      let (s2, ev2) := process_readies sync s1 rds' in
      (s2, ev1 ++ ev2)
  end.

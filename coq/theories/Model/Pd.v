(** Model of the PD region catalog: pd/core/cluster.go
    ([UpsertRegionHeartbeat], [isEpochStale], [findOverlapLocked],
    [rangesOverlap], [RemoveRegion], [rebuildRegionIndexLocked],
    [GetRegionByKey]), the persistence done by pd/server/service.go through
    pd/storage/local.go (manifest region edits = put / delete in a map keyed
    by id) and the reload of cmd/nokv/pd.go:[restorePDRegions].
    No proofs here. *)
From Coq Require Import List NArith Bool.
From NoKV Require Import Base.Bytes.
Import ListNotations.
Local Open Scope N_scope.

(** The part of [manifest.RegionMeta] PD looks at (peers are carried along
    unchanged and not modelled). Empty [g_end] = unbounded. *)
Record region := { g_id : N; g_start : bytes; g_end : bytes; g_ver : N; g_conf : N }.

(** [map[uint64]RegionMeta] as an association list with at most one entry per
    id (kept so by [put]); iteration order of the Go map is never observable. *)
Definition catalog := list region.

Fixpoint find (id : N) (c : catalog) : option region :=
  match c with
  | [] => None
  | r :: c' => if g_id r =? id then Some r else find id c'
  end.

Definition remove_id (id : N) (c : catalog) : catalog :=
  filter (fun r => negb (g_id r =? id)) c.

Definition put (r : region) (c : catalog) : catalog := r :: remove_id (g_id r) c.

Inductive err := ErrInvalidID | ErrInvalidRange | ErrStale | ErrOverlap.

(** [isEpochStale incoming current] *)
Definition epoch_stale (inc cur : region) : bool :=
  (g_ver inc <? g_ver cur) || ((g_ver inc =? g_ver cur) && (g_conf inc <? g_conf cur)).

(** [rangesOverlap] *)
Definition ranges_overlap (a b : region) : bool :=
  if negb (bytes_eqb (g_end a) []) && bytes_leb (g_end a) (g_start b) then false
  else if negb (bytes_eqb (g_end b) []) && bytes_leb (g_end b) (g_start a) then false
  else true.

(** [findOverlapLocked]: is there another id whose range overlaps? *)
Definition find_overlap (c : catalog) (m : region) : bool :=
  existsb (fun r => negb (g_id r =? g_id m) && ranges_overlap m r) c.

(** The range check added by the repair (fixes/C26-pd-invalid-range.md). *)
Definition range_invalid (m : region) : bool :=
  negb (bytes_eqb (g_end m) []) && negb (bytes_ltb (g_start m) (g_end m)).

(** [UpsertRegionHeartbeat] *)
Definition upsert (c : catalog) (m : region) : catalog + err :=
  if g_id m =? 0 then inr ErrInvalidID
  else if range_invalid m then inr ErrInvalidRange
  else match find (g_id m) c with
       | Some cur => if epoch_stale m cur then inr ErrStale
                     else if find_overlap c m then inr ErrOverlap else inl (put m c)
       | None => if find_overlap c m then inr ErrOverlap else inl (put m c)
       end.

(** The function before the repair (no range check). *)
Definition upsert_nocheck (c : catalog) (m : region) : catalog + err :=
  if g_id m =? 0 then inr ErrInvalidID
  else match find (g_id m) c with
       | Some cur => if epoch_stale m cur then inr ErrStale
                     else if find_overlap c m then inr ErrOverlap else inl (put m c)
       | None => if find_overlap c m then inr ErrOverlap else inl (put m c)
       end.

(** [RemoveRegion] *)
Definition remove (c : catalog) (id : N) : catalog * bool :=
  if id =? 0 then (c, false)
  else (remove_id id c, match find id c with Some _ => true | None => false end).

(** Insertion sort by a strict order given as a boolean (the result of
    [sort.Slice] / [slices.Sort] is determined by the order because ids are
    unique). *)
Section Sort.
  Context (ltb : region -> region -> bool).
  Fixpoint insert_by (e : region) (l : list region) : list region :=
    match l with
    | [] => [e]
    | x :: l' => if ltb e x then e :: x :: l' else x :: insert_by e l'
    end.
  Definition sort_by (l : list region) : list region := fold_right insert_by [] l.
End Sort.

(** [rebuildRegionIndexLocked]: by start key, then id. *)
Definition entry_ltb (a b : region) : bool :=
  match bytes_cmp (g_start a) (g_start b) with
  | Lt => true
  | Gt => false
  | Eq => g_id a <? g_id b
  end.

Definition index (c : catalog) : list region := sort_by entry_ltb c.

(** [sort.Search(len(index), func(i) bool { return index[i].start > key })]
    followed by [index[idx-1]]: on a list sorted by start the predicate is
    monotone, so the binary search returns the first position whose start is
    above the key; [pick] walks to that position remembering the previous
    entry ([None] = [idx == 0]). *)
Fixpoint pick (idx : list region) (k : bytes) (prev : option region) : option region :=
  match idx with
  | [] => prev
  | e :: idx' => if bytes_ltb k (g_start e) then prev else pick idx' k (Some e)
  end.

(** [GetRegionByKey] *)
Definition route_in (c : catalog) (idx : list region) (k : bytes) : option region :=
  match pick idx k None with
  | None => None
  | Some e =>
      if bytes_ltb k (g_start e) then None
      else if negb (bytes_eqb (g_end e) []) && negb (bytes_ltb k (g_end e)) then None
      else find (g_id e) c
  end.

Definition route (c : catalog) (k : bytes) : option region := route_in c (index c) k.

(** ** Service level: operations, persistence, reload *)

Inductive op := Heartbeat (m : region) | Remove (id : N).

(** In-memory catalog and the manifest's region map. [RegionHeartbeat]
    persists after a successful upsert; [RemoveRegion] persists the delete
    when the region existed. *)
Record pd := { mem : catalog; disk : catalog }.

Definition pd_init : pd := {| mem := []; disk := [] |}.

Definition step (s : pd) (o : op) : pd :=
  match o with
  | Heartbeat m =>
      match upsert (mem s) m with
      | inl c' => {| mem := c'; disk := put m (disk s) |}
      | inr _ => s
      end
  | Remove id =>
      let '(c', existed) := remove (mem s) id in
      if existed then {| mem := c'; disk := remove_id id (disk s) |}
      else {| mem := c'; disk := disk s |}
  end.

Definition run (s : pd) (ops : list op) : pd := fold_left step ops s.

(** [restorePDRegions]: ascending id order, skipping id 0, each region
    re-validated by [UpsertRegionHeartbeat]; the first error aborts. *)
Fixpoint restore_into (acc : catalog) (l : list region) : option catalog :=
  match l with
  | [] => Some acc
  | r :: l' =>
      if g_id r =? 0 then restore_into acc l'
      else match upsert acc r with
           | inl acc' => restore_into acc' l'
           | inr _ => None
           end
  end.

Definition by_id (a b : region) : bool := g_id a <? g_id b.

Definition restore (d : catalog) : option catalog := restore_into [] (sort_by by_id d).

(** Model of the LSM read path and of maintenance (lsm/lsm.go Get/Rotate,
    lsm/levels.go Get/searchL0SST/searchLNSST/getTableForKey/flush/replaceTables,
    lsm/ingest.go search/addBatch/sortShards, lsm/executor.go moveToIngest/
    runCompactDef/compactBuildTables/subcompact, lsm/iterator.go MergeIterator,
    lsm/table.go Search, lsm/memtable.go recovery).  Definitions only.

    A record carries a ghost sequence number [r_seq] (its acknowledgement
    index); the code has no such field, it never influences the model's
    behaviour and exists so that "most recent write" can be stated. *)
From Coq Require Import List NArith Bool.
From NoKV Require Import Base.Bytes.
Import ListNotations.
Local Open Scope N_scope.

(** [r_key] is the internal key without its 8-byte version suffix (column
    family marker + user key). *)
Record rec := { r_key : bytes; r_ver : N; r_val : bytes; r_meta : N; r_exp : N; r_seq : N }.

(** utils.CompareKeys on internal keys: base key ascending, version descending. *)
Definition kcmp (k1 : bytes) (v1 : N) (k2 : bytes) (v2 : N) : comparison :=
  match bytes_cmp k1 k2 with
  | Eq => N.compare v2 v1
  | c => c
  end.
Definition rcmp (a b : rec) : comparison := kcmp (r_key a) (r_ver a) (r_key b) (r_ver b).

(** * Sources: memtables and tables are lists of records sorted by [rcmp]. *)

(** memIndex.Add: insert, overwriting an equal internal key. *)
Fixpoint mem_insert (r : rec) (l : list rec) : list rec :=
  match l with
  | [] => [r]
  | x :: l' =>
      match rcmp r x with
      | Lt => r :: l
      | Eq => r :: l'
      | Gt => x :: mem_insert r l'
      end
  end.

(** Seek to (k, v) then require the same base key: the first record >= (k,v)
    in [rcmp] order, if its base key is [k] (skiplist Search / table.Search's
    seek + SameKey). *)
Fixpoint seek (k : bytes) (v : N) (l : list rec) : option rec :=
  match l with
  | [] => None
  | x :: l' =>
      match kcmp (r_key x) (r_ver x) k v with
      | Lt => seek k v l'
      | _ => Some x
      end
  end.

Definition src_search (k : bytes) (v : N) (l : list rec) : option rec :=
  match seek k v l with
  | Some x => if bytes_eqb (r_key x) k then Some x else None
  | None => None
  end.

Record table := { t_fid : N; t_recs : list rec }.

Definition t_min (t : table) : bytes := match t_recs t with r :: _ => r_key r | [] => [] end.
Definition t_max (t : table) : bytes := r_key (last (t_recs t) {| r_key := []; r_ver := 0; r_val := []; r_meta := 0; r_exp := 0; r_seq := 0 |}).
Definition t_minver (t : table) : N := match t_recs t with r :: _ => r_ver r | [] => 0 end.
Definition t_maxver (t : table) : N := fold_left (fun m r => N.max m (r_ver r)) (t_recs t) 0.

(** table.Search after the caller's range test: hit only if strictly newer
    than the running maximum. *)
Definition table_search (t : table) (k : bytes) (v : N) (best : option rec) : option rec :=
  let cur := match best with Some b => r_ver b | None => 0 end in
  match src_search k v (t_recs t) with
  | Some x => if cur <? r_ver x then Some x else best
  | None => best
  end.

Definition in_range (t : table) (k : bytes) : bool :=
  bytes_leb (t_min t) k && bytes_leb k (t_max t).

(** One step of the scans in searchL0SST (newest table first since the fix of
    the equal-version tie) / ingestBuffer.search. *)
Definition scan_step (k : bytes) (v : N) (best : option rec) (t : table) : option rec :=
  let cur := match best with Some b => r_ver b | None => 0 end in
  if negb (in_range t k) then best
  else if t_maxver t <=? cur then best
  else table_search t k v best.

Definition scan_tables (k : bytes) (v : N) (ts : list table) (best : option rec) : option rec :=
  fold_left (scan_step k v) ts best.

(** levelHandler.getTableForKey: first table whose max key >= k, if k >= its min. *)
Fixpoint table_for_key (k : bytes) (ts : list table) : option table :=
  match ts with
  | [] => None
  | t :: ts' =>
      if bytes_leb k (t_max t) then (if bytes_leb (t_min t) k then Some t else None)
      else table_for_key k ts'
  end.

Definition main_search (k : bytes) (v : N) (ts : list table) (best : option rec) : option rec :=
  match ts with
  | [] => best
  | t0 :: _ =>
      if bytes_ltb k (t_min t0) then best
      else match table_for_key k ts with
           | None => best
           | Some t =>
               let cur := match best with Some b => r_ver b | None => 0 end in
               if t_maxver t <=? cur then best else table_search t k v best
           end
  end.

(** An ingest shard is kept in [ranges] order (ascending min key); the search
    walks it downwards from the last table whose min key is <= k. *)
Record level := { lv_shards : list (list table); lv_main : list table }.

Definition shard_search (k : bytes) (v : N) (best : option rec) (sh : list table) : option rec :=
  scan_tables k v (rev (filter (fun t => bytes_leb (t_min t) k) sh)) best.

(** levelHandler.getNewerThan: ingest buffer then main tables, continuing from
    the best hit of the sources scanned before this level. *)
Definition level_get (k : bytes) (v : N) (best : option rec) (lv : level) : option rec :=
  let best := fold_left (shard_search k v) (lv_shards lv) best in
  main_search k v (lv_main lv) best.

Record state := {
  st_mem : list rec; st_memid : N;
  st_imms : list (N * list rec);        (* sealed memtables, oldest first *)
  st_l0 : list table;                   (* levelHandler.tables order *)
  st_lvls : list level;                 (* L1 .. *)
  st_maxfid : N }.

(** LSM.Get's isMemHit (Value != nil || Meta != 0 || ExpiresAt != 0): a record
    found in a memtable always decodes to a non-nil value slice (possibly of
    length 0), so every found record is a hit; only "not found" is a miss. *)
Definition mem_hit (r : rec) : bool := true.

Fixpoint first_some {A} (l : list (option A)) : option A :=
  match l with
  | [] => None
  | Some x :: _ => Some x
  | None :: l' => first_some l'
  end.

Definition mem_get (k : bytes) (v : N) (l : list rec) : option rec :=
  match src_search k v l with
  | Some r => if mem_hit r then Some r else None
  | None => None
  end.

(** LSM.Get / levelManager.getNewerThan (after the repair of the first-hit
    rule): one running best over the memtables (newest first), L0 (newest
    table first) and every level; a later source replaces it only with a
    strictly greater version (the first scanned copy wins ties); the scan stops
    early only when the best has exactly the requested version. *)
Definition exact (v : N) (best : option rec) : bool :=
  match best with Some b => r_ver b =? v | None => false end.

Definition mem_step (k : bytes) (v : N) (best : option rec) (l : list rec) : option rec :=
  if exact v best then best
  else match mem_get k v l with
       | Some x => match best with
                   | None => Some x
                   | Some b => if r_ver b <? r_ver x then Some x else best
                   end
       | None => best
       end.

Definition level_step (k : bytes) (v : N) (best : option rec) (lv : level) : option rec :=
  if exact v best then best else level_get k v best lv.

Definition get (s : state) (k : bytes) (v : N) : option rec :=
  let b1 := fold_left (mem_step k v) (st_mem s :: map snd (rev (st_imms s))) None in
  let b2 := if exact v b1 then b1 else scan_tables k v (rev (st_l0 s)) b1 in
  fold_left (level_step k v) (st_lvls s) b2.

(** * Maintenance *)

(** Two-way merge keeping the left record on equal internal keys
    (MergeIterator.fix). Fuel = total length. *)
Fixpoint merge2_fuel (fuel : nat) (a b : list rec) : list rec :=
  match fuel with
  | O => a ++ b
  | S f =>
      match a, b with
      | [], _ => b
      | _, [] => a
      | x :: a', y :: b' =>
          match rcmp x y with
          | Lt => x :: merge2_fuel f a' b
          | Eq => x :: merge2_fuel f a' b'
          | Gt => y :: merge2_fuel f a b'
          end
      end
  end.
Definition merge2 (a b : list rec) : list rec := merge2_fuel (length a + length b) a b.

(** NewMergeIterator over [iters]: earlier iterators win ties. *)
Definition merge_all (srcs : list (list rec)) : list rec := fold_right merge2 [] srcs.

(** compactBuildTables: iteratorsReversed(top) followed by the concatenation of bot. *)
Definition compact_stream (top bot : list table) : list rec :=
  merge_all (map t_recs (rev top) ++ [concat (map t_recs bot)]).

(** The harness reports how many records each new table received (tables
    are cut at base-key boundaries by size); the model cuts by those counts. *)
Fixpoint cut (l : list rec) (plan : list (N * N)) : list table :=
  match plan with
  | [] => []
  | (fid, n) :: plan' =>
      {| t_fid := fid; t_recs := firstn (N.to_nat n) l |} :: cut (skipn (N.to_nat n) l) plan'
  end.

Definition fid_in (ids : list N) (t : table) : bool := existsb (N.eqb (t_fid t)) ids.
Definition pick (ids : list N) (ts : list table) : list table := filter (fid_in ids) ts.
Definition drop (ids : list N) (ts : list table) : list table := filter (fun t => negb (fid_in ids t)) ts.

(** insertion sort (stable) *)
Section Sort.
  Context {A : Type} (leb : A -> A -> bool).
  Fixpoint ins (x : A) (l : list A) : list A :=
    match l with
    | [] => [x]
    | y :: l' => if leb x y then x :: l else y :: ins x l'
    end.
  Definition isort (l : list A) : list A := fold_left (fun acc x => ins x acc) (rev l) [].
End Sort.

Definition fid_leb (a b : table) : bool := t_fid a <=? t_fid b.
(** CompareKeys(MinKey a, MinKey b) <= 0 *)
Definition min_leb (a b : table) : bool :=
  match kcmp (t_min a) (t_minver a) (t_min b) (t_minver b) with Gt => false | _ => true end.

(** shardIndexForRange: top two bits of the first byte of the min key. *)
Definition shard_of (t : table) : nat :=
  match t_min t with [] => 0%nat | b :: _ => N.to_nat (b2n b / 64) end.

Fixpoint update_nth {A} (n : nat) (f : A -> A) (l : list A) : list A :=
  match l, n with
  | [], _ => []
  | x :: l', O => f x :: l'
  | x :: l', S n' => x :: update_nth n' f l'
  end.

Definition four_shards (sh : list (list table)) : list (list table) :=
  match sh with [] => [[]; []; []; []] | _ => sh end.

(** ingestBuffer.addBatch + sortShards *)
Definition shards_add (ts : list table) (sh : list (list table)) : list (list table) :=
  map (isort min_leb)
      (fold_left (fun acc t => update_nth (shard_of t) (fun l => l ++ [t]) acc) ts (four_shards sh)).
Definition shards_drop (ids : list N) (sh : list (list table)) : list (list table) := map (drop ids) sh.
Definition shards_all (sh : list (list table)) : list table := concat sh.

Definition get_level (s : state) (l : N) : level :=
  nth (N.to_nat (l - 1)) (st_lvls s) {| lv_shards := []; lv_main := [] |}.
Definition set_level (s : state) (l : N) (lv : level) : state :=
  {| st_mem := st_mem s; st_memid := st_memid s; st_imms := st_imms s; st_l0 := st_l0 s;
     st_lvls := update_nth (N.to_nat (l - 1)) (fun _ => lv) (st_lvls s); st_maxfid := st_maxfid s |}.
Definition set_l0 (s : state) (ts : list table) : state :=
  {| st_mem := st_mem s; st_memid := st_memid s; st_imms := st_imms s; st_l0 := ts;
     st_lvls := st_lvls s; st_maxfid := st_maxfid s |}.
Definition bump_fid (s : state) (ids : list N) : state :=
  {| st_mem := st_mem s; st_memid := st_memid s; st_imms := st_imms s; st_l0 := st_l0 s;
     st_lvls := st_lvls s; st_maxfid := fold_left N.max ids (st_maxfid s) |}.

Inductive kind := KMove | KL0L0 | KDrain | KKeep | KRegular.

Inductive op :=
| OPut (r : rec)
| ORotate
| OFlush                                   (* the flush worker installs the oldest sealed memtable *)
| OCompact (k : kind) (lvl : N)            (* this level; for KMove the destination level *)
           (top bot : list N) (added : list (N * N))
| OReopen.

Definition put (s : state) (r : rec) : state :=
  {| st_mem := mem_insert r (st_mem s); st_memid := st_memid s; st_imms := st_imms s; st_l0 := st_l0 s;
     st_lvls := st_lvls s; st_maxfid := st_maxfid s |}.

Definition rotate (s : state) : state :=
  {| st_mem := []; st_memid := st_maxfid s + 1; st_imms := st_imms s ++ [(st_memid s, st_mem s)];
     st_l0 := st_l0 s; st_lvls := st_lvls s; st_maxfid := st_maxfid s + 1 |}.

(** levelManager.flush: the table takes the WAL segment id; [add] appends. An
    empty memtable produces no table. *)
Definition flush (s : state) : state :=
  match st_imms s with
  | [] => s
  | (id, recs) :: rest =>
      {| st_mem := st_mem s; st_memid := st_memid s; st_imms := rest;
         st_l0 := match recs with [] => st_l0 s | _ => st_l0 s ++ [{| t_fid := id; t_recs := recs |}] end;
         st_lvls := st_lvls s; st_maxfid := st_maxfid s |}
  end.

Definition compact (s : state) (k : kind) (lvl : N) (top bot : list N) (added : list (N * N)) : state :=
  let s := bump_fid s (map fst added) in
  match k with
  | KMove =>
      let moved := pick top (st_l0 s) in
      let lv := get_level s lvl in
      set_level (set_l0 s (drop top (st_l0 s))) lvl
                {| lv_shards := shards_add moved (lv_shards lv); lv_main := lv_main lv |}
  | KL0L0 =>
      let tops := pick top (st_l0 s) in
      let new := cut (compact_stream tops []) added in
      set_l0 s (drop top (isort fid_leb (st_l0 s ++ new)))
  | KDrain =>
      let lv := get_level s lvl in
      let tops := pick top (shards_all (lv_shards lv)) in
      let bots := pick bot (lv_main lv) in
      let new := cut (compact_stream tops bots) added in
      set_level s lvl {| lv_shards := shards_drop top (lv_shards lv);
                         lv_main := isort min_leb (drop bot (lv_main lv) ++ new) |}
  | KKeep =>
      let lv := get_level s lvl in
      let tops := pick top (shards_all (lv_shards lv)) in
      let bots := pick bot (lv_main lv) in
      let new := cut (compact_stream tops bots) added in
      set_level s lvl {| lv_shards := shards_add new (shards_drop top (lv_shards lv));
                         lv_main := isort min_leb (lv_main lv) |}
  | KRegular =>
      let lv := get_level s lvl in
      let nx := get_level s (lvl + 1) in
      let tops := pick top (lv_main lv) in
      let bots := pick bot (lv_main nx) in
      let new := cut (compact_stream tops bots) added in
      let s1 := set_level s (lvl + 1) {| lv_shards := lv_shards nx;
                                         lv_main := isort min_leb (drop bot (lv_main nx) ++ new) |} in
      set_level s1 lvl {| lv_shards := shards_drop top (lv_shards lv); lv_main := drop top (lv_main lv) |}
  end.

(** Close + Open: every WAL segment above the checkpoint becomes a memtable
    again, empty or not (memTable.Size is the arena size, never 0), the last
    one active; levels are re-sorted (L0 by file id). *)
Definition reopen (s : state) : state :=
  let resort := map (fun lv => {| lv_shards := map (isort min_leb) (lv_shards lv);
                                  lv_main := isort min_leb (lv_main lv) |}) (st_lvls s) in
  {| st_mem := st_mem s; st_memid := st_memid s; st_imms := st_imms s;
     st_l0 := isort fid_leb (st_l0 s); st_lvls := resort; st_maxfid := st_maxfid s |}.

(** LSM.MaxVersion as Open uses it to seed the transaction oracle: the
    memtables rebuilt from the WAL and the tables of every level (main tables
    and ingest buffers). *)
Definition recs_maxver (l : list rec) : N := fold_left (fun m r => N.max m (r_ver r)) l 0.
Definition max_version (s : state) : N :=
  fold_left N.max
    (recs_maxver (st_mem s) :: map (fun m => recs_maxver (snd m)) (st_imms s)
     ++ map t_maxver (st_l0 s)
     ++ concat (map (fun lv => map t_maxver (lv_main lv) ++ map t_maxver (concat (lv_shards lv))) (st_lvls s))) 0.
(** oracle.initCommitState: the next commit timestamp after Open. *)
Definition next_ts_after_open (s : state) : N :=
  let m := max_version s in if m =? 0 then 1 else (m + 1) mod 18446744073709551616.

Definition apply (s : state) (o : op) : state :=
  match o with
  | OPut r => put s r
  | ORotate => rotate s
  | OFlush => flush s
  | OCompact k lvl top bot added => compact s k lvl top bot added
  | OReopen => reopen s
  end.

Definition empty_level : level := {| lv_shards := [[]; []; []; []]; lv_main := [] |}.
Definition init (memid : N) : state :=
  {| st_mem := []; st_memid := memid; st_imms := []; st_l0 := [];
     st_lvls := [empty_level; empty_level; empty_level; empty_level; empty_level; empty_level];
     st_maxfid := memid |}.

Definition run (s : state) (ops : list op) : state := fold_left apply ops s.

(** Model of [raftstore/client/client.go]: [TwoPhaseCommit], the retry loops of
    [prewriteRegion] / [commitRegion], and the resolver a later reader runs
    ([CheckTxnStatus] + [ResolveLocks]) (C28).  Definitions only.

    The client is a sequential program; what it sends next depends only on
    the outcome of the RPC attempts so far.  [tpc_plan] is the list of RPCs
    [TwoPhaseCommit] wants to perform, in order; [cstate] / [client_next] /
    [client_step] replay the retry / abort logic of the two region loops.
    Go's map iteration order over the non-primary regions is not modelled:
    the two orders actually taken ([ord1] for the prewrites, [ord2] for the
    commits) are inputs.  Leader changes are abstracted to "the RPC returns a
    region error and is retried" (at most [max_retries] attempts per RPC).
    Every region's requests are executed by [Model/KvApply.v]; since requests
    only name keys of their own region and the protocol state is per key, one
    store stands for all region stores. *)
From Coq Require Import List NArith Bool.
From NoKV Require Import Base.Bytes Model.Percolator Model.KvApply.
Import ListNotations.
Local Open Scope N_scope.

(** [fix_primary_first = false]: the code before the repair of F24 (the keys
    of the primary's region are committed in mutation order) *)
Record ccfg := { fix_primary_first : bool }.
Definition ccurrent : ccfg := {| fix_primary_first := true |}.
Definition clegacy : ccfg := {| fix_primary_first := false |}.

Definition region_of (regions : list (bytes * N)) (k : bytes) : N :=
  match find (fun '(k', _) => bytes_eqb k k') regions with
  | Some (_, r) => r
  | None => 0
  end.

(** [grouped[id]]: the mutations of one region, in mutation order *)
Definition muts_of_region (regions : list (bytes * N)) (ms : list mutation) (r : N) : list mutation :=
  filter (fun m => region_of regions (m_key m) =? r) ms.

(** [primaryFirst] *)
Definition primary_first (keys : list bytes) (primary : bytes) : list bytes :=
  fold_left (fun out k => if bytes_eqb k primary then k :: out else out ++ [k]) keys [].

Record txn := {
  t_regions : list (bytes * N);      (* region of every key *)
  t_muts : list mutation;
  t_primary : bytes;
  t_start : N; t_commit : N; t_ttl : N;
  t_ord1 : list N;                   (* non-primary regions in the order the prewrite loop visited them *)
  t_ord2 : list N }.                 (* ... and the commit loop *)

Definition t_keys (t : txn) : list bytes := map m_key (t_muts t).

(** the RPCs of [TwoPhaseCommit], in order: (region, request) *)
Definition tpc_plan (c : ccfg) (t : txn) : list (N * request) :=
  let pr := region_of (t_regions t) (t_primary t) in
  let pw r := (r, RPrewrite (muts_of_region (t_regions t) (t_muts t) r) (t_primary t) (t_start t) (t_ttl t) 0) in
  let keys r := map m_key (muts_of_region (t_regions t) (t_muts t) r) in
  let cm r ks := (r, RCommit ks (t_start t) (t_commit t)) in
  [pw pr] ++ map pw (t_ord1 t) ++
  [cm pr (if fix_primary_first c then primary_first (keys pr) (t_primary t) else keys pr)] ++
  map (fun r => cm r (keys r)) (t_ord2 t).

Definition max_retries : N := 5.

Inductive outcome := CDone | CFailed.
Record cstate := { c_plan : list (N * request); c_attempts : N; c_result : option outcome }.
Definition client_init (c : ccfg) (t : txn) : cstate :=
  match t_muts t with
  | [] => {| c_plan := []; c_attempts := 0; c_result := Some CDone |}
  | _ => {| c_plan := tpc_plan c t; c_attempts := 0; c_result := None |}
  end.

(** the RPC the client attempts next *)
Definition client_next (s : cstate) : option (N * request) :=
  match c_result s with
  | Some _ => None
  | None => match c_plan s with [] => None | x :: _ => Some x end
  end.

(** what came back from one attempt *)
Inductive attempt_result :=
| ARpcError                         (* transport error: the loop returns it *)
| ARegionError                      (* NotLeader without leader hint: retried *)
| AResponse (p : response).

Definition response_failed (p : response) : bool :=
  match p with
  | PPrewrite (_ :: _) => true
  | PCommit (Some _) => true
  | _ => false
  end.

Definition client_step (s : cstate) (r : attempt_result) : cstate :=
  let fail := {| c_plan := c_plan s; c_attempts := c_attempts s; c_result := Some CFailed |} in
  match r with
  | ARpcError => fail
  | ARegionError =>
      if c_attempts s + 1 <? max_retries
      then {| c_plan := c_plan s; c_attempts := c_attempts s + 1; c_result := None |}
      else fail                                        (* retries exhausted *)
  | AResponse p =>
      if response_failed p then fail
      else match tl (c_plan s) with
           | [] => {| c_plan := []; c_attempts := 0; c_result := Some CDone |}
           | rest => {| c_plan := rest; c_attempts := 0; c_result := None |}
           end
  end.

(** the resolver a reader runs on the transaction at [current_ts]:
    [Client.CheckTxnStatus] (caller ts = current ts, rollback-if-not-exist),
    then [ResolveLocks] with the primary's verdict; the keys are resolved
    region by region ([ks_by_region]: the order actually taken) *)
Definition resolver_check (t : txn) (current_ts : N) : request :=
  RCheck (t_primary t) (t_start t) current_ts current_ts true.

Definition resolver_verdict (p : response) : option N :=      (* Some 0 = roll back, Some c = commit at c *)
  match p with
  | PCheck cr =>
      match cr_error cr with
      | Some _ => None
      | None =>
          if 0 <? cr_commit cr then Some (cr_commit cr)
          else match cr_action cr with
               | ActTTLExpireRollback | ActLockNotExistRollback => Some 0
               | _ => None
               end
      end
  | _ => None
  end.

Definition resolver_resolves (t : txn) (verdict : N) (ks_by_region : list (list bytes)) : list request :=
  map (fun ks => RResolve ks (t_start t) verdict) ks_by_region.

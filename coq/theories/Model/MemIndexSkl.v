(** Model of utils/skiplist.go abstracted to its base level: the entries in
    utils.CompareKeys order.  Towers, the arena and CAS retry loops are not
    modelled (sequential semantics).  Definitions only.

    Add = insert or overwrite the equal key; Search = findNear(>=) then
    kv.SameKey; iterator Rewind/Seek/Next in both directions (the reverse
    Next is findNear(<) of the current key = the previous entry). *)
From Coq Require Import List NArith Bool.
From NoKV Require Import Base.Bytes Base.Num Model.Keys Model.Sst.
Import ListNotations.
Local Open Scope N_scope.

(** an element: internal key and value ([Model.Sst.entry]) *)
Definition skl := list entry.

(** Skiplist.Add *)
Fixpoint skl_add (e : entry) (l : skl) : skl :=
  match l with
  | [] => [e]
  | x :: l' =>
      match cmpk (e_key e) (e_key x) with
      | Lt => e :: l
      | Eq => e :: l'
      | Gt => x :: skl_add e l'
      end
  end.

Definition skl_of (ops : list entry) : skl := fold_left (fun l e => skl_add e l) ops [].

(** findNear(key, less=false, allowEqual=true): first entry >= key *)
Fixpoint skl_ge (l : skl) (q : bytes) : skl :=
  match l with
  | [] => []
  | x :: l' => if is_ge (cmpk (e_key x) q) then l else skl_ge l' q
  end.

(** entries <= key, nearest first: findNear(key, less=true, allowEqual=true) and then findNear(<) repeatedly *)
Fixpoint skl_le_acc (l : skl) (q : bytes) (acc : skl) : skl :=
  match l with
  | [] => acc
  | x :: l' => if is_le (cmpk (e_key x) q) then skl_le_acc l' q (x :: acc) else acc
  end.

(** Skiplist.Search *)
Definition skl_search (l : skl) (q : bytes) : option entry :=
  match skl_ge l q with
  | x :: _ => if same_key q (e_key x) then Some x else None
  | [] => None
  end.

(** iterator: Seek(q) then Next until invalid *)
Definition skl_seek (asc : bool) (l : skl) (q : bytes) : list entry :=
  if asc then skl_ge l q else skl_le_acc l q [].

(** iterator: Rewind then Next until invalid *)
Definition skl_iter (asc : bool) (l : skl) : list entry := if asc then l else rev l.

(** Correspondence for C33.  The harness runs [n] contenders
    (AcquireDirLock; hold; Release) under the controlled scheduler and reports
    after every grant: the thread picked, whether it ran, the yield point it
    reached (as a pc tag), the contenders that have the directory, and
    whether the LOCK file exists.  The model runs the same picks.

    mismatch: any of these differs from the model ([tstep true], the code as
    it is now).  violation: two contenders had the directory at once (oracle
    [exclusive_trace_b], independent of the model). *)
From Coq Require Export List NArith Bool.
From NoKV Require Export Base.Sched Model.SchedLib Model.DirLock Spec.DirLockSpec Corr.Common.
Export ListNotations.
Local Open Scope N_scope.

Record step := { s_t : nat; s_ran : bool; s_tag : N; s_holders : list nat; s_path : bool }.
Record case := { c_n : nat; c_faulty : list bool; c_steps : list step; c_db : list dbop }.

Definition pc_tag (p : pc) : N :=
  match p with
  | POpen => 0 | PFlock _ => 1 | PCheck _ => 2 | PRetry _ => 3 | PHold _ => 4
  | PRemove _ => 5 | PUnlock _ => 6 | PClose _ => 7
  | PDone ResReleased => 8 | PDone ResBusy => 9 | PDone ResFailed => 10
  end.

Fixpoint listnat_eqb (a b : list nat) : bool :=
  match a, b with
  | [], [] => true
  | x :: a', y :: b' => Nat.eqb x y && listnat_eqb a' b'
  | _, _ => false
  end.

Definition is_some {A} (o : option A) : bool := match o with Some _ => true | None => false end.

(** replay; true iff every step agrees *)
Fixpoint agree (faulty : nat -> bool) (g : gstate) (steps : list step) : bool :=
  match steps with
  | [] => true
  | s :: r =>
      let o := tstep true faulty g (s_t s) in
      let g' := match o with Some g' => g' | None => g end in
      Bool.eqb (is_some o) (s_ran s) &&
      match nth_error (g_pcs g') (s_t s) with
      | Some p => pc_tag p =? s_tag s
      | None => false
      end &&
      listnat_eqb (holders g') (s_holders s) &&
      Bool.eqb (is_some (g_path g')) (s_path s) &&
      agree faulty g' r
  end.

(** Database-level cases ([c_db]): the model of [DB.Close] is "every other file first, the
    directory lock last": the recorded operations must be operations on other files followed
    by operations on LOCK only. *)
Fixpoint db_shape (released : bool) (ops : list dbop) : bool :=
  match ops with
  | [] => true
  | (lock, _) :: r => (negb released || lock) && db_shape (released || lock) r
  end.

Definition check (c : case) : verdict :=
  mk_verdict (negb (agree (fun t => nth t (c_faulty c) false) (init (c_n c)) (c_steps c) && db_shape false (c_db c)))
             (negb (exclusive_trace_b (map s_holders (c_steps c)) && close_held_b false (c_db c)))
             0.

Definition S (t : N) (ran : bool) (tag : N) (hs : list N) (path : bool) : step :=
  {| s_t := N.to_nat t; s_ran := ran; s_tag := tag; s_holders := map N.to_nat hs; s_path := path |}.
Definition Cs (n : N) (steps : list step) : case := {| c_n := N.to_nat n; c_faulty := []; c_steps := steps; c_db := [] |}.
(** [Cf]: contenders listed [true] have their unlink of LOCK failed once and call Release a second time *)
Definition Cf (n : N) (faulty : list bool) (steps : list step) : case :=
  {| c_n := N.to_nat n; c_faulty := faulty; c_steps := steps; c_db := [] |}.
Definition D (lock intr : bool) : dbop := (lock, intr).
Definition CsDb (ops : list dbop) : case := {| c_n := 0; c_faulty := []; c_steps := []; c_db := ops |}.
